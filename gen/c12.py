"""C12: generators, renderers and Spec oracle for RPKI origin validation (RFC 6811)
and the VRP table as a set keyed by (cache, prefix, max-length, AS)."""
import itertools, json, os
from vp import val, coqrun, rustrun
from vp.val import cN, cbool, clist, cpair
from vp.util import VERIF

# which model entry point mirrors the code under /repo
MODEL_ENTRY = 'run_case'

WIDTH = {4: 32, 6: 128}
NBYTES = {4: 4, 6: 16}
SET, SEQ, CSEQ, CSET = 1, 2, 3, 4
ASNS = [0, 65000, 65001, 65002]
LOCALS = [65000, 65001]

# ------------------------------------------------------------------ helpers
def bits_of(addr):
    return ''.join(format(b, '08b') for b in addr)

def addr_of_bits(fam, bs):
    bs = bs.ljust(WIDTH[fam], '0')
    return tuple(int(bs[i:i + 8], 2) for i in range(0, WIDTH[fam], 8))

def mk_net(fam, bs, mask=None):
    """prefix from a bit string (host bits zero); mask defaults to len(bs)"""
    return (fam, addr_of_bits(fam, bs), len(bs) if mask is None else mask)

def canonical(net):
    fam, addr, mask = net
    return set(bits_of(addr)[mask:]) <= {'0'}

def covers(v, r):
    """RFC 6811: VRP prefix length <= route prefix length and the addresses agree on
    all bits specified by the VRP prefix length."""
    return v[0] == r[0] and v[2] <= r[2] and bits_of(v[1])[:v[2]] == bits_of(r[1])[:v[2]]

def aspath_bytes(segs):
    out = []
    for t, l in segs:
        out += [t, len(l)]
        for a in l:
            out += list(a.to_bytes(4, 'big'))
    return out

def parse_aspath(bs):
    """-> list of (type, [asn]) or None when the byte string is not a sequence of well-formed segments"""
    segs, i = [], 0
    while i < len(bs):
        if i + 2 > len(bs): return None
        t, n = bs[i], bs[i + 1]
        if t not in (SET, SEQ, CSEQ, CSET) or n == 0: return None
        if i + 2 + 4 * n > len(bs): return None
        segs.append((t, [int.from_bytes(bytes(bs[i + 2 + 4 * k:i + 6 + 4 * k]), 'big') for k in range(n)]))
        i += 2 + 4 * n
    return segs

def origin_rfc6811(local_asn, attrs):
    """RFC 6811 section 2: rightmost AS of a final AS_SEQUENCE; the speaker's own AS when the
    path is empty or ends in a confederation segment; NONE when it ends in an AS_SET.
    -> ('as', n) | ('none',) | ('malformed',)"""
    for code, bs in attrs:
        if code == 2:
            segs = parse_aspath(bs)
            if segs is None: return ('malformed',)
            if not segs: return ('as', local_asn)
            t, l = segs[-1]
            if t == SEQ: return ('as', l[-1])
            if t == SET: return ('none',)
            return ('as', local_asn)
    return ('as', local_asn)

def net_to_val(n): return [n[0], list(n[1]), n[2]]
def net_to_coq(n):
    return '(Build_net %s %s %s)' % ('F4' if n[0] == 4 else 'F6', val.cbytes(n[1]), cN(n[2]))

def op_to_val(o):
    k = o[0]
    if k == 'ins': return [0, o[1], net_to_val(o[2]), o[3], o[4]]
    if k == 'rem': return [1, o[1], net_to_val(o[2]), o[3], o[4]]
    if k == 'drop': return [2, o[1]]
    if k == 'reset': return [3, o[1], [[net_to_val(n), mx, a] for n, mx, a in o[2]]]
    if k == 'val': return [4, net_to_val(o[1]), o[2], [[c, list(b)] for c, b in o[3]]]
    if k == 'valx': return [4, [o[1], list(o[2][1]), o[2][2]], o[3], [[c, list(b)] for c, b in o[4]]]
    if k == 'iter': return [5]
    raise ValueError(o)

def op_to_coq(o):
    k = o[0]
    if k == 'ins': return '(OInsert %s %s %s %s)' % (cN(o[1]), net_to_coq(o[2]), cN(o[3]), cN(o[4]))
    if k == 'rem': return '(ORemove %s %s %s %s)' % (cN(o[1]), net_to_coq(o[2]), cN(o[3]), cN(o[4]))
    if k == 'drop': return '(ODrop %s)' % cN(o[1])
    if k == 'reset': return '(OReset %s %s)' % (cN(o[1]), clist(['(%s, %s, %s)' % (net_to_coq(n), cN(mx), cN(a)) for n, mx, a in o[2]]))
    if k == 'val': return '(OValidate %s %s %s)' % (net_to_coq(o[1]), cN(o[2]), clist([cpair(cN(c), val.cbytes(b)) for c, b in o[3]]))
    if k == 'valx': return '(OValidateOther %s %s %s %s)' % (cN(o[1]), net_to_coq(o[2]), cN(o[3]), clist([cpair(cN(c), val.cbytes(b)) for c, b in o[4]]))
    if k == 'iter': return 'OIter'
    raise ValueError(o)

def tup(x):
    return tuple(tup(y) for y in x) if isinstance(x, list) else x

def vrp_key(fam, addr, mask, mx, asn, src):
    return (fam, tuple(addr), mask, mx, asn, src)

# ------------------------------------------------------------------ Spec replay (python mirror of Spec/Rfc6811.v)
class SpecTable:
    """the VRP table as the property text has it: a set keyed by (cache, prefix, max-length, AS)"""
    def __init__(self): self.s = set()
    def apply(self, o):
        k = o[0]
        if k == 'ins': self.s.add(vrp_key(o[2][0], o[2][1], o[2][2], o[3], o[4], o[1]))
        elif k == 'rem': self.s.discard(vrp_key(o[2][0], o[2][1], o[2][2], o[3], o[4], o[1]))
        elif k == 'drop': self.s = {x for x in self.s if x[5] != o[1]}
        elif k == 'reset':
            self.s = {x for x in self.s if x[5] != o[1]}
            for n, mx, a in o[2]: self.s.add(vrp_key(n[0], n[1], n[2], mx, a, o[1]))
    def dump(self): return sorted([x[0], list(x[1]), x[2], x[3], x[4], x[5]] for x in self.s)

def validate_spec(vrps, route, origin):
    """-> (state, matched, unmatched) with state 0 NotFound / 1 Valid / 2 Invalid"""
    cov = [v for v in vrps if covers((v[0], v[1], v[2]), route)]
    matched = [v for v in cov if route[2] <= v[3] and origin[0] == 'as' and v[4] != 0 and v[4] == origin[1]]
    unm = [v for v in cov if v not in matched]
    return (1 if matched else 2 if cov else 0), matched, unm

def as_list(v): return [v[0], list(v[1]), v[2], v[3], v[4], v[5]]

class Prop:
    pid = 'C12'
    ops_field = 'ops'
    props_file = 'Props/C12.v'
    required_theorems = []     # filled below
    correspondence_name = ('Model/Rpki.v run_case (validate, insert, remove, drop_source, reset, iter, as_path_origin) vs '
                           'table/src/lib.rs RpkiTable + packet/src/bgp.rs Attribute::as_path_origin (harness/hx-rpki)')
    rule = ('a case is a history of RpkiTable operations (insert / remove / drop_source / reset / validate / iter) from the empty table; '
            'non-trivial when a validate meets at least one VRP of its family that covers the route, is more specific than it, or is a sibling, '
            'or when a mutation meets a key that already has an entry; distinct = distinct (sequence of operation kinds, relation of every '
            'validated route to the installed VRPs, observed states)')
    exhaustive = {'quick': False, 'thorough': True}
    trusted_base = ['PatriciaMap (patricia_tree 0.10.1) is modelled by an association list with the library meaning of get / insert / remove / iter; '
                    'its key order is not part of the property: list-valued observations are compared as sorted lists',
                    'Arc<IpAddr> identity of a cache is a token chosen by the harness (two tokens share one IP address value on purpose)',
                    'RpkiTable::state (per-cache counters) and Condition::Rpki / collect_paths glue (which only forward validate().state) are not modelled']
    assumptions = ['VRP prefixes have zero host bits (what a conforming cache sends; neither the RTR decoder nor RpkiTable::insert enforce it): '
                   'validate operations on a table holding a non-canonical VRP of the route family are compared with the model but not judged by the Spec oracle',
                   'route prefix length <= address width (enforced by the NLRI decoders, property C03/C05)',
                   'AS_PATH attribute bytes are a sequence of well-formed segments (enforced by the UPDATE parser); malformed ones are compared with the model (panic) but not judged']

    # ---- rendering
    @staticmethod
    def api_ops(c):
        """an API case as a table history: the VRPs (one cache), then one validate per route"""
        return [('ins', 0, n, mx, a) for n, mx, a in c['vrps']] + [('val', n, la, at) for n, la, at in c['routes']]
    def case_to_val(self, c):
        if c.get('kind') == 'pol':
            return [[[net_to_val(n), mx, a] for n, mx, a in c['vrps']], [[sl, k, list(l)] for sl, k, l in c['steps']],
                    [[net_to_val(n), la, [[cd, list(b)] for cd, b in at]] for n, la, at in c['routes']]]
        if c.get('kind') == 'api':
            paths = c.get('paths') or [(k % 250, 0) for k in range(len(c['routes']))]
            return [[[net_to_val(n), mx, a] for n, mx, a in c['vrps']],
                    [[net_to_val(n), la, [[cd, list(b)] for cd, b in at], pp[0], pp[1]] for (n, la, at), pp in zip(c['routes'], paths)]]
        return [op_to_val(o) for o in c['ops']]
    def case_to_coq(self, c):
        if c.get('kind') == 'pol':
            ins = clist([op_to_coq(('ins', 0, n, mx, a)) for n, mx, a in c['vrps']])
            sts = clist(['(%s, %s, %s)' % (cN(sl), cN(k), val.cbytes(l)) for sl, k, l in c['steps']])
            rts = clist(['(%s, %s, %s)' % (net_to_coq(n), cN(la), clist([cpair(cN(cd), val.cbytes(b)) for cd, b in at])) for n, la, at in c['routes']])
            return 'run_policy_case %s %s %s' % (ins, sts, rts)
        ops = self.api_ops(c) if c.get('kind') == 'api' else c['ops']
        return '%s %s' % (MODEL_ENTRY, clist([op_to_coq(o) for o in ops]))
    def case_to_json(self, c): return json.loads(json.dumps(c))
    def case_from_json(self, j):
        c = dict(j)
        if j.get('kind') == 'pol':
            c['vrps'] = [(tup(n), mx, a) for n, mx, a in j['vrps']]
            c['steps'] = [(sl, k, list(l)) for sl, k, l in j['steps']]
            c['routes'] = [(tup(n), la, [(cb[0], list(cb[1])) for cb in at]) for n, la, at in j['routes']]
            return c
        if j.get('kind') == 'api':
            c['vrps'] = [(tup(n), mx, a) for n, mx, a in j['vrps']]
            c['routes'] = [(tup(n), la, [(cb[0], list(cb[1])) for cb in at]) for n, la, at in j['routes']]
            return c
        ops = []
        for o in j['ops']:
            o = list(o)
            k = o[0]
            if k in ('ins', 'rem'): o[2] = tup(o[2])
            elif k == 'reset': o[2] = [(tup(n), mx, a) for n, mx, a in o[2]]
            elif k == 'val':
                o[1] = tup(o[1]); o[3] = [(cb[0], list(cb[1])) for cb in o[3]]
            elif k == 'valx':
                o[2] = tup(o[2]); o[4] = [(cb[0], list(cb[1])) for cb in o[4]]
            ops.append(tuple(o))
        c['ops'] = ops
        return c

    def corpus_cases(self):
        d = os.path.join(VERIF, 'corpus', 'C12')
        out = []
        if os.path.isdir(d):
            for fn in sorted(os.listdir(d)):
                if fn.endswith('.json'):
                    out.append(self.case_from_json(json.load(open(os.path.join(d, fn)))['case']))
        return out

    # ---- generation
    def attr_variants(self, rng, origin):
        """attribute lists whose RFC 6811 origin is the given AS, by every derivation"""
        o = origin
        other = rng.choice([65001, 65002, 65003])
        return [
            ('seq_tail', [(1, []), (2, aspath_bytes([(SEQ, [other, o])]))]),
            ('seq_tail', [(2, aspath_bytes([(SET, [other, 65009]), (SEQ, [o])]))]),
            ('seq_tail', [(2, aspath_bytes([(CSEQ, [other]), (SEQ, [other, other, o])])), (5, [])]),
            ('two_aspath', [(2, aspath_bytes([(SEQ, [o])])), (2, aspath_bytes([(SEQ, [other])]))]),
        ]

    def attrs_for(self, rng, local):
        """(tag, attrs): all origin derivations, colliding AS numbers"""
        x = rng.random()
        a = rng.choice(ASNS[1:])
        b = rng.choice(ASNS[1:])
        if x < 0.40:
            return rng.choice(self.attr_variants(rng, rng.choice(ASNS)))
        if x < 0.50: return ('no_aspath', rng.choice([[], [(1, [])], [(1, []), (5, [])]]))
        if x < 0.58: return ('empty_aspath', [(1, []), (2, [])])
        if x < 0.72: return ('set_tail', [(2, aspath_bytes([(SEQ, [a, b]), (SET, [rng.choice(ASNS), local])]))])
        if x < 0.80: return ('set_tail', [(2, aspath_bytes([(SET, [a])]))])
        if x < 0.88: return ('confed_tail', [(2, aspath_bytes([(SEQ, [a]), (rng.choice([CSEQ, CSET]), [b])]))])
        if x < 0.985: return ('confed_tail', [(2, aspath_bytes([(rng.choice([CSEQ, CSET]), [a, b])]))])
        # malformed stream: truncated segment, zero-length segment, one stray byte
        good = aspath_bytes([(SEQ, [a, b])])
        return ('malformed_aspath', [(2, rng.choice([good[:-1], good[:3], [SEQ, 0], [SEQ], good + [SEQ, 0], good + [7]]))])

    def window(self, rng, fam):
        """a small bit window of the address space: fixed leading bits, w free bits"""
        w = rng.choice([2, 3, 3, 4])
        if fam == 4: off = rng.choice([0, 5, 6, 8, 13, 14, 16, 21, 24, 32 - w])
        else: off = rng.choice([0, 6, 29, 61, 64, 100, 120, 128 - w])
        off = min(off, WIDTH[fam] - w)
        lead = ''.join(rng.choice('01') for _ in range(off))
        return lead, w

    def rand_prefix(self, rng, fam, lead, w, minlen=0):
        """a prefix inside the window; sometimes shorter than the window start"""
        if lead and rng.random() < 0.15:
            l = rng.randint(0, len(lead))
            return mk_net(fam, lead[:l])
        k = rng.randint(minlen, w)
        return mk_net(fam, lead + ''.join(rng.choice('01') for _ in range(k)))

    def rand_vrp(self, rng, fam, lead, w):
        n = self.rand_prefix(rng, fam, lead, w)
        x = rng.random()
        top = len(lead) + w
        if x < 0.35: mx = n[2]
        elif x < 0.65: mx = min(WIDTH[fam], rng.randint(n[2], top))
        elif x < 0.85: mx = WIDTH[fam]
        elif x < 0.93: mx = max(0, n[2] - 1)          # max-length shorter than the prefix: matches nothing
        else: mx = rng.choice([33, 129, 255])
        return n, mx, rng.choice(ASNS)

    def history_case(self, rng, tier, fam=None, noncanon=False):
        fam = fam or rng.choice([4, 4, 6])
        lead, w = self.window(rng, fam)
        nvrp = rng.randint(1, 6)
        pool = [self.rand_vrp(rng, fam, lead, w) for _ in range(nvrp)]
        if rng.random() < 0.3:
            of = 6 if fam == 4 else 4
            l2, w2 = self.window(rng, of)
            pool.append(self.rand_vrp(rng, of, l2, w2))
        if noncanon:
            n, mx, a = rng.choice(pool)
            if n[2] < WIDTH[n[0]]:
                bs = bits_of(n[1])
                k = rng.randint(n[2], WIDTH[n[0]] - 1)
                bs = bs[:k] + '1' + bs[k + 1:]
                pool.append(((n[0], addr_of_bits(n[0], bs), n[2]), mx, a))
        ops = []
        nops = rng.randint(4, 14 if tier == 'quick' else 24)
        srcs = [0, 1, 2]
        if rng.random() < 0.85:      # mostly start from a non-empty table (an empty family is the open finding C12-3)
            n, mx, a = rng.choice(pool); ops.append(('ins', rng.choice(srcs), n, mx, a))
        for _ in range(nops):
            x = rng.random()
            n, mx, a = rng.choice(pool)
            s = rng.choice(srcs)
            if x < 0.30: ops.append(('ins', s, n, mx, a))
            elif x < 0.40: ops.append(('rem', s, n, mx, a))
            elif x < 0.44: ops.append(('rem', s, n, rng.choice([mx, mx + 1 if mx < 255 else mx]), rng.choice([a, 65002])))
            elif x < 0.48: ops.append(('drop', s))
            elif x < 0.53:
                ops.append(('reset', s, [rng.choice(pool) for _ in range(rng.randint(0, 3))]))
            elif x < 0.56: ops.append(('iter',))
            else:
                local = rng.choice(LOCALS)
                y = rng.random()
                if y < 0.5:
                    # a route related to an installed VRP: same, longer, shorter, sibling
                    bs = bits_of(n[1])[:n[2]]
                    z = rng.random()
                    if z < 0.25: rb = bs
                    elif z < 0.55: rb = bs + ''.join(rng.choice('01') for _ in range(rng.randint(1, 3)))
                    elif z < 0.75: rb = bs[:max(0, len(bs) - rng.randint(1, 3))]
                    elif bs: rb = bs[:-1] + ('1' if bs[-1] == '0' else '0')
                    else: rb = bs
                    rb = rb[:WIDTH[n[0]]]
                    r = mk_net(n[0], rb)
                    if rng.random() < 0.1:   # host bits set in the route itself
                        full = bits_of(r[1])
                        if r[2] < WIDTH[r[0]]:
                            r = (r[0], addr_of_bits(r[0], full[:r[2]] + '1' * (WIDTH[r[0]] - r[2])), r[2])
                else:
                    r = self.rand_prefix(rng, fam, lead, w)
                tag, attrs = self.attrs_for(rng, local)
                ops.append(('val', r, local, attrs))
        if not any(o[0] == 'val' for o in ops):
            ops.append(('val', self.rand_prefix(rng, fam, lead, w), 65000, [(2, aspath_bytes([(SEQ, [65001])]))]))
        return {'kind': 'history', 'ops': ops}

    def real_case(self, rng, fam):
        """random prefixes over the real address space, lengths on and off octet boundaries"""
        W = WIDTH[fam]
        ops = []
        base = ''.join(rng.choice('01') for _ in range(W))
        vr = []
        for _ in range(rng.randint(1, 5)):
            l = rng.choice([0, 1, 7, 8, 9, 15, 16, 17, 23, 24, 25, 31, 32] if fam == 4 else
                           [0, 1, 8, 31, 32, 33, 47, 48, 49, 63, 64, 65, 127, 128])
            bs = base[:l]
            if rng.random() < 0.3 and l > 0:
                k = rng.randrange(l)
                bs = bs[:k] + ('1' if bs[k] == '0' else '0') + bs[k + 1:]
            mx = rng.choice([l, min(W, l + rng.randint(0, 9)), W])
            v = (mk_net(fam, bs), mx, rng.choice(ASNS))
            vr.append(v)
            ops.append(('ins', rng.choice([0, 1]), v[0], v[1], v[2]))
        for _ in range(rng.randint(2, 6)):
            l = rng.randint(0, W)
            bs = base[:l]
            if rng.random() < 0.25 and l > 0:
                k = rng.randrange(l)
                bs = bs[:k] + ('1' if bs[k] == '0' else '0') + bs[k + 1:]
            local = rng.choice(LOCALS)
            tag, attrs = self.attrs_for(rng, local)
            ops.append(('val', mk_net(fam, bs), local, attrs))
        return {'kind': 'real', 'ops': ops}

    def exhaustive_cases(self, fam, lead, w, setsize):
        """every set of <= setsize VRP prefixes in a w-bit window (all lengths), every route of the
        window validated against it under three origins; max-length and AS cycle deterministically"""
        prefs = [lead + ''.join(p) for k in range(0, w + 1) for p in itertools.product('01', repeat=k)]
        top = len(lead) + w
        cases = []
        cnt = 0
        for k in range(0, setsize + 1):
            for combo in itertools.combinations(prefs, k):
                ops = []
                for j, bs in enumerate(combo):
                    cnt += 1
                    mx = [len(bs), top, min(top, len(bs) + 1)][(cnt + j) % 3]
                    asn = [65001, 65002, 0, 65001][(cnt // 3 + j) % 4]
                    ops.append(('ins', j % 2, mk_net(fam, bs), mx, asn))
                for r in prefs:
                    for attrs in ([(2, aspath_bytes([(SEQ, [65002, 65001])]))],
                                  [(2, aspath_bytes([(SEQ, [65002])]))]):
                        ops.append(('val', mk_net(fam, r), 65001, attrs))
                cases.append({'kind': 'exhaustive', 'ops': ops})
        return cases

    # ---- classes enumerated on EVERY run (no randomness): one per clause of the property text
    # and per branch / comparison of validate, insert, remove, drop_source, as_path_last_segment
    def enumerated_cases(self):
        cases = []
        def add(cls, ops): cases.append({'kind': 'enum', 'cls': cls, 'ops': ops})
        SQ = lambda *l: [(2, aspath_bytes([(SEQ, list(l))]))]
        for fam in (4, 6):
            W = WIDTH[fam]
            base = ('10' * 64)[:W]                      # alternating bits: every truncation differs
            # (a) ladder: a VRP at EVERY prefix length 0..W of one address, a route at every length:
            #     both sides of `len <= mask`, every value of the per-octet keep mask, mask = 0 and = W
            ops = []
            for l in range(0, W + 1):
                ops.append(('ins', l % 2, mk_net(fam, base[:l]), min(255, l + 2), [65001, 65002, 0][l % 3]))
            for l in range(0, W + 1):
                ops.append(('val', mk_net(fam, base[:l]), 65000, SQ(65009, [65001, 65002][l % 2])))
            add('ladder_ipv%d' % fam, ops)
            # (b) host bits set in the route beyond its length (the lookup must cut them), at every length
            ops = [('ins', 0, mk_net(fam, base[:l]), W, 65001) for l in (0, 1, 7, 8, 9, W - 1, W)]
            for l in range(0, W + 1):
                full = base[:l] + '1' * (W - l)
                ops.append(('val', (fam, addr_of_bits(fam, full), l), 65000, SQ(65001)))
            add('route_host_bits_ipv%d' % fam, ops)
            # (c) siblings and more-specifics at every length: never consulted
            ops = []
            for l in range(1, W + 1):
                sib = base[:l - 1] + ('1' if base[l - 1] == '0' else '0')
                ops.append(('ins', 0, mk_net(fam, sib), W, 65001))
            for l in range(0, W + 1, 1 if fam == 4 else 5):
                ops.append(('val', mk_net(fam, base[:l]), 65000, SQ(65001)))
            add('siblings_ipv%d' % fam, ops)
            ops = [('ins', 0, mk_net(fam, base[:l]), W, 65001) for l in range(1, W + 1)]
            ops += [('val', mk_net(fam, base[:0]), 65000, SQ(65001)), ('val', mk_net(fam, ''), 65001, [])]
            add('only_more_specific_ipv%d' % fam, ops)
            # (d) max-length on both sides of the route length, and the u8 extremes
            for L in (0, 1, 8, W // 2, W - 1, W):
                ops = []
                for j, mx in enumerate(sorted({max(0, L - 1), L, min(255, L + 1), 0, 255, W})):
                    ops.append(('ins', j % 2, mk_net(fam, base[:min(L, j)]), mx, 65001))
                ops.append(('val', mk_net(fam, base[:L]), 65000, SQ(65001)))
                ops.append(('val', mk_net(fam, base[:L]), 65000, SQ(65002)))
                add('maxlen_boundary_ipv%d' % fam, ops)
        # (e) every emptiness combination of (matched, unmatched_asn, unmatched_length): the priority of the state
        n16 = mk_net(4, '0000101000000001')
        parts = {'m': ('ins', 0, mk_net(4, '00001010'), 24, 65001), 'a': ('ins', 0, mk_net(4, '000010100'), 24, 65002),
                 'l': ('ins', 0, mk_net(4, '0000101000'), 12, 65001)}
        for mask in range(8):
            ops = [parts[k] for j, k in enumerate('mal') if mask >> j & 1]
            ops.append(('ins', 1, mk_net(6, ''), 0, 1))          # the other family never matters
            if not ops[:-1]: ops.append(('ins', 0, mk_net(4, '1'), 1, 1))   # keep the family non-empty
            ops.append(('val', n16, 65000, SQ(65001)))
            add('list_combination_%d' % mask, ops)
        # (f) AS comparison: AS 0 VRP, AS 0 origin, u32 maximum, origin = local AS
        for vas in (0, 1, 65000, 65001, 4294967295):
            ops = [('ins', 0, n16, 16, vas)]
            for oas in (0, 1, 65000, 65001, 4294967295):
                ops.append(('val', n16, 65000, SQ(65002, oas)))
            ops.append(('val', n16, 65000, []))
            ops.append(('val', n16, 0, []))
            add('as_matrix', ops)
        # (g) every AS_PATH shape: origin derivation (each tail type, empty, long, several segments,
        #     AS numbers whose octets look like segment headers, attribute position, duplicates)
        hdr_like = [0x02010000, 0x01010101, 0x0201FDE9, 0x02FF0000, 0x00000201]
        shapes = [
            ('no_attr', []), ('only_other_attrs', [(1, []), (5, [])]), ('empty_path', [(2, [])]),
            ('seq_1', SQ(65001)), ('seq_2', SQ(65002, 65001)), ('seq_254', SQ(*([65002] * 253 + [65001]))),
            ('seq_255', SQ(*([65002] * 254 + [65001]))),
            ('seq_255_then_seq_1', [(2, aspath_bytes([(SEQ, [65002] * 255), (SEQ, [65001])]))]),
            ('seq_255_then_set', [(2, aspath_bytes([(SEQ, [65001] * 255), (SET, [65001])]))]),
            ('set_1', [(2, aspath_bytes([(SET, [65001])]))]), ('set_255', [(2, aspath_bytes([(SET, [65001] * 255)]))]),
            ('seq_then_set', [(2, aspath_bytes([(SEQ, [65001]), (SET, [65001, 65000])]))]),
            ('set_then_seq', [(2, aspath_bytes([(SET, [65002]), (SEQ, [65001])]))]),
            ('confed_seq', [(2, aspath_bytes([(CSEQ, [65001])]))]), ('confed_set', [(2, aspath_bytes([(CSET, [65001])]))]),
            ('seq_then_confed_seq', [(2, aspath_bytes([(SEQ, [65001]), (CSEQ, [65002])]))]),
            ('seq_then_confed_set', [(2, aspath_bytes([(SEQ, [65001]), (CSET, [65002])]))]),
            ('confed_then_seq', [(2, aspath_bytes([(CSEQ, [65002]), (CSET, [65002]), (SEQ, [65001])]))]),
            ('five_segments', [(2, aspath_bytes([(SEQ, [1]), (SET, [2]), (CSEQ, [3]), (CSET, [4]), (SEQ, [5, 65001])]))]),
            ('as0_tail', SQ(65001, 0)), ('as_max_tail', SQ(65001, 4294967295)),
            ('two_as_path_attrs', [(2, aspath_bytes([(SEQ, [65001])])), (2, aspath_bytes([(SET, [65002])]))]),
            ('two_as_path_attrs_rev', [(2, aspath_bytes([(SET, [65002])])), (2, aspath_bytes([(SEQ, [65001])]))]),
            ('as_path_last_attr', [(1, []), (3, []), (4, []), (5, []), (2, aspath_bytes([(SEQ, [65001])]))]),
        ] + [('header_like_as_%08x' % a, [(2, aspath_bytes([(SEQ, [a, 65001])]))]) for a in hdr_like] \
          + [('header_like_tail_%08x' % a, [(2, aspath_bytes([(SEQ, [65001, a])]))]) for a in hdr_like]
        # byte strings the UPDATE parser would refuse but the API can inject: compared with the model only
        good = aspath_bytes([(SEQ, [65002, 65001])])
        shapes += [('malformed_%d' % j, [(2, b)]) for j, b in enumerate(
            [[SEQ], [SEQ, 0], [SET, 0], good[:-1], good[:-4], good[:3], good + [SEQ], good + [SEQ, 1], good + [SET, 1, 0, 0],
             good + [0, 1, 0, 0, 0, 1], good + [5, 1, 0, 0, 0, 1], good + [255, 1, 0, 0, 0, 1], [SEQ, 0] + good, good + [SEQ, 0]])]
        for name, attrs in shapes:
            ops = [('ins', 0, n16, 16, 65001), ('ins', 1, n16, 16, 65000), ('val', n16, 65000, attrs),
                   ('rem', 1, n16, 16, 65000), ('val', n16, 65000, attrs), ('val', n16, 65001, attrs)]
            add('aspath_' + name.split('_%')[0] if name.startswith('header_like') else 'aspath_' + name, ops)
        # (h) the set keyed by (cache, prefix, max-length, AS): variants differing in exactly one component
        base_v = (0, (4, (10, 1, 0, 0), 16), 24, 65001)
        variants = [(1, base_v[1], 24, 65001), (0, (4, (10, 1, 0, 0), 17), 24, 65001), (0, (4, (10, 1, 0, 1), 16), 24, 65001),
                    (0, base_v[1], 25, 65001), (0, base_v[1], 24, 65002), (0, (6, tuple([10, 1] + [0] * 14), 16), 24, 65001)]
        ops = [('ins',) + base_v, ('ins',) + base_v]
        for v in variants: ops += [('ins',) + v, ('ins',) + v]
        for v in variants: ops += [('rem',) + v, ('rem',) + v]
        ops += [('rem',) + base_v, ('iter',), ('val', (4, (10, 1, 0, 0), 16), 65000, SQ(65001)), ('rem',) + base_v]
        add('set_single_component_variants', ops)
        ops = []
        for v in [base_v] + variants: ops.append(('ins',) + v)
        ops += [('drop', 2), ('drop', 1), ('iter',), ('drop', 0), ('drop', 0), ('iter',),
                ('reset', 0, [(base_v[1], 24, 65001), (base_v[1], 24, 65001), (base_v[1], 25, 65001)]),
                ('reset', 0, []), ('reset', 1, [(base_v[1], 24, 65001)]), ('ins',) + base_v, ('reset', 0, [(variants[5][1], 24, 1)]),
                ('drop', 1), ('iter',)]
        add('set_drop_and_reset', ops)
        ops = [('rem',) + base_v, ('drop', 0), ('reset', 0, []), ('iter',), ('ins',) + base_v, ('rem', 0, base_v[1], 24, 65001),
               ('val', base_v[1], 65000, SQ(65001)), ('ins', 0, variants[5][1], 24, 65001), ('val', base_v[1], 65000, SQ(65001)),
               ('val', variants[5][1], 65000, SQ(65001))]
        add('set_on_empty_and_last_removed', ops)
        # (i) routes of non-IP families carrying the same prefix: no state, no policy match
        ops = [('ins', 0, n16, 16, 65001), ('ins', 0, (6, tuple([10, 1] + [0] * 14), 16), 16, 65001)]
        for kind, net in ((14, n16), (24, n16), (16, (6, tuple([10, 1] + [0] * 14), 16)), (26, (6, tuple([10, 1] + [0] * 14), 16))):
            ops.append(('valx', kind, net, 65000, SQ(65001)))
            ops.append(('valx', kind, net, 65000, []))
        ops.append(('val', n16, 65000, SQ(65001)))
        add('non_ip_nlri', ops)
        add('non_ip_nlri_empty_table', [('valx', 14, n16, 65000, SQ(65001)), ('valx', 26, (6, tuple([0] * 16), 0), 65000, [])])
        # (j) VRP prefix lengths beyond the address width and at it (the RTR decoder does not check them)
        ops = [('ins', 0, (4, (10, 1, 0, 0), 33), 40, 65001), ('ins', 0, (4, (10, 1, 0, 0), 255), 255, 65001),
               ('ins', 0, (4, (10, 1, 0, 0), 32), 32, 65001), ('val', (4, (10, 1, 0, 0), 32), 65000, SQ(65001)), ('iter',),
               ('rem', 0, (4, (10, 1, 0, 0), 255), 255, 65001), ('iter',)]
        add('vrp_length_beyond_width', ops)
        # (k) the API annotation (TableManager::collect_paths): ladders, AS_PATH shapes, the other family
        def api(cls, vrps, routes): cases.append({'kind': 'api', 'cls': cls, 'vrps': vrps, 'routes': routes})
        for fam in (4, 6):
            W = WIDTH[fam]; base = ('10' * 64)[:W]
            vr = [(mk_net(fam, base[:l]), min(255, l + 2), [65001, 65002, 0][l % 3]) for l in range(0, W + 1, 1 if fam == 4 else 7)]
            api('api_ladder_ipv%d' % fam, vr, [(mk_net(fam, base[:l]), 65000, SQ(65009, [65001, 65002][l % 2])) for l in range(0, W + 1)])
        api('api_aspath_shapes', [(mk_net(4, '0000101000000001'), 24, 65001), (mk_net(4, '0000101000000001'), 24, 65000)],
            [((4, (10, 1, j, 0), 24), 65000, attrs) for j, (name, attrs) in enumerate(shapes)])
        api('api_other_family_only', [(mk_net(4, '00001010'), 24, 65001)],
            [((6, tuple([0x20, 1] + [0] * 14), 32), 65000, SQ(65001)), ((4, (10, 1, 0, 0), 16), 65000, SQ(65001)),
             ((4, (11, 1, 0, 0), 16), 65000, SQ(65001))])
        api('api_empty_table', [], [((4, (10, 1, 0, 0), 16), 65000, SQ(65001)), ((6, tuple([0] * 16), 0), 65000, [])])
        cases += self.enumerated_multipath_cases()
        cases += self.enumerated_policy_cases()
        return cases

    def enumerated_multipath_cases(self):
        """(m) the API annotation is per PATH: 2-4 paths on one prefix (different peers, or one peer with Add-Path ids)
        in every order, crossing every origin derivation (sources with different local AS, the local source) and states"""
        P = (4, (10, 1, 0, 0), 16)
        P6 = (6, tuple([0x20, 1, 0xd, 0xb8] + [0] * 12), 32)
        # (name, local AS of the source, attributes, peer); one peer per local AS except where noted
        D = [('seq_tail_local_as', 65000, [(2, aspath_bytes([(SEQ, [65009, 65000])]))], 0),
             ('seq_tail_other_as', 65000, [(2, aspath_bytes([(SEQ, [65001])]))], 1),
             ('set_tail', 65000, [(2, aspath_bytes([(SEQ, [65001]), (1, [65000, 65005])]))], 2),
             ('set_only', 65000, [(2, aspath_bytes([(1, [65000])]))], 3),
             ('empty_path', 65000, [(1, []), (2, [])], 4),
             ('absent_as_path', 65000, [(1, [])], 5),
             ('confed_seq_tail', 65000, [(2, aspath_bytes([(SEQ, [65001]), (3, [65002])]))], 6),
             ('confed_set_tail', 65000, [(2, aspath_bytes([(4, [65001])]))], 7),
             ('empty_path_other_local_as', 65009, [(2, [])], 8),
             ('absent_other_local_as', 65001, [], 9),
             ('local_source', 0, [], 255)]
        out = []
        def add(cls, vrps, sel, net=P, addpath=False):
            routes, paths = [], []
            for j, d in enumerate(sel):
                routes.append((net, d[1], d[2]))
                if addpath and d[3] != 255:
                    # one session per local AS, the paths told apart by their Add-Path id
                    paths.append(({65000: 20, 65009: 21, 65001: 22}[d[1]], j + 1))
                else:
                    paths.append((d[3], 0))
            out.append({'kind': 'api', 'cls': cls, 'vrps': vrps, 'routes': routes, 'paths': paths})
        vsets = [[(P, 16, 65000)], [(P, 24, 65001), ((4, (10, 0, 0, 0), 8), 8, 65000)]]
        for vi, vr in enumerate(vsets):
            for a, b in itertools.permutations(D, 2):
                add('multipath_2_peers_vrps%d' % vi, vr, [a, b])
            for a, b in itertools.permutations([d for d in D if d[3] != 255], 2):
                if vi == 0: add('multipath_2_addpath', vr, [a, b], addpath=True)
        triples = [(D[4], D[2], D[0]), (D[5], D[3], D[8]), (D[10], D[4], D[9]), (D[6], D[7], D[1])]
        for t in triples:
            for perm in itertools.permutations(t):
                add('multipath_3_peers', vsets[0], list(perm))
        quads = [(D[4], D[2], D[8], D[10]), (D[5], D[3], D[0], D[6])]
        for q in quads:
            for perm in itertools.permutations(q):
                add('multipath_4_peers', vsets[0], list(perm))
            for perm in itertools.permutations([d for d in q if d[3] != 255]):
                add('multipath_addpath_ids', vsets[0], list(perm), addpath=True)
        add('multipath_all_derivations', vsets[0], D)
        add('multipath_all_derivations', vsets[1], D[::-1])
        add('multipath_all_derivations_ipv6', [(P6, 32, 65000)], D, net=P6)
        add('multipath_family_without_vrp', [(P, 16, 65000)], [D[4], D[2], D[0]], net=P6)
        # the same path set spread over two prefixes: one destination must not leak into the other
        out.append({'kind': 'api', 'cls': 'multipath_two_prefixes', 'vrps': vsets[0],
                    'routes': [(P, 65000, D[4][2]), ((4, (10, 1, 0, 0), 17), 65000, D[2][2]), (P, 65000, D[2][2]), ((4, (10, 1, 0, 0), 17), 65000, D[4][2])],
                    'paths': [(4, 0), (2, 0), (2, 0), (4, 0)]})
        return out

    def enumerated_policy_cases(self):
        """(l) the hand-over of the table to policy evaluation: every kind of assignment history on the
        global import, the global export and a per-peer export assignment; all three states x IPv4 / IPv6"""
        K_ADD, K_SET, K_DEL, K_DELALL = 0, 1, 2, 3
        SQ = lambda *l: [(2, aspath_bytes([(SEQ, list(l))]))]
        v6 = lambda l, m: (6, tuple(l + [0] * (16 - len(l))), m)
        vrps = [((4, (10, 0, 0, 0), 8), 24, 65001), (v6([0x20, 1, 0xd, 0xb8], 32), 48, 65001)]
        routes = [((4, (10, 1, 0, 0), 16), 65000, SQ(65009, 65001)), ((4, (10, 2, 0, 0), 16), 65000, SQ(65002)), ((4, (11, 1, 0, 0), 16), 65000, SQ(65001)),
                  (v6([0x20, 1, 0xd, 0xb8, 0, 1], 48), 65000, SQ(65001)), (v6([0x20, 1, 0xd, 0xb8, 0, 2], 48), 65000, [(2, aspath_bytes([(SEQ, [65001]), (1, [65001])]))]),
                  (v6([0x20, 2], 32), 65000, SQ(65001))]
        out = []
        def add(cls, hist, peer_hist=None):
            steps = []
            for k, l in hist:
                steps += [(0, k, l), (1, k, l)]
            for k, l in (peer_hist if peer_hist is not None else hist):
                if k != 1: steps.append((2, k, l))
            out.append({'kind': 'pol', 'cls': cls, 'vrps': vrps, 'steps': steps, 'routes': routes})
        for k in (0, 1, 2):
            add('assignment_one_call', [(K_ADD, [k])])
            add('assignment_one_call', [(K_ADD, [k, 3])])
            add('assignment_one_call', [(K_ADD, [3, k])])
            add('assignment_accumulated_rpki_first', [(K_ADD, [k]), (K_ADD, [3])])
            add('assignment_accumulated_rpki_last', [(K_ADD, [3]), (K_ADD, [k])])
            for perm in itertools.permutations([[k], [3], [4]]):
                add('assignment_accumulated_three_calls', [(K_ADD, l) for l in perm])
            add('assignment_set_after_add', [(K_ADD, [3]), (K_SET, [k])], [(K_ADD, [3]), (K_DELALL, []), (K_ADD, [k])])
            add('assignment_add_after_set', [(K_SET, [k]), (K_ADD, [3]), (K_ADD, [4])], [(K_ADD, [k]), (K_ADD, [3]), (K_ADD, [4])])
            add('assignment_set_without_rpki_after_rpki', [(K_SET, [k, 3]), (K_SET, [3])], [(K_ADD, [k, 3]), (K_DELALL, []), (K_ADD, [3])])
            add('assignment_delete_rpki_policy', [(K_ADD, [k, 3]), (K_DEL, [k])])
            add('assignment_delete_other_policy', [(K_ADD, [k, 3]), (K_DEL, [3])])
            add('assignment_delete_other_after_accumulation', [(K_ADD, [k]), (K_ADD, [3]), (K_DEL, [3])])
            add('assignment_delete_rpki_after_accumulation', [(K_ADD, [k]), (K_ADD, [3]), (K_DEL, [k]), (K_ADD, [4])])
            add('assignment_delete_all_then_add', [(K_ADD, [k]), (K_DELALL, []), (K_ADD, [3]), (K_ADD, [(k + 1) % 3])])
            add('assignment_failed_calls', [(K_DEL, [k]), (K_ADD, [k]), (K_ADD, [k]), (K_ADD, [3, k]), (K_ADD, [3])])
        add('assignment_all_three_states', [(K_ADD, [0]), (K_ADD, [1]), (K_ADD, [2])])
        add('assignment_all_three_states', [(K_ADD, [2, 1]), (K_ADD, [4]), (K_ADD, [0]), (K_DEL, [1])])
        add('assignment_none', [])
        add('assignment_without_rpki_policy', [(K_ADD, [3]), (K_ADD, [4])])
        add('assignment_emptied', [(K_ADD, [1]), (K_DEL, [1])])
        # per-peer assignment differs from the global one
        out.append({'kind': 'pol', 'cls': 'peer_assignment_overrides_global', 'vrps': vrps, 'routes': routes,
                    'steps': [(1, K_ADD, [1]), (2, K_ADD, [3]), (2, K_ADD, [2]), (0, K_ADD, [0])]})
        out.append({'kind': 'pol', 'cls': 'peer_assignment_overrides_global', 'vrps': vrps, 'routes': routes,
                    'steps': [(1, K_ADD, [3]), (1, K_ADD, [2]), (2, K_ADD, [1]), (2, K_ADD, [4]), (2, K_DEL, [4])]})
        # the other family has no VRP (open finding C12-3 seen from the policy side)
        out.append({'kind': 'pol', 'cls': 'policy_other_family_only', 'vrps': vrps[:1], 'routes': routes,
                    'steps': [(0, K_ADD, [0]), (0, K_ADD, [3]), (1, K_ADD, [0, 2]), (2, K_ADD, [1])]})
        return out

    def policy_random_case(self, rng):
        base = self.enumerated_policy_cases()[0]
        steps = []
        for _ in range(rng.randint(1, 7)):
            sl = rng.choice([0, 1, 2])
            k = rng.choice([0, 0, 0, 1, 2, 3]) if sl < 2 else rng.choice([0, 0, 0, 2, 3])
            steps.append((sl, k, rng.sample([0, 1, 2, 3, 4], rng.randint(0 if k == 3 else 1, 3))))
        return {'kind': 'pol', 'vrps': base['vrps'], 'routes': base['routes'], 'steps': steps}

    def api_random_case(self, rng):
        fam = rng.choice([4, 4, 6]); W = WIDTH[fam]
        base = ''.join(rng.choice('01') for _ in range(W))
        vr = []
        for _ in range(rng.randint(1, 6)):
            l = rng.randint(0, W); bs = base[:l]
            if rng.random() < 0.3 and l:
                k = rng.randrange(l); bs = bs[:k] + ('1' if bs[k] == '0' else '0') + bs[k + 1:]
            vr.append((mk_net(fam, bs), rng.choice([l, min(W, l + 3), W]), rng.choice(ASNS)))
        routes, seen = [], set()
        for _ in range(rng.randint(2, 8)):
            l = rng.randint(0, W); bs = base[:l]
            if rng.random() < 0.3 and l:
                k = rng.randrange(l); bs = bs[:k] + ('1' if bs[k] == '0' else '0') + bs[k + 1:]
            n = mk_net(fam, bs)
            if n in seen: continue
            seen.add(n)
            local = rng.choice(LOCALS)
            tag, attrs = self.attrs_for(rng, local)
            routes.append((n, local, attrs))
        return {'kind': 'api', 'vrps': vr, 'routes': routes}

    def gen_cases(self, rng, tier):
        cases = self.enumerated_cases()
        # hand-written seeds: the two directions of the lookup, AS 0, AS_SET, empty table
        n = lambda a, b, c, d, m: (4, (a, b, c, d), m)
        sq = lambda *l: [(2, aspath_bytes([(SEQ, list(l))]))]
        cases += [
            {'kind': 'seed', 'ops': [('ins', 0, n(10, 0, 0, 0, 8), 24, 65001), ('val', n(10, 1, 0, 0, 16), 65000, sq(65002, 65001)),
                                     ('val', n(10, 1, 0, 0, 16), 65000, sq(65002)), ('val', n(10, 1, 2, 128, 25), 65000, sq(65001)),
                                     ('val', n(11, 0, 0, 0, 8), 65000, sq(65001)), ('val', n(10, 0, 0, 0, 7), 65000, sq(65001))]},
            {'kind': 'seed', 'ops': [('ins', 0, n(10, 1, 2, 0, 24), 24, 65001), ('val', n(10, 1, 0, 0, 16), 65000, sq(65001)),
                                     ('val', n(10, 1, 2, 0, 24), 65000, sq(65001)), ('val', n(10, 1, 3, 0, 24), 65000, sq(65001))]},
            {'kind': 'seed', 'ops': [('ins', 0, n(10, 1, 0, 0, 16), 24, 0), ('val', n(10, 1, 0, 0, 16), 0, []),
                                     ('val', n(10, 1, 0, 0, 16), 65000, [(2, aspath_bytes([(SEQ, [65001]), (SET, [65005, 65006])]))])]},
            {'kind': 'seed', 'ops': [('ins', 0, n(10, 1, 0, 0, 16), 24, 65000),
                                     ('val', n(10, 1, 0, 0, 16), 65000, [(2, aspath_bytes([(SEQ, [65001]), (SET, [65005, 65006])]))]),
                                     ('val', n(10, 1, 0, 0, 16), 65000, [(2, aspath_bytes([(SEQ, [65001]), (CSET, [65005])]))]),
                                     ('val', n(10, 1, 0, 0, 16), 65000, [(2, [])]), ('val', n(10, 1, 0, 0, 16), 65000, [])]},
            {'kind': 'seed', 'ops': [('val', n(10, 1, 0, 0, 16), 65000, sq(65001)),
                                     ('ins', 0, (6, tuple([0x20, 1, 0xd, 0xb8] + [0] * 12), 32), 48, 65001),
                                     ('val', n(10, 1, 0, 0, 16), 65000, sq(65001)),
                                     ('val', (6, tuple([0x20, 1, 0xd, 0xb8, 0x80] + [0] * 11), 33), 65000, sq(65001)),
                                     ('val', (6, tuple([0x20, 1, 0xd, 0xb8, 0, 0, 0x80] + [0] * 9), 49), 65000, sq(65001))]},
            {'kind': 'seed', 'ops': [('ins', 0, n(10, 1, 0, 0, 16), 24, 65000), ('ins', 1, n(10, 1, 0, 0, 16), 24, 65000),
                                     ('ins', 0, n(10, 1, 0, 0, 16), 24, 65000), ('ins', 0, n(10, 1, 0, 0, 16), 25, 65000),
                                     ('rem', 1, n(10, 1, 0, 0, 16), 24, 65000), ('rem', 2, n(10, 1, 0, 0, 16), 24, 65000),
                                     ('reset', 0, [(n(10, 2, 0, 0, 16), 16, 1), (n(10, 2, 0, 0, 16), 16, 1)]), ('drop', 0), ('iter',)]},
        ]
        nh, nr, nn = (1500, 400, 150) if tier == 'quick' else (8000, 2000, 600)
        sc = float(os.environ.get('VERIF_RANDOM_SCALE', '1'))     # mutation self-tests: enumerated classes + a thin random sample
        nh, nr, nn = int(nh * sc), int(nr * sc), int(nn * sc)
        for _ in range(nh): cases.append(self.history_case(rng, tier))
        for _ in range(nr): cases.append(self.real_case(rng, rng.choice([4, 4, 6])))
        for _ in range(nn): cases.append(self.history_case(rng, tier, noncanon=True))
        for _ in range(60 if tier == 'quick' else 400): cases.append(self.api_random_case(rng))
        for _ in range(60 if tier == 'quick' else 600): cases.append(self.policy_random_case(rng))
        if tier == 'quick':
            cases += self.exhaustive_cases(4, '0000101', 2, 2)           # window straddling the first octet boundary
        else:
            cases += self.exhaustive_cases(4, '0000101', 3, 3)           # bits 7..10: straddles an octet boundary
            cases += self.exhaustive_cases(4, '', 3, 2)
            cases += self.exhaustive_cases(6, '00100000000000010000110110111000' + '0' * 29, 3, 2)   # bits 61..64
            cases += self.exhaustive_cases(4, '1100000010101000000000010000', 3, 2)  # up to /31
        return cases

    # ---- running
    def run_impl(self, cases, tier):
        """table histories through the crate harness; API cases through the daemon hook
        (TableManager::insert_route + collect_paths)"""
        ia = [k for k, c in enumerate(cases) if c.get('kind') == 'api']
        ip = [k for k, c in enumerate(cases) if c.get('kind') == 'pol']
        it = [k for k, c in enumerate(cases) if c.get('kind') not in ('api', 'pol')]
        out = [None] * len(cases)
        if it:
            r, err = rustrun.crate_bin('C12', 'hx-rpki', '', [self.case_to_val(cases[k]) for k in it])
            if r is None: return None, err
            for k, o in zip(it, r): out[k] = o
        if ia:
            r, err = rustrun.daemon_test('C12api', 'rpki::verif_hx::verif_rpki_api_cases', [self.case_to_val(cases[k]) for k in ia])
            if r is None: return None, err
            for k, o in zip(ia, r): out[k] = o
        if ip:
            r, err = rustrun.daemon_test('C12pol', 'event::verif_hx_rpki::verif_rpki_policy_cases', [self.case_to_val(cases[k]) for k in ip])
            if r is None: return None, err
            for k, o in zip(ip, r): out[k] = o
        return out, ''

    def run_model(self, cases, tier):
        pre = 'From RB Require Import Base.Val Model.Rpki Model.RpkiPre.\nOpen Scope N_scope.'
        r, err = coqrun.eval_terms('C12', pre, [self.case_to_coq(c) for c in cases])
        if r is None: return r, err
        out = []
        for c, o in zip(cases, r):
            if c.get('kind') == 'api' and o != [-1]:
                # what collect_paths shows of each validate result: state, reason and the sizes of the lists
                shown = [[[[v[0], v[1], len(v[2]), len(v[3]), len(v[4])] for v in ob[0]]] for ob in o[len(c['vrps']):]]
                paths = c.get('paths') or [(k % 250, 0) for k in range(len(c['routes']))]
                # every path is listed by the Global view and by the Adj-In view of its peer (none for the local source)
                o = [[g, ([] if pp[0] == 255 else g)] for g, pp in zip(shown, paths)]
            out.append(o)
        return out, ''

    def canon(self, case, obs):
        """list-valued observations are compared as sorted lists (the trie's key order and the
        order inside matched/unmatched lists are not part of the property)"""
        if obs == [-1] or case.get('kind') in ('api', 'pol'): return obs
        out = []
        for o, ob in zip(case['ops'], obs):
            if o[0] in ('val', 'valx'):
                out.append([[[r[0], r[1], sorted(r[2]), sorted(r[3]), sorted(r[4])] for r in ob[0]], ob[1]])
            else:
                out.append(sorted(ob))
        return out

    # ---- Spec oracle (property text / RFC 6811), judging the implementation's observations
    def failures(self, c, obs):
        """-> list of (op index, class tag, text)"""
        if c.get('kind') == 'api' and obs != [-1]:
            return self.api_failures(c, obs)
        if c.get('kind') == 'pol' and obs != [-1]:
            return self.pol_failures(c, obs)
        if obs == [-1]:
            if any(o[0] == 'val' and origin_rfc6811(o[2], o[3])[0] == 'malformed' for o in c['ops']):
                return []        # assumption: AS_PATH bytes are well-formed
            return [(-1, 'panic', 'panic in the RPKI table API')]
        fails = []
        T = SpecTable()
        for k, (o, ob) in enumerate(zip(c['ops'], obs)):
            T.apply(o)
            if o[0] == 'valx':
                # a route of a non-IP family has no RFC 6811 state: no result, no `rpki` condition holds
                if ob[0] != [] or ob[1] != [0, 0, 0]:
                    fails.append((k, 'non-ip', 'op %d: a validation state is claimed for a non-IP route (kind %d)' % (k, o[1])))
                continue
            if o[0] != 'val':
                if sorted(ob) != T.dump():
                    fails.append((k, 'set', 'op %d (%s): installed VRPs differ from the set keyed by (cache, prefix, max-length, AS)' % (k, o[0])))
                continue
            route, local, attrs = o[1], o[2], o[3]
            vr = [x for x in T.s if x[0] == route[0]]
            if any(not canonical((x[0], x[1], x[2])) for x in vr):
                continue         # assumption: VRP prefixes have zero host bits
            origin = origin_rfc6811(local, attrs)
            if origin[0] == 'malformed':
                continue
            st, matched, unm = validate_spec(vr, route, origin)
            names = ['NotFound', 'Valid', 'Invalid']
            ob, pol = ob[0], ob[1]
            if ob == []:
                cls = 'family-empty' if not vr else 'none'
                fails.append((k, cls, 'op %d: validate returned no result for %s/%d; RFC 6811 state is %s' % (
                    k, '.'.join(map(str, route[1])), route[2], names[st])))
                continue
            # the state used by policy: exactly the condition `rpki <RFC 6811 state>` holds
            if pol != [1 if j == st else 0 for j in range(3)]:
                fails.append((k, 'policy', 'op %d: route %s/%d: policy conditions rpki not-found/valid/invalid evaluate to %s, RFC 6811 state is %s' % (
                    k, '.'.join(map(str, route[1])), route[2], pol, names[st])))
            r = ob[0]
            cls = 'state'
            if origin[0] == 'none' and any(x[4] == local and x[4] != 0 and route[2] <= x[3] for x in vr if covers((x[0], x[1], x[2]), route)):
                cls = 'as-set-origin'
            if r[0] != st:
                fails.append((k, cls, 'op %d: route %s/%d origin %s: state %s, RFC 6811 requires %s' % (
                    k, '.'.join(map(str, route[1])), route[2], origin[1] if origin[0] == 'as' else 'NONE', names[r[0]], names[st])))
                continue
            if sorted(r[2]) != sorted(as_list(v) for v in matched):
                fails.append((k, cls, 'op %d: matched list is not the set of VRPs matching the route' % k))
            elif sorted(r[3] + r[4]) != sorted(as_list(v) for v in unm):
                fails.append((k, cls, 'op %d: unmatched lists are not the covering, non-matching VRPs' % k))
            elif any(route[2] <= v[3] for v in r[4]) or any(route[2] > v[3] for v in r[3]):
                fails.append((k, cls, 'op %d: unmatched_length / unmatched_asn split is wrong' % k))
        return fails

    def api_failures(self, c, obs):
        """the state shown by the API (collect_paths) for every listed route"""
        fails = []
        names = ['NotFound', 'Valid', 'Invalid']
        vset = {vrp_key(n[0], n[1], n[2], mx, a, 0) for n, mx, a in c['vrps']}
        paths = c.get('paths') or [(k % 250, 0) for k in range(len(c['routes']))]
        for k, ((route, local, attrs), obv) in enumerate(zip(c['routes'], obs)):
            vr = [x for x in vset if x[0] == route[0]]
            if any(not canonical((x[0], x[1], x[2])) for x in vr): continue
            origin = origin_rfc6811(local, attrs)
            if origin[0] == 'malformed': continue
            st, matched, unm = validate_spec(vr, route, origin)
            who = 'path %d (%s/%d from %s, path id %d, origin %s)' % (
                k, '.'.join(map(str, route[1])), route[2], 'the local source' if paths[k][0] == 255 else 'peer %d' % paths[k][0], paths[k][1],
                origin[1] if origin[0] == 'as' else 'NONE')
            for view, ob in (('Global', obv[0]), ('Adj-In', obv[1])):
                if view == 'Adj-In' and paths[k][0] == 255: continue
                if ob == []:
                    fails.append((k, 'api', '%s is not listed by collect_paths (%s view)' % (who, view))); continue
                if ob[0] == []:
                    fails.append((k, 'family-empty' if not vr else 'api',
                                  '%s: the API (%s view) shows no validation state; RFC 6811 state is %s' % (who, view, names[st])))
                    continue
                v = ob[0][0]
                if v[0] != st:
                    fails.append((k, 'api', '%s: the API (%s view) shows %s, RFC 6811 requires %s for this path' % (who, view, names[v[0]], names[st])))
                elif v[2] != len(matched) or v[3] + v[4] != len(unm):
                    fails.append((k, 'api', '%s: the API (%s view) lists %d matched / %d unmatched VRPs, RFC 6811 gives %d / %d' % (who, view, v[2], v[3] + v[4], len(matched), len(unm))))
        return fails

    POLICY_NAMES = ['rpki not-found -> accept', 'rpki valid -> accept', 'rpki invalid -> accept', 'plain-med', 'plain-lp']

    def pol_failures(self, c, obs):
        """the validation state used by policy, through the daemon's own hand-over of the table:
        TableManager::apply_import and PeerSession::handle_prefix_update, on assignments built by histories"""
        fails = []
        names = ['NotFound', 'Valid', 'Invalid']
        slots, oks, robs = obs
        asg = [sl[0][1] if sl else None for sl in slots]
        use = [asg[0], asg[1], asg[2] if asg[2] is not None else asg[1]]
        vset = {vrp_key(n[0], n[1], n[2], mx, a, 0) for n, mx, a in c['vrps']}
        for k, ((route, local, attrs), ob) in enumerate(zip(c['routes'], robs)):
            vr = [x for x in vset if x[0] == route[0]]
            if any(not canonical((x[0], x[1], x[2])) for x in vr): continue
            origin = origin_rfc6811(local, attrs)
            if origin[0] == 'malformed': continue
            st, matched, unm = validate_spec(vr, route, origin)
            for j, what in enumerate(['import (TableManager::apply_import)', 'export to a peer under the global assignment', 'export to a peer with its own assignment']):
                l = use[j]
                want = 1 if l is None or any(p == st for p in l) else 0
                if ob[j] != want:
                    cls = 'family-empty' if (not vr and l is not None and 0 in l and st == 0) else 'policy-handover'
                    fails.append((k, cls, 'route %d (%s/%d, RFC 6811 state %s): %s with policies %s %s the route, the validation state used by policy requires it to be %s' % (
                        k, '.'.join(map(str, route[1])), route[2], names[st], what, [self.POLICY_NAMES[p] for p in l] if l is not None else None,
                        'accepts' if ob[j] else 'rejects', 'accepted' if want else 'rejected')))
        for j, sl in enumerate(slots):
            if sl and any(p < 3 for p in sl[0][1]) and not sl[0][0]:
                fails.append((j, 'policy-handover', '%s assignment %s lists an rpki policy but needs_rpki is false: its evaluation is not handed the RPKI table' % (
                    ['global import', 'global export', 'per-peer export'][j], [self.POLICY_NAMES[p] for p in sl[0][1]])))
        return fails

    KNOWN_CLASS = {'C12-3': 'family-empty'}

    def oracle(self, c, obs):
        fails = self.failures(c, obs)
        if not fails: return None
        known = set(self.KNOWN_CLASS.values())
        for k, cls, text in fails:
            if cls not in known:
                return '%s [class=%s]' % (text, cls)
        k, cls, text = fails[0]
        return '%s [class=%s]' % (text, cls)

    def in_known_class(self, kf, c, obs, why):
        cls = self.KNOWN_CLASS.get(kf['id'])
        return cls is not None and why.endswith('[class=%s]' % cls)

    # ---- evidence
    def relations(self, c):
        """relation of every validated route to the VRPs installed at that point"""
        T = SpecTable()
        rel = []
        for o in (self.api_ops(c) if c.get('kind') in ('api', 'pol') else c['ops']):
            T.apply(o)
            if o[0] == 'val':
                r = o[1]
                tags = set()
                for x in T.s:
                    if x[0] != r[0]: continue
                    v = (x[0], x[1], x[2])
                    if covers(v, r): tags.add('exact' if v[2] == r[2] else 'covering')
                    elif covers(r, v): tags.add('more_specific')
                    else: tags.add('disjoint')
                rel.append(tuple(sorted(tags)))
        return rel

    def nontrivial_key(self, c, obs):
        if c.get('kind') == 'pol':
            if obs == [-1]: return ('panic', 'pol')
            return ('pol', tuple((sl, k, tuple(l)) for sl, k, l in c['steps']), json.dumps(obs[2]))
        if c.get('kind') == 'api':
            if obs == [-1]: return ('panic', 'api')
            rel = self.relations(c)
            if not any(set(t) & {'exact', 'covering', 'more_specific'} for t in rel): return None
            return ('api', tuple(rel), tuple(tuple(c.get('paths') or ())), tuple((ob[0][0][0][0] if ob[0] and ob[0][0] else -1) for ob in obs))
        if obs == [-1]: return ('panic', tuple(o[0] for o in c['ops']))
        rel = self.relations(c)
        interesting = any(set(t) & {'exact', 'covering', 'more_specific'} for t in rel)
        T = SpecTable(); hit = False
        for o in c['ops']:
            if o[0] in ('ins', 'rem') and any(x[:3] == (o[2][0], tuple(o[2][1]), o[2][2]) for x in T.s): hit = True
            T.apply(o)
        if not interesting and not hit: return None
        states = tuple((ob[0][0][0] if ob[0] else -1) for o, ob in zip(c['ops'], obs) if o[0] == 'val')
        return (tuple(o[0] for o in c['ops']), tuple(rel), states)

    def classify(self, c, obs):
        tags = ['kind_' + c.get('kind', '?')]
        if c.get('cls'): tags.append('enum_' + c['cls'])
        if c.get('kind') == 'pol':
            tags.append('policy_handover')
            tags.append('assignment_steps_%d' % min(4, max(len([1 for st in c['steps'] if st[0] == j]) for j in range(3))))
            if obs != [-1]:
                for j, sl in enumerate(obs[0]):
                    if sl: tags.append('slot%d_needs_rpki_%d' % (j, sl[0][0]))
                if 0 in obs[1]: tags.append('assignment_call_error')
            return sorted(set(tags))
        if c.get('kind') == 'api':
            tags.append('api_annotation')
            for ob in (obs if obs != [-1] else []):
                g = ob[0]
                tags.append('api_state_%s' % ('unlisted' if g == [] else 'none' if g[0] == [] else ['NotFound', 'Valid', 'Invalid'][g[0][0][0]]))
            if c.get('paths'):
                from collections import Counter
                tags.append('api_paths_per_prefix_%d' % max(Counter(r[0] for r in c['routes']).values()))
            return sorted(set(tags))
        fams = {o[1][0] for o in c['ops'] if o[0] == 'val'}
        tags += ['val_ipv%d' % f for f in sorted(fams)]
        for t in set(x for r in self.relations(c) for x in r): tags.append('rel_' + t)
        for o in c['ops']:
            if o[0] == 'val':
                og = origin_rfc6811(o[2], o[3])
                tags.append('origin_' + og[0] + ('' if og[0] != 'as' else ('_local' if not any(cb[0] == 2 and cb[1] for cb in o[3]) else '_path')))
                if o[1][2] % 8: tags.append('mask_off_octet')
                else: tags.append('mask_on_octet')
        if obs != [-1]:
            for o, ob in zip(c['ops'], obs):
                if o[0] == 'val': tags.append('state_%s' % (['NotFound', 'Valid', 'Invalid'][ob[0][0][0]] if ob[0] else 'none'))
                if o[0] == 'valx': tags.append('non_ip_nlri_%d' % o[1])
        else:
            tags.append('panic')
        return sorted(set(tags))

Prop.required_theorems = [
    'validate_code_eq_rfc6811_outside_known', 'validate_code_eq_rfc6811_refuted', 'validate_none_iff_known',
    'validate_matched_exact', 'noncovering_vrps_irrelevant', 'policy_condition_eq_rfc6811_outside_known', 'policy_condition_known', 'handover_iff_rpki_policy', 'assignment_accepts_iff_state_outside_known', 'api_annotation_per_path_outside_known', 'origin_code_eq_rfc6811',
    'rfc6811_state_characterised', 'mask_bytes_eq_prefix_bits',
    'vrp_table_refines_set', 'vrp_history_refines_set', 'iter_lists_installed',
    'validate_pre_refuted_covering', 'validate_pre_refuted_more_specific', 'validate_pre_refuted_as_set',
]
