"""Case generators for C14, biased to the branch structure of Model/Policy.v and
Model/PolicyTable.v: small colliding name / value domains, boundary values,
mostly-valid inputs plus a malformed stream."""
import itertools
from gen.c14 import *

ASNS = [65001, 65002, 65003]
COMMS = [(65000 << 16) | 100, (65000 << 16) | 200, (65001 << 16) | 100, (65001 << 16) | 150, 0xffffff01, 5, (65000 << 16) | 666]
EXTS = [int.from_bytes(bytes(b), 'big') for b in (
    [0, 2, 0xfd, 0xe8, 0, 0, 0, 100], [0, 2, 0xfd, 0xe9, 0, 0, 0, 100], [0, 3, 0xfd, 0xe8, 0, 0, 0, 1],
    [2, 2, 0, 0, 0xfd, 0xe8, 0, 100], [1, 2, 10, 0, 0, 1, 0, 7], [3, 12, 0, 0, 0, 0, 0, 8],
    [0x43, 0, 0, 0, 0, 0, 0, 2], [0x43, 0, 0, 0, 0, 0, 0, 9], [9, 9, 0, 0, 0, 0, 0, 1], [0x40, 4, 0xfd, 0xe8, 0, 0, 0, 0])]
LARGES = [(65000 << 64) | (1 << 32) | 1, (65000 << 64) | (2 << 32) | 1, (65001 << 64) | (1 << 32) | 2, (65000 << 64) | (1 << 32) | 7]

# nested / overlapping IPv4 and IPv6 prefixes (all canonical)
P4 = [(ip4(10, 0, 0, 0), 8), (ip4(10, 1, 0, 0), 16), (ip4(10, 1, 2, 0), 24), (ip4(10, 1, 2, 128), 25),
      (ip4(10, 2, 0, 0), 16), (ip4(10, 1, 2, 0), 23), (ip4(192, 168, 0, 0), 16), (ip4(0, 0, 0, 0), 0), (ip4(10, 1, 2, 3), 32)]
P6 = [(ip6(V6BASE), 32), (ip6(V6BASE | (1 << 80)), 48), (ip6(V6BASE | (1 << 80) | (2 << 64)), 64), (ip6(0), 0)]
R4 = [n4(10, 1, 2, 0, 24), n4(10, 1, 0, 0, 16), n4(10, 0, 0, 0, 8), n4(10, 1, 2, 128, 25), n4(10, 1, 2, 3, 32), n4(10, 2, 3, 0, 24),
      n4(10, 1, 3, 0, 24), n4(192, 168, 1, 0, 24), n4(11, 0, 0, 0, 8), n4(0, 0, 0, 0, 0), n4(10, 1, 2, 0, 23), n4(10, 1, 2, 77, 24),
      n4(8, 0, 0, 0, 5)]
R6 = [n6(0, 32), n6(1 << 80, 48), n6((1 << 80) | (2 << 64), 64), n6((1 << 80) | (3 << 64), 64), n6(1 << 81, 48), [6, 0, 0, 0], n6(5, 128)]

def rng_range(rng, m, w):
    return rng.choice([(m, m), (m, w), (8, w), (16, 24), (24, 24), (0, w), (25, 32), (min(m + 1, w), w), (0, max(m - 1, 0)), (24, 16)])

def gen_pset(rng, name, n=None):
    ents = []
    for _ in range(n or rng.randint(1, 4)):
        if rng.random() < 0.8:
            (a, m) = rng.choice(P4); lo, hi = rng_range(rng, m, 32)
        else:
            (a, m) = rng.choice(P6); lo, hi = rng_range(rng, m, 128)
        ents.append([[a, m], lo, hi])
    return [0, name, ents]

def gen_nset(rng, name):
    ents = []
    for _ in range(rng.randint(1, 3)):
        ents.append(rng.choice([[ip4(10, 0, 0, 1), 32], [ip4(10, 0, 0, 0), 24], [ip4(10, 0, 0, 0), 25], [ip4(172, 16, 0, 0), 12],
                                [ip6(V6BASE), 32], [ip6(V6BASE | 1), 128], [ip4(10, 0, 0, 128), 25], [ip4(0, 0, 0, 0), 0]]))
    return [1, name, ents]

def gen_single(rng):
    k = rng.randrange(8)
    a = rng.choice(ASNS)
    b = rng.choice([a, a + 1, 65003, 65000]) if k >= 4 else 0
    if k >= 4 and rng.random() < 0.5: a = 65001
    return [0, k, a, b]

def gen_apset(rng, name, regex_p=0.0):
    ents = [gen_single(rng) for _ in range(rng.randint(1, 3))]
    if rng.random() < regex_p:
        ents.insert(rng.randint(0, len(ents)), rx_entry(rng.choice([401, 402, 403, 404, 405, 406, 407, 408, 409, 410, 411])))
        if rng.random() < 0.3: ents = [e for e in ents if e[0] == 1]
    return [2, name, ents]

def gen_cset(rng, name):
    ents = []
    for _ in range(rng.randint(1, 3)):
        x = rng.random()
        if x < 0.45: ents.append([0, rng.choice(COMMS), rng.randrange(2)])
        elif x < 0.8: ents.append(rx_entry(rng.choice([101, 102, 103, 104, 105, 106])))
        else: ents.append([2, rng.choice([5, 5, 0, 8, 4]), rng.randrange(2)])
    return [3, name, ents]

def gen_eset(rng, name): return [4, name, [rx_entry(rng.choice([201, 202, 203, 204, 205])) for _ in range(rng.randint(1, 2))]]
def gen_lset(rng, name): return [5, name, [rx_entry(rng.choice([301, 302, 303])) for _ in range(rng.randint(1, 2))]]

SETGEN = [gen_pset, gen_nset, gen_apset, gen_cset, gen_eset, gen_lset]

def gen_path(rng, empties=True):
    """segments of every type, with empty segments at either end / in the middle"""
    segs = []
    for _ in range(rng.choice([0, 1, 1, 1, 2, 2, 3])):
        t = rng.choice([2, 2, 2, 1, 3, 4])
        n = rng.choice([0, 1, 1, 2, 3]) if empties else rng.choice([1, 2, 3])
        segs.append((t, [rng.choice(ASNS + [65004]) for _ in range(n)]))
    return segs

def gen_attrs(rng, rich=True):
    attrs = []
    x = rng.random()
    if x < 0.85: attrs.append(aspath_attr(gen_path(rng)))
    if rng.random() < 0.7: attrs.append([0, 1, rng.choice([0, 1, 2])])
    if rng.random() < 0.5: attrs.append([0, 5, rng.choice([100, 200, 0, U32])])
    if rng.random() < 0.5: attrs.append([0, 4, rng.choice([0, 5, 100, U32, U32 - 1])])
    if rng.random() < 0.6: attrs.append(comm_attr([rng.choice(COMMS) for _ in range(rng.choice([0, 1, 2, 3]))]))
    if rich and rng.random() < 0.4: attrs.append(ext_attr([rng.choice(EXTS) for _ in range(rng.choice([1, 2, 3]))]))
    if rich and rng.random() < 0.4: attrs.append(large_attr([rng.choice(LARGES) for _ in range(rng.choice([1, 2]))]))
    if rng.random() < 0.1: attrs.append([2, 99, 0xc0, [1, 2, 3]])
    if rng.random() < 0.08: attrs.append([1, 8, [0xfd, 0xe8, 0, 100, 7]])          # ragged community bytes (API)
    if rng.random() < 0.05: attrs.append([1, 5, [0, 0, 0, 100]])                     # LOCAL_PREF as bytes (API Unknown)
    if rng.random() < 0.05: attrs.append(comm_attr([COMMS[0]]))                      # duplicate code: first one wins
    rng.shuffle(attrs)
    return attrs

def gen_route(rng, d=None, attrs=None):
    d = rng.randrange(2) if d is None else d
    v6 = rng.random() < 0.2
    net = rng.choice(R6 if v6 else R4)
    src = rng.choice([SRC_E, SRC_E, SRC_I, SRC_L, SRC_6])
    nh = rng.choice([PEER, PEER, ip4(10, 0, 0, 9), ip6(V6BASE | 9), False])
    if nh is not False and rng.random() < 0.05: nh = [7, (V6BASE | 9) >> 64, 9, 0xfe80 << 48, 1]
    orig = rng.choice([None, None, ip4(10, 9, 9, 9)])
    peer = rng.choice([PEER, PEER, ip4(10, 0, 0, 200), ip4(172, 16, 5, 1), ip6(V6BASE | 1)])
    return ev(net, attrs if attrs is not None else gen_attrs(rng), d=d, src=src, nh=nh, orig=orig,
              confed=int(rng.random() < 0.2), local=LOCAL, peer=peer)

def gen_actions(rng, p=0.35, allow_nh=True):
    a = NOACT()
    if allow_nh and rng.random() < p:
        a[0] = [rng.choice([[0, ip4(10, 9, 9, 1)], [0, ip6(V6BASE | 7)], [1], [2], [3]])]
    if rng.random() < p: a[1] = [[rng.randrange(3), [rng.choice(COMMS) for _ in range(rng.choice([0, 1, 2]))]]]
    if rng.random() < p: a[2] = [rng.choice([0, 100, 200, U32])]
    if rng.random() < p: a[3] = [[rng.randrange(2), rng.choice([0, 5, -5, -6, 100, U32, U32 + 1, -(1 << 63), (1 << 63) - 1, -U32])]]
    if rng.random() < p: a[4] = [[rng.choice(ASNS), rng.choice([0, 1, 2, 3]), rng.randrange(2)]]
    if rng.random() < p / 2: a[5] = [[rng.randrange(3), [list(rng.choice(EXTS).to_bytes(8, 'big')) for _ in range(rng.choice([0, 1, 2]))]]]
    if rng.random() < p / 2:
        a[6] = [[rng.randrange(3), [[c >> 64, (c >> 32) & U32, c & U32] for c in (rng.choice(LARGES) for _ in range(rng.choice([0, 1, 2])))]]]
    if rng.random() < p: a[7] = [rng.choice([0, 1, 2, 7])]
    return a

def gen_valcond(rng):
    k = rng.choice([6, 6, 7, 9, 10, 11, 12, 13, 14, 8])
    if k == 6: return [6, rng.randrange(3), rng.choice([0, 1, 2, 3, 4])]
    if k == 7: return [7, [rng.choice([PEER, ip4(10, 0, 0, 9), ip6(V6BASE | 9), ip4(10, 9, 9, 1)]) for _ in range(rng.randint(1, 2))]]
    if k == 8: return [8, rng.randrange(3)]
    if k == 9: return [9, rng.choice([100, 200, 0])]
    if k == 10: return [10, rng.choice([0, 5, 100, U32])]
    if k == 11: return [11, rng.choice([0, 1, 2, 7])]
    if k == 12: return [12, rng.randrange(3)]
    if k == 13: return [13, rng.randrange(3), rng.choice([0, 1, 2, 3])]
    return [14, rng.choice([[65537], [131073], [65537, 131073], [65537 + 127]])]

def setup(sets, stmts, pols, asgs):
    """ops that build a table: sets [(setcfg)], stmts [(name, conds, disp, act)], pols [(name,[stmts])], asgs [(dir, default, [pols])]"""
    ops = [[1, 0, s] for s in sets]
    ops += [[3, n, c, d, a] for n, c, d, a in stmts]
    ops += [[5, n, s] for n, s in pols]
    ops += [[7, 0, d, df, p] for d, df, p in asgs]
    return ops

def mk(cls, ops, profile='debug'):
    return {'cls': cls, 'profile': profile, 'ops': ops + [[10]]}

# ---------------------------------------------------------------- directed families
def prefix_cases(rng, n):
    out = []
    # the two confirmed shapes first
    nested = [0, 1, [[[ip4(10, 0, 0, 0), 8], 8, 32], [[ip4(10, 1, 0, 0), 16], 16, 16]]]
    specific = [0, 1, [[[ip4(10, 0, 0, 0), 24], 8, 24]]]
    for s in (nested, specific):
        for opt in (0, 2):
            out.append(mk('prefix', setup([s], [(1, [[0, 1, opt]], [2], NOACT())], [(1, [1])], [(1, 1, [1]), (0, 1, [1])]) +
                          [ev(r, [], d=d) for r in R4[:8] for d in (0, 1)]))
    for _ in range(n):
        s = gen_pset(rng, 1)
        opt = rng.choice([0, 0, 2])
        routes = [ev(rng.choice(R4 + R6), [], d=rng.randrange(2)) for _ in range(rng.randint(4, 10))]
        # every entry's own prefix, one bit shorter and one longer, are the boundary routes
        for e in s[2][:2]:
            (a, m) = e[0]
            if a[0] == 4:
                routes += [ev([4, a[1], mm], []) for mm in {m, max(m - 1, 0), min(m + 1, 32), e[1], e[2]} if mm <= 32]
        out.append(mk('prefix', setup([s], [(1, [[0, 1, opt]], [rng.choice([1, 2])], NOACT())], [(1, [1])],
                                      [(1, rng.choice([1, 2]), [1]), (0, rng.choice([1, 2]), [1])]) + routes))
    return out

def prefix_merge_cases(rng, n):
    """prefix sets built by several add_defined_set calls (merge path) and partial deletes, with 0.0.0.0/0 and ::/0
    entries given, restated or omitted in each call; evaluated on routes of both families"""
    out = []
    Z4 = lambda: [[ip4(0, 0, 0, 0), 0], *rng.choice([(0, 32), (8, 24), (16, 16), (24, 32), (0, 0)])]
    Z6 = lambda: [[ip6(0), 0], *rng.choice([(0, 128), (16, 48), (20, 20), (32, 64), (0, 0)])]
    def piece():
        e = []
        if rng.random() < 0.5: e.append(Z4())
        if rng.random() < 0.4: e.append(Z6())
        for _ in range(rng.choice([0, 1, 1, 2])):
            if rng.random() < 0.7:
                (a, m) = rng.choice(P4[:7]); lo, hi = rng_range(rng, m, 32)
            else:
                (a, m) = rng.choice(P6[:3]); lo, hi = rng_range(rng, m, 128)
            e.append([[a, m], lo, hi])
        rng.shuffle(e)
        return e
    routes4 = R4 + [n4(172, 16, 0, 0, 16), n4(8, 0, 0, 0, 8), n4(10, 1, 2, 0, 20)]
    routes6 = R6 + [n6(0, 20), n6(0, 16), n6(1 << 100, 24), [6, 0x20010db8 << 32, 0, 20], [6, 0x3ffe << 48, 0, 16], [6, 0x3ffe << 48, 0, 48]]
    for _ in range(n):
        first = piece() or [Z4()]
        if rng.random() < 0.6 and not any(e[0][0] == ip4(0, 0, 0, 0) and e[0][1] == 0 for e in first): first.append(Z4())
        ops = [[1, 0, [0, 1, first]]]
        for _ in range(rng.choice([1, 1, 2, 3])):
            x = rng.random()
            if x < 0.7: ops.append([1, 0, [0, 1, piece()]])                       # merge
            elif x < 0.85: ops.append([2, 0, [0, 1, rng.sample(first, min(len(first), rng.randint(1, 2)))]])   # partial delete
            else: ops.append([1, 1, [0, 1, piece()]])                             # replace
            if rng.random() < 0.3: ops.append([10])
        opt = rng.choice([0, 0, 2])
        ops += [[3, 1, [[0, 1, opt]], [2], NOACT()], [5, 1, [1]], [7, 0, 1, 1, [1]], [7, 0, 0, 1, [1]]]
        ops += [ev(r, [], d=rng.randrange(2)) for r in rng.sample(routes4, 5) + rng.sample(routes6, 6)]
        out.append(mk('prefix_merge', ops))
    return out

def aspath_cases(rng, n, regex_p=0.0, cls='aspath'):
    out = []
    for _ in range(n):
        s = gen_apset(rng, 1, regex_p)
        opt = rng.randrange(3)
        routes = []
        for _ in range(rng.randint(4, 9)):
            x = rng.random()
            if x < 0.1: attrs = []
            elif x < 0.2: attrs = [aspath_attr([])]
            else: attrs = [aspath_attr(gen_path(rng))]
            routes.append(ev(R4[0], attrs, d=rng.randrange(2)))
        # paths built around the pattern's own AS numbers
        for e in s[2][:2]:
            if e[0] == 0:
                a = e[2]
                for segs in ([(2, [a])], [(2, [a]), (2, [])], [(2, []), (2, [a])], [(1, [a, 65004])], [(2, [65004, a])], [(2, [a, 65004])],
                             [(3, []), (2, [a]), (4, [])]):
                    if rng.random() < 0.6: routes.append(ev(R4[0], [aspath_attr(segs)]))
        out.append(mk(cls, setup([s], [(1, [[2, 1, opt]], [2], NOACT())], [(1, [1])], [(1, 1, [1]), (0, 1, [1])]) + routes))
    return out

def community_cases(rng, n):
    out = []
    for _ in range(n):
        kind = rng.choice([3, 3, 3, 4, 5])
        s = SETGEN[kind](rng, 1)
        opt = rng.randrange(3)
        routes = [ev(R4[0], gen_attrs(rng), d=rng.randrange(2)) for _ in range(rng.randint(4, 9))]
        if kind == 3:
            routes += [ev(R4[0], [comm_attr(cs)]) for cs in ([0xffffff01], [5], [COMMS[0], COMMS[2]], [COMMS[6]], [])]
        out.append(mk('community', setup([s], [(1, [[kind, 1, opt]], [2], NOACT())], [(1, [1])], [(1, 1, [1]), (0, 1, [1])]) + routes))
    return out

def chain_cases(rng, n):
    """several policies and statements: dispositions, accumulation of actions, conditions that see earlier actions"""
    out = []
    for _ in range(n):
        sets = [gen_pset(rng, 1), gen_nset(rng, 1), gen_apset(rng, 1, 0.4), gen_cset(rng, 1), gen_eset(rng, 1), gen_lset(rng, 1)]
        nst = rng.randint(2, 5)
        stmts = []
        for i in range(1, nst + 1):
            conds = []
            for _ in range(rng.choice([0, 1, 1, 2, 3])):
                if rng.random() < 0.55:
                    k = rng.randrange(6)
                    conds.append([k, 1, rng.choice([0, 2]) if k < 2 else rng.randrange(3)])
                else: conds.append(gen_valcond(rng))
            disp = rng.choice([[], [], [0], [1], [2]])
            stmts.append((i, conds, disp, gen_actions(rng, 0.3, allow_nh=True)))
        # split the statements over one or two policies, in order, possibly sharing one
        names = list(range(1, nst + 1))
        cut = rng.randint(1, nst)
        pols = [(1, names[:cut])] + ([(2, names[cut:] + ([names[0]] if rng.random() < 0.3 else []))] if cut < nst else [])
        pn = [p[0] for p in pols]
        ops = setup(sets, stmts, pols, [(1, rng.choice([1, 2, 1, 2, 0]), pn), (0, rng.choice([1, 2, 1, 2, 0]), pn)])   # default Pass only through the crate API
        ops += [gen_route(rng) for _ in range(rng.randint(4, 8))]
        out.append(mk('chain', ops, profile=rng.choice(['debug', 'debug', 'release'])))
    # hand-written accumulation chains
    for dflt in (1, 2):
        stmts = [(1, [], [], act(comm=[0, [COMMS[0]]], lp=200)),                         # pass, adds a community and local-pref
                 (2, [[3, 1, 0], [9, 200]], [], act(med=[0, 10], prepend=[65009, 2, 0])),  # sees both
                 (3, [[10, 10]], [1 if dflt == 2 else 2], act(origin=2)),                 # sees the MED
                 (4, [], [2], act(lp=1))]                                                # never reached when 3 applies
        ops = setup([[3, 1, [[0, COMMS[0], 1]]]], stmts, [(1, [1, 2]), (2, [3, 4])], [(1, dflt, [1, 2])])
        ops += [ev(R4[0], [aspath_attr([(2, [65001])])]), ev(R4[0], [[0, 4, 7]]), ev(R4[0], [comm_attr([COMMS[1]]), [0, 5, 100]])]
        out.append(mk('chain', ops))
    return out

def length_cases(rng, n):
    out = []
    def path(total):
        segs = []
        while total > 0:
            k = min(total, rng.choice([255, 200, 100, 1]))
            segs.append((2, [rng.choice(ASNS)] * k)); total -= k
        return segs
    for prof in ('debug', 'release'):
        for total in (254, 255, 256, 257, 300, 511, 512):
            for c, v in ((1, 200), (0, total), (2, 255), (0, total & 255), (1, 256)):
                segs = path(total)
                ops = setup([], [(1, [[6, c, v]], [2], NOACT())], [(1, [1])], [(1, 1, [1])])
                ops += [ev(R4[0], [aspath_attr(segs)]), ev(R4[0], [aspath_attr(segs + [(1, [1, 2]), (3, [7]), (4, [8, 9])])])]
                out.append(mk('hops', ops, profile=prof))
    for _ in range(n):
        c, v = rng.randrange(3), rng.choice([0, 1, 2, 3, 4])
        ops = setup([], [(1, [[6, c, v]], [2], act(prepend=[65009, rng.choice([1, 2, 255, 256]), rng.randrange(2)]))], [(1, [1])], [(1, 1, [1])])
        ops += [ev(R4[0], [aspath_attr(gen_path(rng))], confed=rng.randrange(2)) for _ in range(4)]
        ops += [ev(R4[0], [aspath_attr([(2, [65001] * k)])], confed=cf) for k in (254, 255) for cf in (0, 1)]
        ops += [ev(R4[0], [aspath_attr([(3, [65001] * 255), (2, [])])], confed=1)]
        out.append(mk('hops', ops, profile=rng.choice(['debug', 'release'])))
    return out

def api_cases(rng, n):
    """attribute contents only the API can produce: AS_PATH that is not wire-well-formed"""
    out = []
    bad = [[2], [2, 1], [2, 1, 0, 0], [9, 0], [0, 1, 0, 0, 0xfd, 0xe9], [2, 1, 0, 0, 0xfd, 0xe9, 7], [5, 2, 0, 0, 0, 1, 0, 0, 0, 2],
           [2, 255] + [0, 0, 0, 1] * 3, [1], [3, 0, 2]]
    for b in bad:
        for prof in ('debug', 'release'):
            stmts = [(1, [[6, 1, 0]], [], act(prepend=[65009, 2, 1])), (2, [[2, 1, 0]], [2], NOACT())]
            ops = setup([[2, 1, [[0, 2, 65001, 0], [0, 1, 65001, 0], [0, 3, 65001, 0]]]], stmts, [(1, [1, 2])], [(1, 1, [1]), (0, 1, [1])])
            ops += [ev(R4[0], [[1, 2, b]], d=d, confed=cf) for d in (0, 1) for cf in (0, 1)]
            out.append(mk('api_aspath', ops, profile=prof))
    for _ in range(n):
        b = [rng.choice([0, 1, 2, 3, 4, 5, 255]) if i % 3 == 0 else rng.choice([0, 1, 2, 253, 65]) for i in range(rng.randint(0, 11))]
        stmts = [(1, [gen_valcond(rng)], [], gen_actions(rng, 0.5)), (2, [[2, 1, rng.randrange(3)], [6, rng.randrange(3), rng.randrange(3)]], [2], NOACT())]
        ops = setup([gen_apset(rng, 1)], stmts, [(1, [1, 2])], [(1, 1, [1])])
        ops += [ev(R4[0], [[1, 2, b]] + gen_attrs(rng)[:2]) for _ in range(3)]
        out.append(mk('api_aspath', ops, profile=rng.choice(['debug', 'release'])))
    return out

def med_cases(rng):
    out = []
    for prof in ('debug', 'release'):
        for t, v in ((0, (1 << 63) - 1), (0, -(1 << 63)), (0, U32), (0, -1), (0, 1), (1, -1), (1, U32 + 1), (1, (1 << 63) - 1), (0, -U32 - 1)):
            ops = setup([], [(1, [], [1], act(med=[t, v]))], [(1, [1])], [(1, 1, [1])])
            ops += [ev(R4[0], a) for a in ([], [[0, 4, 0]], [[0, 4, 5]], [[0, 4, U32]], [[1, 4, [0, 0, 0, 5]]])]
            out.append(mk('med', ops, profile=prof))
    return out

# ---------------------------------------------------------------- CRUD histories
def crud_cases(rng, n, length):
    out = []
    for _ in range(n):
        ops = []
        names = [1, 2]
        probes = [gen_route(rng) for _ in range(2)]
        malformed = rng.random() < 0.25
        if rng.random() < 0.6:
            # start from a live chain: sets of every kind, a statement on two or three of them,
            # a policy and both assignments, so that in-use checks have something to protect
            kinds = rng.sample(range(6), rng.randint(1, 3))
            conds = [[k, 1, (rng.choice([0, 2]) if k < 2 else rng.randrange(3))] for k in kinds]
            ops += setup([SETGEN[k](rng, 1) for k in range(6)], [(1, conds, rng.choice([[], [1], [2]]), gen_actions(rng, 0.2, allow_nh=False))],
                         [(1, [1])], [(1, rng.choice([1, 2]), [1])] + ([(0, rng.choice([1, 2]), [1])] if rng.random() < 0.5 else []))
        for _ in range(rng.randint(length // 2, length)):
            x = rng.random()
            if x < 0.22:
                kind = rng.randrange(6)
                s = SETGEN[kind](rng, rng.choice(names))
                if malformed and rng.random() < 0.3:
                    s[2].insert(rng.randint(0, len(s[2])), [[[0], 1, 2], [0], [2], [3], [3], [3]][kind])
                if rng.random() < 0.1: s[2] = []
                if kind == 0 and malformed and rng.random() < 0.2: s[2].append([[ip4(10, 0, 0, 0), 33], 8, 32])
                ops.append([1, int(rng.random() < 0.3), s])
            elif x < 0.32:
                kind = rng.randrange(6)
                s = SETGEN[kind](rng, rng.choice(names))
                ops.append([2, int(rng.random() < 0.5), s])
            elif x < 0.50:
                conds = []
                for _ in range(rng.choice([0, 1, 1, 2])):
                    if rng.random() < 0.7:
                        k = rng.randrange(6)
                        conds.append([k, rng.choice(names), rng.randrange(3)])
                    else: conds.append(gen_valcond(rng))
                ops.append([3, rng.choice(names + [3]), conds, rng.choice([[], [0], [1], [2]]), gen_actions(rng, 0.2)])
            elif x < 0.58:
                conds = [[rng.randrange(15)] + [1, 0] for _ in range(rng.choice([0, 0, 1, 2]))]
                conds = [c if c[0] < 6 else gen_valcond(rng) for c in conds]
                ops.append([4, rng.choice(names + [3]), int(rng.random() < 0.5), conds, rng.choice([[], [], [1]]), gen_actions(rng, 0.15)])
            elif x < 0.70:
                ops.append([5, rng.choice(names), [rng.choice(names + [3]) for _ in range(rng.choice([0, 1, 1, 2]))]])
            elif x < 0.77:
                ops.append([6, rng.choice(names), int(rng.random() < 0.5), int(rng.random() < 0.5),
                            [rng.choice(names + [3]) for _ in range(rng.choice([0, 1, 2]))]])
            elif x < 0.87:
                ops.append([7, int(rng.random() < 0.3), rng.randrange(2), rng.choice([1, 2, 1, 2, 0]), [rng.choice(names) for _ in range(rng.choice([0, 1, 1, 2]))]])
            elif x < 0.91:
                ops.append([8, rng.randrange(2), [rng.choice(names)], int(rng.random() < 0.3)])
            else:
                ops.append(rng.choice(probes))
            # "re-evaluate a probe route set after each call"
            if rng.random() < 0.5:
                p = rng.choice(probes); ops.append(p[:1] + [rng.randrange(2)] + p[2:])
            if rng.random() < 0.15: ops.append([10])
        out.append(mk('crud', ops, profile=rng.choice(['debug', 'debug', 'release'])))
    return out

def crud_directed(rng):
    """build a live chain, then try to delete / replace / merge every link of it"""
    out = []
    base_sets = lambda: [gen_pset(rng, 1, 2), gen_nset(rng, 1), gen_apset(rng, 1), gen_cset(rng, 1), gen_eset(rng, 1), gen_lset(rng, 1)]
    for kind in range(6):
        sets = base_sets()
        st = [(1, [[kind, 1, 0 if kind < 2 else rng.randrange(3)]], [2], NOACT())]
        ops = setup(sets, st, [(1, [1])], [(1, 1, [1]), (0, 2, [1])])
        probe = gen_route(rng)
        bad = [[[0], 1, 2], [0], [2], [3], [3], [3]][kind]
        attack = [[2, 1, SETGEN[kind](rng, 1)], [2, 0, sets[kind]], [1, 1, SETGEN[kind](rng, 1)], [1, 0, SETGEN[kind](rng, 1)],
                  [1, 1, [kind, 1, []]], [1, 1, [kind, 1, [bad]]],      # replace whose add would fail: must not lose the in-use set
                  [4, 1, 1, [], [], NOACT()], [4, 1, 0, [[kind, 1, 0]], [], NOACT()], [3, 1, [[6, 0, 1]], [], NOACT()],
                  [6, 1, 0, 1, []], [6, 1, 0, 0, [1]], [5, 1, [1]], [6, 1, 1, 1, []]]
        rng.shuffle(attack)
        for a in attack: ops += [a, probe, [9, 1 - probe[1]] + probe[2:]]
        # now unwind the chain top-down; every step must succeed and free the next one
        ops += [[10], [8, 1, [1], 0], [8, 0, [], 1], probe, [6, 1, 1, 0, [1]], [4, 1, 0, [[kind, 1, 0]], [], NOACT()], [2, 0, sets[kind]],
                [1, 1, SETGEN[kind](rng, 1)], [2, 1, sets[kind]], [10], [6, 1, 0, 1, []], [4, 1, 1, [], [], NOACT()]]
        out.append(mk('crud_directed', ops))
    # replace_defined_set removes first and adds second: an UNUSED set is lost when the add fails (code 1), an in-use one is refused
    for kind in range(6):
        bad = [[[0], 1, 2], [0], [2], [3], [3], [3]][kind]
        st = SETGEN[kind](rng, 1)
        out.append(mk('crud_replace', [[1, 0, st], [10], [1, 1, [kind, 1, [bad]]], [10], [1, 0, st], [1, 1, [kind, 1, []]], [10],
                                       [1, 0, st], [3, 1, [[kind, 1, 0]], [2], NOACT()], [1, 1, [kind, 1, [bad]]], [1, 1, [kind, 1, []]], [10]]))
    # host bits inside the boundary nibble: treebitmap refuses the key
    out.append(mk('crud_hostbits', [[1, 0, [0, 1, [[[ip4(10, 0, 0, 0), 6], 8, 32]]]]]))
    out.append(mk('crud_hostbits', [[1, 0, [0, 1, [[[ip4(10, 0, 0, 0), 8], 8, 32]]]], [1, 0, [0, 1, [[[ip4(10, 32, 0, 0), 10], 8, 32]]]]]))
    # same key twice, delete with a different raw address, zero entries
    out.append(mk('crud_sets', [[1, 0, [0, 1, [[[ip4(10, 0, 0, 0), 8], 8, 32], [[ip4(10, 0, 0, 0), 8], 24, 24], [[ip4(0, 0, 0, 0), 0], 0, 8],
                                               [[ip4(0, 0, 0, 0), 0], 1, 9], [[ip6(0), 0], 0, 64]]]], [10],
                                [2, 0, [0, 1, [[[ip4(10, 0, 0, 0), 8], 8, 32], [[ip4(0, 0, 0, 0), 0], 0, 8]]]], [10],
                                [2, 0, [0, 1, [[[ip4(10, 0, 0, 0), 8], 24, 24], [[ip4(0, 0, 0, 0), 0], 1, 9], [[ip6(0), 0], 0, 64]]]], [10],
                                [1, 0, [0, 1, []]], [1, 0, [0, 2, []]], [1, 1, [0, 1, []]]]))
    return out

VRPS = [[ip4(10, 0, 0, 0), 8, 8, 65002], [ip4(10, 1, 0, 0), 16, 24, 65001], [ip4(10, 1, 2, 0), 24, 24, 65001], [ip4(10, 1, 2, 0), 24, 32, 65003],
        [ip4(10, 2, 0, 0), 16, 16, 0], [ip4(192, 168, 0, 0), 16, 24, 65002], [ip6(V6BASE), 32, 48, 65001], [ip6(V6BASE | (1 << 80)), 48, 64, 65002]]

def with_rpki(rng, ops, vrps=None):
    """install an RPKI table first and probe validate for every (prefix, origin AS) the evaluations can ask about"""
    vrps = vrps if vrps is not None else rng.sample(VRPS, rng.randint(1, len(VRPS)))
    nets, asns = [], {0}
    for op in ops:
        if op[0] == 9:
            if op[3] not in nets: nets.append(op[3])
            asns.add(op[2][4])
            for a in op[4]:
                d = attr_in(a)
                if d is not None and d['code'] == 2 and d['k'] != 0:
                    for _, l in iter_segs(d['data']): asns.update(l)
        if op[0] == 3 and op[4][4]: asns.add(op[4][4][0][0])
    probes = [[12, n, a] for n in nets for a in sorted(asns)]
    return [[11, vrps]] + ops + probes

def rpki_cases(rng, n):
    out = []
    for _ in range(n):
        stmts = [(1, [[8, rng.randrange(3)]] + ([gen_valcond(rng)] if rng.random() < 0.3 else []), rng.choice([[], [1], [2]]),
                  gen_actions(rng, 0.25, allow_nh=False)),
                 (2, [[8, rng.randrange(3)]], [rng.choice([1, 2])], NOACT())]
        ops = setup([], stmts, [(1, [1, 2])], [(1, rng.choice([1, 2]), [1]), (0, rng.choice([1, 2]), [1])])
        routes = []
        for _ in range(rng.randint(4, 8)):
            x = rng.random()
            attrs = [] if x < 0.15 else [aspath_attr(gen_path(rng))] + ([[0, 4, 5]] if x > 0.8 else [])
            if x > 0.93: attrs = [[1, 2, rng.choice([[2, 1, 0, 0], [2], [2, 2, 0, 0, 253, 233], [1, 1, 0, 0, 253, 233, 2, 1, 0, 0, 253, 234, 2, 9]])]]
            routes.append(ev(rng.choice(R4[:8] + R6[:3]), attrs, d=rng.randrange(2), src=rng.choice([SRC_E, SRC_I, SRC_L])))
        body = ops + routes
        # a third of the cases evaluate once before the table is installed (rpki = None)
        if rng.random() < 0.3:
            out.append(mk('rpki', [routes[0]] + with_rpki(rng, body), profile=rng.choice(['debug', 'release'])))
        else:
            out.append(mk('rpki', with_rpki(rng, body), profile=rng.choice(['debug', 'debug', 'release'])))
    return out

# ---------------------------------------------------------------- Global level: per-peer assignments
def gmk(cls, ops): return {'cls': cls, 'kind': 'global', 'profile': 'debug', 'ops': ops + [[24]]}

def peer_route(rng):
    r = gen_route(rng, d=1)
    return r[2:]

def global_cases(rng, n):
    out = []
    for _ in range(n):
        ops = []
        # a small world: sets of three kinds, three statements, two policies
        kinds = rng.sample(range(6), 3)
        sets = [SETGEN[k](rng, 1) for k in kinds]
        stmts = [(i, [[rng.choice(kinds), 1, rng.choice([0, 2])]] if rng.random() < 0.7 else [], rng.choice([[], [1], [2]]),
                  gen_actions(rng, 0.15)) for i in (1, 2, 3)]
        ops += setup(sets, stmts, [(1, [1, 2]), (2, [3] + ([1] if rng.random() < 0.3 else []))], [])
        ops += [[20, 4, []], [20, 5, rng.choice([[], [[rng.choice([1, 2]), [rng.choice([1, 2, 3])]]]])]]
        probes = [peer_route(rng) for _ in range(2)]
        for _ in range(rng.randint(8, 20)):
            x = rng.random()
            peer = rng.choice([4, 5, 5, 7])
            if x < 0.2: ops.append([21, peer, rng.choice([1, 1, 1, 0]), rng.choice([1, 2]), [rng.choice([1, 2, 3]) for _ in range(rng.choice([1, 1, 2]))]])
            elif x < 0.3: ops.append([22, peer, rng.choice([1, 1, 0]), [rng.choice([1, 2])], int(rng.random() < 0.3)])
            elif x < 0.4: ops.append([20, rng.choice([4, 6]), rng.choice([[], [[1, [rng.choice([1, 2, 3])]]]])])
            elif x < 0.5: ops.append([6, rng.choice([1, 2]), int(rng.random() < 0.5), int(rng.random() < 0.5), [rng.choice([1, 2, 3])]])
            elif x < 0.6: ops.append([5, rng.choice([1, 2, 3]), [rng.choice([1, 2, 3])]])
            elif x < 0.68: ops.append([4, rng.choice([1, 2, 3]), int(rng.random() < 0.5), [], [], NOACT()])
            elif x < 0.76: ops.append([3, rng.choice([1, 2, 3]), [gen_valcond(rng)], [], NOACT()])
            elif x < 0.84:
                k = rng.choice(kinds)
                ops.append(rng.choice([[2, 1, SETGEN[k](rng, 1)], [1, 1, SETGEN[k](rng, 1)], [1, 0, SETGEN[k](rng, 1)]]))
            elif x < 0.92: ops.append([7, int(rng.random() < 0.3), rng.randrange(2), rng.choice([1, 2]), [rng.choice([1, 2])]])
            else: ops.append([8, rng.randrange(2), [rng.choice([1, 2])], int(rng.random() < 0.4)])
            if rng.random() < 0.6: ops.append([23, rng.choice([4, 5, 7])] + rng.choice(probes))
            if rng.random() < 0.1: ops.append([24])
        out.append(gmk('global', ops))
    # directed: a policy referenced ONLY by a peer's override must be protected, with everything below it
    for kind in range(6):
        st = SETGEN[kind](rng, 1)
        ops = setup([st], [(1, [[kind, 1, 0]], [2], NOACT())], [(1, [1])], [])
        ops += [[20, 4, []], [21, 4, 1, 1, [1]]]
        r = peer_route(rng)
        attack = [[6, 1, 0, 1, []], [6, 1, 0, 0, [1]], [6, 1, 1, 1, []], [5, 1, [1]], [4, 1, 1, [], [], NOACT()], [3, 1, [[6, 0, 1]], [], NOACT()],
                  [2, 1, st], [2, 0, st], [1, 1, SETGEN[kind](rng, 1)], [1, 0, SETGEN[kind](rng, 1)]]
        rng.shuffle(attack)
        for a in attack: ops += [a, [23, 4] + r]
        ops += [[24], [22, 4, 1, [1], 0], [23, 4] + r, [6, 1, 0, 1, []], [24]]
        out.append(gmk('global_directed', ops))
    return out

def gen_cases(rng, tier):
    q = tier == 'quick'
    from gen import c14_enum
    cases = c14_enum.enum_cases()        # enumerated on every run, before anything random
    import os
    only = os.environ.get('VERIF_C14_CLASSES')          # self-test aid: 'enum' / 'enum-table' run the enumerated classes alone
    if only == 'enum': return cases
    if only == 'enum-table': return [c for c in cases if c.get('kind') != 'global']
    cases += prefix_cases(rng, 80 if q else 600)
    cases += prefix_merge_cases(rng, 80 if q else 450)
    cases += aspath_cases(rng, 80 if q else 600)
    cases += aspath_cases(rng, 40 if q else 300, regex_p=1.0, cls='aspath_regex')
    cases += community_cases(rng, 60 if q else 500)
    cases += chain_cases(rng, 150 if q else 1100)
    cases += length_cases(rng, 6 if q else 60)
    cases += api_cases(rng, 30 if q else 400)
    cases += med_cases(rng)
    cases += rpki_cases(rng, 60 if q else 220)
    cases += global_cases(rng, 100 if q else 600)
    cases += crud_directed(rng)
    if not q:
        for _ in range(20): cases += crud_directed(rng)[:6]
    cases += crud_cases(rng, 250 if q else 1600, 14 if q else 30)
    return cases
