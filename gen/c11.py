"""C11: generators, renderers and Spec oracle for the restarting-speaker deferral
machine (daemon/src/gr.rs RestartingDeferral), its driver glue and the deferral
slice of the RIB."""
import itertools, json, os
from vp import val, coqrun, rustrun
from vp.val import cN, cbool, clist, cpair, copt
from gen.common import IPV4, IPV6, IPV4_VPN

FAMS = [IPV4, IPV6, IPV4_VPN]

# ---------------------------------------------------------------- rendering
def in_to_val(i):
    t = i[0]
    if t == 'est': return [0, i[1], list(i[2])]
    if t == 'eor': return [1, i[1], i[2]]
    if t == 'wd': return [2, i[1]]
    return [3]

def in_to_coq(i):
    t = i[0]
    if t == 'est': return '(PeerEstablished %s %s)' % (cN(i[1]), clist([cN(f) for f in i[2]]))
    if t == 'eor': return '(EorReceived %s %s)' % (cN(i[1]), cN(i[2]))
    if t == 'wd': return '(PeerWithdrawn %s)' % cN(i[1])
    return 'TimerExpired'

def canon_outs(outs):
    """hash-set order is unspecified: family lists inside DeferFamilies/EndDeferral
    are sorted, and every maximal run of FamilyDeferralComplete is sorted."""
    res, run = [], []
    for o in outs:
        if o[0] == 2:
            run.append(o)
            continue
        res += sorted(run); run = []
        if o[0] in (0, 3):
            res.append([o[0], sorted(o[1])])
        else:
            res.append(o)
    return res + sorted(run)

def ins_args(o):
    """('ins', f, net, peer, pid, filtered[, nh, nhinv])"""
    nh, nhinv = (o[6], o[7]) if len(o) > 6 else (0, False)
    return o[1], o[2], o[3], o[4], o[5], nh, nhinv

def tabop_to_val(o):
    if o[0] == 'start': return [0, o[1]]
    if o[0] == 'ins':
        f, net, peer, pid, flt, nh, nhinv = ins_args(o)
        return [1, f, net, peer, pid, 1 if flt else 0, nh, 1 if nhinv else 0]
    if o[0] == 'rem': return [3, o[1], o[2], o[3], o[4]]
    if o[0] == 'drop': return [4, o[1], o[2]]
    if o[0] == 'restale': return [5, o[1], o[2]]
    if o[0] == 'dstale': return [6, o[1], o[2]]
    if o[0] == 'nhv': return [7, o[1], 1 if o[2] else 0]
    return [2, o[1]]

def tabop_to_coq(o):
    if o[0] == 'start': return '(TStart %s)' % cN(o[1])
    if o[0] == 'ins':
        f, net, peer, pid, flt, nh, nhinv = ins_args(o)
        return '(TInsert %s %s %s %s %s %s %s)' % (cN(f), cN(net), cN(peer), cN(pid), cbool(flt), cN(nh), cbool(nhinv))
    if o[0] == 'rem': return '(TRemove %s %s %s %s)' % (cN(o[1]), cN(o[2]), cN(o[3]), cN(o[4]))
    if o[0] == 'drop': return '(TDrop %s %s)' % (cN(o[1]), cN(o[2]))
    if o[0] == 'restale': return '(TRestale %s %s)' % (cN(o[1]), cN(o[2]))
    if o[0] == 'dstale': return '(TDropStale %s %s)' % (cN(o[1]), cN(o[2]))
    if o[0] == 'nhv': return '(TNhValid %s %s)' % (cN(o[1]), cbool(o[2]))
    return '(TEnd %s)' % cN(o[1])

def sysev_to_val(e):
    if e[0] == 'rd': return [0, in_to_val(e[1])]
    return [1, e[1], e[2], e[3], e[4], 1 if e[5] else 0]

def sysev_to_coq(e):
    if e[0] == 'rd': return '(EvRd %s)' % in_to_coq(e[1])
    return '(EvInsert %s %s %s %s %s)' % (cN(e[1]), cN(e[2]), cN(e[3]), cN(e[4]), cbool(e[5]))

# ------------------------------------------------------- Spec (python mirror)
def cfg_fams(cfg, p):
    for k, v in cfg:
        if k == p:
            return v
    return []

def mk_cfg(pairs):
    """HashMap built by inserting the pairs in order (last value wins, first position kept)"""
    m = []
    for p, fs in pairs:
        for k in range(len(m)):
            if m[k][0] == p:
                m[k] = (p, list(fs)); break
        else:
            m.append((p, list(fs)))
    return m

def disciplined(cfg, ins):
    up = set()
    for i in ins:
        if i[0] == 'est':
            if i[1] in up or not set(i[2]) <= set(cfg_fams(cfg, i[1])):
                return False
            up.add(i[1])
        elif i[0] == 'eor':
            if i[1] not in up:
                return False
        elif i[0] == 'wd':
            up.discard(i[1])
    return True

def unblocks(e, p, f):
    if e[0] == 'est': return e[1] == p and f not in e[2]
    if e[0] == 'eor': return e[1] == p and e[2] == f
    if e[0] == 'wd': return e[1] == p
    return False

class Prop:
    pid = 'C11'
    props_file = 'Props/C11.v'
    required_theorems = ['deferring_implies_pending', 'pending_refines_spec', 'family_released_exactly_once',
                         'release_only_when_unblocked_or_timer', 'non_gr_peer_never_blocks',
                         'held_prefixes_announced_once_partial', 'end_deferral_emits_held_once',
                         'insert_while_deferring_is_held', 'mutators_quiet_while_deferring', 'marking_and_nexthop_quiet_while_deferring']
    correspondence_name = ('Model/Deferral.v rd_new/rd_step vs daemon/src/gr.rs RestartingDeferral::{new,process} '
                           '(harness/daemon/gr_hx.rs)')
    rule = ('cases = (configured GR families per peer, timer duration, input sequence); a case is non-trivial when the '
            'machine starts deferring (new() returns DeferFamilies); distinct = distinct (configuration, per-step output '
            'kinds and completion flags)')
    exhaustive = {'quick': True, 'thorough': True}
    trusted_base = ['peers are small integers mapped to 192.0.2.n by the harness; families are (afi<<16|safi) codes',
                    'FnvHashMap/FnvHashSet iteration order is unspecified: observations are compared modulo the order of '
                    'FamilyDeferralComplete runs and of family lists inside DeferFamilies/EndDeferral']
    assumptions = ['the theorems about release counts assume the session discipline of the driver (Spec/DeferralSpec.v '
                   'disciplined): PeerEstablished only for a peer without an established session and with families inside '
                   'its configured GR families (negotiate_gr), End-of-RIB only on an established session']

    # ---- rendering
    def case_to_val(self, c):
        k = c.get('kind', 'rd')
        if k == 'tab':
            return [2, [tabop_to_val(o) for o in c['ops']]]
        peers = [[p, list(fs)] for p, fs in c['peers']]
        dur = [] if c['dur'] is None else [c['dur']]
        if k == 'sys':
            return [0, peers, dur, list(FAMS), [sysev_to_val(e) for e in c['evs']]]
        return [0, peers, dur, [in_to_val(i) for i in c['ins']]]

    def case_to_coq(self, c):
        k = c.get('kind', 'rd')
        if k == 'tab':
            return 'run_tab_case %s' % clist([tabop_to_coq(o) for o in c['ops']])
        peers = clist(['(%s, %s)' % (cN(p), clist([cN(f) for f in fs])) for p, fs in c['peers']])
        dur = copt(None if c['dur'] is None else cN(c['dur']))
        if k == 'sys':
            return 'run_sys_case %s %s %s %s' % (peers, dur, clist([cN(f) for f in FAMS]),
                                                 clist([sysev_to_coq(e) for e in c['evs']]))
        return 'run_case %s %s %s' % (peers, dur, clist([in_to_coq(i) for i in c['ins']]))

    def case_to_json(self, c):
        return json.loads(json.dumps(c))

    def case_from_json(self, j):
        c = dict(j)
        if 'peers' in j:
            c['peers'] = [(p, list(fs)) for p, fs in j['peers']]
        if 'ins' in j:
            c['ins'] = [tuple(i) for i in j['ins']]
        if 'ops' in j:
            c['ops'] = [tuple(o) for o in j['ops']]
        if 'evs' in j:
            c['evs'] = [('rd', tuple(e[1])) if e[0] == 'rd' else tuple(e) for e in j['evs']]
        return c

    def corpus_cases(self):
        d = os.path.join(os.path.dirname(os.path.dirname(os.path.abspath(__file__))), 'corpus', 'C11')
        res = []
        if os.path.isdir(d):
            for fn in sorted(os.listdir(d)):
                if fn.endswith('.json'):
                    res.append(self.case_from_json(json.load(open(os.path.join(d, fn)))['case']))
        return res

    # ---- generation
    @staticmethod
    def alphabet(peers, fams, subsets=None):
        al = []
        for p in peers:
            subs = subsets if subsets is not None else [
                [f for k, f in enumerate(fams) if m >> k & 1] for m in range(1 << len(fams))]
            for s in subs:
                al.append(('est', p, list(s)))
            for f in fams:
                al.append(('eor', p, f))
            al.append(('wd', p))
        al.append(('timer',))
        return al

    def gen_cases(self, rng, tier):
        cases = []
        F = FAMS
        # -- A: two peers, two families, every sequence of exact length d (shorter ones are prefixes)
        cfgsA = [[(1, [F[0], F[1]]), (2, [F[1]])],
                 [(1, [F[0]]), (2, [F[0], F[1]])],
                 [(1, [F[0], F[1]]), (2, [])]]
        alA = self.alphabet([1, 2], F[:2])
        # a peer that is not configured at all, and a family outside the two
        alA += [('est', 3, [F[0]]), ('eor', 3, F[0]), ('wd', 3), ('eor', 1, F[2]), ('est', 2, [F[2], F[1]])]
        dA = 3 if tier == 'quick' else 4
        for ci, cfg in enumerate(cfgsA):
            if tier == 'quick' and ci > 0:
                continue
            for seq in itertools.product(alA, repeat=(dA if ci == 0 else 3)):
                cases.append(dict(peers=cfg, dur=360, ins=list(seq)))
        # -- A2: degenerate configurations and timer durations, every pair of inputs: no GR peer at all, only peers
        #        without GR, a duplicated peer key (last value wins), duplicated families, timer disabled / 0 s
        for cfg, dur in [([], 360), ([(1, []), (2, [])], 360), ([(1, [F[0]]), (1, [F[1]])], 360),
                         ([(1, [F[0], F[0], F[1]])], None), ([(1, [F[0]]), (2, [F[0]])], 0),
                         ([(1, [F[0], F[1]]), (2, [F[1]])], None)]:
            for seq in itertools.product(alA, repeat=2):
                cases.append(dict(peers=cfg, dur=dur, ins=list(seq), cls='rd_degenerate_config'))
        # -- B: three peers, three families, all sequences of length 2 (quick) / 3 (thorough) after
        #       state-reaching prefixes
        cfgB = [(1, [F[0], F[1], F[2]]), (2, [F[1], F[2]]), (3, [F[2], F[2]])]
        alB = self.alphabet([1, 2, 3], F, subsets=[[], [F[0]], [F[1], F[2]], [F[0], F[1], F[2]], [F[2], F[2], F[0]]])
        presB = [[],
                 [('est', 1, [F[0], F[1], F[2]])],
                 [('est', 1, [F[0], F[1], F[2]]), ('est', 2, [F[1], F[2]]), ('eor', 1, F[1])],
                 [('est', 3, [F[2]]), ('eor', 3, F[2]), ('est', 2, [F[2]])],
                 [('wd', 1), ('est', 2, [F[1], F[2]]), ('est', 3, [F[2]]), ('eor', 2, F[2])]]
        dB = 2 if tier == 'quick' else 3
        for pi, pre in enumerate(presB):
            for seq in itertools.product(alB, repeat=(dB if pi < 2 else 2)):
                cases.append(dict(peers=cfgB, dur=None if len(pre) == 1 else 90, ins=pre + list(seq)))
        # -- C: random longer sequences, mostly disciplined, over random configurations
        nrand = 1500 if tier == 'quick' else 20000
        for _ in range(nrand):
            npeer = rng.choice([1, 2, 3, 3])
            cfg = []
            for p in range(1, npeer + 1):
                k = rng.choice([0, 1, 2, 2, 3])
                cfg.append((p, rng.sample(F, k)))
            if rng.random() < 0.1:
                cfg.append((rng.randint(1, npeer), rng.sample(F, rng.randint(0, 3))))   # duplicate key: last wins
            c = mk_cfg(cfg)
            ins = []
            up = set()
            n = rng.randint(2, 14)
            wild = rng.random() < 0.25          # undisciplined stream
            for _ in range(n):
                x = rng.random()
                p = rng.randint(1, npeer + (1 if rng.random() < 0.1 else 0))
                if wild:
                    ins.append(rng.choice(self.alphabet([p], F)))
                    continue
                if x < 0.35:
                    if p in up:
                        ins.append(('wd', p)); up.discard(p)
                    else:
                        cf = cfg_fams(c, p)
                        sub = [f for f in cf if rng.random() < 0.75]
                        ins.append(('est', p, sub)); up.add(p)
                elif x < 0.8 and up:
                    q = rng.choice(sorted(up))
                    ins.append(('eor', q, rng.choice(F)))
                elif x < 0.9:
                    ins.append(('wd', p)); up.discard(p)
                else:
                    ins.append(('timer',))
            cases.append(dict(peers=cfg, dur=rng.choice([None, 1, 360]), ins=ins))
        # -- D: the deferral slice of the RIB
        # D1 (enumerated): every sequence of length 3 (thorough: 4) over an alphabet that has every operation of the
        #     slice on one prefix of one family (two peers, an unfiltered, a filtered and a next-hop-invalid path, a second
        #     prefix, a withdrawal, a peer drop, stale marking and purge, the next hop going down and up) and a second family
        a, b = F[0], F[1]
        alT = [('start', a), ('end', a),
               ('ins', a, 0, 1, 0, False, 1, False), ('ins', a, 0, 2, 0, False, 2, False),
               ('ins', a, 0, 1, 0, True, 1, False), ('ins', a, 0, 1, 0, False, 1, True),
               ('ins', a, 1, 1, 0, False, 1, False),
               ('rem', a, 0, 1, 0), ('drop', a, 1), ('restale', a, 1), ('dstale', a, 1),
               ('nhv', 1, False), ('nhv', 1, True),
               ('start', b), ('ins', b, 0, 1, 0, False, 1, False), ('end', b)]
        dT = 3 if tier == 'quick' else 4
        for seq in itertools.product(alT, repeat=dT):
            cases.append(dict(kind='tab', cls='tab_enum', ops=list(seq)))
        # D2 (enumerated): from states with something held (two paths of one prefix while deferring; a filtered-only
        #     and a next-hop-invalid-only destination; double start; end without start), every pair of operations
        presT = [[('start', a), ('ins', a, 0, 1, 0, False, 1, False), ('ins', a, 0, 2, 0, False, 2, False)],
                 [('start', a), ('ins', a, 0, 1, 0, True, 1, False), ('ins', a, 1, 2, 0, False, 2, True)],
                 [('start', a), ('start', a), ('ins', a, 0, 1, 0, False, 1, False), ('end', a), ('end', a)],
                 [('ins', a, 0, 1, 0, False, 1, False), ('ins', a, 0, 2, 0, False, 2, False), ('restale', a, 1), ('start', a)],
                 [('end', a), ('ins', a, 0, 1, 0, False, 1, False), ('nhv', 1, False), ('start', a), ('start', b)]]
        for pre in presT:
            for seq in itertools.product(alT, repeat=2):
                cases.append(dict(kind='tab', cls='tab_enum_from_state', ops=pre + list(seq)))
        # D3: random longer sequences
        ntab = 600 if tier == 'quick' else 6000
        for _ in range(ntab):
            ops = []
            fams = rng.sample(F, rng.choice([1, 2, 2, 3]))
            marks = rng.random() < 0.5       # stale marking re-sorts: no two paths of one peer in a destination then
            for f in fams:
                if rng.random() < 0.8:
                    ops.append(('start', f))
            for _ in range(rng.randint(1, 12)):
                x = rng.random()
                f = rng.choice(fams if rng.random() < 0.9 else F)
                pid = 0 if marks else rng.choice([0, 0, 1])
                if x < 0.45:
                    ops.append(('ins', f, rng.randint(0, 3), rng.randint(1, 3), pid, rng.random() < 0.25,
                                rng.choice([0, 1, 1, 2]), rng.random() < 0.15))
                elif x < 0.55:
                    ops.append(('rem', f, rng.randint(0, 3), rng.randint(1, 3), pid))
                elif x < 0.61:
                    ops.append(('drop', f, rng.randint(1, 3)))
                elif x < 0.67 and marks:
                    ops.append(('restale', f, rng.randint(1, 3)))
                elif x < 0.73 and marks:
                    ops.append(('dstale', f, rng.randint(1, 3)))
                elif x < 0.80:
                    ops.append(('nhv', rng.choice([1, 2]), rng.random() < 0.5))
                elif x < 0.92:
                    ops.append(('end', f))
                else:
                    ops.append(('start', f))
            for f in fams:
                if rng.random() < 0.7:
                    ops.append(('end', f))
            cases.append(dict(kind='tab', cls='tab_random', ops=ops))
        # -- E: the composed system (real Global / TableManager / process_restarting_outputs)
        nsys = 500 if tier == 'quick' else 5000
        for _ in range(nsys):
            npeer = rng.choice([1, 2, 2, 3])
            cfg = [(p, rng.sample(F, rng.choice([0, 1, 2, 2, 3]))) for p in range(1, npeer + 1)]
            c = mk_cfg(cfg)
            evs, up = [], set()
            wild = rng.random() < 0.15
            for _ in range(rng.randint(3, 16)):
                x = rng.random()
                p = rng.randint(1, npeer)
                if x < 0.45:
                    evs.append(('ins', rng.choice(F), rng.randint(0, 2), rng.randint(1, 3), rng.choice([0, 0, 1]), False))
                elif wild:
                    evs.append(('rd', rng.choice(self.alphabet([p], F))))
                elif x < 0.62:
                    if p in up:
                        evs.append(('rd', ('wd', p))); up.discard(p)
                    else:
                        evs.append(('rd', ('est', p, [f for f in cfg_fams(c, p) if rng.random() < 0.75]))); up.add(p)
                elif x < 0.88 and up:
                    evs.append(('rd', ('eor', rng.choice(sorted(up)), rng.choice(F))))
                elif x < 0.94:
                    evs.append(('rd', ('wd', p))); up.discard(p)
                else:
                    evs.append(('rd', ('timer',)))
            cases.append(dict(kind='sys', peers=cfg, dur=rng.choice([None, 360, 360]), evs=evs))
        return cases

    # ---- running
    def run_impl(self, cases, tier):
        idx_sys = [k for k, c in enumerate(cases) if c.get('kind') == 'sys']
        idx_gr = [k for k, c in enumerate(cases) if c.get('kind') != 'sys']
        out = [None] * len(cases)
        if idx_gr:
            res, err = rustrun.daemon_test('C11', 'gr::verif_hx::verif_gr_cases',
                                           [self.case_to_val(cases[k]) for k in idx_gr])
            if res is None:
                return None, err
            for k, r in zip(idx_gr, res):
                out[k] = r
        if idx_sys:
            res, err = rustrun.daemon_test('C11sys', 'event::verif_hx::gr_glue::verif_event_gr_cases',
                                           [self.case_to_val(cases[k]) for k in idx_sys])
            if res is None:
                return None, err
            for k, r in zip(idx_sys, res):
                out[k] = r
        return out, ''

    def run_model(self, cases, tier):
        pre = 'From RB Require Import Base.Val Model.Deferral Model.DeferralRib.\nOpen Scope N_scope.'
        return coqrun.eval_terms('C11m', pre, [self.case_to_coq(c) for c in cases], shards=8)

    def canon(self, case, obs):
        if obs == [-1]:
            return obs
        k = case.get('kind', 'rd')
        if k == 'tab':
            return [[[r[0], sorted(r[1])] if r and r[0] in (2, 3) else r, d] for r, d in obs]
        if k == 'sys':
            return [obs[0], obs[1], [[a, b, fl, sorted(ann)] for a, b, fl, ann in obs[2]]]
        return [canon_outs(obs[0]), obs[1], [[canon_outs(o), b] for o, b in obs[2]]]

    # ---- Spec oracle: judges the implementation's observations against the
    # property text (python mirror of Spec/DeferralSpec.v)
    def oracle(self, c, obs):
        k = c.get('kind', 'rd')
        if k == 'tab':
            return oracle_tab(c, obs)
        if k == 'sys':
            return oracle_sys(c, obs)
        if obs == [-1]:
            return 'panic in RestartingDeferral'
        cfg = mk_cfg(c['peers'])
        if not disciplined(cfg, c['ins']):
            return None
        deferred = sorted(set(f for _, fs in cfg for f in fs))
        out0, comp0, steps = obs
        # start-up: exactly the configured families are deferred; a configuration without GR peers completes at once
        d0 = [o for o in out0 if o[0] == 0]
        if deferred:
            if comp0 or len(d0) != 1 or sorted(d0[0][1]) != deferred:
                return 'start-up: deferred families %s not announced by DeferFamilies (%s)' % (deferred, out0)
        elif not comp0 or out0:
            return 'start-up: nothing to defer but the machine is not Completed'
        released = {f: 0 for f in FAMS}
        hist = []
        timer_started = False
        completed = comp0
        peers = [p for p, _ in cfg]
        def blocks(p, f):
            return f in cfg_fams(cfg, p) and not any(unblocks(e, p, f) for e in hist)
        for k, (i, (outs, comp)) in enumerate(zip(c['ins'], steps)):
            was_blocked = {f: any(blocks(p, f) for p in peers) for f in FAMS}
            hist.append(i)
            now_blocked = {f: any(blocks(p, f) for p in peers) for f in FAMS}
            timer_now = (i[0] == 'timer' and timer_started and not completed)
            for o in outs:
                if o[0] == 2:
                    released[o[1]] += 1
                    if now_blocked[o[1]]:
                        return 'step %d: family %d released while a helper peer still awaits it' % (k, o[1])
                elif o[0] == 3:
                    for f in o[1]:
                        released[f] += 1
                    if o[1] and not timer_now:
                        return 'step %d: EndDeferral releases %s without a timer expiry' % (k, o[1])
                elif o[0] == 1:
                    if timer_started:
                        return 'step %d: selection deferral timer started twice' % k
                    timer_started = True
                elif o[0] == 0:
                    return 'step %d: DeferFamilies after start-up' % k
            for f in FAMS:
                if released[f] > 1:
                    return 'step %d: family %d released %d times' % (k, f, released[f])
                if released[f] and f not in deferred:
                    return 'step %d: family %d released but never deferred' % (k, f)
                if f in deferred and not completed and released[f] == 0 and (not now_blocked[f] or timer_now):
                    return 'step %d: family %d no longer awaited from any helper (or timer fired) but not released' % (k, f)
            should_complete = completed or timer_now or not any(now_blocked.values())
            if bool(comp) != bool(should_complete):
                return 'step %d: completed=%s but the history says %s' % (k, comp, should_complete)
            if comp and not completed and not any(o[0] == 3 for o in outs):
                return 'step %d: completion without EndDeferral (restarting flag not cleared)' % k
            if i[0] == 'est' and i[2] and not completed and not timer_started and not comp and \
                    any(f in cfg_fams(cfg, i[1]) for f in FAMS) and was_blocked_by(cfg, hist[:-1], i[1]):
                return 'step %d: first helper established but the selection deferral timer was not started' % k
            completed = bool(comp)
        return None

    def in_known_class(self, kf, c, obs, why):
        return False

    def nontrivial_key(self, c, obs):
        if obs == [-1]:
            return ('panic',)
        k = c.get('kind', 'rd')
        if k == 'tab':
            # non-trivial: something is inserted while deferring and later released
            if any(r and r[0] == 2 and r[1] for r, _ in obs):
                return ('tab', json.dumps(obs))
            return None
        if k == 'sys':
            if obs[0] and any(st[3] for st in obs[2]):
                return ('sys', json.dumps(c['peers']), json.dumps(obs[2]))
            return None
        if not any(o[0] == 0 for o in obs[0]):
            return None
        traj = tuple((tuple(sorted(o[0] for o in outs)), b) for outs, b in obs[2])
        return (json.dumps(mk_cfg(c['peers'])), traj)

    def classify(self, c, obs):
        k = c.get('kind', 'rd')
        if k == 'tab':
            return ['tab', c.get('cls', 'tab_corpus')] + ['tab_' + o[0] for o in c['ops']]
        if k == 'sys':
            tags = ['sys', 'sys_disciplined' if disciplined(mk_cfg(c['peers']), [e[1] for e in c['evs'] if e[0] == 'rd']) else 'sys_undisciplined']
            if obs != [-1] and obs[2] and not obs[2][-1][0]: tags.append('sys_ends_cleared')
            return tags + ['sys_' + (e[1][0] if e[0] == 'rd' else 'insert') for e in c['evs']]
        n = len(c['ins'])
        tags = [c.get('cls', 'rd_machine'), 'len_%s' % ('0-3' if n <= 3 else '4-6' if n <= 6 else '7+'),
                'disciplined' if disciplined(mk_cfg(c['peers']), c['ins']) else 'undisciplined']
        if obs != [-1]:
            if obs[2] and obs[2][-1][1]: tags.append('ends_completed')
            if any(any(o[0] == 3 and o[1] for o in outs) for outs, _ in obs[2]): tags.append('timer_release')
            if any(any(o[0] == 2 for o in outs) for outs, _ in obs[2]): tags.append('family_complete')
        for i in c['ins']:
            tags.append('in_' + i[0])
        return tags


def was_blocked_by(cfg, hist, p):
    """p is still a pending helper (blocks some family) after hist"""
    return any(f in cfg_fams(cfg, p) and not any(unblocks(e, p, f) for e in hist) for f in FAMS)


# ------------------------------------------------------------ RIB-slice oracle
def oracle_tab(c, obs):
    """While a family is deferring nothing of it reaches the distribution layer, whatever touches the table
    (insert, withdrawal, peer drop, stale marking, stale purge, next-hop validity); the table is updated all the
    same, and end_deferral clears the flag and reports every destination once with its eligible paths (a prefix
    received meanwhile that has an eligible path is announced exactly once).  Outside deferral every operation
    reports what it changed."""
    if obs == [-1]:
        return 'panic in the Table operations'
    deferring = {}
    paths = {}          # (f, net) -> {(peer, pid): dict(flt, nh, inv, stale)}
    def elig(p): return not p['flt'] and not p['inv']
    def count(d): return len([1 for p in d.values() if elig(p)])
    def cleanup():
        for key in [key for key, d in paths.items() if not d]:
            del paths[key]
    for k, (o, (res, flag)) in enumerate(zip(c['ops'], obs)):
        if o[0] == 'nhv':
            want = []
            for (ff, net), d in sorted(paths.items()):
                hit = [p for p in d.values() if p['nh'] == o[1] and o[1] != 0 and p['inv'] != (not o[2])]
                for p in hit:
                    p['inv'] = not o[2]
                if hit and not deferring.get(ff):
                    want.append([ff, net, count(d)])
            got = sorted(res[1]) if res and res[0] == 3 else res
            if any(deferring.get(x[0]) for x in (got if isinstance(got, list) else [])):
                return 'op %d: next-hop validity change handed a change of a deferring family to the distribution layer (%s)' % (k, got)
            if got != sorted(want):
                return 'op %d: next-hop validity change reported %s, expected %s' % (k, got, sorted(want))
            continue
        f = o[1]
        dfr = bool(deferring.get(f))
        if o[0] == 'start':
            deferring[f] = True
        elif o[0] == 'ins':
            _, net, peer, pid, flt, nh, nhinv = ins_args(o)
            d = paths.setdefault((f, net), {})
            old = d.get((peer, pid))
            d[(peer, pid)] = dict(flt=flt, nh=nh, inv=nhinv, stale=False)
            if dfr and res != [0]:
                return 'op %d: insert into deferring family %d returned a change' % (k, f)
            if not dfr:
                if not flt or (old is not None and not old['flt']):
                    if res != [1, net, count(d)]:
                        return 'op %d: insert into non-deferring family: got %s, expected a change with %d paths' % (k, res, count(d))
                elif res != [0]:
                    return 'op %d: filtered insert over a filtered / absent path reported %s' % (k, res)
        elif o[0] == 'rem':
            d = paths.get((f, o[2]), {})
            had = d.pop((o[3], o[4]), None)
            if dfr and res != [0]:
                return 'op %d: withdrawal in deferring family %d handed a change (%s) to the distribution layer' % (k, f, res)
            if not dfr:
                want = [1, o[2], count(d)] if (had is not None and not had['flt']) else [0]
                if res != want:
                    return 'op %d: withdrawal in non-deferring family: got %s, expected %s' % (k, res, want)
        elif o[0] in ('drop', 'dstale'):
            want = []
            for (ff, net), d in sorted(paths.items()):
                if ff != f:
                    continue
                gone = [key for key, p in d.items() if key[0] == o[2] and (o[0] == 'drop' or p['stale'])]
                lost = any(elig(d[key]) for key in gone)
                for key in gone:
                    del d[key]
                if lost:
                    want.append([net, count(d)])
            if dfr and res[1]:
                return 'op %d: %s in deferring family %d handed changes (%s) to the distribution layer' % (k, o[0], f, res[1])
            if not dfr and sorted(res[1]) != sorted(want):
                return 'op %d: %s in non-deferring family reported %s, expected %s' % (k, o[0], res[1], sorted(want))
        elif o[0] == 'restale':
            want = []
            for (ff, net), d in sorted(paths.items()):
                if ff != f:
                    continue
                mine = [p for key, p in d.items() if key[0] == o[2]]
                for p in mine:
                    p['stale'] = True
                if any(not p['flt'] for p in mine):
                    want.append([net, count(d)])
            if dfr and res[1]:
                return 'op %d: stale marking in deferring family %d handed changes (%s) to the distribution layer' % (k, f, res[1])
            if not dfr and sorted(res[1]) != sorted(want):
                return 'op %d: stale marking in non-deferring family reported %s, expected %s' % (k, res[1], sorted(want))
        else:
            deferring[f] = False
            want = sorted([net, count(d)] for (ff, net), d in paths.items() if ff == f)
            if res[0] != 2 or sorted(res[1]) != want:
                return 'op %d: end_deferral(%d) reported %s, the destinations are %s' % (k, f, res, want)
        cleanup()
        if bool(flag) != bool(deferring.get(f)):
            return 'op %d: deferring flag of %d is %s' % (k, f, flag)
    return None


# ------------------------------------------------------- composed-system oracle
def oracle_sys(c, obs):
    """Nothing of a deferred family is distributed while a helper peer still holds it back and the timer
    has not fired; at the moment it is released every prefix received meanwhile is distributed exactly
    once; afterwards inserts are distributed at once; when no family is held any more the restarting
    state (selection_deferral, table flags) is cleared."""
    if obs == [-1]:
        return 'panic in the restarting-speaker glue'
    cfg = mk_cfg(c['peers'])
    rdins = [e[1] for e in c['evs'] if e[0] == 'rd']
    if not disciplined(cfg, rdins):
        return None
    deferred = set(f for _, fs in cfg for f in fs)
    peers = [p for p, _ in cfg]
    started, flags0, steps = obs
    if bool(started) != bool(deferred):
        return 'start-up: selection_deferral %s with deferred families %s' % (started, sorted(deferred))
    if [bool(x) for x in flags0] != [f in deferred for f in FAMS]:
        return 'start-up: table deferring flags %s' % flags0
    hist = []
    held = {f: (f in deferred) for f in FAMS}
    timer_started = False
    active = bool(deferred)
    paths = {}
    def blocked(f):
        return any(f in cfg_fams(cfg, p) and not any(unblocks(e, p, f) for e in hist) for p in peers)
    for k, (e, (rd_some, timer_some, flags, ann)) in enumerate(zip(c['evs'], steps)):
        want = []
        if e[0] == 'ins':
            d = paths.setdefault((e[1], e[2]), set())
            d.add((e[3], e[4]))
            if not held[e[1]]:
                want.append([e[1], e[2], len(d)])
        else:
            i = e[1]
            if active:
                if i[0] == 'est' and i[2] and any(f in cfg_fams(cfg, i[1]) and not any(unblocks(x, i[1], f) for x in hist) for f in FAMS):
                    timer_started = True
                hist.append(i)
                fire = (i[0] == 'timer' and timer_started)
                for f in FAMS:
                    if held[f] and (fire or not blocked(f)):
                        held[f] = False
                        want += [[f, net, len(d)] for (ff, net), d in paths.items() if ff == f]
                if not any(held.values()):
                    active = False
        if sorted(ann) != sorted(want):
            return 'event %d: distributed %s, the property requires %s' % (k, sorted(ann), sorted(want))
        if [bool(x) for x in flags] != [held[f] for f in FAMS]:
            return 'event %d: table deferring flags %s, held families %s' % (k, flags, held)
        if bool(rd_some) != active:
            return 'event %d: restarting state present=%s, expected %s' % (k, rd_some, active)
    return None
