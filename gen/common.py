"""Shared pieces of the per-property generators."""
from vp import val
from vp.val import cN, cbool, clist, cpair

IPV4 = (1 << 16) | 1
IPV6 = (2 << 16) | 1
IPV4_VPN = (1 << 16) | 128
EVPN = (25 << 16) | 70

# capabilities as python tuples mirroring coq/Model/Caps.v
def cap_to_val(c):
    t = c[0]
    if t == 'mp': return [1, c[1]]
    if t == 'rr': return [2]
    if t == 'enh': return [5, [list(p) for p in c[1]]]
    if t == 'extmsg': return [6]
    if t == 'gr': return [64, c[1], c[2], [list(p) for p in c[3]]]
    if t == 'as4': return [65, c[1]]
    if t == 'addpath': return [69, [list(p) for p in c[1]]]
    if t == 'err': return [70]
    if t == 'llgr': return [71, [list(p) for p in c[1]]]
    if t == 'fqdn': return [73, list(c[1]), list(c[2])]
    if t == 'unknown': return [0, c[1], list(c[2])]
    raise ValueError(c)

def cap_to_coq(c):
    t = c[0]
    pairs = lambda l: clist([cpair(cN(a), cN(b)) for a, b in l])
    if t == 'mp': return '(CMultiProtocol %s)' % cN(c[1])
    if t == 'rr': return 'CRouteRefresh'
    if t == 'enh': return '(CExtNexthop %s)' % pairs(c[1])
    if t == 'extmsg': return 'CExtMessage'
    if t == 'gr': return '(CGR %s %s %s)' % (cN(c[1]), cN(c[2]), pairs(c[3]))
    if t == 'as4': return '(CFourOctet %s)' % cN(c[1])
    if t == 'addpath': return '(CAddPath %s)' % pairs(c[1])
    if t == 'err': return 'CEnhancedRR'
    if t == 'llgr': return '(CLLGR %s)' % clist(['(%s, %s, %s)' % (cN(a), cN(b), cN(d)) for a, b, d in c[1]])
    if t == 'fqdn': return '(CFqdn %s %s)' % (val.cbytes(c[1]), val.cbytes(c[2]))
    if t == 'unknown': return '(CUnknown %s %s)' % (cN(c[1]), val.cbytes(c[2]))
    raise ValueError(c)

def caps_to_val(l): return [cap_to_val(c) for c in l]
def caps_to_coq(l): return clist([cap_to_coq(c) for c in l])
