"""C03: generators, renderers and Spec oracle for the wire decoders
(bfd::Message::decode, RtrCodec::decode, PeerCodec::try_parse)."""
import json
from vp import val, coqrun
from vp.val import cN, cbool, clist, cpair, cbytes
from gen import hxpacket

PANIC = [-1]

# ------------------------------------------------------------------ BFD
def bfd_valid(rng):
    b0 = (1 << 5) | rng.randrange(32)
    b1 = rng.randrange(256)
    return [b0, b1, rng.randrange(256), 24] + [rng.randrange(256) for _ in range(20)]

def gen_bfd(rng, n):
    out = []
    base = bfd_valid(rng)
    # truncation at every offset, growth past the length field
    for k in range(0, 30):
        out.append((base + [0] * 8)[:k])
    for _ in range(n):
        b = bfd_valid(rng)
        x = rng.random()
        if x < 0.25:
            pass
        elif x < 0.45:
            b[3] = rng.choice([0, 1, 23, 24, 25, 255, len(b) + 1])
        elif x < 0.6:
            b[0] = rng.randrange(256)
        elif x < 0.75:
            extra = rng.choice([1, 2, 8, 231, 232])
            b = b + [rng.randrange(256) for _ in range(extra)]
            if rng.random() < 0.7:
                b[3] = len(b) & 0xff
        elif x < 0.9:
            b = b[:rng.randrange(0, 25)]
        else:
            b = [rng.randrange(256) for _ in range(rng.choice([0, 1, 3, 4, 23, 24, 25, 48]))]
        out.append(b)
    return [{'k': 'bfd', 'bytes': b} for b in out]

def oracle_bfd(c, o):
    """Property text: a message or a drop, never a panic."""
    if o == PANIC:
        return 'bfd::Message::decode panicked'
    if o[0] == 1 and o[1] == 4:
        return 'bfd::Message::decode returned the encode-only Io error'
    if o[0] == 0:
        b = c['bytes']
        # RFC 5880 6.8.6: version 1, length field >= 24 and equal to the payload here
        if len(b) < 24 or b[3] != len(b) or (b[0] >> 5) != 1:
            return 'bfd::Message::decode accepted a packet failing the RFC 5880 reception checks'
    return None

class Prop:
    pid = 'C03'
    props_file = 'Props/C03.v'
    required_theorems = ['bfd_decode_total', 'bfd_accepts_iff_wellformed']
    correspondence_name = ('Model/Bfd.v bfd_decode vs packet/src/bfd.rs Message::decode '
                           '(harness/hx-packet, debug and release builds)')
    rule = ('a case is one byte string (BFD) ...; non-trivial when the decoder gets past the length checks; '
            'distinct = distinct (decoder, outcome class, error kind)')
    exhaustive = {'quick': False, 'thorough': False}
    trusted_base = []
    assumptions = ['bytes are 0..255 (the harness cannot supply anything else)']

    # ---- rendering
    def case_to_val(self, c):
        if c['k'] == 'bfd':
            return [0, c['bytes']]
        raise ValueError(c)

    def case_to_coq(self, c):
        if c['k'] == 'bfd':
            return 'run_bfd %s' % cbytes(c['bytes'])
        raise ValueError(c)

    def case_to_json(self, c):
        return json.loads(json.dumps(c))

    def case_from_json(self, j):
        return j

    # ---- generation
    def gen_cases(self, rng, tier):
        q = tier == 'quick'
        return gen_bfd(rng, 300 if q else 3000)

    # ---- running
    def run_impl(self, cases, tier):
        return hxpacket.run_both('C03', [self.case_to_val(c) for c in cases])

    def run_model(self, cases, tier):
        pre = 'From RB Require Import Base.Val Base.Bytes Model.Bfd.\nOpen Scope N_scope.'
        return coqrun.eval_terms('C03', pre, [self.case_to_coq(c) for c in cases])

    def canon(self, case, obs):
        return obs

    # ---- Spec oracle on the implementation's observations [debug, release]
    def oracle(self, c, obs):
        for prof, o in zip(('debug', 'release'), obs):
            why = oracle_bfd(c, o) if c['k'] == 'bfd' else None
            if why:
                return '%s build: %s' % (prof, why)
        return None

    def in_known_class(self, kf, c, obs, why):
        return False

    def nontrivial_key(self, c, obs):
        o = obs[0]
        if o == PANIC:
            return (c['k'], 'panic')
        if c['k'] == 'bfd':
            if o[0] == 1 and o[1] == 0:
                return None
            return ('bfd', o[0], o[1] if o[0] == 1 else (o[1], o[2]))
        return None

    def classify(self, c, obs):
        o = obs[0]
        if o == PANIC:
            return [c['k'] + '_panic']
        if c['k'] == 'bfd':
            return ['bfd_ok' if o[0] == 0 else 'bfd_err_%d' % o[1]]
        return []
