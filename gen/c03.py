"""C03: generators, renderers and Spec oracle for the wire decoders
(bfd::Message::decode, RtrCodec::decode, PeerCodec::try_parse)."""
import json, os
from vp import val, coqrun
from vp.val import cN, cbool, clist, cpair, cbytes
from gen import hxpacket

PANIC = [-1]

def cbytes_big(bs):
    """Gallina term for a byte list; long lists are cut into pieces so that coqc's
    parser does not recurse 65535 deep on one list literal."""
    if len(bs) <= 1000:
        return cbytes(bs)
    # runs of one octet (the filler of the 64K frames) are written as List.repeat, the rest in pieces of 1000
    parts, i, lit = [], 0, []
    def flush():
        for j in range(0, len(lit), 1000):
            parts.append(cbytes(lit[j:j + 1000]))
        del lit[:]
    while i < len(bs):
        j = i
        while j < len(bs) and bs[j] == bs[i]: j += 1
        if j - i >= 64:
            flush(); parts.append('(List.repeat %d%%N (N.to_nat %d%%N))' % (bs[i], j - i))
        else:
            lit.extend(bs[i:j])
        i = j
    flush()
    return '(concat %s)' % clist(parts)

# ------------------------------------------------------------------ BFD
def bfd_valid(rng):
    b0 = (1 << 5) | rng.randrange(32)
    b1 = rng.randrange(256)
    return [b0, b1, rng.randrange(256), 24] + [rng.randrange(256) for _ in range(20)]

def gen_bfd(rng, n):
    out = []
    base = bfd_valid(rng)
    # truncation at every offset, growth past the length field
    for k in range(0, 30):
        out.append((base + [0] * 8)[:k])
    for _ in range(n):
        b = bfd_valid(rng)
        x = rng.random()
        if x < 0.25:
            pass
        elif x < 0.45:
            b[3] = rng.choice([0, 1, 23, 24, 25, 255, len(b) + 1])
        elif x < 0.6:
            b[0] = rng.randrange(256)
        elif x < 0.75:
            extra = rng.choice([1, 2, 8, 231, 232])
            b = b + [rng.randrange(256) for _ in range(extra)]
            if rng.random() < 0.7:
                b[3] = len(b) & 0xff
        elif x < 0.9:
            b = b[:rng.randrange(0, 25)]
        else:
            b = [rng.randrange(256) for _ in range(rng.choice([0, 1, 3, 4, 23, 24, 25, 48]))]
        out.append(b)
    return [{'k': 'bfd', 'bytes': b} for b in out]

# ------------------------------------------------------------------ RTR
def be(n, w): return [(n >> (8 * (w - 1 - i))) & 0xff for i in range(w)]

def rtr_pdu(rng, ty=None, version=None):
    """A well-formed PDU of the given type (RFC 6810 / 8210)."""
    if version is None: version = rng.choice([0, 1, 1, 2])
    if ty is None: ty = rng.choice([0, 1, 2, 3, 4, 6, 7, 8, 10])
    sid = rng.choice([0, 1, 7, 0xffff])
    r32 = lambda: rng.choice([0, 1, 99, 0xffffffff, rng.randrange(1 << 32)])
    if ty in (0, 1): body = be(r32(), 4)
    elif ty in (2, 3, 8): body = []
    elif ty == 4: body = [rng.randrange(2), rng.randrange(33), rng.randrange(33), 0] + [rng.randrange(256) for _ in range(4)] + be(r32(), 4)
    elif ty == 6: body = [rng.randrange(2), rng.randrange(129), rng.randrange(129), 0] + [rng.randrange(256) for _ in range(16)] + be(r32(), 4)
    elif ty == 7: body = be(r32(), 4) + (be(3600, 4) + be(600, 4) + be(7200, 4) if version >= 1 else [])
    elif ty == 10:
        enc = rng.choice([[], [1, 2, 0, 0, 0, 0, 0, 8]])
        txt = [rng.randrange(32, 127) for _ in range(rng.choice([0, 5]))]
        body = be(len(enc), 4) + enc + be(len(txt), 4) + txt
    elif ty == 9:   # Router Key (RFC 8210 5.10): flags in the header, SKI, ASN, SPKI
        body = [rng.randrange(256) for _ in range(20)] + be(r32(), 4) + [rng.randrange(256) for _ in range(rng.choice([0, 16, 91]))]
    else: body = [rng.randrange(256) for _ in range(rng.choice([0, 4, 12]))]
    return [version, ty] + be(sid, 2) + be(8 + len(body), 4) + body

def fragment(rng, data):
    """Arbitrary fragmentation of a byte string into chunks."""
    x = rng.random()
    if x < 0.3 or len(data) < 2:
        return [list(data)]
    if x < 0.45:
        return [[b] for b in data]
    n = rng.randint(1, min(6, len(data) - 1))
    cuts = sorted(set(rng.randrange(1, len(data)) for _ in range(n)))
    out, prev = [], 0
    for c in cuts + [len(data)]:
        out.append(list(data[prev:c])); prev = c
    if rng.random() < 0.2:
        out.insert(rng.randrange(len(out) + 1), [])
    return out

def gen_rtr(rng, n):
    out = []
    # every type alone, truncated at every offset
    for ty in (0, 1, 2, 3, 4, 6, 7, 8, 10):
        for ver in (0, 1):
            p = rtr_pdu(rng, ty, ver)
            out.append([p])
            for k in range(len(p)):
                out.append([p[:k]])
            # length field boundary values
            for L in (0, 1, 7, 8, len(p) - 1, len(p) + 1, 0xffffffff):
                q = list(p); q[4:8] = be(L & 0xffffffff, 4)
                out.append([q]); out.append([q + rtr_pdu(rng)])
    for ty in (5, 9, 11, 255):
        p = rtr_pdu(rng, ty, 1)
        out.append([p]); out.append([p + rtr_pdu(rng, 2, 1)])
        # PDU types the client skips: the same truncations and length-field boundary values
        for k in range(len(p)):
            out.append([p[:k]])
        for L in (0, 1, 7, 8, 9, len(p) - 1, len(p) + 1, 0xffffffff):
            q = list(p); q[4:8] = be(L & 0xffffffff, 4)
            out.append([q]); out.append([q + rtr_pdu(rng)]); out.append(fragment(rng, q + rtr_pdu(rng, 2, 1)))
    for _ in range(n):
        pdus = [rtr_pdu(rng) for _ in range(rng.randint(1, 5))]
        x = rng.random()
        if x < 0.45:
            k = rng.randrange(len(pdus)); q = pdus[k]
            y = rng.random()
            if y < 0.35: q[4:8] = be(rng.choice([0, 1, 2, 7, 8, 9, len(q) - 1, len(q) + 1, len(q) + 8, 12, 20, 32, 0x100, 0xffffffff]), 4)
            elif y < 0.6: q[1] = rng.choice([5, 9, 11, 12, 128, 255, rng.randrange(256)])
            elif y < 0.75: q[0] = rng.randrange(256)
            elif y < 0.9: pdus[k] = q[:rng.randrange(len(q))]
            else: pdus[k] = [rng.randrange(256) for _ in range(rng.randrange(1, 24))]
        data = [b for q in pdus for b in q]
        out.append(fragment(rng, data))
    return [{'k': 'rtr', 'chunks': ch} for ch in out]

def oracle_stream(c, o, complete, what):
    """Property text on a chunk-fed decoder: no panic; a returned message consumed
    input; a complete frame in the buffer is never answered "need more".
    complete(buf) -> bool is written from the framing rule of the protocol."""
    if o == PANIC:
        return '%s panicked' % what
    buf = []
    chunks = list(c['chunks'])
    k = 0
    new_chunk = True
    for e in o:
        if new_chunk:
            if k >= len(chunks):
                return '%s harness protocol: more events than chunks' % what
            buf = buf + chunks[k]; k += 1; new_chunk = False
        if e[0] == 9:
            return '%s returned a message without consuming any input (the caller spins)' % what
        if e[0] == 8:
            return '%s did not finish within the driver bound' % what
        if e[0] == 0:
            rem = e[2]
            if rem >= len(buf):
                return '%s returned a message without consuming any input' % what
            buf = buf[len(buf) - rem:]
        elif e[0] == 1:
            rem = e[1]
            if complete(buf) and rem >= len(buf):
                return '%s asked for more bytes although a complete frame is buffered and nothing was consumed (stall)' % what
            buf = buf[len(buf) - rem:] if rem else []
            if complete(buf):
                return '%s asked for more bytes although what it left in the buffer starts with a complete frame (stall)' % what
            new_chunk = True
        elif e[0] == 2:
            return None
    return None

RTR_USED_TYPES = (0, 1, 2, 3, 4, 6, 7, 8, 10)

def rtr_complete(buf):
    """a complete frame the decoder must decide on is at the head of the buffer; complete
    PDUs of types the client does not use (e.g. Router Key) are consumed silently
    (repo commit 698efb6), so they are skipped here before judging"""
    buf = list(buf)
    while len(buf) >= 8:
        n = int.from_bytes(bytes(buf[4:8]), 'big')
        if n < 8:
            return True
        if n > len(buf):
            return False
        if buf[1] in RTR_USED_TYPES:
            return True
        buf = buf[n:]
    return False

# ------------------------------------------------------------------ BGP
from gen import bgpenc as E
from gen.bgpenc import B, cat

def rand_codec(rng, fams=None):
    if fams is None:
        x = rng.random()
        if x < 0.25: fams = [E.IPV4]
        elif x < 0.4: fams = [E.IPV4, E.IPV6]
        elif x < 0.5: fams = list(E.MODELLED)
        else:
            fams = [f for f in E.MODELLED if rng.random() < 0.4]
            if rng.random() < 0.8 and E.IPV4 not in fams: fams.insert(0, E.IPV4)
    fl = [(f, rng.random() < 0.3) for f in fams]
    has4 = any(f == E.IPV4 for f, _ in fl)
    return {'ext': rng.random() < 0.2, 'two': rng.random() < 0.35, 'nh': has4 and rng.random() < 0.2, 'fams': fl}

def all_codecs():
    """family set x add-path x AS width x extended message x extended next hop (small cross product)"""
    out = []
    for fams in ([E.IPV4], [E.IPV4, E.IPV6], [E.IPV6], list(E.MODELLED), [E.IPV4_VPN, E.IPV6_MPLS], []):
        for ap in (False, True):
            for two in (False, True):
                for ext in (False, True):
                    for nh in (False, True):
                        if nh and E.IPV4 not in fams: continue
                        out.append({'ext': ext, 'two': two, 'nh': nh, 'fams': [(f, ap) for f in fams]})
    return out

def codec_val(c):
    return [1 if c['ext'] else 0, 1 if c['two'] else 0, 1 if c['nh'] else 0, [[f, 1 if ap else 0] for f, ap in c['fams']]]

def codec_coq(c):
    return '(mk_codec %s %s %s)' % (cbool(c['ext']), cbool(c['two']),
                                    clist([cpair(cN(f), cbool(ap)) for f, ap in c['fams']]))

def addpath_of(codec, fam):
    for f, ap in codec['fams']:
        if f == fam: return ap
    return False

def rbytes(rng, n): return [rng.randrange(256) for _ in range(n)]

def rand_prefix(rng, maxbits, codec_ap):
    bits = rng.choice([0, 1, 7, 8, 9, 16, 24, maxbits - 1, maxbits, rng.randrange(maxbits + 1)])
    p = E.prefix(bits, rbytes(rng, (bits + 7) // 8))
    return E.with_path_id(rng.choice([0, 1, 0xffffffff, rng.randrange(1 << 32)]), p) if codec_ap else p

def rand_labels(rng):
    n = rng.choice([1, 1, 1, 2, 3, rng.randint(1, 12)])
    return [rng.choice([0, 3, 100, 0xfffff, rng.randrange(1 << 20)]) for _ in range(n)]

def rand_rd(rng):
    t = rng.choice([0, 0, 1, 2])
    return [0, t] + rbytes(rng, 6)

def rand_nlri(rng, fam, ap, reach=True):
    afi = fam >> 16
    maxbits = 32 if afi == 1 else 128
    safi = fam & 0xff
    if safi in (1, 2):
        return rand_prefix(rng, maxbits, ap)
    bits = rng.choice([0, 8, 24, maxbits, rng.randrange(maxbits + 1)])
    if safi == 4:
        ls = rand_labels(rng) if reach else [rng.choice([0, 0x80000])]
        n = E.labeled(ls, bits, rbytes(rng, (bits + 7) // 8), bos_at=None if reach or rng.random() < 0.5 else -1)
    elif safi == 128:
        n = E.vpn(rand_labels(rng), rand_rd(rng), bits, rbytes(rng, (bits + 7) // 8))
    else:
        n = B(rbytes(rng, rng.randint(1, 12)))
    return E.with_path_id(rng.randrange(1 << 32), n) if ap else n

def rand_aspath(rng, width):
    segs = []
    for _ in range(rng.choice([0, 1, 1, 2, 3])):
        t = rng.choice([1, 2, 2, 2, 3, 4])
        segs.append((t, [rng.choice([23456, 65001, 1, 4200000000 if width == 4 else 65535, rng.randrange(1 << (8 * width))])
                         for _ in range(rng.choice([0, 1, 2, 3]))]))
    return segs

def rand_attrs(rng, codec, want_nh):
    """a plausible attribute block as a list of B (one per attribute)"""
    w = 2 if codec['two'] else 4
    out = [E.attr(0x40, 1, [rng.choice([0, 1, 2])]),
           E.attr(0x40, 2, E.aspath_value(rand_aspath(rng, w), w))]
    if want_nh: out.append(E.attr(0x40, 3, rbytes(rng, 4)))
    opt = [lambda: E.attr(0x80, 4, E.be(rng.randrange(1 << 32), 4)),
           lambda: E.attr(0x40, 5, E.be(rng.choice([0, 100, 200]), 4)),
           lambda: E.attr(0x40, 6, []),
           lambda: E.attr(0xc0, 7, (E.be(rng.choice([23456, 65001]), 2) if rng.random() < 0.5 else E.be(rng.choice([23456, 70000]), 4)) + rbytes(rng, 4)),
           lambda: E.attr(0xc0, 8, rbytes(rng, 4 * rng.randint(0, 3))),
           lambda: E.attr(0x80, 9, rbytes(rng, 4)),
           lambda: E.attr(0x80, 10, rbytes(rng, 4 * rng.randint(0, 3))),
           lambda: E.attr(0xc0, 16, rbytes(rng, 8 * rng.randint(0, 2))),
           lambda: E.attr(0xc0, 17, E.aspath_value([(rng.choice([1, 2, 2, 3]), [rng.choice([65001, 70000, 4200000000]) for _ in range(rng.randint(1, 3))])
                                                    for _ in range(rng.randint(1, 2))], 4)),
           lambda: E.attr(0xc0, 18, E.be(rng.choice([70000, 65001]), 4) + rbytes(rng, 4)),
           lambda: E.attr(0xc0, 32, rbytes(rng, 12 * rng.randint(0, 2))),
           lambda: E.attr(0x80, 26, rbytes(rng, rng.choice([0, 3, 11]))),
           lambda: E.attr(0xc0, 40, rbytes(rng, rng.choice([0, 7, 24]))),
           lambda: E.attr(0x80, 29, rbytes(rng, rng.choice([0, 9]))),
           lambda: E.attr(0xc0, 23, rbytes(rng, rng.choice([0, 12]))),
           lambda: E.attr(0xc0, rng.choice([99, 128, 255]), rbytes(rng, rng.randint(0, 6))),   # unknown optional transitive
           lambda: E.attr(0x80, rng.choice([99, 129]), rbytes(rng, rng.randint(0, 6))),        # unknown optional non-transitive
           lambda: E.attr(0x40, rng.choice([11, 99, 0]), rbytes(rng, rng.randint(0, 4)))]      # unknown well-known
    for f in opt:
        if rng.random() < 0.18:
            out.append(f())
    return out

def rand_nexthop(rng, fam):
    safi = fam & 0xff
    if safi in (133, 134): return []
    if safi == 128: return rng.choice([[0] * 8 + rbytes(rng, 4), [0] * 8 + rbytes(rng, 16), rbytes(rng, 12)])
    return rng.choice([rbytes(rng, 4), rbytes(rng, 16), rbytes(rng, 16) + [0] * 16, rbytes(rng, 32)])

def rand_update(rng, codec, knobs=None):
    fams = [f for f, _ in codec['fams']]
    ap4 = addpath_of(codec, E.IPV4)
    x = rng.random()
    wd, nl, attrs = [], [], []
    if x < 0.05:
        return E.update([], [], [])                                   # IPv4 end-of-rib
    has4 = E.IPV4 in fams or rng.random() < 0.1
    if has4 and rng.random() < 0.35: wd = [rand_prefix(rng, 32, ap4) for _ in range(rng.randint(1, 3))]
    if has4 and rng.random() < 0.6: nl = [rand_prefix(rng, 32, ap4) for _ in range(rng.randint(1, 3))]
    mpf = [f for f in fams if f != E.IPV4 or codec['nh']]
    if rng.random() < 0.1: mpf = mpf + [rng.choice(E.MODELLED)]
    mp_r = mp_u = None
    if mpf and rng.random() < 0.5:
        f = rng.choice(mpf)
        mp_r = E.attr(0x80, 14, E.mp_reach_value(f, rand_nexthop(rng, f), [rand_nlri(rng, f, addpath_of(codec, f)) for _ in range(rng.randint(0, 3))]))
    if mpf and rng.random() < 0.3:
        f = rng.choice(mpf)
        mp_u = E.attr(0x80, 15, E.mp_unreach_value(f, [rand_nlri(rng, f, addpath_of(codec, f), reach=False) for _ in range(rng.randint(0, 2))]))
    if nl or mp_r is not None or rng.random() < 0.2:
        attrs = rand_attrs(rng, codec, bool(nl) or rng.random() < 0.2)
    if mp_r is not None: attrs.insert(rng.randrange(len(attrs) + 1), mp_r)
    if mp_u is not None: attrs.insert(rng.randrange(len(attrs) + 1), mp_u)
    y = rng.random()
    if attrs and y < 0.1: attrs.insert(rng.randrange(len(attrs) + 1), rng.choice(attrs))         # duplicate
    elif attrs and y < 0.2: rng.shuffle(attrs)
    return E.update(wd, attrs, nl)

def rand_caps(rng):
    fs = [E.IPV4, E.IPV6, E.IPV4_VPN, E.EVPN, (1 << 16) | 0x0101]
    mk = [lambda: E.cap_mp(rng.choice(fs), reserved=rng.choice([0, 0, 0, 1])),
          lambda: E.cap_rr(), lambda: E.cap_extmsg(), lambda: E.cap_err(),
          lambda: E.cap_extnh([(rng.choice([E.IPV4, E.IPV6, E.IPV4_VPN]), rng.choice([2, 2, 1])) for _ in range(rng.randint(0, 3))]),
          lambda: E.cap_gr(rng.randrange(16), rng.randrange(4096), [(rng.choice(fs), rng.choice([0, 0x80])) for _ in range(rng.randint(0, 3))]),
          lambda: E.cap_as4(rng.choice([65001, 4200000000, 0, 23456])),
          lambda: E.cap_addpath([(rng.choice(fs), rng.choice([0, 1, 2, 3, 4, 255])) for _ in range(rng.randint(0, 3))]),
          lambda: E.cap_llgr([(rng.choice(fs), rng.choice([0, 0x80]), rng.randrange(1 << 24)) for _ in range(rng.randint(0, 2))]),
          lambda: E.cap_fqdn(rng.choice([b'r1', b'', b'h\xc3\xa9', b'\xff\xfe', b'\xe0\x80\x80', b'\xf0\x9f\x98\x80', b'\xed\xa0\x80', b'\xc0\xaf']),
                             rng.choice([b'example.net', b'', b'\x80'])),
          lambda: E.cap(rng.choice([0, 3, 66, 128, 255]), rbytes(rng, rng.randint(0, 5)))]
    return [rng.choice(mk)() for _ in range(rng.choice([0, 1, 2, 3, 5, 8]))]

def rand_open(rng):
    caps = rand_caps(rng)
    x = rng.random()
    if x < 0.5: params = [E.opt_param(2, cat(caps))] if caps else []
    elif x < 0.85: params = [E.opt_param(2, c) for c in caps]
    else: params = [E.opt_param(2, cat(caps[:1])), E.opt_param(rng.choice([1, 3, 255]), rbytes(rng, rng.randint(0, 4)))] + [E.opt_param(2, cat(caps[1:]))]
    return E.open_msg(rng.choice([65001, 23456, 0, 65535]), rng.choice([0, 1, 2, 3, 90, 65535]),
                      rng.choice([0x0a000001, 0, 0xffffffff, 0xe0000001, 0xefffffff, 0xf0000001, 0xdfffffff, 1]),
                      params, version=rng.choice([4, 4, 4, 4, 3, 5, 0]))

def rand_msg(rng, codec):
    x = rng.random()
    if x < 0.55: return rand_update(rng, codec)
    if x < 0.75: return rand_open(rng)
    if x < 0.82: return E.keepalive()
    if x < 0.92: return E.notification(rng.choice([1, 2, 3, 4, 5, 6, 7, 0, 9]), rng.choice([0, 1, 2, 3, 4, 5, 6, 7, 8, 9, 10, 11, 12]), rbytes(rng, rng.choice([0, 0, 2, 6])))
    return E.refresh(rng.choice([E.IPV4, E.IPV6, 0x00010101, 0xffffffff & ((3 << 16) | 1)]), rbytes(rng, rng.choice([0, 0, 0, 1, 4])))

BOUNDARY16 = [0, 1, 18, 19, 20, 22, 23, 4096, 4097, 0x7fff, 0xffe8, 0xffe9, 0xfffe, 0xffff]

def mutate(rng, b, maxlen):
    """one structural mutation of an encoded message; returns bytes"""
    x = rng.random()
    if b.m and x < 0.55:
        mk = rng.choice(b.m)
        cur = E.get_len(b, mk)
        w = mk[1]
        top = (1 << (8 * w)) - 1
        cand = [0, 1, cur - 1, cur + 1, cur + 2, top, top - 1, cur + mk[2], max(0, cur - mk[2])]
        if w == 2: cand += BOUNDARY16 + [0x10000 - 23 - cur, 0xffff - cur]
        v = rng.choice(cand) & top
        if rng.random() < 0.1: v = rng.randrange(top + 1)
        b2 = E.set_len(b, mk, v)
        if mk[3] == 'hdr':
            return b2.d
        # grow/shrink the tail so that the inner field is what disagrees, the frame stays complete
        if rng.random() < 0.3:
            extra = rbytes(rng, rng.choice([1, 2, 4, 24]))
            return E.fix_hdr(b2 + extra).d
        return b2.d
    if x < 0.7:
        k = rng.randrange(len(b.d) + 1)
        d = b.d[:k]
        return E.fix_hdr(B(d)).d if rng.random() < 0.7 else d
    if x < 0.85:
        d = list(b.d)
        for _ in range(rng.choice([1, 1, 2, 4])):
            k = rng.randrange(16, len(d))
            d[k] = rng.choice([0, 1, 0xff, 0x80, 0x40, 0xc0, 0x10, d[k] ^ (1 << rng.randrange(8)), rng.randrange(256)])
        return d
    if x < 0.93:
        d = b.d + rbytes(rng, rng.choice([1, 3, 19]))
        return E.fix_hdr(B(d)).d if rng.random() < 0.6 else d
    d = rbytes(rng, rng.choice([0, 1, 18, 19, 20, 40]))
    if len(d) >= 19 and rng.random() < 0.7:
        d[16:18] = E.be(len(d), 2)
    return d

def label_cases(rng):
    """label stacks of 1..40 labels, with and without a bottom-of-stack bit, total-bits boundary values"""
    out = []
    for fam, mk in ((E.IPV4_VPN, 'vpn'), (E.IPV6_VPN, 'vpn'), (E.IPV4_MPLS, 'lab'), (E.IPV6_MPLS, 'lab')):
        maxbits = 32 if fam >> 16 == 1 else 128
        for n in list(range(1, 41)):
            for total in (None, 0, 24, 87, 88, 255, (24 * n) & 0xff, (24 * n + 64) & 0xff, (24 * n + 64 + 24) & 0xff, (24 * n + 24) & 0xff):
                if total is not None and rng.random() < 0.6 and n > 12: continue
                bits = 24
                ls = list(range(1, n + 1))
                if mk == 'vpn': nl = E.vpn(ls, [0, 0, 0xfd, 0xe8, 0, 0, 0, 100], bits, [10, 0, 1], total=total)
                else: nl = E.labeled(ls, bits, [10, 0, 1], total=total)
                for ap in (False, True):
                    if ap and rng.random() < 0.7: continue
                    x = E.with_path_id(7, nl) if ap else nl
                    codec = {'ext': False, 'two': False, 'nh': False, 'fams': [(E.IPV4, False), (fam, ap)]}
                    attrs = [E.attr(0x40, 1, [0]), E.attr(0x40, 2, []), E.attr(0x80, 14, E.mp_reach_value(fam, [0] * 8 + [192, 0, 2, 1] if mk == 'vpn' else [192, 0, 2, 1], [x]))]
                    out.append((codec, E.update([], attrs, []).d))
        # no bottom-of-stack bit at all
        ls = [5, 6, 7]
        nl = E.vpn(ls, [0, 0, 0, 1, 0, 0, 0, 1], 8, [10], bos_at=-1) if mk == 'vpn' else E.labeled(ls, 8, [10], bos_at=-1)
        codec = {'ext': False, 'two': False, 'nh': False, 'fams': [(fam, False)]}
        out.append((codec, E.update([], [E.attr(0x80, 14, E.mp_reach_value(fam, [1, 2, 3, 4], [nl]))], []).d))
        out.append((codec, E.update([], [E.attr(0x80, 15, E.mp_unreach_value(fam, [nl]))], []).d))
    return out

def sweep_cases(rng):
    """Deterministic sweeps aimed at the comparisons of the model: every known attribute code
    with every small value length; prefix-length octets around the family's maximum."""
    out = []
    c4 = {'ext': False, 'two': False, 'nh': False, 'fams': [(E.IPV4, False), (E.IPV6, False)]}
    c2 = {'ext': False, 'two': True, 'nh': False, 'fams': [(E.IPV4, False), (E.IPV6, False)]}
    flags_of = {1: 0x40, 2: 0x40, 3: 0x40, 4: 0x80, 5: 0x40, 6: 0x40, 7: 0xc0, 8: 0xc0, 9: 0x80, 10: 0x80,
                16: 0xc0, 17: 0xc0, 18: 0xc0, 32: 0xc0, 26: 0x80, 40: 0xc0, 29: 0x80, 23: 0xc0}
    for code, fl in flags_of.items():
        for n in list(range(0, 14)) + [16, 20, 24, 36]:
            for codec in (c4, c2):
                if code in (2, 17):
                    # segment-shaped values of that length
                    v = [2, max(0, (n - 2) // (2 if (codec['two'] and code == 2) else 4))] + rbytes(rng, max(0, n - 2)) if n >= 2 else rbytes(rng, n)
                    v = v[:n]
                else:
                    v = rbytes(rng, n)
                    if code == 1 and n >= 1: v[0] = rng.choice([0, 1, 2, 3])
                attrs = []
                if code != 1: attrs.append(E.attr(0x40, 1, [0]))
                if code != 2: attrs.append(E.attr(0x40, 2, []))
                if code != 3: attrs.append(E.attr(0x40, 3, [192, 0, 2, 1]))
                attrs.append(E.attr(fl, code, v))
                out.append((codec, E.update([], attrs, [E.prefix(24, [10, 0, 0])]).d))
    # prefix-length octets around the maximum, reach and unreach, with and without add-path
    for fam in E.MODELLED:
        maxbits = 32 if fam >> 16 == 1 else 128
        safi = fam & 0xff
        for bits in (0, 1, maxbits - 1, maxbits, maxbits + 1, maxbits + 7, maxbits + 8, maxbits + 9):
            for ap, reach, ablen in [(a, r, l) for a in (False, True) for r in (True, False)
                                     for l in sorted(set([(bits + 7) // 8, min((bits + 7) // 8, maxbits // 8), (bits + 7) // 8 + 2]))]:
                if True:
                    ab = rbytes(rng, ablen)
                    if safi in (1, 2): nl = B([bits & 0xff] + ab)
                    elif safi == 4: nl = B([(24 + bits) & 0xff] + E.label(100, True) + ab)
                    else: nl = B([(88 + bits) & 0xff] + E.label(100, True) + [0, 0, 0, 1, 0, 0, 0, 1] + ab)
                    if 24 + bits > 255 and safi == 4: continue
                    if 88 + bits > 255 and safi == 128: continue
                    if ap: nl = E.with_path_id(9, nl)
                    codec = {'ext': False, 'two': False, 'nh': False, 'fams': [(E.IPV4, ap), (fam, ap)]}
                    if fam == E.IPV4:
                        d = (E.update([], [E.attr(0x40, 1, [0]), E.attr(0x40, 2, []), E.attr(0x40, 3, [1, 1, 1, 1])], [nl]) if reach
                             else E.update([nl], [], [])).d
                    else:
                        nh = [0] * 8 + [1, 1, 1, 1] if safi == 128 else [1, 1, 1, 1]
                        a = E.attr(0x80, 14, E.mp_reach_value(fam, nh, [nl])) if reach else E.attr(0x80, 15, E.mp_unreach_value(fam, [nl]))
                        d = E.update([], [E.attr(0x40, 1, [0]), E.attr(0x40, 2, []), a], []).d
                    out.append((codec, d))
    # MP_REACH next-hop lengths
    for fam in (E.IPV6, E.IPV4_VPN, E.IPV6_VPN, E.IPV4_MPLS):
        for nhl in (0, 1, 3, 4, 5, 8, 11, 12, 13, 15, 16, 17, 23, 24, 25, 31, 32, 33, 48):
            codec = {'ext': False, 'two': False, 'nh': False, 'fams': [(fam, False)]}
            nl = rand_nlri(rng, fam, False)
            out.append((codec, E.update([], [E.attr(0x40, 1, [0]), E.attr(0x40, 2, []), E.attr(0x80, 14, E.mp_reach_value(fam, rbytes(rng, nhl), [nl]))], []).d))
    return out

def gen_bgp(rng, n, tier):
    out = []
    def add(codec, chunks): out.append({'k': 'bgp', 'codec': codec, 'chunks': chunks})
    c4 = {'ext': False, 'two': False, 'nh': False, 'fams': [(E.IPV4, False)]}
    cx = {'ext': True, 'two': False, 'nh': False, 'fams': [(E.IPV4, False)]}
    # ---- framing: header length boundary values under both limits
    for codec in (c4, cx):
        for L in (0, 1, 18, 19, 20, 23, 4095, 4096, 4097, 65535):
            for ty in (4, 2):
                for have in (19, 23, L):
                    d = [0xff] * 16 + E.be(L, 2) + [ty] + [0] * max(0, have - 19)
                    if len(d) > 5000 and rng.random() < 0.7: continue
                    add(codec, [d])
    for ty in (0, 6, 255):
        add(c4, [E.frame(ty, [1, 2, 3]).d])
    # the confirmed overflow: 23-byte UPDATE, attribute length 0xffff (and neighbours)
    for wl, al in ((0, 0xffff), (0, 0xffe9), (0, 0xffe8), (1, 0xffe8), (0xffff, 0), (0x8000, 0x8000), (0xffe9, 0), (2, 0xfffe), (0, 1), (1, 0)):
        for tail in (0, 1, 4):
            d = [0xff] * 16 + E.be(23 + tail, 2) + [2] + E.be(wl, 2) + E.be(al, 2)[:] + [0x40] * tail
            add(c4, [d])
            d2 = [0xff] * 16 + E.be(23 + tail + 2, 2) + [2] + E.be(wl, 2) + [0, 0] + E.be(al, 2) + [0x40] * tail
            add(c4, [d2])
    # ---- truncation at every offset of a few base messages (header length fixed up, or left alone)
    bases = []
    r2 = rng
    codec_all = {'ext': False, 'two': False, 'nh': False, 'fams': [(f, False) for f in E.MODELLED]}
    codec_two = {'ext': False, 'two': True, 'nh': False, 'fams': [(E.IPV4, True), (E.IPV6, False)]}
    bases.append((c4, E.open_msg(65001, 90, 0x0a000001, [E.opt_param(2, cat([E.cap_mp(E.IPV4), E.cap_as4(65001), E.cap_gr(8, 120, [(E.IPV4, 0x80)]),
                                                                           E.cap_addpath([(E.IPV4, 3)]), E.cap_fqdn(b'r1', b'lab'), E.cap_llgr([(E.IPV4, 0, 300)])]))])))
    bases.append((c4, E.update([E.prefix(24, [10, 0, 0])], [E.attr(0x40, 1, [0]), E.attr(0x40, 2, E.aspath_value([(2, [65001, 65002])])), E.attr(0x40, 3, [192, 0, 2, 1]),
                                                             E.attr(0xc0, 8, [0, 1, 0, 2])], [E.prefix(16, [172, 16]), E.prefix(32, [1, 2, 3, 4])])))
    bases.append((codec_all, E.update([], [E.attr(0x40, 1, [0]), E.attr(0x40, 2, []), E.attr(0x80, 14, E.mp_reach_value(E.IPV4_VPN, [0] * 8 + [192, 0, 2, 1],
                        [E.vpn([100, 200], [0, 0, 0xfd, 0xe8, 0, 0, 0, 100], 24, [10, 0, 1])])),
                        E.attr(0x80, 15, E.mp_unreach_value(E.IPV6_MPLS, [E.labeled([0x80000], 32, [0x20, 1, 0xd, 0xb8])]))], [])))
    bases.append((codec_two, E.update([], [E.attr(0x40, 1, [0]), E.attr(0x40, 2, E.aspath_value([(2, [23456, 65002]), (1, [1])], 2)), E.attr(0x40, 3, [192, 0, 2, 1]),
                        E.attr(0xc0, 17, E.aspath_value([(2, [70000])], 4)), E.attr(0xc0, 7, E.be(23456, 2) + [1, 1, 1, 1]), E.attr(0xc0, 18, E.be(70000, 4) + [1, 1, 1, 1])],
                        [E.with_path_id(1, E.prefix(8, [10]))])))
    for codec, b in bases:
        add(codec, [b.d])
        for k in range(16, len(b.d)):
            add(codec, [E.fix_hdr(B(b.d[:k])).d])
            if k % 3 == 0: add(codec, [b.d[:k]])
        # every length field to its boundary values
        for mk in b.m:
            cur = E.get_len(b, mk); top = (1 << (8 * mk[1])) - 1
            for v in sorted(set([0, 1, max(0, cur - 1), cur + 1, top, max(0, cur - mk[2]), cur + mk[2]])):
                add(codec, [E.set_len(b, mk, v & top).d])
    # ---- label stacks
    for codec, d in label_cases(rng):
        add(codec, [d])
    # ---- attribute-length, prefix-length and next-hop-length sweeps
    for codec, d in sweep_cases(rng):
        add(codec, [d])
    # ---- every codec of the cross product on one valid and one mutated message
    for codec in all_codecs():
        b = rand_update(rng, codec)
        add(codec, [b.d])
        add(codec, [mutate(rng, b, 4096)])
    # ---- random: mostly valid messages, a malformed stream, streams with fragmentation
    for _ in range(n):
        codec = rand_codec(rng)
        x = rng.random()
        if x < 0.3:
            add(codec, [rand_msg(rng, codec).d])
        elif x < 0.75:
            b = rand_msg(rng, codec)
            add(codec, [mutate(rng, b, 65535 if codec['ext'] else 4096)])
        else:
            data = []
            for _ in range(rng.randint(2, 4)):
                b = rand_msg(rng, codec)
                data += b.d if rng.random() < 0.8 else mutate(rng, b, 4096)
            add(codec, fragment(rng, data))
    # ---- a few large frames (4096 limit and the extended limit)
    big = 3 if tier == 'quick' else 12
    for _ in range(big):
        codec = rand_codec(rng, [E.IPV4])
        L = rng.choice([4096, 4097, 4000] if not codec['ext'] else [4097, 9000, 65535])
        nl = []
        while sum(len(x) for x in nl) < L - 60:
            nl.append(E.prefix(24, rbytes(rng, 3)) if not addpath_of(codec, E.IPV4) else E.with_path_id(1, E.prefix(24, rbytes(rng, 3))))
        b = E.update([], [E.attr(0x40, 1, [0]), E.attr(0x40, 2, []), E.attr(0x40, 3, [1, 1, 1, 1])], nl)
        add(codec, [b.d])
    # ---- a large frame that arrives in pieces and is FOLLOWED by further frames (decoder state across calls, round 4)
    for _ in range(6 if tier == 'quick' else 16):
        codec = rand_codec(rng, [E.IPV4])
        L = rng.choice([4096, 4000, 3000] if not codec['ext'] else [4097, 5000, 9000, 4096])
        nl = []
        while sum(len(x) for x in nl) < L - 60:
            nl.append(E.prefix(24, rbytes(rng, 3)) if not addpath_of(codec, E.IPV4) else E.with_path_id(1, E.prefix(24, rbytes(rng, 3))))
        b = E.update([], [E.attr(0x40, 1, [0]), E.attr(0x40, 2, []), E.attr(0x40, 3, [1, 1, 1, 1])], nl)
        rest = []
        for _ in range(rng.randint(1, 3)):
            rest += rand_msg(rng, codec).d
        cuts = sorted(set(rng.randrange(1, len(b.d)) for _ in range(rng.randint(1, 3))))
        chunks, prev = [], 0
        for c in cuts:
            chunks.append(b.d[prev:c]); prev = c
        tail = fragment(rng, rest) if len(rest) < 400 else [rest]
        chunks.append(b.d[prev:] + tail[0])
        add(codec, chunks + tail[1:])
    return out

def kind_of(fam):
    """families whose NLRI decoder is in the Coq model are compared with the model ('bgp');
    the others are run on the implementation only and judged by the Spec oracle ('fuzz')"""
    return 'bgp' if fam in E.ALL_MODELLED else 'fuzz'

def gen_fuzz(rng, n):
    """Families whose NLRI decoders are behind the oracle (MUP, flowspec, flowspec-VPN, LS,
    SR policy, EVPN, RTC): harness only, judged by the Spec oracle; this is what exercises
    the contract 'consumes at least one byte or fails, never panics'."""
    out = []
    def shaped(rng):
        L = rng.choice([0, 1, 2, 3, 4, 7, 8, 9, 12, 13, 16, 17, 21, 23, 24, 25, 33, 34, 35, 36, 255])
        body = rbytes(rng, min(L, 60) if rng.random() < 0.7 else rng.choice([0, max(0, L - 1), L + 1]))
        x = rng.random()
        if x < 0.3: return [rng.choice([1, 2, 3, 4, 5, 6, 0, 255]), L & 0xff] + body            # type, len (EVPN, MUP-ish)
        if x < 0.5: return [L & 0xff] + body                                                  # len (flowspec, SR policy, RTC bits)
        if x < 0.6: return [0xf0 | (L >> 8) & 0xf, L & 0xff] + body                            # 2-byte flowspec length
        if x < 0.75: return [0, rng.choice([1, 2, 3, 4, 5, 6]), L >> 8, L & 0xff] + body       # LS: type16, len16
        if x < 0.85: return [1, rng.choice([1, 2, 3, 4]), 0, L & 0xff] + body                  # MUP: arch, type16, len
        return rbytes(rng, rng.randint(1, 40))
    for _ in range(n):
        fam = rng.choice(E.OTHERS + E.OTHERS + E.MODELLED_R3)
        ap = rng.random() < 0.25
        codec = {'ext': False, 'two': rng.random() < 0.2, 'nh': False, 'fams': [(E.IPV4, False), (fam, ap)]}
        nl = []
        for _ in range(rng.choice([1, 1, 2, 3])):
            b = shaped(rng)
            if fam in (E.IPV4_FS, E.IPV6_FS, E.IPV4_FSVPN, E.IPV6_FSVPN) and rng.random() < 0.5:
                comps = []
                for _ in range(rng.randint(1, 4)):
                    t = rng.choice([1, 2, 3, 4, 5, 6, 7, 8, 9, 10, 11, 12, 13, 0, 14])
                    if t in (1, 2): comps += [t, rng.choice([0, 8, 24, 32, 33, 128, 129])] + ([rng.randrange(129)] if fam >> 16 == 2 else []) + rbytes(rng, rng.randint(0, 5))
                    else: comps += [t] + [b for _ in range(rng.randint(1, 3)) for b in [rng.choice([0x01, 0x81, 0x91, 0xa1, 0xb1, 0x80, 0x00, 0x31]), rng.randrange(256)]]
                pre = rbytes(rng, 8) if fam in (E.IPV4_FSVPN, E.IPV6_FSVPN) else []
                b = [len(pre + comps) & 0xff] + pre + comps
            nl.append(E.with_path_id(rng.randrange(1 << 32), B(b)) if ap else B(b))
        nh = rng.choice([[], rbytes(rng, 4), rbytes(rng, 16), [0] * 8 + rbytes(rng, 4)])
        if rng.random() < 0.6:
            attrs = [E.attr(0x40, 1, [0]), E.attr(0x40, 2, []), E.attr(0x80, 14, E.mp_reach_value(fam, nh, nl))]
        else:
            attrs = [E.attr(0x80, 15, E.mp_unreach_value(fam, nl))]
        if rng.random() < 0.3:
            attrs.append(E.attr(0xc0, rng.choice([40, 23]), shaped(rng)))
            attrs.append(E.attr(0x80, 29, shaped(rng)))
        d = E.update([], attrs, []).d
        if rng.random() < 0.15:
            d = E.fix_hdr(B(d[:rng.randrange(23, len(d) + 1)])).d
        out.append({'k': kind_of(fam), 'codec': codec, 'chunks': [d]})
    return out

_SEEDS = None
def seed_vectors():
    """Wire test vectors found in the repository's own NLRI modules (const X: &[u8] = &[..]),
    used as mostly-valid seeds for the families that are only fuzzed."""
    global _SEEDS
    if _SEEDS is not None:
        return _SEEDS
    import re
    from vp.util import REPO
    fams = {'evpn': [E.EVPN], 'flowspec': [E.IPV4_FS, E.IPV6_FS, E.IPV4_FSVPN, E.IPV6_FSVPN], 'ls': [E.LS],
            'mup': [E.IPV4_MUP, E.IPV6_MUP], 'sr_policy': [E.IPV4_SRP, E.IPV6_SRP], 'rtc': [E.RTC]}
    out = []
    for mod, fl in fams.items():
        try:
            src = open(os.path.join(REPO, 'packet', 'src', mod + '.rs')).read()
        except OSError:
            continue
        for m in re.finditer(r'&\[u8\]\s*=\s*&\[(.*?)\];', src, re.S):
            body = re.sub(r'//[^\n]*', '', m.group(1))
            try:
                bs = [int(x, 0) for x in re.split(r'[,\s]+', body.strip()) if x]
            except ValueError:
                continue
            if bs and all(0 <= b < 256 for b in bs) and len(bs) < 300:
                out.append((fl, bs))
    _SEEDS = out
    return out

def gen_fuzz_seeded(rng, n):
    seeds = seed_vectors()
    out = []
    if not seeds:
        return out
    for k in range(n):
        fl, bs = seeds[k % len(seeds)] if k < 2 * len(seeds) else rng.choice(seeds)
        fam = rng.choice(fl)
        bs = list(bs)
        x = rng.random()
        if k >= len(seeds):
            if x < 0.3:
                for _ in range(rng.choice([1, 1, 2, 3])):
                    j = rng.randrange(len(bs)); bs[j] = rng.choice([0, 1, 0xff, 0x80, bs[j] ^ (1 << rng.randrange(8)), (bs[j] + 1) & 0xff, (bs[j] - 1) & 0xff, rng.randrange(256)])
            elif x < 0.5: bs = bs[:rng.randrange(len(bs) + 1)]
            elif x < 0.6: bs = bs + rbytes(rng, rng.choice([1, 2, 8]))
            elif x < 0.7: bs = bs + list(rng.choice(seeds)[1])
            elif x < 0.8 and len(bs) > 2: del bs[rng.randrange(len(bs))]
        ap = rng.random() < 0.15
        codec = {'ext': False, 'two': False, 'nh': False, 'fams': [(E.IPV4, False), (fam, ap)]}
        nl = E.with_path_id(rng.randrange(1 << 32), B(bs)) if ap else B(bs)
        nh = [] if (fam & 0xff) in (133, 134) else rng.choice([rbytes(rng, 4), rbytes(rng, 16)])
        if rng.random() < 0.7:
            attrs = [E.attr(0x40, 1, [0]), E.attr(0x40, 2, []), E.attr(0x80, 14, E.mp_reach_value(fam, nh, [nl]))]
        else:
            attrs = [E.attr(0x80, 15, E.mp_unreach_value(fam, [nl]))]
        out.append({'k': kind_of(fam), 'codec': codec, 'chunks': [E.update([], attrs, []).d]})
    return out

def gen_fuzz_sweep(rng, tier):
    """Structure-aware boundary sweep for the families that are only fuzzed: every octet of every
    wire test vector of the repository (each is a length, count, type or prefix-length octet, or
    data) set to its neighbours and extremes, one at a time, the rest of the NLRI left valid; and
    every vector cut short by 1..2 octets at the end.  This is what reaches 'a TLV short by exactly
    one octet' and 'prefix length one more than the address octets present'."""
    out = []
    seeds = seed_vectors()
    quick = tier == 'quick'
    for fl, bs in seeds:
        fams = fl if not quick else fl[:2]
        for fam in fams:
            variants = []
            for i, b in enumerate(bs):
                vals = [(b + 1) & 0xff, (b - 1) & 0xff, 0, 0xff] + ([(b + 8) & 0xff, (b + 2) & 0xff, 0x80, 1] if not quick else [])
                for v in dict.fromkeys(vals):
                    if v != b:
                        variants.append(bs[:i] + [v] + bs[i + 1:])
            for k in (1, 2):
                if len(bs) > k: variants.append(bs[:-k])
            for v in variants:
                codec = {'ext': False, 'two': False, 'nh': False, 'fams': [(E.IPV4, False), (fam, False)]}
                nh = [] if (fam & 0xff) in (133, 134) else [10, 0, 0, 1]
                attrs = [E.attr(0x40, 1, [0]), E.attr(0x40, 2, []), E.attr(0x80, 14, E.mp_reach_value(fam, nh, [B(v)]))]
                out.append({'k': kind_of(fam), 'codec': codec, 'chunks': [E.update([], attrs, []).d]})
    return out

def bgp_complete_for(codec):
    mx = 65535 if codec['ext'] else 4096
    def complete(buf):
        if len(buf) < 19: return False
        L = (buf[16] << 8) | buf[17]
        return L < 19 or L > mx or L <= len(buf)
    return complete

def oracle_bgp(c, o):
    why = oracle_stream(c, o, bgp_complete_for(c['codec']), 'PeerCodec::try_parse')
    if why: return why
    for e in o:
        if e[0] == 2 and not (1 <= e[1] <= 7):
            return 'PeerCodec::try_parse failed with something that is not a NOTIFICATION code (%d)' % e[1]
    return None

def oracle_bfd(c, o):
    """Property text: a message or a drop, never a panic."""
    if o == PANIC:
        return 'bfd::Message::decode panicked'
    if o[0] == 1 and o[1] == 4:
        return 'bfd::Message::decode returned the encode-only Io error'
    if o[0] == 0:
        b = c['bytes']
        # RFC 5880 6.8.6: version 1, length field >= 24 and equal to the payload here
        if len(b) < 24 or b[3] != len(b) or (b[0] >> 5) != 1:
            return 'bfd::Message::decode accepted a packet failing the RFC 5880 reception checks'
    return None

STREAM_KINDS = ('rtr', 'bgp', 'fuzz')
FRESH_KIND = {1: 4, 2: 5}

def stream_result(o):
    """(messages, final error) of one run: what fragmentation invariance speaks about"""
    if o == PANIC:
        return 'panic'
    return ([e[1] for e in o if e[0] == 0], [e[1:-1] for e in o if e[0] == 2])

def oracle_memoryless(what, chunked, whole, fresh):
    """Property text (fragmentation invariance; a decoder is memoryless between calls except for the buffer),
    checked on the REAL decoder against ITSELF, not against the model: (1) the same chunks given to a decoder
    object that is re-created before every call must produce the same events, one by one; (2) the same bytes
    fed as one chunk must produce the same messages and the same final error.  The model cannot have hidden
    state (its decoder is a function of the buffer and an immutable codec), so this is the check that ties
    that shape to the code, whatever field the state lives in."""
    if PANIC in (chunked, whole, fresh):
        return None        # judged by oracle_stream
    if chunked != fresh:
        n = next((i for i, (x, y) in enumerate(zip(chunked, fresh)) if x != y), min(len(chunked), len(fresh)))
        return ('%s keeps state between calls: from call %d on, the decoder object that has seen the earlier calls answers differently from a '
                'fresh decoder object given the same buffer (%s vs %s)' % (what, n + 1, _ev(chunked, n), _ev(fresh, n)))
    a, b = stream_result(chunked), stream_result(whole)
    if a != b:
        return ('%s is not fragmentation invariant: the stream fed in the generated chunks gives %d message(s) and error %s, the same bytes fed '
                'whole give %d message(s) and error %s' % (what, len(a[0]), a[1] or 'none', len(b[0]), b[1] or 'none'))
    return None

def _ev(o, n):
    if n >= len(o): return 'no further event'
    e = o[n]
    if e[0] == 0: return 'a message, %d left' % e[-1]
    if e[0] == 1: return 'need more, %d left' % e[-1]
    if e[0] == 2: return 'error %s, %d left' % (e[1:-1], e[-1])
    return 'event %s' % e[0]

def _unlimit_stack():
    """coqc evaluates 65535-byte frames with deep non-tail recursion (vm_compute on the native
    stack): lift the soft stack limit for the coqc children"""
    try:
        import resource
        hard = resource.getrlimit(resource.RLIMIT_STACK)[1]
        resource.setrlimit(resource.RLIMIT_STACK, (hard, hard))
    except Exception:
        pass

class Prop:
    pid = 'C03'
    props_file = 'Props/C03.v'
    required_theorems = ['bfd_decode_total', 'bfd_accepts_iff_wellformed',
                         'rtr_decode_no_panic', 'rtr_decode_progress', 'rtr_complete_frame_decided',
                         'rtr_need_only_if_incomplete', 'rtr_fragmentation_invariant',
                         'bgp_parse_no_panic', 'bgp_parse_consumes',
                         'bgp_complete_frame_decided', 'bgp_need_only_if_incomplete',
                         'bgp_fragmentation_invariant', 'bgp_errors_are_notifications']
    correspondence_name = ('Model/Bfd.v bfd_decode vs packet/src/bfd.rs Message::decode; Model/Rtr.v rtr_decode vs packet/src/rpki.rs '
                           'RtrCodec::decode; Model/Wire*.v try_parse vs packet/src/bgp.rs PeerCodec::try_parse/parse_message (with vpn.rs, '
                           'labeled.rs, mpls.rs, rd.rs); each driven chunk by chunk as run_select / FramedRead do '
                           '(harness/hx-packet, debug and release builds)')
    rule = ('a case is one BFD datagram, or a byte stream cut into chunks for the RTR or the BGP decoder (BGP: with a session codec from '
            'family set x add-path x AS width x extended message x extended next hop); built from valid messages by structural mutation '
            '(every length field to 0/1/exact+-1/max, 16-bit sums that overflow, truncation at every offset, duplicated and reordered '
            'attributes, label stacks of 1-40 labels, attribute-length / prefix-length / next-hop-length sweeps) plus a malformed stream and '
            'arbitrary fragmentation; a case is non-trivial when a decoder returns a message or a protocol error (not merely "need more"); '
            'distinct = distinct (decoder, AS width, sequence of message kinds with their attribute codes and error attributes, error codes); '
            'every case is compared with the model (no family is oracle-only any more); the classes enumerated on every run are tagged class_* in the input distribution, the random ones class_random_*')
    exhaustive = {'quick': False, 'thorough': False}
    trusted_base = ['every NLRI family the crate can negotiate is in the Coq model since round 3 (IPv4/IPv6 unicast+multicast, labeled, VPN, EVPN 1-5, RTC, '
                    'SR policy, MUP 1-4, flowspec and flowspec-VPN, BGP-LS); the decoder argument [other] of the model is never reached (Proofs/WireMsg.v try_parse_other)',
                    'NLRI values are observed through the crate\'s own encode() for EVPN, RTC, SR policy and MUP (the model gives the bytes the decoder consumed, '
                    'which is what encode() writes back), structurally for flowspec and BGP-LS',
                    'prefix_sid.rs and tunnel_encap.rs are not reached by try_parse (the receive path keeps those attributes as bytes) and are not covered',
                    'the marker (first 16 octets of the BGP header) is not checked by the code, the model or the property',
                    'String::from_utf8 in the FQDN capability is modelled by the Unicode well-formedness table (Model/Wire.v utf8_valid_fuel)',
                    'HIDDEN DECODER STATE: the model\'s decoders are functions of the buffer (and, for BGP, of an immutable session codec); the five *_fragmentation_invariant / '
                    '*_complete_frame_decided theorems therefore speak about decoders that are memoryless between calls BY CONSTRUCTION, while PeerCodec::try_parse and RtrCodec::decode '
                    'take &mut self and can remember anything.  What ties the two: (i) the harness keeps ONE decoder object per stream, as the daemon does, and its event list is compared '
                    'with the model on every case; (ii) on every stream case the implementation is also compared WITH ITSELF (gen/c03.py oracle_memoryless): the same chunks with a decoder '
                    'object re-created before every call must give the same events one by one, and the same bytes fed whole must give the same messages and final error.  (ii) exposes '
                    'state in any field, present or future, provided some generated stream drives the decoder into the state and then past it; the class list bgp_state_* / rtr_state_* '
                    '(a frame whose length is read before its body has arrived, delivered in pieces, FOLLOWED by further frames) is what provides that, and is a sample, not a proof',
                    'the model is evaluated once per case for both build profiles (Proofs/WireOpen.v try_parse_profile_indep); the harness still runs the debug and the release build']
    assumptions = ['bytes are 0..255 (the harness cannot supply anything else)',
                   'the receive loop is the one of PeerSession::run_select / tokio_util FramedRead: append what was read, call the decoder until it '
                   'answers "need more" or fails (Model/Stream.v)']

    # ---- rendering
    def case_to_val(self, c):
        if c['k'] == 'bfd':
            return [0, c['bytes']]
        if c['k'] == 'rtr':
            return [1, c['chunks']]
        if c['k'] in ('bgp', 'fuzz'):
            return [2, codec_val(c['codec']), c['chunks']]
        raise ValueError(c)

    def case_to_coq(self, c):
        if c['k'] == 'bfd':
            return 'run_bfd %s' % cbytes(c['bytes'])
        if c['k'] == 'rtr':
            return '%s %s' % ('run_rtr_v0' if os.environ.get('C03_RTR_V0') else 'run_rtr', clist([cbytes_big(x) for x in c['chunks']]))
        if c['k'] == 'bgp':
            return 'run_bgp %s %s' % (codec_coq(c['codec']), clist([cbytes_big(x) for x in c['chunks']]))
        raise ValueError(c)

    def case_to_json(self, c):
        return json.loads(json.dumps(c))

    def case_from_json(self, j):
        c = dict(j)
        if c['k'] == 'bgp':
            c['codec'] = dict(c['codec'])
            c['codec']['fams'] = [tuple(x) for x in c['codec']['fams']]
        return c

    def corpus_cases(self):
        d = os.path.join(os.path.dirname(os.path.dirname(os.path.abspath(__file__))), 'corpus', 'C03')
        out = []
        if os.path.isdir(d):
            for fn in sorted(os.listdir(d)):
                if fn.endswith('.json'):
                    out.append(self.case_from_json(json.load(open(os.path.join(d, fn)))['case']))
        return out

    # ---- generation
    def gen_cases(self, rng, tier):
        q = tier == 'quick'
        from gen import c03_enum
        return c03_enum.enum_cases() + gen_bfd(rng, 300 if q else 2000) + gen_rtr(rng, 600 if q else 3000) + gen_bgp(rng, 2500 if q else 5000, tier) + gen_fuzz(rng, 1500 if q else 2500) + gen_fuzz_seeded(rng, 2500 if q else 5000) + gen_fuzz_sweep(rng, tier)

    # ---- running
    def run_impl(self, cases, tier):
        """observation of a BFD case: [debug, release]; of a stream case: [debug, release, whole_debug,
        whole_release, fresh_debug, fresh_release] where whole = the same bytes fed as ONE chunk and fresh =
        the same chunks with a NEW decoder object before every call (harness kinds 4/5).  Only the first two
        are compared with the model (canon); oracle_memoryless compares the runs of the REAL codec with each
        other."""
        vals, where = [], []
        for i, c in enumerate(cases):
            v = self.case_to_val(c)
            where.append([len(vals)]); vals.append(v)
            if c['k'] in STREAM_KINDS:
                whole = [b for ch in c['chunks'] for b in ch]
                where[i].append(len(vals)); vals.append(v[:-1] + [[whole]])
                where[i].append(len(vals)); vals.append([FRESH_KIND[v[0]]] + v[1:])
        obs, err = hxpacket.run_both('C03', vals)
        if obs is None:
            return None, err
        return [[x for j in w for x in obs[j]] if len(w) > 1 else obs[w[0]] for w in where], ''

    def run_model(self, cases, tier):
        _unlimit_stack()
        pre = ('From RB Require Import Base.Val Base.Bytes Model.Bfd Model.Stream Model.Rtr Model.Wire Model.WireNlri '
               'Model.WireUpdate Model.WireMsg.\nOpen Scope N_scope.')
        idx = [i for i, c in enumerate(cases) if c['k'] != 'fuzz']
        res, err = coqrun.eval_terms('C03', pre, [self.case_to_coq(cases[i]) for i in idx])
        if res is None:
            return None, err
        out = [None] * len(cases)
        for i, r in zip(idx, res):
            out[i] = r
        return out, ''

    def canon(self, case, obs):
        # families behind the oracle are not evaluated in the model: only the Spec oracle judges them
        if case['k'] == 'fuzz': return 'not-modelled'
        # [debug, release] is what the model is compared with; the whole-fed and fresh-decoder runs of the
        # implementation (run_impl) are judged by the oracle only
        return obs[:2] if case['k'] in STREAM_KINDS and isinstance(obs, list) else obs

    # ---- Spec oracle on the implementation's observations [debug, release]
    def oracle(self, c, obs):
        for prof, o in zip(('debug', 'release'), obs[:2]):
            if c['k'] == 'bfd': why = oracle_bfd(c, o)
            elif c['k'] == 'rtr': why = oracle_stream(c, o, rtr_complete, 'RtrCodec::decode')
            elif c['k'] in ('bgp', 'fuzz'): why = oracle_bgp(c, o)
            else: why = None
            if why:
                return '%s build: %s' % (prof, why)
        if c['k'] in STREAM_KINDS and len(obs) == 6:
            what = 'RtrCodec::decode' if c['k'] == 'rtr' else 'PeerCodec::try_parse'
            for j, prof in ((0, 'debug'), (1, 'release')):
                why = oracle_memoryless(what, obs[j], obs[2 + j], obs[4 + j])
                if why:
                    return '%s build: %s' % (prof, why)
        return None

    def in_known_class(self, kf, c, obs, why):
        return False

    def nontrivial_key(self, c, obs):
        o = obs[0]
        if o == PANIC:
            return (c['k'], 'panic')
        if c['k'] == 'bfd':
            if o[0] == 1 and o[1] == 0:
                return None
            return ('bfd', o[0], o[1] if o[0] == 1 else (o[1], o[2]))
        if c['k'] == 'rtr':
            ms = tuple(e[1][0] for e in o if e[0] == 0)
            if not ms and not any(e[0] == 2 for e in o):
                return None
            return ('rtr', ms, tuple(e[0] for e in o if e[0] != 0))
        if c['k'] in ('bgp', 'fuzz'):
            key = []
            for e in o:
                if e[0] == 0:
                    m = e[1]
                    if m[0] == 2 and m[1] == 1:
                        key.append((2, tuple(a[0] for a in m[6]), tuple(tuple(x) for x in m[7]),
                                    tuple(len(x) for x in m[2:6])))
                    elif m[0] == 1:
                        key.append((1, tuple(cp[0] for cp in m[4])))
                    else:
                        key.append(tuple(m[:2]))
                elif e[0] == 2:
                    key.append(('err', e[1], e[2]))
            if not key: return None
            cd = c['codec']
            return (c['k'], cd['two'], cd['fams'][-1][0] if c['k'] == 'fuzz' else 0, tuple(key))
        return None

    def classify(self, c, obs):
        return self._classify(c, obs) + (['class_' + c['cls']] if 'cls' in c else ['class_random_' + c['k']])

    def _classify(self, c, obs):
        o = obs[0]
        if o == PANIC:
            return [c['k'] + '_panic']
        if c['k'] == 'bfd':
            return ['bfd_ok' if o[0] == 0 else 'bfd_err_%d' % o[1]]
        if c['k'] == 'rtr':
            t = ['rtr_chunks_%s' % ('1' if len(c['chunks']) == 1 else '2+')]
            if any(e[0] == 0 for e in o): t.append('rtr_msg')
            if any(e[0] == 2 for e in o): t.append('rtr_error')
            if o and o[-1][0] == 1 and o[-1][1] > 0: t.append('rtr_pending_bytes')
            return t
        if c['k'] == 'fuzz':
            e = o[0] if o else [1]
            return ['fuzz_family_%d_%d' % (c['codec']['fams'][-1][0] >> 16, c['codec']['fams'][-1][0] & 0xff),
                    'fuzz_accepted' if e[0] == 0 else 'fuzz_rejected']
        if c['k'] == 'bgp':
            t = ['bgp_chunks_%s' % ('1' if len(c['chunks']) == 1 else '2+')]
            for e in o:
                if e[0] == 0:
                    m = e[1]
                    t.append('bgp_msg_%s' % {1: 'open', 2: 'update', 3: 'notification', 4: 'keepalive', 5: 'refresh'}[m[0]])
                    if m[0] == 2 and m[1] == 1 and m[7]: t.append('bgp_update_with_error_attrs')
                elif e[0] == 2: t.append('bgp_err_%d_%d' % (e[1], e[2]))
            if o and o[-1][0] == 1 and o[-1][1] > 0: t.append('bgp_pending_bytes')
            return sorted(set(t))
        return []
