"""C03: generators, renderers and Spec oracle for the wire decoders
(bfd::Message::decode, RtrCodec::decode, PeerCodec::try_parse)."""
import json, os
from vp import val, coqrun
from vp.val import cN, cbool, clist, cpair, cbytes
from gen import hxpacket

PANIC = [-1]

# ------------------------------------------------------------------ BFD
def bfd_valid(rng):
    b0 = (1 << 5) | rng.randrange(32)
    b1 = rng.randrange(256)
    return [b0, b1, rng.randrange(256), 24] + [rng.randrange(256) for _ in range(20)]

def gen_bfd(rng, n):
    out = []
    base = bfd_valid(rng)
    # truncation at every offset, growth past the length field
    for k in range(0, 30):
        out.append((base + [0] * 8)[:k])
    for _ in range(n):
        b = bfd_valid(rng)
        x = rng.random()
        if x < 0.25:
            pass
        elif x < 0.45:
            b[3] = rng.choice([0, 1, 23, 24, 25, 255, len(b) + 1])
        elif x < 0.6:
            b[0] = rng.randrange(256)
        elif x < 0.75:
            extra = rng.choice([1, 2, 8, 231, 232])
            b = b + [rng.randrange(256) for _ in range(extra)]
            if rng.random() < 0.7:
                b[3] = len(b) & 0xff
        elif x < 0.9:
            b = b[:rng.randrange(0, 25)]
        else:
            b = [rng.randrange(256) for _ in range(rng.choice([0, 1, 3, 4, 23, 24, 25, 48]))]
        out.append(b)
    return [{'k': 'bfd', 'bytes': b} for b in out]

# ------------------------------------------------------------------ RTR
def be(n, w): return [(n >> (8 * (w - 1 - i))) & 0xff for i in range(w)]

def rtr_pdu(rng, ty=None, version=None):
    """A well-formed PDU of the given type (RFC 6810 / 8210)."""
    if version is None: version = rng.choice([0, 1, 1, 2])
    if ty is None: ty = rng.choice([0, 1, 2, 3, 4, 6, 7, 8, 10])
    sid = rng.choice([0, 1, 7, 0xffff])
    r32 = lambda: rng.choice([0, 1, 99, 0xffffffff, rng.randrange(1 << 32)])
    if ty in (0, 1): body = be(r32(), 4)
    elif ty in (2, 3, 8): body = []
    elif ty == 4: body = [rng.randrange(2), rng.randrange(33), rng.randrange(33), 0] + [rng.randrange(256) for _ in range(4)] + be(r32(), 4)
    elif ty == 6: body = [rng.randrange(2), rng.randrange(129), rng.randrange(129), 0] + [rng.randrange(256) for _ in range(16)] + be(r32(), 4)
    elif ty == 7: body = be(r32(), 4) + (be(3600, 4) + be(600, 4) + be(7200, 4) if version >= 1 else [])
    elif ty == 10:
        enc = rng.choice([[], [1, 2, 0, 0, 0, 0, 0, 8]])
        txt = [rng.randrange(32, 127) for _ in range(rng.choice([0, 5]))]
        body = be(len(enc), 4) + enc + be(len(txt), 4) + txt
    elif ty == 9:   # Router Key (RFC 8210 5.10): flags in the header, SKI, ASN, SPKI
        body = [rng.randrange(256) for _ in range(20)] + be(r32(), 4) + [rng.randrange(256) for _ in range(rng.choice([0, 16, 91]))]
    else: body = [rng.randrange(256) for _ in range(rng.choice([0, 4, 12]))]
    return [version, ty] + be(sid, 2) + be(8 + len(body), 4) + body

def fragment(rng, data):
    """Arbitrary fragmentation of a byte string into chunks."""
    x = rng.random()
    if x < 0.3 or len(data) < 2:
        return [list(data)]
    if x < 0.45:
        return [[b] for b in data]
    n = rng.randint(1, min(6, len(data) - 1))
    cuts = sorted(set(rng.randrange(1, len(data)) for _ in range(n)))
    out, prev = [], 0
    for c in cuts + [len(data)]:
        out.append(list(data[prev:c])); prev = c
    if rng.random() < 0.2:
        out.insert(rng.randrange(len(out) + 1), [])
    return out

def gen_rtr(rng, n):
    out = []
    # every type alone, truncated at every offset
    for ty in (0, 1, 2, 3, 4, 6, 7, 8, 10):
        for ver in (0, 1):
            p = rtr_pdu(rng, ty, ver)
            out.append([p])
            for k in range(len(p)):
                out.append([p[:k]])
            # length field boundary values
            for L in (0, 1, 7, 8, len(p) - 1, len(p) + 1, 0xffffffff):
                q = list(p); q[4:8] = be(L & 0xffffffff, 4)
                out.append([q]); out.append([q + rtr_pdu(rng)])
    for ty in (5, 9, 11, 255):
        p = rtr_pdu(rng, ty, 1)
        out.append([p]); out.append([p + rtr_pdu(rng, 2, 1)])
    for _ in range(n):
        pdus = [rtr_pdu(rng) for _ in range(rng.randint(1, 5))]
        x = rng.random()
        if x < 0.45:
            k = rng.randrange(len(pdus)); q = pdus[k]
            y = rng.random()
            if y < 0.35: q[4:8] = be(rng.choice([0, 1, 2, 7, 8, 9, len(q) - 1, len(q) + 1, len(q) + 8, 12, 20, 32, 0x100, 0xffffffff]), 4)
            elif y < 0.6: q[1] = rng.choice([5, 9, 11, 12, 128, 255, rng.randrange(256)])
            elif y < 0.75: q[0] = rng.randrange(256)
            elif y < 0.9: pdus[k] = q[:rng.randrange(len(q))]
            else: pdus[k] = [rng.randrange(256) for _ in range(rng.randrange(1, 24))]
        data = [b for q in pdus for b in q]
        out.append(fragment(rng, data))
    return [{'k': 'rtr', 'chunks': ch} for ch in out]

def oracle_stream(c, o, complete, what):
    """Property text on a chunk-fed decoder: no panic; a returned message consumed
    input; a complete frame in the buffer is never answered "need more".
    complete(buf) -> bool is written from the framing rule of the protocol."""
    if o == PANIC:
        return '%s panicked' % what
    buf = []
    chunks = list(c['chunks'])
    k = 0
    new_chunk = True
    for e in o:
        if new_chunk:
            if k >= len(chunks):
                return '%s harness protocol: more events than chunks' % what
            buf = buf + chunks[k]; k += 1; new_chunk = False
        if e[0] == 9:
            return '%s returned a message without consuming any input (the caller spins)' % what
        if e[0] == 8:
            return '%s did not finish within the driver bound' % what
        if e[0] == 0:
            rem = e[2]
            if rem >= len(buf):
                return '%s returned a message without consuming any input' % what
            buf = buf[len(buf) - rem:]
        elif e[0] == 1:
            if complete(buf):
                return '%s asked for more bytes although a complete frame is buffered (stall)' % what
            new_chunk = True
        elif e[0] == 2:
            return None
    return None

def rtr_complete(buf):
    return len(buf) >= 8 and int.from_bytes(bytes(buf[4:8]), 'big') <= len(buf)

def oracle_bfd(c, o):
    """Property text: a message or a drop, never a panic."""
    if o == PANIC:
        return 'bfd::Message::decode panicked'
    if o[0] == 1 and o[1] == 4:
        return 'bfd::Message::decode returned the encode-only Io error'
    if o[0] == 0:
        b = c['bytes']
        # RFC 5880 6.8.6: version 1, length field >= 24 and equal to the payload here
        if len(b) < 24 or b[3] != len(b) or (b[0] >> 5) != 1:
            return 'bfd::Message::decode accepted a packet failing the RFC 5880 reception checks'
    return None

class Prop:
    pid = 'C03'
    props_file = 'Props/C03.v'
    required_theorems = ['bfd_decode_total', 'bfd_accepts_iff_wellformed',
                         'rtr_decode_no_panic', 'rtr_decode_progress', 'rtr_complete_frame_decided',
                         'rtr_need_only_if_incomplete', 'rtr_fragmentation_invariant']
    correspondence_name = ('Model/Bfd.v bfd_decode vs packet/src/bfd.rs Message::decode '
                           '(harness/hx-packet, debug and release builds)')
    rule = ('a case is one byte string (BFD) ...; non-trivial when the decoder gets past the length checks; '
            'distinct = distinct (decoder, outcome class, error kind)')
    exhaustive = {'quick': False, 'thorough': False}
    trusted_base = []
    assumptions = ['bytes are 0..255 (the harness cannot supply anything else)']

    # ---- rendering
    def case_to_val(self, c):
        if c['k'] == 'bfd':
            return [0, c['bytes']]
        if c['k'] == 'rtr':
            return [1, c['chunks']]
        raise ValueError(c)

    def case_to_coq(self, c):
        if c['k'] == 'bfd':
            return 'run_bfd %s' % cbytes(c['bytes'])
        if c['k'] == 'rtr':
            return '%s %s' % ('run_rtr_v0' if os.environ.get('C03_RTR_V0') else 'run_rtr', clist([cbytes(x) for x in c['chunks']]))
        raise ValueError(c)

    def case_to_json(self, c):
        return json.loads(json.dumps(c))

    def case_from_json(self, j):
        return j

    def corpus_cases(self):
        d = os.path.join(os.path.dirname(os.path.dirname(os.path.abspath(__file__))), 'corpus', 'C03')
        out = []
        if os.path.isdir(d):
            for fn in sorted(os.listdir(d)):
                if fn.endswith('.json'):
                    out.append(self.case_from_json(json.load(open(os.path.join(d, fn)))['case']))
        return out

    # ---- generation
    def gen_cases(self, rng, tier):
        q = tier == 'quick'
        return gen_bfd(rng, 300 if q else 3000) + gen_rtr(rng, 600 if q else 6000)

    # ---- running
    def run_impl(self, cases, tier):
        return hxpacket.run_both('C03', [self.case_to_val(c) for c in cases])

    def run_model(self, cases, tier):
        pre = 'From RB Require Import Base.Val Base.Bytes Model.Bfd Model.Stream Model.Rtr.\nOpen Scope N_scope.'
        return coqrun.eval_terms('C03', pre, [self.case_to_coq(c) for c in cases])

    def canon(self, case, obs):
        return obs

    # ---- Spec oracle on the implementation's observations [debug, release]
    def oracle(self, c, obs):
        for prof, o in zip(('debug', 'release'), obs):
            if c['k'] == 'bfd': why = oracle_bfd(c, o)
            elif c['k'] == 'rtr': why = oracle_stream(c, o, rtr_complete, 'RtrCodec::decode')
            else: why = None
            if why:
                return '%s build: %s' % (prof, why)
        return None

    def in_known_class(self, kf, c, obs, why):
        return False

    def nontrivial_key(self, c, obs):
        o = obs[0]
        if o == PANIC:
            return (c['k'], 'panic')
        if c['k'] == 'bfd':
            if o[0] == 1 and o[1] == 0:
                return None
            return ('bfd', o[0], o[1] if o[0] == 1 else (o[1], o[2]))
        if c['k'] == 'rtr':
            ms = tuple(e[1][0] for e in o if e[0] == 0)
            if not ms and not any(e[0] == 2 for e in o):
                return None
            return ('rtr', ms, tuple(e[0] for e in o if e[0] != 0))
        return None

    def classify(self, c, obs):
        o = obs[0]
        if o == PANIC:
            return [c['k'] + '_panic']
        if c['k'] == 'bfd':
            return ['bfd_ok' if o[0] == 0 else 'bfd_err_%d' % o[1]]
        if c['k'] == 'rtr':
            t = ['rtr_chunks_%s' % ('1' if len(c['chunks']) == 1 else '2+')]
            if any(e[0] == 0 for e in o): t.append('rtr_msg')
            if any(e[0] == 2 for e in o): t.append('rtr_error')
            if o and o[-1][0] == 1 and o[-1][1] > 0: t.append('rtr_pending_bytes')
            return t
        return []
