"""C14: generators, renderers and Spec oracle for the routing-policy correspondence.

A case is {'profile': 'debug'|'release', 'ops': [op, ...]}: a sequence of
operations on one fresh rustybgp_table::PolicyTable.  Operations are written
directly in the nested-integer format read by harness/hx-policy:

  ip      [4,a] | [6,hi64,lo64]             nlri  [4,a,mask] | [6,hi,lo,mask]
  nexthop option  [] | [[4,a]] | [[6,hi,lo]] | [[7,hi,lo,hi,lo]]
  attr    [0,code,value] | [1,code,bytes] | [2,code,flags,bytes] (opaque)
  source  [is_local, remote_ip, local_ip, remote_asn, local_asn]
  setcfg  [kind,name,entries]   kind 0 prefix 1 neighbor 2 as-path 3 community 4 ext 5 large
          prefix entry [[ip,mask],min,max] | [[0],min,max] (malformed)
          neighbor entry [ip,mask] | [0]
          as-path entry [0,k,a,b] single (k: 0 _a_ 1 ^a_ 2 _a$ 3 ^a$ 4..7 ranges a-b) | [1,id,bytes] regex | [2] bad
          community entry [0,v,form] (form 0 "v", 1 "hi:lo") | [1,id,bytes] regex | [2,idx,upper] well-known | [3] bad
          ext/large entry [1,id,bytes] | [3] bad
  cond    [k,name,opt] k<6 set reference (opt 0 any 1 all 2 invert) | [6,cmp,n] as-path-length | [7,[ip..]] nexthop
          | [8,st] rpki | [9,v] local-pref | [10,v] med | [11,v] origin | [12,rt] route type | [13,cmp,n] community count
          | [14,[fam..]] afi-safi
  actions [nexthop, community, local_pref, med, as_prepend, ext, large, origin] each [] or [x]
  ops     [1,replace,setcfg] [2,all,setcfg] [3,name,conds,disp,actions] [4,name,all,conds,disp,actions]
          [5,name,stmts] [6,name,preserve,all,stmts] [7,set,dir,default,policies] [8,dir,names,all]
          [9,dir,source,nlri,attrs,nh,orig_nh,is_confed,local_ip,peer_ip] (dir 0 import 1 export) [10] dump
          [11,[[ip,mask,max_length,asn]..]] install an RpkiTable with these VRPs (evaluation has rpki=Some from now on)
          Global-level cases ('kind': 'global', harness/daemon/event_policy_hx.rs): ops 1..8 plus
          [20,peer,[]|[[default,[policy..]]]] add_peer  [21,peer,dir,default,[policy..]] per-peer add assignment
          [22,peer,dir,[policy..],all] per-peer delete assignment  [23,peer,source,nlri,attrs,nh,orig_nh,is_confed,local_ip,peer_ip] evaluate
          with the peer's effective export policy  [24] dump
          [12,nlri,asn] probe RpkiTable::validate for (prefix, origin AS): [] (None) | [state] | [-2] (no table)
"""
import json, re, itertools
from vp import val, coqrun, rustrun
from vp.val import cN, cZ, cbool, clist, cpair, copt

W4, W6 = 32, 128
U32 = (1 << 32) - 1

def ip4(a, b, c, d): return [4, (a << 24) | (b << 16) | (c << 8) | d]
def ip6(x): return [6, x >> 64, x & ((1 << 64) - 1)]
def ipv(i): return (4, i[1]) if i[0] == 4 else (6, (i[1] << 64) | i[2])
def ip_w(i): return W4 if i[0] == 4 else W6
V6BASE = 0x20010db8 << 96

WELL_KNOWN = [0xffff0000, 0xffff0001, 0xffff0006, 0xffff0007, 0xffff029a,
              0xffffff01, 0xffffff02, 0xffffff03, 0xffffff04]

# regular-expression vocabularies (id -> pattern string).  ids are global.
RX = {
    # community regexes (raw strings as given to add_defined_set)
    101: '65000:.*', 102: '6500[01]:100', 103: '^65000:', 104: ':1', 105: '.*:666$', 106: '65001:1..',
    # ext community regexes
    201: '^rt:65000:.*', 202: '^soo:', 203: 'rt:.*:100$', 204: 'encap:8', 205: 'validation:invalid',
    206: 'validation:valid$', 207: 'validation:not-found', 208: '^rt:10\\.0\\.0\\.1:7$', 209: 'lb:65000:0', 210: '^soo:65000:1$', 211: '^rt:65000:100$',
    # large community regexes
    301: '^65000:.*:1$', 302: '65000:1:.*', 303: ':2:', 304: '^4294967295:4294967295:4294967295$',
    # as-path regexes (the code never evaluates these: known finding C14-1)
    401: '65001', 402: '^65001 6500[0-9]', 403: '_6500[12]_', 404: '^$', 405: '\\{65001,', 406: '^\\(6500[0-9]', 407: '65002$',
    408: '_65004_.*_65001$', 409: '^[0-9]+$', 410: '\\[.*\\]', 411: ' $',
    412: '_99999999999_', 413: '^65001-99999999999$',
    # one pattern per segment form that pins its brackets and its separator
    414: '\\(65000 65004\\)', 415: '\\[65001,65002\\]', 416: '^65001 65002$', 417: '\\{65001,65002\\}', 418: '^65004 65002 65001$',     # a single form whose number does not fit u32: SingleAsPathMatch::new gives it to the regex branch
}
def rx_entry(i): return [1, i, list(RX[i].encode())]

def community_final_regex(s):
    """python mirror of parse_community for a non-numeric, non-well-known string"""
    if re.search(r'(\d+.)*\d+:\d+', s):
        return '^' + s + '$'
    return s

def comm_str(c): return '%d:%d' % (c >> 16, c & 0xffff)
def large_str(c): return '%d:%d:%d' % (c >> 64, (c >> 32) & U32, c & U32)
def ext_str(c):
    b = c.to_bytes(8, 'big')
    t = (b[0], b[1])
    if t in ((0, 2), (0, 3)):
        return '%s:%d:%d' % ('rt' if b[1] == 2 else 'soo', int.from_bytes(b[2:4], 'big'), int.from_bytes(b[4:8], 'big'))
    if t in ((2, 2), (2, 3)):
        return '%s:%d:%d' % ('rt' if b[1] == 2 else 'soo', int.from_bytes(b[2:6], 'big'), int.from_bytes(b[6:8], 'big'))
    if t in ((1, 2), (1, 3)):
        return '%s:%d.%d.%d.%d:%d' % ('rt' if b[1] == 2 else 'soo', b[2], b[3], b[4], b[5], int.from_bytes(b[6:8], 'big'))
    if t == (3, 12):
        return 'encap:%d' % int.from_bytes(b[6:8], 'big')
    if t == (0x40, 4):
        return None if any(b[4:8]) else 'lb:%d:0' % int.from_bytes(b[2:4], 'big')   # only bandwidth 0.0 is generated
    if t == (0x43, 0):
        return {0: 'validation:valid', 1: 'validation:not-found', 2: 'validation:invalid'}.get(b[7])
    return None

def rx_comm(i, c): return re.search(community_final_regex(RX[i]), comm_str(c)) is not None
def rx_ext(i, c):
    s = ext_str(c)
    return s is not None and re.search(RX[i], s) is not None
def rx_large(i, c): return re.search(RX[i], large_str(c)) is not None

CANON_FLAGS = {1: 64, 2: 64, 3: 64, 5: 64, 6: 64, 4: 128, 9: 128, 10: 128, 14: 128, 15: 128, 26: 128, 29: 128,
               7: 192, 8: 192, 16: 192, 17: 192, 18: 192, 32: 192, 40: 192, 23: 192}

# ---------------------------------------------------------------- AS_PATH helpers
def aspath_bytes(segs):
    b = []
    for t, l in segs:
        b += [t, len(l) & 255]
        for a in l:
            b += list(a.to_bytes(4, 'big'))
    return b
def aspath_attr(segs): return [1, 2, aspath_bytes(segs)]
def comm_attr(cs): return [1, 8, [x for c in cs for x in c.to_bytes(4, 'big')]]
def ext_attr(cs): return [1, 16, [x for c in cs for x in c.to_bytes(8, 'big')]]
def large_attr(cs): return [1, 32, [x for c in cs for x in c.to_bytes(12, 'big')]]

def iter_segs(b):
    """AsPathIter semantics: (type, [asn]) per segment; a short read ends the iteration"""
    out, p = [], 0
    while p < len(b):
        if p + 2 > len(b): break
        t, n = b[p], b[p + 1]
        if p + 2 + 4 * n > len(b): break
        out.append((t, [int.from_bytes(bytes(b[p + 2 + 4 * i: p + 6 + 4 * i]), 'big') for i in range(n)]))
        p += 2 + 4 * n
    return out

def wire_wf_aspath(b):
    p = 0
    while p < len(b):
        if p + 2 > len(b) or not (1 <= b[p] <= 4): return False
        p += 2 + 4 * b[p + 1]
        if p > len(b): return False
    return True

def chunks(b, k): return [int.from_bytes(bytes(b[i:i + k]), 'big') for i in range(0, len(b) - k + 1, k)]

def find_attr(attrs, code):
    for a in attrs:
        if a['code'] == code: return a
    return None

def attr_in(a):
    """case attr -> dict, None if the constructor refuses it"""
    if a[0] == 2: return {'k': 2, 'code': a[1], 'flags': a[2], 'data': list(a[3])}
    if a[1] not in CANON_FLAGS: return None
    return {'k': a[0], 'code': a[1], 'flags': CANON_FLAGS[a[1]], 'data': a[2] if a[0] == 0 else list(a[2])}
def attr_out(a): return [a['k'], a['code'], a['flags'], a['data']]

# ---------------------------------------------------------------- rendering to Gallina
def c_ip(i): return '(IP4 %s)' % cN(i[1]) if i[0] == 4 else '(IP6 %s)' % cN((i[1] << 64) | i[2])
def c_nlri(n): return '(NV4 %s %s)' % (cN(n[1]), cN(n[2])) if n[0] == 4 else '(NV6 %s %s)' % (cN((n[1] << 64) | n[2]), cN(n[3]))
def c_nh(o):
    if not o: return 'None'
    n = o[0]
    if n[0] == 4: return '(Some (NH4 %s))' % cN(n[1])
    if n[0] == 6: return '(Some (NH6 %s))' % cN((n[1] << 64) | n[2])
    return '(Some (NH6LL %s %s))' % (cN((n[1] << 64) | n[2]), cN((n[3] << 64) | n[4]))
def c_attr(a):
    d = attr_in(a)
    data = 'DVal %s' % cN(d['data']) if d['k'] == 0 else ('DBin %s' if d['k'] == 1 else 'DOpaque %s') % val.cbytes(d['data'])
    return '{| a_code := %s; a_flags := %s; a_data := %s |}' % (cN(d['code']), cN(d['flags']), data)
def c_attrs(l): return clist([c_attr(a) for a in l if attr_in(a) is not None])
def c_src(s): return '{| s_is_local := %s; s_remote_addr := %s; s_local_addr := %s; s_remote_asn := %s; s_local_asn := %s |}' % (
    cbool(s[0]), c_ip(s[1]), c_ip(s[2]), cN(s[3]), cN(s[4]))
OPT = ['MAny', 'MAll', 'MInvert']
def c_opt(o): return OPT[o] if o in (0, 1) else 'MInvert'
def c_cmp(c): return {0: 'CEq', 1: 'CGe', 2: 'CLe'}.get(c, 'CEq')
DISP = ['DPass', 'DAccept', 'DReject']
def c_disp(d): return DISP[d] if d in (0, 1) else 'DReject'
def c_optdisp(o): return copt(c_disp(o[0])) if o else 'None'
def c_names(l): return clist([cN(x) for x in l])

def c_setcfg(s):
    kind, name, ents = s
    def pfx(e):
        p = e[0]
        if len(p) < 2: return 'PfxBad'
        fam, a = ipv(p[0])
        return '(Pfx %s %s %s %s %s)' % (cbool(fam == 6), cN(a), cN(p[1]), cN(e[1]), cN(e[2]))
    def net(e):
        if len(e) < 2: return 'NetBad'
        fam, a = ipv(e[0])
        return '(Net {| n_v6 := %s; n_addr := %s; n_mask := %s |})' % (cbool(fam == 6), cN(a), cN(e[1]))
    def ap(e):
        if e[0] == 0: return '(ApSingle {| sg_kind := %s; sg_a := %s; sg_b := %s |})' % (cN(e[1]), cN(e[2]), cN(e[3]))
        if e[0] == 1: return '(ApRegex %s)' % cN(e[1])
        return 'ApBad'
    def cm(e):
        if e[0] == 0: return '(CmExact %s)' % cN(e[1])
        if e[0] == 1: return '(CmRegex %s)' % cN(e[1])
        if e[0] == 2: return '(CmExact %s)' % cN(WELL_KNOWN[e[1]])
        return 'CmBad'
    def rx(e): return '(RxOk %s)' % cN(e[1]) if e[0] == 1 else 'RxBad'
    f, ctor = [(pfx, 'CfgPrefix'), (net, 'CfgNeighbor'), (ap, 'CfgAsPath'), (cm, 'CfgComm'), (rx, 'CfgExt'), (rx, 'CfgLarge')][kind]
    return cN(name), '(%s %s)' % (ctor, clist([f(e) for e in ents]))

def c_cond(c):
    k = c[0]
    if k < 6: return '(KSet %s %s %s)' % (cN(k), cN(c[1]), c_opt(c[2]))
    if k == 6: v = 'CAsPathLen %s %s' % (c_cmp(c[1]), cN(c[2]))
    elif k == 7: v = 'CNexthop %s' % clist([c_ip(i) for i in c[1]])
    elif k == 8: v = 'CRpki %s' % cN(c[1])
    elif k == 9: v = 'CLocalPrefEq %s' % cN(c[1])
    elif k == 10: v = 'CMedEq %s' % cN(c[1])
    elif k == 11: v = 'COriginEq %s' % cN(c[1])
    elif k == 12: v = 'CRouteType %s' % ['RInternal', 'RExternal', 'RLocal'][min(c[1], 2)]
    elif k == 13: v = 'CCommCount %s %s' % (c_cmp(c[1]), cN(c[2]))
    else: v = 'CAfiSafiIn %s' % c_names(c[1])
    return '(KVal (%s))' % v
def c_conds(l): return clist([c_cond(c) for c in l])

CAT = ['CaAdd', 'CaRemove', 'CaReplace']
def c_cat(t): return CAT[t] if t in (0, 1) else 'CaReplace'
def c_actions(a):
    def o(x, f): return copt(f(x[0])) if x else 'None'
    def nh(x): return ['(NhAddress %s)' % c_ip(x[1]) if x[0] == 0 else '', 'NhSelf', 'NhPeer', 'NhUnchanged'][min(x[0], 3)]
    def ca(x): return '(%s, %s)' % (c_cat(x[0]), c_names(x[1]))
    def cab(k): return lambda x: '(%s, %s)' % (c_cat(x[0]), c_names([int.from_bytes(bytes(b), 'big') for b in x[1]]))
    def cal(x): return '(%s, %s)' % (c_cat(x[0]), c_names([(t[0] << 64) | (t[1] << 32) | t[2] for t in x[1]]))
    return ('{| ac_nexthop := %s; ac_comm := %s; ac_local_pref := %s; ac_med := %s; ac_prepend := %s; '
            'ac_ext := %s; ac_large := %s; ac_origin := %s |}') % (
        o(a[0], nh), o(a[1], ca), o(a[2], cN), o(a[3], lambda x: '(%s, %s)' % (cbool(x[0] != 0), cZ(x[1]))),
        o(a[4], lambda x: '(%s, %s, %s)' % (cN(x[0]), cN(x[1]), cbool(x[2]))), o(a[5], cab(8)), o(a[6], cal), o(a[7], cN))

def c_op(op):
    t = op[0]
    if t == 1:
        n, c = c_setcfg(op[2]); return '(OAddSet %s %s %s)' % (cbool(op[1]), n, c)
    if t == 2:
        n, c = c_setcfg(op[2]); return '(ODelSet %s %s %s)' % (cbool(op[1]), n, c)
    if t == 3: return '(OAddStmt %s %s %s %s)' % (cN(op[1]), c_conds(op[2]), c_optdisp(op[3]), c_actions(op[4]))
    if t == 4: return '(ODelStmt %s %s %s %s %s)' % (cN(op[1]), cbool(op[2]), c_conds(op[3]), c_optdisp(op[4]), c_actions(op[5]))
    if t == 5: return '(OAddPol %s %s)' % (cN(op[1]), c_names(op[2]))
    if t == 6: return '(ODelPol %s %s %s %s)' % (cN(op[1]), cbool(op[2]), cbool(op[3]), c_names(op[4]))
    if t == 7: return '(OAddAsg %s %s %s %s)' % (cbool(op[1] != 0), cbool(op[2] == 0), c_disp(op[3]), c_names(op[4]))
    if t == 8: return '(ODelAsg %s %s %s)' % (cbool(op[1] == 0), c_names(op[2]), cbool(op[3]))
    if t == 9:
        return ('(OEval %s {| ro_src := %s; ro_net := %s; ro_attrs := %s; ro_nh := %s; ro_orig := %s; '
                'ro_confed := %s; ro_local := %s; ro_peer := %s |})') % (
            cbool(op[1] == 0), c_src(op[2]), c_nlri(op[3]), c_attrs(op[4]), c_nh(op[5]), c_nh(op[6]),
            cbool(op[7]), c_ip(op[8]), c_ip(op[9]))
    if t == 11: return 'OSetRpki'
    if t == 12: return '(OProbe %s %s)' % (c_nlri(op[1]), cN(op[2]))
    return 'ODump'

def c_gop(op):
    t = op[0]
    if t <= 8: return '(GOp %s)' % c_op(op)
    if t == 20: return '(GAddPeer %s %s)' % (cN(op[1]), copt('(%s, %s)' % (c_disp(op[2][0][0]), c_names(op[2][0][1]))) if op[2] else 'None')
    if t == 21: return '(GPeerAddAsg %s %s %s %s)' % (cN(op[1]), cbool(op[2] == 0), c_disp(op[3]), c_names(op[4]))
    if t == 22: return '(GPeerDelAsg %s %s %s %s)' % (cN(op[1]), cbool(op[2] == 0), c_names(op[3]), cbool(op[4]))
    if t == 23:
        return ('(GPeerEval %s {| ro_src := %s; ro_net := %s; ro_attrs := %s; ro_nh := %s; ro_orig := %s; '
                'ro_confed := %s; ro_local := %s; ro_peer := %s |})') % (
            cN(op[1]), c_src(op[2]), c_nlri(op[3]), c_attrs(op[4]), c_nh(op[5]), c_nh(op[6]), cbool(op[7]), c_ip(op[8]), c_ip(op[9]))
    if t == 25: return 'GSetRpki'
    if t == 26:
        return ('(GImportEval {| ro_src := %s; ro_net := %s; ro_attrs := %s; ro_nh := %s; ro_orig := None; '
                'ro_confed := false; ro_local := IP4 0%%N; ro_peer := IP4 0%%N |})') % (c_src(op[1]), c_nlri(op[2]), c_attrs(op[3]), c_nh(op[4]))
    if t == 27: return '(GProbe %s %s)' % (c_nlri(op[1]), cN(op[2]))
    return 'GDump'

def as_eval_ops(ops):
    """Global-level ops seen as table-level ops for the universe / table computations (23 -> 9)"""
    return [([9, 1] + op[2:]) if op[0] == 23 else ([9, 0, op[1], op[2], op[3], op[4], [], 0, op[1][2], op[1][1]] if op[0] == 26 else op) for op in ops]

# ---------------------------------------------------------------- regex tables for a case
def case_universe(ops):
    comm, ext, large = set(), set(), set()
    ids = set()
    for op in ops:
        if op[0] in (1, 2):
            for e in op[2][2]:
                if isinstance(e, list) and e and e[0] == 1 and op[2][0] >= 2: ids.add(e[1])
        if op[0] in (3, 4):
            a = op[4] if op[0] == 3 else op[5]
            if a[1]: comm.update(a[1][0][1])
            if a[5]: ext.update(int.from_bytes(bytes(b), 'big') for b in a[5][0][1])
            if a[6]: large.update((t[0] << 64) | (t[1] << 32) | t[2] for t in a[6][0][1])
        if op[0] == 9:
            for a in op[4]:
                d = attr_in(a)
                if d is None or d['k'] == 0: continue
                if d['code'] == 8: comm.update(chunks(d['data'], 4))
                if d['code'] == 16: ext.update(chunks(d['data'], 8))
                if d['code'] == 32: large.update(chunks(d['data'], 12))
    return ids, comm, ext, large

def prepend_bytes(b, seg, asn):
    if len(b) >= 2 and b[0] == seg and b[1] < 255:
        return [b[0], b[1] + 1] + list(asn.to_bytes(4, 'big')) + b[2:]
    return [seg, 1] + list(asn.to_bytes(4, 'big')) + b

def aspath_universe(ops, cap=600):
    """every AS_PATH byte string evaluation can meet: those of the routes, closed under the case's as-prepend actions"""
    S = {()}
    pre = set()
    for op in ops:
        if op[0] == 9:
            for a in op[4]:
                d = attr_in(a)
                if d is not None and d['code'] == 2 and d['k'] != 0: S.add(tuple(d['data']))
        if op[0] == 3 and op[4][4]:
            asn, rep, lm = op[4][4][0]
            if rep > 0: pre.add((asn, rep, lm))
    frontier = set(S)
    for _ in range(4):
        new = set()
        for b in frontier:
            for asn, rep, lm in pre:
                for seg in (2, 3):
                    a = asn
                    if lm:
                        sg = iter_segs(list(b))
                        if sg and sg[0][1]: a = sg[0][1][0]
                    x = list(b)
                    for _ in range(rep): x = prepend_bytes(x, seg, a)
                    x = tuple(x)
                    if x not in S: new.add(x)
        S |= new
        frontier = new
        if not new or len(S) > cap: break
    return S

def aspath_table(ops):
    ids = set()
    for op in ops:
        if op[0] in (1, 2) and op[2][0] == 2:
            for e in op[2][2]:
                if e and e[0] == 1: ids.add(e[1])
    if not ids: return []
    strs = sorted({aspath_string(iter_segs(list(b))) for b in aspath_universe(ops)})
    return [(i, [st for st in strs if rx_aspath(i, st)]) for i in sorted(ids)]

def probe_table(ops, obs):
    tv = {}
    if isinstance(obs, list):
        for op, o in zip(ops, obs):
            if op[0] in (12, 27) and o != [-2] and o != [-1]:
                tv[(tuple(op[1]), op[2])] = o[0] if o else None
    return tv

def c_str_table(t): return clist(['(%s, %s)' % (cN(i), clist([val.cbytes(list(x.encode())) for x in l])) for i, l in t])
def c_probe_table(tv): return clist(['(%s, %s, %s)' % (c_nlri(list(k[0])), cN(k[1]), copt(cN(v)) if v is not None else 'None') for k, v in sorted(tv.items())])

def rx_tables(ops):
    ids, comm, ext, large = case_universe(ops)
    tc = [(i, sorted(c for c in comm if rx_comm(i, c))) for i in sorted(ids) if 100 < i < 200]
    te = [(i, sorted(c for c in ext if rx_ext(i, c))) for i in sorted(ids) if 200 < i < 300]
    tl = [(i, sorted(c for c in large if rx_large(i, c))) for i in sorted(ids) if 300 < i < 400]
    return tc, te, tl
def c_table(t): return clist(['(%s, %s)' % (cN(i), c_names(l)) for i, l in t])

# ---------------------------------------------------------------- reference semantics (Spec oracle)
def covers(w, eaddr, emask, raddr, rmask):
    """entry eaddr/emask covers the route prefix raddr/rmask"""
    return emask <= rmask and (emask == 0 or (eaddr >> (w - emask)) == (raddr >> (w - emask)))

def aspath_string(segs):
    """python mirror of table/src/policy.rs as_path_string (GoBGP's rendering)"""
    parts = []
    for t, l in segs:
        if t == 1: parts.append('{' + ','.join(map(str, l)) + '}')
        elif t == 3: parts.append('(' + ' '.join(map(str, l)) + ')')
        elif t == 4: parts.append('[' + ','.join(map(str, l)) + ']')
        else: parts.append(' '.join(map(str, l)))
    return ' '.join(parts)

def rx_aspath(i, s): return re.search(RX[i].replace('_', '(^|[,{}() ]|$)'), s) is not None

def origin_asn(attrs, src):
    """the AS RpkiTable::validate checks: as_path_origin of the first AS_PATH attribute, else the source's local AS"""
    a = find_attr(attrs, 2)
    if a is not None and a['k'] != 0:
        segs = iter_segs(a['data'])
        if segs and segs[-1][0] == 2 and segs[-1][1]: return segs[-1][1][-1]
    return src[4]

def single_ref(k, a, b, flat):
    rng = lambda x: a <= x <= b
    if k == 0: return a in flat
    if k == 4: return any(rng(x) for x in flat)
    if k == 1: return bool(flat) and flat[0] == a
    if k == 5: return bool(flat) and rng(flat[0])
    if k == 2: return bool(flat) and flat[-1] == a
    if k == 6: return bool(flat) and rng(flat[-1])
    if k == 3: return len(flat) == 1 and flat[0] == a
    if k == 7: return len(flat) == 1 and rng(flat[0])
    return False

def opt_apply(opt, matches_per_pattern_any, all_patterns):
    """ANY: some pattern matches; ALL: every pattern matches; INVERT: none matches"""
    if opt == 0: return matches_per_pattern_any
    if opt == 1: return all_patterns
    return not matches_per_pattern_any

class Ref:
    """Reference table: objects by name, resolved by name at evaluation time."""
    def __init__(self):
        self.sets = {}     # (kind,name) -> content
        self.stmts = {}    # name -> dict(conds, disp, act)
        self.pols = {}     # name -> [stmt names]
        self.asg = {}      # dir -> (default, [policy names])
        self.peers = {}    # peer -> None | (default, [policy names])   (Global-level cases)

    # ---- who references what
    def set_users(self, k, n): return [s for s, st in self.stmts.items() if any(c[0] == k and c[1] == n for c in st['conds'] if c[0] < 6)]
    def stmt_users(self, n): return [p for p, ss in self.pols.items() if n in ss]
    def pol_users(self, n):
        return [d for d, (_, ps) in self.asg.items() if n in ps] + ['peer%d' % p for p, a in self.peers.items() if a and n in a[1]]

    @staticmethod
    def parse_entries(kind, ents):
        out = []
        for e in ents:
            if kind == 0:
                if len(e[0]) < 2: return None
                fam, a = ipv(e[0][0]); m = e[0][1]
                if m > (32 if fam == 4 else 128): return None
                out.append((fam, a, m, e[1], e[2]))
            elif kind == 1:
                if len(e) < 2: return None
                fam, a = ipv(e[0])
                if e[1] > (32 if fam == 4 else 128): return None
                out.append((fam, a, e[1]))
            elif kind == 2:
                if e[0] == 0: out.append(('s', e[1], e[2], e[3] if e[1] >= 4 else 0))
                elif e[0] == 1: out.append(('r', e[1]))
                else: return None
            elif kind == 3:
                if e[0] == 0: out.append(('x', e[1]))
                elif e[0] == 1: out.append(('r', e[1]))
                elif e[0] == 2: out.append(('x', WELL_KNOWN[e[1]]))
                else: return None
            else:
                if e[0] == 1: out.append(('r', e[1]))
                else: return None
        return out

    @staticmethod
    def new_pset(): return {'e': {}, 'z': None, 'z6': None}

    def add_entries(self, kind, old, ents):
        if kind == 0:
            p = {'e': dict(old['e']), 'z': old['z'], 'z6': old['z6']} if old else self.new_pset()
            for fam, a, m, lo, hi in ents:
                if a == 0 and m == 0:
                    p['z' if fam == 4 else 'z6'] = (lo, hi)
                else:
                    w = 32 if fam == 4 else 128
                    key = (a >> (w - m)) << (w - m) if m else 0
                    p['e'][(fam, key, m)] = (a, lo, hi)
            return p
        return list(old or []) + list(ents)

    def del_entries(self, kind, old, ents):
        if kind == 0:
            p = {'e': dict(old['e']), 'z': old['z'], 'z6': old['z6']}
            for fam, a, m, lo, hi in ents:
                if a == 0 and m == 0:
                    zk = 'z' if fam == 4 else 'z6'
                    if p[zk] == (lo, hi): p[zk] = None
                else:
                    w = 32 if fam == 4 else 128
                    key = (a >> (w - m)) << (w - m) if m else 0
                    if p['e'].get((fam, key, m)) == (a, lo, hi): del p['e'][(fam, key, m)]
            return p
        return [x for x in old if x not in ents]

    # ---- apply a successful CRUD op; returns a violation text or None
    def apply(self, op, code):
        t = op[0]
        if t in (1, 2):
            kind, name, ents = op[2]
            key = (kind, name)
            users = self.set_users(kind, name)
            parsed = self.parse_entries(kind, ents)
            if code != 0:
                # replace_defined_set removes an unused set before the failing add (not a property matter)
                if t == 1 and op[1] and code == 1 and not users: self.sets.pop(key, None)
                return None
            before = self.sets.get(key)
            if t == 1:
                if parsed is None: return None
                after = self.add_entries(kind, None if op[1] else before, parsed)
            else:
                if op[1]: after = None
                else:
                    if parsed is None or before is None: return None
                    after = self.del_entries(kind, before, parsed)
            if users and after != before:
                return 'defined set %s/%d referenced by statement(s) %s was %s' % (
                    kind, name, users, 'deleted' if after is None else 'changed')
            if after is None: self.sets.pop(key, None)
            else: self.sets[key] = after
            return None
        if t in (3, 4):
            name = op[1]
            if code != 0: return None
            users = self.stmt_users(name)
            before = self.stmts.get(name)
            if t == 3:
                if before is None:
                    after = {'conds': list(op[2]), 'disp': op[3], 'act': list(op[4])}
                else:
                    after = {'conds': before['conds'] + list(op[2]), 'disp': op[3] or before['disp'],
                             'act': [n or o for o, n in zip(before['act'], op[4])]}
            else:
                if op[2]: after = None
                else:
                    if before is None: return None
                    conds = list(before['conds'])
                    for c in op[3]:
                        for i, x in enumerate(conds):
                            if x[0] == c[0]:
                                del conds[i]; break
                    after = {'conds': conds, 'disp': [] if op[4] else before['disp'],
                             'act': [[] if n else o for o, n in zip(before['act'], op[5])]}
            if users and after != before:
                return 'statement %d referenced by policy(ies) %s was %s' % (name, users, 'deleted' if after is None else 'changed')
            if after is None: self.stmts.pop(name, None)
            else: self.stmts[name] = after
            return None
        if t in (5, 6):
            name = op[1]
            if code != 0: return None
            users = self.pol_users(name)
            before = self.pols.get(name)
            if t == 5:
                after = (before or []) + list(op[2])
            else:
                if before is None: return None
                removed = list(before) if op[3] else [s for s in before if s in op[4]]
                after = None if op[3] else [s for s in before if s not in op[4]]
            if users and after != before:
                return 'policy %d referenced by assignment(s) %s was %s' % (name, users, 'deleted' if after is None else 'changed')
            if after is None: self.pols.pop(name, None)
            else: self.pols[name] = after
            if t == 6 and not op[2]:
                for s in removed:
                    if not self.stmt_users(s): self.stmts.pop(s, None)
            return None
        if t == 7:
            if code != 0: return None
            d = op[2]
            old = self.asg.get(d)
            self.asg[d] = (op[3], list(op[4]) + (old[1] if (old and not op[1]) else []))
            return None
        if t == 20:
            if code == 0: self.peers[op[1]] = (min(op[2][0][0], 2), list(op[2][0][1])) if op[2] else None
            return None
        if t in (21, 22) and op[2] == 0 and code == 0:
            # a peer has only an export override: an import request that is accepted changes what the peer's
            # export evaluation does although nobody asked for that
            return 'per-peer %s for the IMPORT direction was accepted and applied to peer %d\'s export policy' % (
                'assignment' if t == 21 else 'assignment removal', op[1])
        if t == 21:
            if code != 0: return None
            old = self.peers.get(op[1])
            self.peers[op[1]] = (1 if op[3] == 1 else 2, list(op[4]) + (old[1] if old else []))
            return None
        if t == 22:
            if code != 0: return None
            if op[4]: self.peers[op[1]] = None
            elif self.peers.get(op[1]): self.peers[op[1]] = (self.peers[op[1]][0], [p for p in self.peers[op[1]][1] if p not in op[3]])
            return None
        if t == 8:
            if code != 0: return None
            d = op[1]
            if op[3]: self.asg.pop(d, None)
            elif d in self.asg: self.asg[d] = (self.asg[d][0], [p for p in self.asg[d][1] if p not in op[2]])
            return None
        return None

    # ---- evaluation
    def flat_statements(self, d, pols=None):
        """the assignment's statements in order, with their sets resolved by name; None if dangling"""
        out = []
        for p in (self.asg[d][1] if pols is None else pols):
            if p not in self.pols: return None
            for s in self.pols[p]:
                if s not in self.stmts: return None
                st = self.stmts[s]
                conds = []
                for c in st['conds']:
                    if c[0] < 6:
                        if (c[0], c[1]) not in self.sets: return None
                        conds.append((c, self.sets[(c[0], c[1])]))
                    else:
                        conds.append((c, None))
                out.append((st, conds))
        return out

def cmpf(c, l, v): return l >= v if c == 1 else l <= v if c == 2 else l == v

def ref_cond(c, content, x, attrs, nh):
    k = c[0]
    if k == 0:
        n = x['net']
        fam, a = (4, n[1]) if n[0] == 4 else (6, (n[1] << 64) | n[2])
        m = n[-1]
        w = 32 if fam == 4 else 128
        z = content['z' if fam == 4 else 'z6']
        matched = (z is not None and z[0] <= m <= z[1]) or any(
            ef == fam and covers(w, raw, em, a, m) and lo <= m <= hi for (ef, key, em), (raw, lo, hi) in content['e'].items())
        return matched if c[2] == 0 else not matched
    if k == 1:
        fam, a = ipv(x['peer'])
        w = 32 if fam == 4 else 128
        found = any(ef == fam and (em == 0 or (ea >> (w - em)) == (a >> (w - em))) for ef, ea, em in content)
        return (not found) if c[2] == 2 else found
    if k == 2:
        ap = find_attr(attrs, 2)
        segs = iter_segs(ap['data']) if ap is not None else None
        flat = [a for _, l in segs for a in l] if segs is not None else None
        res = []
        for p in content:
            if p[0] == 's': res.append(flat is not None and single_ref(p[1], p[2], p[3], flat))
            else: res.append(segs is not None and rx_aspath(p[1], aspath_string(segs)))
        return opt_apply(c[2], any(res), all(res))
    if k in (3, 4, 5):
        code, width, sf, rxf = {3: (8, 4, comm_str, rx_comm), 4: (16, 8, ext_str, rx_ext), 5: (32, 12, large_str, rx_large)}[k]
        a = find_attr(attrs, code)
        vals = chunks(a['data'], width) if a is not None and a['k'] != 0 else []
        if k == 4: vals = [v for v in vals if ext_str(v) is not None]
        def pm(p): return any((v == p[1]) if p[0] == 'x' else rxf(p[1], v) for v in vals)
        res = [pm(p) for p in content]
        return opt_apply(c[2], any(res), all(res))
    if k == 6:
        ap = find_attr(attrs, 2)
        if ap is None: return False
        l = 0
        b = ap['data']; p = 0
        while p + 1 < len(b):
            l += 1 if b[p] == 1 else b[p + 1] if b[p] == 2 else 0
            p += 2 + 4 * b[p + 1]
        return cmpf(c[1], l, c[2])
    if k == 7: return bool(nh) and (ipv(nh[0][:3]) if nh[0][0] != 7 else (6, (nh[0][1] << 64) | nh[0][2])) in [ipv(i) for i in c[1]]
    if k == 8:
        if x.get('rpki') is None: return False
        return x['rpki'].get((tuple(x['net']), origin_asn(attrs, x['src']))) == c[1]
    if k in (9, 10, 11):
        a = find_attr(attrs, {9: 5, 10: 4, 11: 1}[k])
        return a is not None and a['k'] == 0 and a['data'] == c[1]
    if k == 12:
        s = x['src']
        if c[1] >= 2: return bool(s[0])
        return (not s[0]) and ((s[3] == s[4]) == (c[1] == 0))
    if k == 13:
        a = find_attr(attrs, 8)
        n = len(chunks(a['data'], 4)) if a is not None and a['k'] != 0 else 0
        return cmpf(c[1], n, c[2])
    if k == 14: return (65537 if x['net'][0] == 4 else 131073) in c[1]
    raise ValueError(c)

def replace_attr(attrs, code, new):
    out = [a for a in attrs if a['code'] != code]
    if new is not None: out.append(new)
    return out

def ca_apply(t, existing, vals):
    if t == 0: return existing + list(vals)
    if t == 1: return [c for c in existing if c not in vals]
    return list(vals)

def prepend_once(b, seg, asn):
    if len(b) >= 2 and b[0] == seg and b[1] < 255:
        return [b[0], b[1] + 1] + list(asn.to_bytes(4, 'big')) + b[2:]
    return [seg, 1] + list(asn.to_bytes(4, 'big')) + b

def ref_actions(act, x, attrs, nh):
    a_nh, a_comm, a_lp, a_med, a_pre, a_ext, a_large, a_orig = act
    if a_nh:
        t = a_nh[0]
        def as_nh(i): return [[i[0]] + i[1:]]
        if t[0] == 0: nh = as_nh(t[1])
        elif t[0] == 1: nh = as_nh(x['local'])
        elif t[0] == 2: nh = as_nh(x['peer'])
        elif x['orig']: nh = x['orig']
    def comm_like(attrs, action, code, width, conv):
        if not action: return attrs
        t, vals = action[0]
        vals = [conv(v) for v in vals]
        a = find_attr(attrs, code)
        existing = chunks(a['data'], width) if a is not None and a['k'] != 0 else []
        new = ca_apply(min(t, 2), existing, vals)
        na = {'k': 1, 'code': code, 'flags': 192, 'data': [y for c in new for y in c.to_bytes(width, 'big')]} if new else None
        return replace_attr(attrs, code, na)
    attrs = comm_like(attrs, a_comm, 8, 4, lambda v: v)
    if a_lp: attrs = replace_attr(attrs, 5, {'k': 0, 'code': 5, 'flags': 64, 'data': a_lp[0]})
    if a_med:
        t, v = a_med[0]
        m = find_attr(attrs, 4)
        cur = m['data'] if m is not None and m['k'] == 0 else 0
        nm = v if t != 0 else cur + v
        nm = max(0, min(U32, nm))
        attrs = replace_attr(attrs, 4, {'k': 0, 'code': 4, 'flags': 128, 'data': nm})
    if a_pre and a_pre[0][1] > 0:
        asn, rep, leftmost = a_pre[0]
        e = find_attr(attrs, 2)
        b = list(e['data']) if e is not None else []
        if leftmost:
            segs = iter_segs(b)
            if segs and segs[0][1]: asn = segs[0][1][0]
        for _ in range(rep): b = prepend_once(b, 3 if x['confed'] else 2, asn)
        attrs = replace_attr(attrs, 2, {'k': 1, 'code': 2, 'flags': e['flags'] if e is not None else 64, 'data': b})
    attrs = comm_like(attrs, a_ext, 16, 8, lambda b: int.from_bytes(bytes(b), 'big'))
    attrs = comm_like(attrs, a_large, 32, 12, lambda t: (t[0] << 64) | (t[1] << 32) | t[2])
    if a_orig: attrs = replace_attr(attrs, 1, {'k': 0, 'code': 1, 'flags': 64, 'data': a_orig[0]})
    return attrs, nh

def ref_eval(ref, op, rpki=None):
    """reference result of an Eval op: (first element, attrs, nh) or a string for 'no verdict'"""
    d = op[1]
    if op[0] == 26:
        op = [9, 0, op[1], op[2], op[3], op[4], [], 0, op[1][2], op[1][1]]; d = 0
    if op[0] == 23:
        a = ref.peers.get(op[1]) or ref.asg.get(1)
        if a is None: return ('none',)
        op = [9, 1] + op[2:]; d = 1
        dflt, stmts = a[0], ref.flat_statements(1, a[1])
    else:
        if d not in ref.asg: return ('none',)
        dflt, stmts = ref.asg[d][0], ref.flat_statements(d)
    if stmts is None: return ('dangling',)
    attrs = [a for a in (attr_in(a) for a in op[4]) if a is not None]
    nh = op[5]
    if d == 0:
        x = {'src': op[2], 'net': op[3], 'orig': nh, 'confed': 0, 'local': op[2][2], 'peer': op[2][1]}
    else:
        x = {'src': op[2], 'net': op[3], 'orig': op[6], 'confed': op[7], 'local': op[8], 'peer': op[9]}
    x['rpki'] = rpki
    disp = None
    for st, conds in stmts:
        if all(ref_cond(c, content, x, attrs, nh) for c, content in conds):
            attrs, nh = ref_actions(st['act'], x, attrs, nh)
            dd = min(st['disp'][0], 2) if st['disp'] else 0
            if dd != 0:
                disp = dd
                break
    if disp is None: disp = min(dflt, 2)
    first = (1 if disp == 2 else 0) if d == 0 else disp
    return ('ok', [first, [attr_out(a) for a in attrs], nh])

def eval_classes(ref, op):
    """input classes of an Eval op (decidable from the inputs only); no open finding is left for C14"""
    return set()

# ---------------------------------------------------------------- the property object
def NOACT(): return [[], [], [], [], [], [], [], []]
def act(**kw):
    a = NOACT()
    for k, v in kw.items():
        a[['nexthop', 'comm', 'lp', 'med', 'prepend', 'ext', 'large', 'origin'].index(k)] = [v]
    return a

PEER = ip4(10, 0, 0, 1); LOCAL = ip4(10, 0, 0, 254)
SRC_E = [0, PEER, LOCAL, 65001, 65000]
SRC_I = [0, PEER, LOCAL, 65000, 65000]
SRC_L = [1, ip4(0, 0, 0, 0), ip4(0, 0, 0, 0), 0, 0]     # Source::local(): the static with unspecified addresses, AS 0
SRC_6 = [0, ip6(V6BASE | 1), ip6(V6BASE | 2), 65001, 65000]

def ev(net, attrs, d=1, src=None, nh=None, orig=None, confed=0, local=None, peer=None):
    return [9, d, src or SRC_E, net, attrs, [nh or PEER] if nh is not False else [], [orig] if orig else [], confed,
            local or LOCAL, peer or PEER]
def n4(a, b, c, d, m): return [4, ip4(a, b, c, d)[1], m]
def n6(x, m): return [6, (V6BASE | x) >> 64, (V6BASE | x) & ((1 << 64) - 1), m]

class Prop:
    pid = 'C14'
    ops_field = 'ops'          # framework shrinker: delta-debugging over the operation list
    props_file = 'Props/C14.v'
    required_theorems = ['eval_code_eq_spec', 'eval_spec_is_functional', 'aspath_regex_ignored_pre_fix_refuted',
                         'eval_never_panics_api', 'eval_never_panics_wire', 'crud_preserves_references',
                         'crud_referenced_frozen', 'global_preserves_references', 'global_referenced_frozen', 'wire_aspath_decoded', 'wire_aspath_rendered', 'api_built_assignments_wf', 'prefix_merge_content', 'stored_sets_keys_unique',
                         'crud_total_on_canonical_prefixes', 'peer_effective_export_wf', 'needs_rpki_cached_correctly',
                         'gated_evaluation_history_independent',
                         'prefix_set_longest_match_refuted', 'aspath_patterns_refuted', 'arithmetic_and_api_refuted']
    correspondence_name = ('Model/Policy.v eval_code + Model/PolicyTable.v crud_step vs table/src/policy.rs PolicyTable / '
                           'apply_import / apply_export (harness/hx-policy); Model/PolicyGlobal.v gstep vs daemon/src/event/mod.rs Global '
                           '(harness/daemon/event_policy_hx.rs)')
    rule = ('case = a sequence of PolicyTable API calls (add/replace/delete of defined sets, statements, policies, assignments) '
            'interleaved with apply_import/apply_export evaluations and a table dump; a case is non-trivial when some evaluation '
            'ran under an assignment with at least one statement; distinct = distinct (sequence of result codes, evaluation '
            'verdicts, attribute-code lists after evaluation, kinds of conditions and actions involved)')
    exhaustive = {'quick': False, 'thorough': False}
    trusted_base = [
        'regular-expression matching (community / ext-community / large-community sets) is a Section-variable oracle per pattern id; '
        'the correspondence run instantiates it with a table computed by python re over the case\'s values for a fixed vocabulary of '
        'patterns on which python re and the Rust regex crate agree; only determinism of the oracle is used in proofs',
        'treebitmap::IpLookupTable is modelled as a list keyed by (masked address, length) with matches() = all keys that are bit-prefixes; '
        'its insert panic is modelled only for host bits inside the nibble that contains the mask boundary; patricia/regex/treebitmap internals are not verified',
        'RpkiTable is not modelled: every evaluation runs with rpki = None (Condition::Rpki is then false); per-peer assignments and the '
        'Global::{add_policy, delete_policy} checks live in the daemon crate and are outside this harness',
        'NLRI are IPv4/IPv6 unicast only; the prefix-set arm for other families (always false) is not modelled',
    ]
    assumptions = ['attributes are built through Attribute::new_with_value / new_with_bin / new_opaque (what the wire decoder and attr_from_api use)',
                   'neighbor-set and prefix-set entries are canonical (no host bits) except in the dedicated malformed stream',
                   'set, statement and policy names are unique per kind (FnvHashMap keys)']

    # ---- rendering
    def case_to_val(self, c): return c['ops']
    def case_to_coq(self, c):
        if c.get('kind') == 'global':
            eo = as_eval_ops(c['ops'])
            tc, te, tl = rx_tables(eo)
            return 'grun_case %s %s %s %s %s %s' % (c_table(tc), c_table(te), c_table(tl), c_str_table(aspath_table(eo)),
                                                   c_probe_table(c.get('_tv', {})), clist([c_gop(o) for o in c['ops']]))
        tc, te, tl = rx_tables(c['ops'])
        return 'run_case %s %s %s %s %s %s' % (c_table(tc), c_table(te), c_table(tl), c_str_table(aspath_table(c['ops'])),
                                             c_probe_table(c.get('_tv', {})), clist([c_op(o) for o in c['ops']]))
    def case_to_json(self, c): return json.loads(json.dumps({k: v for k, v in c.items() if not k.startswith('_')}))
    def case_from_json(self, j): return j

    # ---- running
    def run_impl(self, cases, tier):
        out = [None] * len(cases)
        gidx = [i for i, c in enumerate(cases) if c.get('kind') == 'global']
        if gidx:
            obs, err = rustrun.daemon_test('C14_global', 'event::verif_hx::c14::verif_policy_cases',
                                           [self.case_to_val(cases[i]) for i in gidx])
            if obs is None: return None, err
            for i, o in zip(gidx, obs): out[i] = o
        for prof in ('debug', 'release'):
            idx = [i for i, c in enumerate(cases) if c.get('profile', 'debug') == prof and c.get('kind') != 'global']
            if not idx: continue
            obs, err = rustrun.crate_bin('C14_' + prof, 'hx-policy', '', [self.case_to_val(cases[i]) for i in idx],
                                         release=(prof == 'release'))
            if obs is None: return None, err
            for i, o in zip(idx, obs): out[i] = o
        # the RpkiTable::validate oracle of the model is instantiated with what the probe operations observed
        for c, o in zip(cases, out): c['_tv'] = probe_table(c['ops'], o)
        return out, ''

    def run_model(self, cases, tier):
        pre = 'From RB Require Import Base.Val Model.Policy Model.PolicyTable Model.PolicyGlobal.\nOpen Scope N_scope.'
        return coqrun.eval_terms('C14', pre, [self.case_to_coq(c) for c in cases])

    def canon(self, case, obs):
        """dumps: hash-map ordered collections sorted"""
        if not isinstance(obs, list): return obs
        out = []
        for op, o in zip(case['ops'], obs):
            def cd(o):
                sets = sorted([[s[0], s[1], ([sorted(s[2][0])] + s[2][1:]) if s[0] == 0 else s[2]] for s in o[0]])
                return [sets, sorted(o[1]), sorted(o[2]), o[3], o[4]]
            if op[0] == 10 and isinstance(o, list) and len(o) == 5: o = cd(o)
            if op[0] == 24 and isinstance(o, list) and len(o) == 4: o = [cd(o[0]), sorted(o[1]), o[2], o[3]]
            out.append(o)
        return out + obs[len(out):]

    # ---- Spec oracle on the implementation's observations
    def oracle(self, c, obs):
        ref = Ref()
        tv = probe_table(c['ops'], obs)
        rpki = None
        for k, op in enumerate(c['ops']):
            if k >= len(obs): return None
            o = obs[k]
            if op[0] in (11, 25):
                rpki = tv
                continue
            if op[0] in (12, 27):
                if o == [-1]: return 'op %d: RpkiTable::validate panicked' % k
                continue
            if op[0] in (9, 23, 26):
                cls = eval_classes(ref, op)
                tag = ''.join(' [class:%s]' % t for t in sorted(cls))
                if o == [-1]:
                    return 'op %d: policy evaluation panicked%s' % (k, tag)
                r = ref_eval(ref, op, rpki)
                if r[0] == 'none' and op[0] == 26:
                    # TableManager::apply_import without an import assignment: not filtered, nothing changed
                    want = [0, [attr_out(a) for a in (attr_in(x) for x in op[3]) if a is not None], op[4]]
                    if o != want: return 'op %d: import without an assignment changed or filtered the route' % k
                    continue
                if r[0] == 'none':
                    if o != [-2]: return 'op %d: evaluation result without an assignment' % k
                    continue
                if r[0] == 'dangling':
                    return 'op %d: live assignment references a deleted object' % k
                if o != r[1]:
                    what = 'verdict' if o[0] != r[1][0] else 'attributes' if o[1] != r[1][1] else 'next hop'
                    return 'op %d: %s differs from the reference semantics (got %s, want %s)%s' % (
                        k, what, json.dumps(o)[:160], json.dumps(r[1])[:160], tag)
            elif op[0] == 24:
                if o == [-1]: return None
                for pid, a in o[1]:
                    for x in a:
                        for pp in x[1]:
                            if pp[1] != 1: return 'op %d: peer %d holds a stale copy of policy %d' % (k, pid, pp[0])
                for pid, a in o[1]:
                    for x in a:
                        w = self.flag_check(ref, k, 'peer %d\'s export override' % pid, x, [p[0] for p in x[1]])
                        if w: return w
                for d_, a in ((0, o[0][3]), (1, o[0][4])):
                    for x in a:
                        w = self.flag_check(ref, k, 'the global %s assignment' % ('import' if d_ == 0 else 'export'), x, [p[0] for p in x[1]])
                        if w: return w
                if o[2] != 1 or o[3] != 1: return 'op %d: the policy slot the sessions read is not the table\'s assignment' % k
                o = o[0]
                for p in o[2]:
                    for st in p[1]:
                        if st[1] != 1: return 'op %d: policy %d holds a stale copy of statement %d' % (k, p[0], st[0])
                for st in o[1]:
                    for cd in st[1]:
                        if len(cd) == 4 and cd[3] != 1: return 'op %d: statement %d holds a stale copy of set %d/%d' % (k, st[0], cd[0], cd[1])
            elif op[0] == 10:
                if o == [-1]: return None
                # every reference must be the object the table lists under that name
                for st in o[1]:
                    for cd in st[1]:
                        if len(cd) == 4 and cd[3] != 1: return 'op %d: statement %d holds a stale copy of set %d/%d' % (k, st[0], cd[0], cd[1])
                for p in o[2]:
                    for s in p[1]:
                        if s[1] != 1: return 'op %d: policy %d holds a stale copy of statement %d' % (k, p[0], s[0])
                for d_, a in ((0, o[3]), (1, o[4])):
                    for x in a:
                        for p in x[1]:
                            if p[1] != 1: return 'op %d: assignment holds a stale copy of policy %d' % (k, p[0])
                        w = self.flag_check(ref, k, 'the global %s assignment' % ('import' if d_ == 0 else 'export'), x, [p[0] for p in x[1]])
                        if w: return w
            else:
                if o == [-1]: return None     # a panic inside a CRUD call is outside the property text
                why = ref.apply(op, o[0])
                if why: return 'op %d: %s' % (k, why)
        return None

    @staticmethod
    def flag_check(ref, k, who, a, names):
        """the cached needs_rpki flag of an assignment must be set whenever one of its policies has an rpki condition
        (a flag that is set without need changes nothing; a missing flag makes the condition unreachable in the daemon)"""
        if len(a) < 3: return None
        for p in names:
            for sn in ref.pols.get(p, []):
                st = ref.stmts.get(sn)
                if st and any(cd[0] == 8 for cd in st['conds']) and a[2] != 1:
                    return 'op %d: %s caches needs_rpki = false although its policy %d (statement %d) has an rpki condition' % (k, who, p, sn)
        return None

    def in_known_class(self, kf, c, obs, why):
        return False

    def nontrivial_key(self, c, obs):
        if not isinstance(obs, list): return None
        sig = []
        nontrivial = False
        ref_has = False
        for op, o in zip(c['ops'], obs):
            if op[0] in (9, 23, 26):
                if o not in ([-1], [-2]):
                    sig.append((op[0], o[0], tuple(a[1] for a in o[1]), len(o[2])))
                    nontrivial = nontrivial or ref_has
                else: sig.append(tuple(o))
            elif op[0] in (10, 11, 12, 24, 25, 27): continue
            else:
                sig.append((op[0], tuple(o)))
                if op[0] == 3 and o == [0]:
                    ref_has = True
                    sig.append(tuple(sorted(cd[0] for cd in op[2])) + tuple(1 if a else 0 for a in op[4]))
        return tuple(sig) if nontrivial else None

    def classify(self, c, obs):
        tags = [c.get('cls', 'other'), 'profile_' + c.get('profile', 'debug')]
        n = len(c['ops'])
        tags.append('ops_%s' % ('1-6' if n <= 6 else '7-12' if n <= 12 else '13+'))
        if isinstance(obs, list):
            codes = [o[0] for op, o in zip(c['ops'], obs) if op[0] not in (9, 10, 11, 12, 23, 24, 25, 26, 27) and o != [-1]]
            for op, o in zip(c['ops'], obs):
                if op[0] == 12 and o != [-2]: tags.append('rpki_probe_%s' % (o[0] if o else 'none'))
            for code, nm in ((1, 'err_invalid'), (2, 'err_in_use'), (3, 'err_not_found')):
                if code in codes: tags.append(nm)
            if [-1] in obs: tags.append('panic')
            for op, o in zip(c['ops'], obs):
                if op[0] == 9 and o not in ([-1], [-2]):
                    tags.append('verdict_%s_%d' % ('import' if op[1] == 0 else 'export', o[0]))
        return sorted(set(tags))

    def corpus_cases(self):
        import os
        d = os.path.join(os.path.dirname(os.path.dirname(os.path.abspath(__file__))), 'corpus', 'C14')
        out = []
        if os.path.isdir(d):
            for fn in sorted(os.listdir(d)):
                if fn.endswith('.json'):
                    j = json.load(open(os.path.join(d, fn)))
                    out.append(j['case'] if 'case' in j else j)
        return out

    # ------------------------------------------------------------ generation
    def gen_cases(self, rng, tier):
        from gen import c14_gen
        return c14_gen.gen_cases(rng, tier)
