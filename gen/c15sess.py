"""C15, the prefix-limit counter of a live session across graceful restart, on the REAL daemon
glue (accept_connection / PeerSession::run over loopback TCP, TableManager, PeerContext timers;
harness/daemon/event_c15_hx.rs).  Every case is enumerated (no PRNG).

A case is {'kind': 'sess', 'limit': n, 'events': [...], 'cls': name}; events:
  ('up', mode)  mode 0 no GR, 1 GR, 2 GR + LLGR, 3 LLGR only      ('ann', id, no_llgr)   prefix id//2, path id id%2
  ('wd', id)    ('eor',)    ('down',)    ('rtimer',)   ('ltimer',)

The implementation is judged by the oracle below (property text: the counter equals the recount
of the peer's prefixes, never underflows, the maximum is never exceeded without the session being
ended).  The same case is also translated into a history of coq/Model/RibSession.v following the
repaired caller discipline (sync at establishment and after the purges the session runs), and
the model's counter / received count must agree with the daemon's after every event."""
from gen import ribcommon as R
from vp import rustrun, coqrun
from vp.val import cN

U32 = 4294967295
A = 1            # the peer's address in the model

def ev_val(e):
    t = e[0]
    if t == 'up': return [0, e[1]]
    if t == 'ann': return [1, e[1], int(e[2])]
    if t == 'wd': return [2, e[1]]
    if t == 'eor': return [3]
    if t == 'down': return [4]
    if t == 'rtimer': return [5]
    if t == 'ltimer': return [6]
    raise ValueError(e)

def case_val(c):
    return [c['limit'], [ev_val(e) for e in c['ops']]]

# ------------------------------------------------------------------ enumeration
def shapes():
    ann = lambda *ids: [('ann', i, False) for i in ids]
    S = []
    for mode, mn in ((1, 'gr'), (2, 'gr_llgr')):
        base = [('up', mode)] + ann(2, 4, 6)
        S.append((mn + ':full_reannounce_eor', base + [('down',), ('up', mode)] + ann(2, 4, 6) + [('eor',), ('wd', 2)] + ann(8)))
        S.append((mn + ':partial_reannounce_eor', base + [('down',), ('up', mode)] + ann(2) + [('eor',), ('wd', 2)] + ann(8, 10)))
        S.append((mn + ':no_reannounce_eor', base + [('down',), ('up', mode), ('eor',)] + ann(8) + [('wd', 8)]))
        S.append((mn + ':withdraw_retained_before_eor', base + [('down',), ('up', mode), ('wd', 2), ('wd', 4)] + ann(8) + [('eor',)] + ann(10)))
        S.append((mn + ':new_prefixes_before_eor', base + [('down',), ('up', mode)] + ann(8, 10, 12) + [('eor',)] + ann(14)))
        S.append((mn + ':restart_timer_then_up', base + [('down',), ('rtimer',), ('up', mode)] + ann(2, 8) + [('eor',), ('wd', 2)]))
        S.append((mn + ':two_restarts', base + [('down',), ('up', mode)] + ann(2) + [('down',), ('up', mode)] + ann(4) + [('eor',), ('wd', 4), ('wd', 2)]))
        S.append((mn + ':addpath', [('up', mode)] + ann(2, 3, 4) + [('down',), ('up', mode)] + ann(3) + [('wd', 2), ('eor',), ('wd', 3)] + ann(6, 8)))
        S.append((mn + ':addpath_other_path_id', [('up', mode)] + ann(2, 4) + [('down',), ('up', mode)] + ann(3, 5) + [('eor',), ('wd', 3), ('wd', 5)] + ann(6)))
        S.append((mn + ':gr_not_renegotiated', base + [('down',), ('up', 0)] + ann(2, 8) + [('wd', 2)]))
    S.append(('gr_llgr:llgr_period_then_up', [('up', 2)] + ann(2, 4) + [('ann', 6, True), ('down',), ('rtimer',), ('up', 2)] + ann(2) + [('eor',), ('wd', 2)] + ann(8)))
    S.append(('gr_llgr:llgr_timer_then_up', [('up', 2)] + ann(2, 4) + [('down',), ('rtimer',), ('ltimer',), ('up', 2)] + ann(2, 8) + [('eor',)]))
    S.append(('gr_llgr:llgr_up_down_up', [('up', 2)] + ann(2, 4) + [('down',), ('rtimer',), ('up', 2)] + ann(4) + [('down',), ('up', 2), ('eor',)] + ann(8)))
    S.append(('llgr_only:down_up_eor', [('up', 3)] + ann(2, 4) + [('down',), ('up', 3)] + ann(2) + [('eor',), ('wd', 2)] + ann(8)))
    S.append(('no_gr:down_drops_all', [('up', 0)] + ann(2, 4) + [('down',), ('up', 0)] + ann(2, 6) + [('wd', 2), ('wd', 6)]))
    return S

def enumerate_cases(tier):
    out = []
    for name, evs in shapes():
        for lim in (0, 1, 2, 3, 4, U32):
            out.append(dict(kind='sess', limit=lim, ops=list(evs), cls='sess:%s:max%d' % (name, lim)))
    return out

# ------------------------------------------------------ translation to the model
def to_sops(c):
    """(sops, group ends, live counter token per event, comparable flag per event): the history of
    Model/RibSession.v the daemon is expected to produce under the repaired discipline."""
    lim = c['limit']
    sops = []; marks = []
    live = None; tok = -9; mode = 0; state = 'idle'; from_llgr = False
    gen = 0
    prefixes = {}            # net -> set of path ids (reference of what the peer holds)
    comparable = True
    for e in c['ops']:
        t = e[0]
        if t == 'up':
            if live is None:
                m = e[1]
                if m == 3 or (state != 'idle' and mode == 3):
                    comparable = False          # LLGR-only retention is judged by the oracle alone
                tok += 10; gen += 1; live = tok;
                sops.append(('sync', tok, A))
                gr_set = m in (1, 2)
                if state == 'restarting':
                    if not gr_set:
                        sops.append(('tbl', ('drop', 1, A, None))); sops.append(('sync', tok, A))
                        prefixes = {}
                    state = 'reconnected' if gr_set else 'idle'; from_llgr = False
                elif state == 'llgr':
                    if not gr_set:
                        sops.append(('tbl', ('drop', 2, A, None))); sops.append(('sync', tok, A))
                        prefixes = {}
                    state = 'reconnected' if gr_set else 'idle'; from_llgr = True
                mode = m
                fresh = set()
        elif t == 'ann':
            if live is not None:
                net, rp = e[1] // 2, e[1] % 2
                a = R.mk_attr(100 + 2 * gen + int(e[2]), lp=100, segs=[(2, 1)], origin=0, nollgr=e[2])
                sops.append(('tbl', ('ins', (live, A, 9, 0), net, rp, 1, a, False, False, (lim, live))))
                if net not in prefixes and len(prefixes) >= lim:
                    # refused: the session ends itself; what it leaves behind is not compared
                    comparable = False
                    live = None; state = 'idle'; prefixes = {}
                else:
                    prefixes.setdefault(net, {})[rp] = bool(e[2]); fresh.add((net, rp))
        elif t == 'wd':
            if live is not None:
                net, rp = e[1] // 2, e[1] % 2
                sops.append(('tbl', ('rem', (live, A, 9, 0), net, rp, live)))
                if net in prefixes:
                    prefixes[net].pop(rp, None)
                    if not prefixes[net]: del prefixes[net]
                fresh.discard((net, rp))
        elif t == 'eor':
            if live is not None and state == 'reconnected':
                sops.append(('tbl', ('drop', 2 if from_llgr else 1, A, None))); sops.append(('sync', live, A))
                old = prefixes; prefixes = {}
                for (net, rp) in fresh: prefixes.setdefault(net, {})[rp] = old.get(net, {}).get(rp, False)
                state = 'idle'
        elif t == 'down':
            if live is not None:
                live = None
                if mode in (1, 2):
                    sops.append(('tbl', ('restale', False, A))); state = 'restarting'
                elif mode == 3:
                    comparable = False; state = 'llgr'
                else:
                    sops.append(('tbl', ('drop', 0, A, None))); state = 'idle'; prefixes = {}
        elif t == 'rtimer':
            if state == 'restarting':
                if mode == 2:
                    sops.append(('tbl', ('restale', True, A))); sops.append(('tbl', ('drop', 3, A, None))); state = 'llgr'
                    prefixes = {n: {rp: nl for rp, nl in d.items() if not nl} for n, d in prefixes.items()}
                    prefixes = {n: d for n, d in prefixes.items() if d}
                else:
                    sops.append(('tbl', ('drop', 0, A, None))); state = 'idle'; prefixes = {}
        elif t == 'ltimer':
            if state == 'llgr':
                sops.append(('tbl', ('drop', 2, A, None))); state = 'idle'; prefixes = {}
        marks.append((len(sops), live, comparable))
    return sops, marks

def sop_coq(o):
    if o[0] == 'sync':
        return '(Sync %s %s)' % (cN(o[1]), cN(o[2]))
    return '(Tbl %s)' % R.op_coq(o[1])

PRE = 'From RB Require Import Base.Val Model.Rib Model.RibSession.\nOpen Scope N_scope.'

def model_term(c):
    sops, marks = to_sops(c)
    toks = sorted(set(m[1] for m in marks if m[1] is not None) | set(o[1] for o in sops if o[0] == 'sync'))
    from vp.val import clist
    return ('run_scase 0 %s %s %s' % (clist([cN(A)]), clist([cN(t) for t in toks]), clist([sop_coq(o) for o in sops]))), toks, marks

def run_impl(cases):
    return rustrun.daemon_test('C15s', 'event::verif_hx::c15_glue::verif_event_c15_cases', [case_val(c) for c in cases])

def run_model(cases):
    terms = [model_term(c) for c in cases]
    obs, err = coqrun.eval_terms('C15s', PRE, [t[0] for t in terms])
    if obs is None:
        return None, err
    out = []
    for c, (term, toks, marks), o in zip(cases, terms, obs):
        per = []
        for (n, live, comparable) in marks:
            if not comparable:
                per.append(None); continue
            if n == 0:
                per.append([int(live is not None), -1 if live is None else 0, 0]); continue
            st = o[n - 1][2]
            stats = st[3][0]
            rcv = stats[1] if len(stats) == 3 else 0
            ctr = -1 if live is None else st[4][toks.index(live)]
            per.append([int(live is not None), ctr, rcv])
        out.append(per)
    return out, ''

def canon(c, obs, from_model):
    """what is compared: per event (live, counter, received count), as far as the translation goes"""
    if obs and obs[0] == -1:
        return obs
    if from_model:
        return obs
    _, marks = to_sops(c)
    return [None if not m[2] else [x[0], x[1], x[3]] for x, m in zip(obs, marks)]

# ----------------------------------------------------------------------- oracle
def oracle(c, obs):
    if obs and obs[0] == -1:
        return 'panic in the session glue'
    lim = c['limit']
    prev_nets = set(); prev_live = False
    for k, (e, x) in enumerate(zip(c['ops'], obs)):
        live, ctr, nets, received, routes, closed = x
        held = set(r[0] // 2 for r in routes)
        if len(held) != nets:
            return 'event %d: harness inconsistency' % k
        if received != nets:
            return 'event %d %s: route_stats received %d, the peer holds %d prefixes' % (k, list(e), received, nets)
        if live:
            if ctr >= (1 << 63):
                return 'event %d %s: the live session\'s prefix-limit counter underflowed (%d); the peer holds %d prefixes' % (k, list(e), ctr, nets)
            if ctr != nets:
                return 'event %d %s: the live session\'s prefix-limit counter is %d, the peer holds %d prefixes (retained stale ones included)' % (k, list(e), ctr, nets)
        if e[0] == 'ann' and prev_live:
            new = (e[1] // 2) not in prev_nets
            if closed and not (new and len(prev_nets) >= lim):
                return 'event %d %s: the session was ended for its prefix limit %d although the peer held %d prefixes and the prefix was %s' % (
                    k, list(e), lim, len(prev_nets), 'new' if new else 'already held')
            if not closed and new and len(prev_nets) >= lim:
                return 'event %d %s: a new prefix was accepted although the peer already held %d prefixes (limit %d)' % (k, list(e), len(prev_nets), lim)
        elif closed:
            return 'event %d %s: the session ended by itself' % (k, list(e))
        prev_nets = held; prev_live = bool(live)
    return None

def classify(c, obs):
    tags = ['daemon_session', 'enum:' + c['cls'].rsplit(':', 1)[0], 'enum:sess', 'limit_%s' % ('max' if c['limit'] == U32 else c['limit'])]
    if obs and obs[0] != -1:
        if any(x[5] for x in obs): tags.append('sess_ended_for_limit')
        if any(x[0] and any(r[1] for r in x[4]) for x in obs): tags.append('sess_live_over_stale_routes')
        if any(x[0] and any(r[2] for r in x[4]) for x in obs): tags.append('sess_live_over_llgr_stale_routes')
    return tags
