# C17, kind 9: typed API messages of the attributes whose value is a TLV tree (PREFIX_SID, TUNNEL_ENCAP).
#   case {'k': 9, 'w': 0 (PrefixSid) | 1 (TunnelEncap), 'msg': nested ints as documented in harness/common/c17_api.rs}
# The expectation functions below are the Spec side in python: what an accepted message must list as
# (its normal form), or that it cannot be stored faithfully at all and must be refused.
U32MAX = 2 ** 32 - 1
SID = [0x20, 0x01, 0x0d, 0xb8] + [0] * 11 + [1]


def S(t): return [ord(ch) for ch in t]
def ty(cls, w, msg): return {'k': 9, 'w': w, 'msg': msg, 'cls': cls}
def rep(n, x): return ['rep', x, n]


def is_rep(x): return isinstance(x, list) and len(x) == 3 and x[0] == 'rep'


def expand(x):
    if is_rep(x): return [expand(x[1])] * x[2]
    if isinstance(x, list): return [expand(e) for e in x]
    return x


# ---------------------------------------------------------------- PrefixSid
def ps_norm(msg):
    """(reason, None) when the message must be refused, (None, listing) otherwise; the listing gathers the
    Information sub-TLVs of every map key under key 1 (the map iteration order is not fixed: callers compare sorted)"""
    out = []
    for t in expand(msg):
        if t[0] == 0: return 'TLV without a form', None
        infos = []
        for _key, subs in t[1]:
            for s in subs:
                if s[0] == 0: return 'sub-TLV without a form', None
                if len(s[1]) != 16: return 'SID of %d octets' % len(s[1]), None
                if s[2] > 0xffff: return 'endpoint behaviour %d' % s[2], None
                structs = []
                for _k2, sss in s[3]:
                    for q in sss:
                        if q[0] == 0: return 'sub-sub-TLV without a form', None
                        if any(v > 255 for v in q[1:]): return 'structure length beyond one octet', None
                        structs.append(list(q))
                infos.append([1, list(s[1]), s[2], [[1, structs]] if structs else []])
        out.append([t[0], [[1, infos]] if infos else []])
    return None, out


def ps_len(listing):
    n = 0
    for t in listing:
        n += 4
        for _k, infos in t[1]:
            for s in infos:
                n += 3 + 21
                for _k2, sss in s[3]:
                    n += 9 * len(sss)
    return n


def ps_sorted(listing):
    def info_key(s): return (s[1], s[2], sorted(map(tuple, s[3][0][1])) if s[3] else [])
    out = []
    for t in listing:
        infos = sorted((info_key(s) for _k, ii in t[1] for s in ii), key=repr)
        out.append((t[0], infos))
    return out


# ---------------------------------------------------------------- TunnelEncap
SR_POLICY = 15


def _ebs_bad(e):
    return bool(e) and (not 0 <= e[0] <= 0xffff or any(v > 255 for v in e[1:]))


def te_norm(msg):
    """(reason, None, _) when the message must be refused; otherwise (None, listing, raw) where raw tells that the
    stored value lists in the raw form (its typed listing would not give the same octets back)"""
    out, raw = [], False
    for t in expand(msg):
        typ, subs = t
        if typ > 0xffff: return 'tunnel type %d' % typ, None, False
        if typ != SR_POLICY:
            val = []
            for s in subs:
                if s[0] != 7: return 'a sub-TLV the converter drops under tunnel type %d' % typ, None, False
                val += s[2]
            if val: raw = True
            out.append([typ, []])
            continue
        slot = {}
        segs = []
        for s in subs:
            k = s[0]
            if k == 0: return 'sub-TLV without a form', None, False
            if k == 8: return 'a sub-TLV kind the converter drops', None, False
            if k == 1:
                if s[1] > 255: return 'preference flags %d' % s[1], None, False
                key, v = 'pref', [1, s[1], s[2]]
            elif k == 2:
                if s[1] == 0: return 'binding SID without a form', None, False
                if s[1] == 1:
                    if len(s[4]) != 4: return 'MPLS binding SID of %d octets' % len(s[4]), None, False
                    if s[4][2] & 0x0f or s[4][3]: return 'MPLS binding SID with bits outside the label', None, False
                    key, v = 'bsid', [2, 1, s[2], s[3], list(s[4])]
                else:
                    if len(s[5]) != 16: return 'SRv6 binding SID of %d octets' % len(s[5]), None, False
                    if _ebs_bad(s[6]): return 'endpoint behaviour structure out of range', None, False
                    if s[6]:
                        key, v = 'bsid6', [2, 2, s[2], s[3], s[4], list(s[5]), list(s[6])]
                    else:
                        key, v = 'bsid', [2, 2, s[2], s[3], 0, list(s[5]), []]
                        if s[4]: raw = True       # the B flag is stored but sub-TLV 13 has no B flag in its listing
            elif k == 3:
                if s[1] > 255 or not 0 <= s[2] <= 255: return 'ENLP (%d, %d)' % (s[1], s[2]), None, False
                key, v = 'enlp', [3, s[1], s[2]]
            elif k == 4:
                if s[1] > 255: return 'priority %d' % s[1], None, False
                key, v = 'prio', [4, s[1]]
            elif k == 5:
                key, v = 'cpname', [5, list(s[1])]
            elif k == 7:
                if s[1] != 130: return 'unknown sub-TLV type %d under SR Policy' % s[1], None, False
                try:
                    bytes(s[2]).decode('utf-8')
                except UnicodeDecodeError:
                    return 'policy name that is not UTF-8', None, False
                key, v = 'pname', [7, 130, list(s[2])]
            elif k == 6:
                w = s[1]
                if w and w[0] > 255: return 'weight flags %d' % w[0], None, False
                gs = []
                for g in s[2]:
                    if g[0] == 0: return 'segment without a form', None, False
                    fl = [int(bool(b)) for b in g[1]] if g[1] else [0, 0, 0, 0]
                    if g[0] == 1:
                        if g[2] > 0xfffff: return 'segment label %d' % g[2], None, False
                        gs.append([1, fl, g[2]])
                    else:
                        if len(g[2]) != 16: return 'segment SID of %d octets' % len(g[2]), None, False
                        if _ebs_bad(g[3]): return 'endpoint behaviour structure out of range', None, False
                        if g[3] and not fl[1]: raw = True     # the decoder reads the structure only under flag 0x40
                        gs.append([2, fl, list(g[2]), list(g[3])])
                segs.append([6, list(w), gs])
                continue
            else:
                raise ValueError(s)
            if key in slot: return 'sub-TLV given twice (%s)' % key, None, False
            slot[key] = v
        lst = [slot[k] for k in ('pref', 'bsid', 'bsid6', 'enlp', 'prio') if k in slot] + segs + [slot[k] for k in ('cpname', 'pname') if k in slot]
        out.append([typ, lst])
    return None, out, raw


# ---------------------------------------------------------------- oracle
def oracle_typed(c, obs):
    if c['w'] == 2: return oracle_ls(c, obs)
    name = 'PrefixSid' if c['w'] == 0 else 'TunnelEncap'
    if obs == [-1]: return 'panic in attr_from_api of a %s message' % name
    if obs[0] == 0: return None
    _, bytes_, dec, relist, listed, code, flags = obs
    if dec == [-1]: return 'the stored %s value panics its decoder' % name
    if relist == [-1] or listed == [-1]: return 'the stored %s value panics when listed / added again' % name
    if c['w'] == 0:
        why, want = ps_norm(c['msg'])
        raw = False
    else:
        why, want, raw = te_norm(c['msg'])
    if why: return 'a %s message that cannot be stored faithfully was accepted: %s' % (name, why)
    n = bytes_[1] if bytes_ and bytes_[0] == -7 else len(bytes_)
    if n > 65535: return 'a %s value of %d octets was accepted' % (name, n)
    if (code, flags) != ((40, 0xc0) if c['w'] == 0 else (23, 0xc0)): return 'stored as attribute type %d flags %#x' % (code, flags)
    if relist != 0: return 'the stored %s value is %s when listed and added again' % (name, 'refused' if relist == 2 else 'changed')
    ebs_class = c['w'] == 1 and raw and _te_ebs_without_flag(c['msg'])
    if dec != 1 and not ebs_class: return 'the stored %s value is not one its decoder reads back to the same octets' % name
    if raw:
        if listed != [99]: return 'typed:expected-raw: the listing of a value the typed form cannot carry is typed'
        return None
    if listed == [99]: return 'not stored faithfully: the %s message is listed in the raw form (its typed listing does not give the stored octets)' % name
    if c['w'] == 0:
        if ps_sorted(listed) != ps_sorted(want): return 'not stored faithfully: %s listed as %s' % (str(want)[:120], str(listed)[:120])
    elif listed != want:
        return 'not stored faithfully: %s listed as %s' % (str(want)[:160], str(listed)[:160])
    return None


def _te_ebs_without_flag(msg):
    for t in expand(msg):
        if t[0] == SR_POLICY:
            for s in t[1]:
                if s[0] == 6:
                    for g in s[2]:
                        if g[0] == 2 and g[3] and not (g[1] and g[1][1]): return True
    return False


# ---------------------------------------------------------------- classes enumerated on every run
def info(sid=SID, beh=17, structs=None, key=1):
    return [1, list(sid), beh, [[key, structs]] if structs is not None else []]


def l3(infos, key=1): return [3, [[key, infos]] if infos is not None else []]
def st(*v): return [1] + list(v)


def enum_prefix_sid():
    o = []
    A = lambda cls, msg: o.append(ty('psid:' + cls, 0, msg))
    A('empty', [])
    A('tlv_oneof', [[0]]); A('tlv_oneof', [l3([info()]), [0]]); A('tlv_oneof', [[0], l3([info()])])
    for k in (3, 4): A('service_kind', [[k, []]]); A('service_kind', [[k, [[1, [info()]]]]])
    A('service_kind', [l3([info()]), [4, [[1, [info()]]]]])
    for key in (0, 1, 2, 255, 256, U32MAX): A('map_key', [l3([info()], key)]); A('map_key', [l3([info(structs=[st(40, 24, 16, 0, 16, 64)], key=key)])])
    A('map_two_keys', [[3, [[1, [info()]], [2, [info(beh=18)]]]]]); A('map_two_keys', [[3, [[1, []], [2, []]]]])
    A('sub_oneof', [l3([[0]])]); A('sub_oneof', [l3([info(), [0]])]); A('sub_oneof', [l3([])])
    for n in (0, 1, 15, 16, 17, 32): A('sid_len', [l3([info(sid=[7] * n)])])
    for b in (0, 1, 0xffff, 0x10000, U32MAX): A('behaviour_edge', [l3([info(beh=b)])])
    A('subsub_oneof', [l3([info(structs=[[0]])])]); A('subsub_oneof', [l3([info(structs=[st(1, 2, 3, 4, 5, 6), [0]])])]); A('subsub_oneof', [l3([info(structs=[])])])
    for pos in range(6):
        for v in (0, 255, 256, U32MAX):
            q = [1, 2, 3, 4, 5, 6]; q[pos] = v
            A('structure_len_edge', [l3([info(structs=[st(*q)])])])
    for n in (1, 2, 3): A('structure_count', [l3([info(structs=[st(n, 0, 0, 0, 0, i) for i in range(n)])])])
    # total value length on both sides of the 16-bit attribute length: 4 + 24 n
    for n in (1, 2, 10, 11, 2729, 2730, 2731, 2732):
        A('value_length_edge', [l3(rep(n, info()))])
    # one Information sub-TLV with many structures: 21 + 9 m octets around 65535
    for m in (28, 29, 7276, 7277, 7278, 7279): A('information_length_edge', [l3([info(structs=rep(m, st(1, 2, 3, 4, 5, 6)))])])
    for n in (1, 2, 3, 64): A('tlv_count', rep(n, l3([info()])))
    A('duplicate', [l3([info(), info()])]); A('duplicate', [l3([info()]), l3([info()])])
    return o


def segA(label=100, fl=None): return [1, fl if fl is not None else [], label]
def segB(sid=SID, fl=None, ebs=None): return [2, fl if fl is not None else [], list(sid), ebs if ebs is not None else []]
def srp(*subs): return [SR_POLICY, list(subs)]
EBS = [17, 32, 16, 16, 0]
LBL = [0x00, 0x06, 0x40, 0x00]       # label 100 << 12


def enum_tunnel_encap():
    o = []
    A = lambda cls, msg: o.append(ty('te:' + cls, 1, msg))
    A('empty', []); A('empty', [srp()]); A('empty', [[1, []]])
    for t in (0, 1, 14, 15, 16, 255, 256, 65535, 65536, 65536 + 15, U32MAX): A('tunnel_type', [[t, []]]); A('tunnel_type', [[t, [[1, 0, 100]]]])
    for t in (8, 65535):
        A('other_type_unknown_values', [[t, [[7, 1, [1, 2, 3]]]]]); A('other_type_unknown_values', [[t, [[7, 1, [1, 2]], [7, 9, [3]]]]]); A('other_type_unknown_values', [[t, [[7, 1, []]]]])
        for s in ([0], [1, 0, 1], [4, 1], [5, S('x')], [8, 7], [6, [], []]): A('other_type_dropped_kinds', [[t, [s]]])
    for n in (65531, 65532, 65533): A('other_type_value_length', [[8, [[7, 1, rep(n, 1)]]]])
    A('sub_oneof', [srp([0])]); A('sub_oneof', [srp([1, 0, 1], [0])]); A('sub_oneof', [srp([8, 7])]); A('sub_oneof', [srp([1, 0, 1], [8, 7])])
    for f in (0, 1, 0x80, 255, 256, U32MAX):
        A('preference_edge', [srp([1, f, 100])]); A('weight_edge', [srp([6, [f, 1], [segA()]])]); A('enlp_edge', [srp([3, f, 1])])
    for p in (0, 1, U32MAX): A('preference_edge', [srp([1, 0, p])]); A('weight_edge', [srp([6, [0, p], [segA()]])])
    for e in (-1, 0, 1, 4, 255, 256, 2 ** 31 - 1, -2 ** 31): A('enlp_edge', [srp([3, 0, e])])
    for p in (0, 1, 255, 256, 511, U32MAX): A('priority_edge', [srp([4, p])])
    # binding SID: the oneof, both forms, SID length edges, label bits, flags, behaviour structure
    A('bsid_form', [srp([2, 0])])
    for n in (0, 3, 4, 5, 8, 16): A('bsid_mpls_len', [srp([2, 1, 0, 0, [0] * n])]); A('bsid_mpls_len', [srp([2, 1, 1, 1, (LBL * 4)[:n]])])
    for sid in ([0, 0, 0, 0], LBL, [0xff, 0xff, 0xf0, 0], [0xff, 0xff, 0xf0, 1], [0, 0, 0x10, 0], [0, 0, 0x08, 0], [0, 0, 0, 0xff], [0xff] * 4): A('bsid_mpls_bits', [srp([2, 1, 0, 0, sid])])
    for s in (0, 1):
        for i in (0, 1):
            A('bsid_flags', [srp([2, 1, s, i, LBL])])
            for b in (0, 1): A('bsid_flags', [srp([2, 2, s, i, b, SID, []])]); A('bsid_flags', [srp([2, 2, s, i, b, SID, EBS])])
    for n in (0, 4, 15, 16, 17, 32): A('bsid_srv6_len', [srp([2, 2, 0, 0, 0, [9] * n, []])]); A('bsid_srv6_len', [srp([2, 2, 0, 0, 0, [9] * n, EBS])])
    for pos in range(5):
        for v in ((-1, 0, 65535, 65536, 2 ** 31 - 1) if pos == 0 else (0, 255, 256, U32MAX)):
            e = list(EBS); e[pos] = v
            A('ebs_edge', [srp([2, 2, 0, 0, 0, SID, e])]); A('ebs_edge', [srp([6, [], [segB(fl=[0, 1, 0, 0], ebs=e)]])])
    A('bsid_both_slots', [srp([2, 1, 0, 0, LBL], [2, 2, 0, 0, 0, SID, EBS])]); A('bsid_both_slots', [srp([2, 2, 0, 0, 0, SID, EBS], [2, 2, 0, 0, 0, SID, []])])
    # every single sub-TLV given twice
    for s in ([1, 0, 1], [2, 1, 0, 0, LBL], [2, 2, 0, 0, 0, SID, []], [2, 2, 0, 0, 0, SID, EBS], [3, 0, 1], [4, 1], [5, S('a')], [7, 130, S('p')]):
        s2 = list(s); s2[-1] = s[-1] if isinstance(s[-1], list) else s[-1] + 1
        A('given_twice', [srp(s, s)]); A('given_twice', [srp(s, s2)]); A('given_once', [srp(s)])
    A('given_twice', [srp([2, 1, 0, 0, LBL], [2, 2, 0, 0, 0, SID, []])])
    # names: empty, ASCII, multi-octet UTF-8, the two-octet length, the attribute length limit
    for n in (S(''), S('a'), S('path-1'), [0xc3, 0xa9], rep(254, 0x61), rep(255, 0x61), rep(256, 0x61)): A('names', [srp([5, n])]); A('names', [srp([7, 130, n])])
    for v in ([0xff], [0xc3], [0x61, 0x80]): A('names', [srp([7, 130, v])])
    for n in (65526, 65527, 65528, 65529): A('name_length_edge', [srp([5, rep(n, 0x61)])]); A('name_length_edge', [srp([7, 130, rep(n, 0x61)])])
    for t in (0, 1, 12, 128, 129, 131, 255, 256, 256 + 130, U32MAX): A('unknown_sub_type', [srp([7, t, S('x')])])
    # segment lists: none / one / several, weight, segment oneof, flags one by one, labels, SID lengths
    A('segment_list', [srp([6, [], []])]); A('segment_list', [srp([6, [0, 1], []])]); A('segment_list', [srp([6, [], [segA()]], [6, [], [segB()]])]); A('segment_list', [srp([6, [], [[0]]])]); A('segment_list', [srp([6, [], [segA(), [0], segB()]])])
    for k in range(4):
        fl = [0, 0, 0, 0]; fl[k] = 1
        A('segment_flags', [srp([6, [], [segA(fl=fl)]])]); A('segment_flags', [srp([6, [], [segB(fl=fl)]])]); A('segment_flags', [srp([6, [], [segB(fl=fl, ebs=EBS)]])])
    A('segment_flags', [srp([6, [], [segA(fl=[1, 1, 1, 1]), segB(fl=[1, 1, 1, 1], ebs=EBS)]])]); A('segment_flags', [srp([6, [], [segB(ebs=EBS)]])])
    for l in (0, 1, 0xfffff, 0x100000, 0x100001, U32MAX): A('segment_label_edge', [srp([6, [], [segA(label=l)]])])
    for n in (0, 4, 15, 16, 17): A('segment_sid_len', [srp([6, [], [segB(sid=[5] * n)]])])
    # segment list body 1 + 8 n (type A) around the 16-bit sub-TLV length and the attribute length
    for n in (1, 31, 32, 8189, 8190, 8191, 8192): A('segment_list_length_edge', [srp([6, [], rep(n, segA())])])
    for n in (1, 2, 3, 64): A('tlv_count', rep(n, srp([1, 0, n])))
    A('full', [srp([1, 0, 100], [2, 1, 1, 0, LBL], [2, 2, 1, 1, 1, SID, EBS], [3, 0, 3], [4, 7], [6, [0, 5], [segA(), segB(fl=[0, 1, 0, 0], ebs=EBS)]], [5, S('cp')], [7, 130, S('pol')])])
    A('full', [srp([7, 130, S('pol')], [5, S('cp')], [6, [], [segB()]], [4, 7], [3, 0, 3], [2, 1, 0, 0, LBL], [1, 0, 100])])
    A('mixed_types', [srp([1, 0, 1]), [8, [[7, 1, [1, 2]]]]]); A('mixed_types', [[8, []], srp([1, 0, 1])])
    return o


def enum_typed():
    return enum_prefix_sid() + enum_tunnel_encap() + enum_ls_attr()


# ---------------------------------------------------------------- random messages
def gen_typed_case(rng):
    if rng.random() < 0.3: return gen_ls_case(rng)
    if rng.random() < 0.4:
        def structs():
            return [st(*[rng.choice((0, 1, 16, 64, 255, 256)) if rng.random() < 0.1 else rng.randrange(129) for _ in range(6)]) for _ in range(rng.randrange(3))]
        def inf():
            if rng.random() < 0.03: return [0]
            sid = [rng.randrange(256) for _ in range(16 if rng.random() < 0.93 else rng.choice((0, 4, 15, 17)))]
            return [1, sid, rng.choice((0, 17, 65535, 65536)) if rng.random() < 0.2 else rng.randrange(70), [[rng.choice((1, 1, 2)), structs()]] if rng.random() < 0.6 else []]
        msg = []
        for _ in range(rng.randrange(4)):
            msg.append([0] if rng.random() < 0.03 else [rng.choice((3, 4)), [[rng.choice((1, 1, 1, 5)), [inf() for _ in range(rng.randrange(3))]]] if rng.random() < 0.85 else []])
        return {'k': 9, 'w': 0, 'msg': msg}
    edge8 = lambda: rng.choice((0, 1, 255, 256)) if rng.random() < 0.15 else rng.randrange(256)
    def ebs(): return [rng.choice((-1, 65535, 65536)) if rng.random() < 0.08 else rng.randrange(80), edge8(), edge8(), edge8(), edge8()] if rng.random() < 0.5 else []
    def sid16(): return [rng.randrange(256) for _ in range(16 if rng.random() < 0.93 else rng.choice((0, 4, 15, 17)))]
    def fl(): return [rng.randrange(2) for _ in range(4)] if rng.random() < 0.8 else []
    def seg():
        r = rng.random()
        if r < 0.03: return [0]
        if r < 0.5: return segA(label=rng.choice((0, 0xfffff, 0x100000)) if rng.random() < 0.15 else rng.randrange(0x100000), fl=fl())
        return segB(sid=sid16(), fl=fl(), ebs=ebs())
    def sub():
        k = rng.choice((1, 2, 2, 3, 4, 5, 6, 6, 7, 0, 8) if rng.random() < 0.15 else (1, 2, 2, 3, 4, 5, 6, 6))
        if k == 0: return [0]
        if k == 1: return [1, edge8(), rng.randrange(U32MAX + 1)]
        if k == 2:
            r = rng.random()
            if r < 0.04: return [2, 0]
            if r < 0.5:
                l = rng.randrange(0x100000) << 12
                b = [l >> 24, (l >> 16) & 255, (l >> 8) & 255, (l & 255) | (rng.randrange(256) if rng.random() < 0.1 else 0)]
                return [2, 1, rng.randrange(2), rng.randrange(2), b if rng.random() < 0.9 else b[:rng.randrange(4)]]
            return [2, 2, rng.randrange(2), rng.randrange(2), rng.randrange(2) if rng.random() < 0.3 else 0, sid16(), ebs()]
        if k == 3: return [3, edge8(), rng.choice((-1, 256)) if rng.random() < 0.1 else rng.randrange(5)]
        if k == 4: return [4, edge8()]
        if k == 5: return [5, S(rng.choice(('', 'a', 'cp-name', 'x' * 40)))]
        if k == 6: return [6, [edge8(), rng.randrange(1000)] if rng.random() < 0.5 else [], [seg() for _ in range(rng.randrange(4))]]
        if k == 7: return [7, rng.choice((130, 130, 1, 131)), S(rng.choice(('', 'pol', 'name'))) if rng.random() < 0.9 else [0xff, 0x61]]
        return [8, rng.randrange(100)]
    msg = []
    for _ in range(rng.choice((1, 1, 1, 2, 0))):
        if rng.random() < 0.85:
            ks, subs = set(), []
            for _ in range(rng.randrange(6)):
                s = sub()
                slot = (s[0], s[1] if s[0] == 2 and s[1] != 2 else (2 if s[0] == 2 and not s[6] else 3) if s[0] == 2 else 0)
                if s[0] in (1, 2, 3, 4, 5, 7) and slot in ks and rng.random() < 0.9: continue
                ks.add(slot); subs.append(s)
            msg.append([SR_POLICY if rng.random() < 0.95 else 65536 + 15, subs])
        else:
            msg.append([rng.choice((1, 8, 13, 65535, 65536)), [[7, rng.randrange(256), [rng.randrange(256) for _ in range(rng.randrange(6))]] for _ in range(rng.randrange(3))] + ([[4, 1]] if rng.random() < 0.1 else [])])
    return {'k': 9, 'w': 1, 'msg': msg}


# ---------------------------------------------------------------- LsAttribute (w = 2)
U24, U20 = 0xffffff, 0xfffff
NODE0 = [S(''), [], S(''), S(''), [], [], [], [], []]
LINK0 = [S(''), S(''), S(''), S(''), S(''), 0, 0, 0, [], 0, 0, [], 0, [], [], 0, 0, 0, 0, 0, 0]
PFX0 = [[], [], 0, []]


def node(**kw):
    n = [list(x) if isinstance(x, list) else x for x in NODE0]
    for k, v in kw.items(): n[{'name': 0, 'flags': 1, 'rid': 2, 'rid6': 3, 'area': 4, 'opaque': 5, 'srcap': 6, 'algos': 7, 'srlb': 8}[k]] = v
    return n


LINK_IX = {'name': 0, 'lrid': 1, 'lrid6': 2, 'rrid': 3, 'rrid6': 4, 'admin': 5, 'te': 6, 'igp': 7, 'opaque': 8, 'bw': 9, 'rbw': 10, 'unres': 11, 'adj': 12,
           'srlgs': 13, 'endx': 14, 'd_anom': 15, 'delay': 16, 'mm_anom': 17, 'dmin': 18, 'dmax': 19, 'var': 20}


def link(**kw):
    n = [list(x) if isinstance(x, list) else x for x in LINK0]
    for k, v in kw.items(): n[LINK_IX[k]] = v
    return n


def pfx(**kw):
    n = [list(x) if isinstance(x, list) else x for x in PFX0]
    for k, v in kw.items(): n[{'flags': 0, 'opaque': 1, 'sid': 2, 'sids': 3}[k]] = v
    return n


def ls(node_=None, link_=None, pfx_=None, bps=None, extra=0): return [node_ or [], link_ or [], pfx_ or [], bps or [], extra]


def _ip4_ok(b):
    try:
        t = bytes(b).decode('ascii')
    except UnicodeDecodeError:
        return False
    p = t.split('.')
    return len(p) == 4 and all(q.isdigit() and len(q) <= 3 and (q == '0' or not q.startswith('0')) and int(q) < 256 for q in p)


def _ip6_ok(b):
    import ipaddress
    try:
        t = bytes(b).decode('ascii')
        if '%' in t or '/' in t: return False
        ipaddress.IPv6Address(t)
        return True
    except Exception:
        return False


def _ranges_bad(rs):
    for b, e in rs:
        if b > U20: return 'SR range begins at %d (beyond a 20-bit label)' % b
        if e < b: return 'SR range [%d, %d] ends before it begins' % (b, e)
        if e - b + 1 > U24: return 'SR range of %d values' % (e - b + 1)
    return None


def ls_must_refuse(msg):
    """why the message cannot be stored faithfully, or None"""
    n, l, p, b, extra = expand(msg)
    if extra == 1 or (extra == 2 and n) or (extra == 3 and p): return 'a part the converter has no encoding for (%s)' % {1: 'SRv6 SID', 2: 'flex-algo definition', 3: 'flex-algo prefix metric'}[extra]
    if n:
        if n[2] and not _ip4_ok(n[2]): return 'node router id that is not an IPv4 address'
        if n[3] and not _ip6_ok(n[3]): return 'node router id that is not an IPv6 address'
        if n[6]:
            w = _ranges_bad(n[6][2])
            if w: return w
        if n[8]:
            w = _ranges_bad(n[8][0])
            if w: return w
    if l:
        for ix, ok in ((1, _ip4_ok), (2, _ip6_ok), (3, _ip4_ok), (4, _ip6_ok)):
            if l[ix] and not ok(l[ix]): return 'link router id that is not an address'
        if l[7] > U24: return 'IGP metric %d' % l[7]
        if len(l[11]) not in (0, 8): return '%d unreserved bandwidth values' % len(l[11])
        if l[12] > U20: return 'adjacency SID %d (a label)' % l[12]
        for ix in (16, 18, 19, 20):
            if l[ix] > U24: return 'delay %d beyond 24 bits' % l[ix]
        x = l[14]
        if x:
            if x[0] > 0xffff or any(v > 255 for v in x[1:4]): return 'End.X SID field out of range'
            if any(not _ip6_ok(s) for s in x[4]): return 'End.X SID that is not an IPv6 address'
            if x[5] and any(v > 255 for v in x[5]): return 'SID structure length out of range'
    if p:
        if p[3]:
            for a, f, s in p[3]:
                if a > 255 or f > 255: return 'prefix SID algorithm / flags out of range'
                if f & 0x80 and s > U20: return 'prefix SID label %d' % s
        elif p[2] > U20: return 'prefix SID label %d' % p[2]
    if b:
        for s in b:
            if s:
                if s[1] > 255: return 'peer SID weight %d' % s[1]
                if s[0] and s[0][0] and s[2] > U20: return 'peer SID label %d' % s[2]
    return None


def _ls_listing_mismatch(msg, listed):
    """fields of an accepted LsAttribute message against the typed listing of the stored value (0 / empty mean absent in
    this message, so a part whose compared fields are all absent may be missing from the listing)"""
    n, l, p, b, _ = expand(msg)
    ln, ll, lp, lb = listed[0], listed[1], listed[2], listed[3]
    z = lambda bits: 0 if bits == 0x80000000 else bits        # -0.0 is 'no bandwidth' as 0.0 is
    if n:
        want = [n[0], n[1], n[4], n[5], n[6], n[7], n[8]]
        got = [ln[0], ln[1], ln[4], ln[5], ln[6], ln[7], ln[8]] if ln else [[], [], [], [], [], [], []]
        if want != got: return 'node part %s listed as %s' % (str(want)[:100], str(got)[:100])
    if l:
        ix = (0, 5, 6, 7, 8, 9, 10, 11, 12, 13, 14, 15, 16, 17, 18, 19, 20)
        want = [l[i] for i in ix]; want[5] = z(want[5]); want[6] = z(want[6])
        if not want[12]: pass
        got = [ll[i] for i in ix] if ll else [[], 0, 0, 0, [], 0, 0, [], 0, [], [], 0, 0, 0, 0, 0, 0]
        if want != got: return 'link part %s listed as %s' % (str(want)[:140], str(got)[:140])
    if p:
        sids = [list(s) for s in p[3]] if p[3] else ([[0, 0x80, p[2]]] if p[2] else [])
        want = [p[0], p[1], sids]
        got = [lp[0], lp[1], lp[3]] if lp else [[], [], []]
        if want != got: return 'prefix part %s listed as %s' % (str(want)[:100], str(got)[:100])
    if b:
        want = [[s[0] if s[0] else [0, 0, 0, 0], s[1], s[2]] if s else [] for s in b]
        got = lb if lb else [[], [], []]
        if want != got: return 'peer segment part %s listed as %s' % (str(want)[:100], str(got)[:100])
    return None


def oracle_ls(c, obs):
    if obs == [-1]: return 'panic in attr_from_api of an LsAttribute message'
    if obs[0] == 0: return None
    _, bytes_, dec, relist, listed, code, flags = obs
    if dec == [-1]: return 'the stored LS attribute value panics its decoder'
    if relist == [-1] or listed == [-1]: return 'the stored LS attribute value panics when listed / added again'
    why = ls_must_refuse(c['msg'])
    if why: return 'an LsAttribute message that cannot be stored faithfully was accepted: ' + why
    n = bytes_[1] if bytes_ and bytes_[0] == -7 else len(bytes_)
    if n > 65535: return 'an LS attribute value of %d octets was accepted' % n
    if (code, flags) != (29, 0x80): return 'stored as attribute type %d flags %#x' % (code, flags)
    if relist != 0: return 'the stored LS attribute value is %s when listed and added again' % ('refused' if relist == 2 else 'changed')
    if dec != 1: return 'the stored LS attribute value is not one its decoder reads back to the same octets'
    if listed != [99]:
        why = _ls_listing_mismatch(c['msg'], listed)
        if why: return 'not stored faithfully: ' + why
    return None


def enum_ls_attr():
    o = []
    A = lambda cls, msg: o.append(ty('lsattr:' + cls, 2, msg))
    A('empty', ls()); A('empty', ls(node(), link(), pfx(), [[], [], []])); A('empty', ls(node()))
    for e in (1, 2, 3): A('unsupported_part', ls(node(name=S('r1')), None, pfx(sid=5), None, e))
    # node
    for nm in (S(''), S('r'), rep(255, 0x61), rep(256, 0x61)): A('node_name', ls(node(name=nm)))
    for n in (65530, 65531, 65532): A('value_length_edge', ls(node(name=rep(n, 0x61))))
    for k in range(6):
        f = [0] * 6; f[k] = 1
        A('node_flags', ls(node(flags=f)))
    A('node_flags', ls(node(flags=[0] * 6))); A('node_flags', ls(node(flags=[1] * 6)))
    for t in ('', '10.0.0.1', '255.255.255.255', '256.0.0.1', '10.0.0', 'x', '2001:db8::1', '10.0.0.01'): A('router_id_text', ls(node(rid=S(t)))); A('router_id_text', ls(None, link(lrid=S(t)))); A('router_id_text', ls(None, link(rrid=S(t))))
    for t in ('', '2001:db8::1', '::', '::ffff:1.2.3.4', '10.0.0.1', '2001:db8::/32', 'g::1', '1:2:3:4:5:6:7:8:9'): A('router_id6_text', ls(node(rid6=S(t)))); A('router_id6_text', ls(None, link(lrid6=S(t)))); A('router_id6_text', ls(None, link(rrid6=S(t))))
    for b in ([], [0x49], [0x49, 0, 1], rep(255, 7)): A('node_bytes', ls(node(area=b))); A('node_bytes', ls(node(opaque=b))); A('node_bytes', ls(node(algos=b)))
    # SR ranges: begin / size on both sides of the 20-bit label and the 24-bit range size, inverted, none, several
    RANGES = ([], [[16000, 23999]], [[0, 0]], [[U20, U20]], [[U20 + 1, U20 + 1]], [[0, U24 - 1]], [[0, U24]], [[0, U24 + 1]], [[1, U24]], [[0, U32MAX]], [[1, U32MAX]], [[U32MAX, U32MAX]],
              [[10, 9]], [[10, 0]], [[100, 199], [300, 399]], [[U20, U20 + U24 - 1]], [[U20, U20 + U24]])
    for r in RANGES:
        A('sr_capability_ranges', ls(node(srcap=[1, 0, r]))); A('sr_local_block_ranges', ls(node(srlb=[r])))
    for v4, v6 in ((0, 0), (1, 0), (0, 1), (1, 1)): A('sr_capability_flags', ls(node(srcap=[v4, v6, [[16000, 16999]]])))
    # link
    for v in (0, 1, 255, 256, 65535, 65536, U24, U24 + 1, U32MAX):
        A('igp_metric_edge', ls(None, link(igp=v)))
        A('delay_edge', ls(None, link(delay=v))); A('delay_edge', ls(None, link(dmin=v, dmax=v))); A('delay_edge', ls(None, link(var=v))); A('delay_edge', ls(None, link(delay=v, d_anom=1))); A('delay_edge', ls(None, link(dmin=1, dmax=v, mm_anom=1)))
    for v in (0, 1, U20, U20 + 1, U24, U32MAX):
        A('adjacency_sid_edge', ls(None, link(adj=v)))
        A('prefix_sid_edge', ls(None, None, pfx(sid=v)))
        for fl in (0, 0x80, 0x40, 0xff, 0x100, 0x180):
            A('prefix_sid_edge', ls(None, None, pfx(sids=[[0, fl, v]])))
        for vf in (0, 1):
            A('peer_sid_edge', ls(None, None, None, [[[vf, 0, 0, 0], 10, v], [], []]))
    for v in (0, 1, U32MAX): A('link_u32', ls(None, link(admin=v, te=v))); A('link_u32', ls(None, link(srlgs=[v, 1])))
    A('link_u32', ls(None, link(bw=0x4b000000, rbw=0x7fc00000))); A('link_u32', ls(None, link(bw=0x80000000)))
    for n in (0, 1, 7, 8, 9): A('unreserved_count', ls(None, link(unres=[0x4b000000 + i for i in range(n)])))
    for nm in (S(''), S('eth0'), rep(256, 0x61)): A('link_name', ls(None, link(name=nm))); A('link_name', ls(None, link(opaque=nm)))
    X = [48, 0, 0, 0, [S('2001:db8::1')], []]
    A('endx', ls(None, link(endx=X))); A('endx', ls(None, link(endx=[48, 0, 0, 0, [], []]))); A('endx', ls(None, link(endx=[48, 0, 0, 0, [S('2001:db8::1'), S('2001:db8::2')], [40, 24, 16, 0]])))
    for pos, vals in ((0, (0, 65535, 65536, U32MAX)), (1, (255, 256, U32MAX)), (2, (255, 256)), (3, (255, 256))):
        for v in vals:
            x = [list(e) if isinstance(e, list) else e for e in X]; x[pos] = v
            A('endx_field_edge', ls(None, link(endx=x)))
    for t in ('', 'x', '10.0.0.1', '2001:db8::/64'): A('endx_sid_text', ls(None, link(endx=[48, 0, 0, 0, [S('2001:db8::1'), S(t)], []])))
    for pos in range(4):
        for v in (0, 255, 256, U32MAX):
            q = [40, 24, 16, 0]; q[pos] = v
            A('endx_structure_edge', ls(None, link(endx=[48, 0, 0, 0, [S('2001:db8::1')], q])))
    # BGP peer segment SIDs
    for w in (0, 1, 255, 256, U32MAX):
        for slot in range(3):
            b = [[], [], []]; b[slot] = [[0, 1, 0, 0], w, 100]
            A('peer_sid_weight', ls(None, None, None, b))
    for k in range(4):
        f = [0] * 4; f[k] = 1
        A('peer_sid_flags', ls(None, None, None, [[f, 1, 100], [], []])); A('igp_flags', ls(None, None, pfx(flags=f)))
    A('peer_sid_flags', ls(None, None, None, [[[], 1, 100], [[], 2, 200], [[], 3, 300]]))
    # prefix
    for a in (0, 1, 255, 256, U32MAX): A('prefix_sid_algorithm', ls(None, None, pfx(sids=[[a, 0, 100]])))
    A('prefix_sids', ls(None, None, pfx(sids=[[0, 0x80, 100], [128, 0, 5]]))); A('prefix_sids', ls(None, None, pfx(sid=7, sids=[[0, 0x80, 100]]))); A('prefix_sids', ls(None, None, pfx(opaque=[1, 2, 3])))
    A('all_parts', ls(node(name=S('r1'), flags=[1, 0, 0, 0, 1, 0], rid=S('10.0.0.1'), srcap=[1, 1, [[16000, 23999]]], algos=[0, 1], srlb=[[[15000, 15999]]]),
                      link(name=S('e0'), lrid=S('10.0.0.1'), rrid=S('10.0.0.2'), admin=5, te=10, igp=20, bw=0x4b000000, adj=24001, srlgs=[1, 2], delay=100, dmin=50, dmax=150, var=5),
                      pfx(flags=[0, 1, 0, 0], sids=[[0, 0x40, 7]]), [[[1, 1, 0, 0], 5, 24002], [], []]))
    return o


def gen_ls_case(rng):
    e24 = lambda: rng.choice((0, 1, U24, U24 + 1, U32MAX)) if rng.random() < 0.2 else rng.randrange(100000)
    e20 = lambda: rng.choice((0, U20, U20 + 1, U32MAX)) if rng.random() < 0.2 else rng.randrange(U20 + 1)
    e8 = lambda: rng.choice((0, 255, 256)) if rng.random() < 0.15 else rng.randrange(256)
    ip4 = lambda: S(rng.choice(('', '', '10.0.0.1', '192.0.2.7', 'bad', '300.1.1.1'))) if rng.random() < 0.5 else S('')
    ip6 = lambda: S(rng.choice(('', '2001:db8::1', '::', 'bad', '10.0.0.1'))) if rng.random() < 0.4 else S('')
    def ranges():
        out = []
        for _ in range(rng.randrange(3)):
            b = e20(); out.append([b, rng.choice((b, b + 999, b + U24 - 1, b + U24, max(b, 1) - 1)) if b < 2 ** 31 else b])
        return out
    n = l = p = b = None
    if rng.random() < 0.6:
        n = node(name=S(rng.choice(('', 'r1'))), flags=[rng.randrange(2) for _ in range(6)] if rng.random() < 0.5 else [], rid=ip4(), rid6=ip6(),
                 srcap=[rng.randrange(2), rng.randrange(2), ranges()] if rng.random() < 0.6 else [], algos=[0, 1] if rng.random() < 0.3 else [],
                 srlb=[ranges()] if rng.random() < 0.4 else [])
    if rng.random() < 0.6:
        x = []
        if rng.random() < 0.4:
            x = [rng.choice((48, 65535, 65536)), e8(), e8(), e8(), [S(rng.choice(('2001:db8::1', '2001:db8::2', 'bad'))) if rng.random() < 0.9 else S('') for _ in range(rng.randrange(3))],
                 [e8(), e8(), e8(), e8()] if rng.random() < 0.5 else []]
        l = link(name=S(rng.choice(('', 'e0'))), lrid=ip4(), rrid=ip4(), lrid6=ip6(), rrid6=ip6(), admin=rng.randrange(4), te=rng.randrange(3), igp=e24(), adj=e20() if rng.random() < 0.5 else 0,
                 unres=[0x4b000000] * rng.choice((0, 0, 8, 8, 3)), srlgs=[rng.randrange(10) for _ in range(rng.randrange(3))], endx=x, delay=e24() if rng.random() < 0.4 else 0, d_anom=rng.randrange(2),
                 dmin=e24() if rng.random() < 0.3 else 0, dmax=e24() if rng.random() < 0.3 else 0, mm_anom=rng.randrange(2), var=e24() if rng.random() < 0.3 else 0)
    if rng.random() < 0.5:
        p = pfx(flags=[rng.randrange(2) for _ in range(4)] if rng.random() < 0.5 else [], sid=e20() if rng.random() < 0.4 else 0,
                sids=[[e8(), rng.choice((0, 0x80, 0x40, 0xc0, 0x100)) if rng.random() < 0.8 else e8(), e20()] for _ in range(rng.randrange(3))])
    if rng.random() < 0.4:
        ps = lambda: [[rng.randrange(2) for _ in range(4)] if rng.random() < 0.8 else [], e8(), e20()] if rng.random() < 0.6 else []
        b = [ps(), ps(), ps()]
    return {'k': 9, 'w': 2, 'msg': ls(n, l, p, b, rng.choice((1, 2, 3)) if rng.random() < 0.04 else 0)}


# ---------------------------------------------------------------- rendering for the Coq model
from vp.val import cN, cZ, cbool, clist


def rlist(l, render):
    if is_rep(l): return '(N.iter %d%%N (cons %s) [])' % (l[2], render(l[1]))
    return clist([render(y) for y in l])


def _bytes(l): return rlist(l, cN)


def psid_to_coq(msg):
    def st_(q): return 'APsStMissing' if q[0] == 0 else '(APsSt %s)' % ' '.join(cN(v) for v in q[1:])
    def info_(s):
        if s[0] == 0: return 'APsInfoMissing'
        return '(APsInfo %s %s %s)' % (_bytes(s[1]), cN(s[2]), rlist(s[3], lambda e: '(%s, %s)' % (cN(e[0]), rlist(e[1], st_))))
    def tlv_(t):
        if t[0] == 0: return 'APsMissing'
        return '(APsSvc %s %s)' % (cbool(t[0] == 4), rlist(t[1], lambda e: '(%s, %s)' % (cN(e[0]), rlist(e[1], info_))))
    return 'run_api_psid_case %s' % rlist(msg, tlv_)


def _ebs(e): return 'None' if not e else '(Some (AEbs %s %s %s %s %s))' % (cZ(e[0]), cN(e[1]), cN(e[2]), cN(e[3]), cN(e[4]))
def _fl(f): return 'None' if not f else '(Some (%s, %s, %s, %s))' % tuple(cbool(bool(b)) for b in f)
def _w(w): return 'None' if not w else '(Some (%s, %s))' % (cN(w[0]), cN(w[1]))


def te_to_coq(msg):
    def seg_(g):
        if g[0] == 0: return 'ASegMissing'
        if g[0] == 1: return '(ASegA %s %s)' % (_fl(g[1]), cN(g[2]))
        return '(ASegB %s %s %s)' % (_fl(g[1]), _bytes(g[2]), _ebs(g[3]))
    def sub_(s):
        k = s[0]
        if k == 0: return 'ATsMissing'
        if k == 1: return '(ATsPref %s %s)' % (cN(s[1]), cN(s[2]))
        if k == 2:
            if s[1] == 0: return 'ATsBsidNone'
            if s[1] == 1: return '(ATsBsidMpls %s %s %s)' % (cbool(bool(s[2])), cbool(bool(s[3])), _bytes(s[4]))
            return '(ATsBsid6 %s %s %s %s %s)' % (cbool(bool(s[2])), cbool(bool(s[3])), cbool(bool(s[4])), _bytes(s[5]), _ebs(s[6]))
        if k == 3: return '(ATsEnlp %s %s)' % (cN(s[1]), cZ(s[2]))
        if k == 4: return '(ATsPrio %s)' % cN(s[1])
        if k == 5: return '(ATsName %s)' % _bytes(s[1])
        if k == 6: return '(ATsSegList %s %s)' % (_w(s[1]), rlist(s[2], seg_))
        if k == 7: return '(ATsUnknown %s %s)' % (cN(s[1]), _bytes(s[2]))
        return 'ATsOther'
    return 'run_api_te_case %s' % rlist(msg, lambda t: '(%s, %s)' % (cN(t[0]), rlist(t[1], sub_)))


def typed_to_coq(c): return psid_to_coq(c['msg']) if c['w'] == 0 else te_to_coq(c['msg']) if c['w'] == 1 else '(VL [])'


def ps_single_keys(msg):
    """every map of the message has at most one key (the iteration order of a larger map is not fixed)"""
    for t in expand(msg):
        if t[0] == 0: continue
        if len(t[1]) > 1: return False
        for _k, subs in t[1]:
            for s in subs:
                if s[0] and len(s[3]) > 1: return False
    return True


def typed_canon(c, obs):
    """what is compared with the model: accepted, value octets, listing (PrefixSid maps of several keys: accepted only)"""
    if c['w'] == 2: return []       # the LsAttribute message is not modelled: judged by the oracle only
    if obs == [-1] or not obs: return obs
    if obs[0] == 0: return [0]
    if c['w'] == 0 and not ps_single_keys(c['msg']): return [1]
    if len(obs) == 7: return [1, obs[1], obs[4] if not (obs[1] and obs[1][0] == -7) else [-7]]
    if c['w'] == 0 and not ps_single_keys(c['msg']): return [1]
    return obs
