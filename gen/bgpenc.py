"""A small BGP wire encoder for the C03/C05 generators.  Every builder returns a
`B`: the bytes plus the offsets of the length fields inside them, so that the
mutators can set any length field to a boundary value."""

IPV4 = (1 << 16) | 1
IPV4_MC = (1 << 16) | 2
IPV6 = (2 << 16) | 1
IPV6_MC = (2 << 16) | 2
IPV4_MPLS = (1 << 16) | 4
IPV6_MPLS = (2 << 16) | 4
IPV4_VPN = (1 << 16) | 128
IPV6_VPN = (2 << 16) | 128
MODELLED = [IPV4, IPV4_MC, IPV6, IPV6_MC, IPV4_MPLS, IPV6_MPLS, IPV4_VPN, IPV6_VPN]
IPV4_MUP = (1 << 16) | 85
IPV6_MUP = (2 << 16) | 85
IPV4_FS = (1 << 16) | 133
IPV6_FS = (2 << 16) | 133
IPV4_FSVPN = (1 << 16) | 134
IPV6_FSVPN = (2 << 16) | 134
LS = (16388 << 16) | 71
IPV4_SRP = (1 << 16) | 73
IPV6_SRP = (2 << 16) | 73
EVPN = (25 << 16) | 70
RTC = (1 << 16) | 132
# families whose NLRI decoders are in the Coq model since round 3
MODELLED_R3 = [EVPN, RTC, IPV4_SRP, IPV6_SRP, IPV4_FS, IPV6_FS, IPV4_FSVPN, IPV6_FSVPN, IPV4_MUP, IPV6_MUP, LS]
ALL_MODELLED = MODELLED + MODELLED_R3
# still behind the oracle contract (harness only)
OTHERS = []

def be(n, w):
    return [(n >> (8 * (w - 1 - i))) & 0xff for i in range(w)]

class B:
    """bytes + marks; a mark is (offset, width, scale, kind): the length field at
    `offset` of `width` bytes counts units of `scale`; kind names it."""
    def __init__(self, data=None, marks=None):
        self.d = list(data or [])
        self.m = list(marks or [])
    def __add__(self, o):
        if isinstance(o, list):
            return B(self.d + o, self.m)
        return B(self.d + o.d, self.m + [(off + len(self.d), w, sc, k) for off, w, sc, k in o.m])
    def __radd__(self, o):
        if isinstance(o, list):
            return B(o + self.d, [(off + len(o), w, sc, k) for off, w, sc, k in self.m])
        return NotImplemented
    def __len__(self):
        return len(self.d)

def cat(parts):
    r = B()
    for p in parts:
        r = r + p
    return r

def lenfield(n, w, kind, scale=1):
    return B(be(n & ((1 << (8 * w)) - 1), w), [(0, w, scale, kind)])

# ---------------------------------------------------------------- framing
def frame(ty, body):
    body = body if isinstance(body, B) else B(body)
    return cat([B([0xff] * 16), lenfield(19 + len(body), 2, 'hdr'), B([ty]), body])

def keepalive():
    return frame(4, [])

def notification(code, sub, data=()):
    return frame(3, [code, sub] + list(data))

def refresh(fam, extra=()):
    return frame(5, be(fam >> 16, 2) + [0, fam & 0xff] + list(extra))

# ---------------------------------------------------------------- OPEN
def cap(code, value):
    value = value if isinstance(value, B) else B(value)
    return cat([B([code]), lenfield(len(value), 1, 'cap'), value])

def cap_mp(f, reserved=0): return cap(1, be(f >> 16, 2) + [reserved, f & 0xff])
def cap_rr(): return cap(2, [])
def cap_extnh(l): return cap(5, [b for f, afi in l for b in be(f >> 16, 2) + be(f & 0xffff, 2) + be(afi, 2)])
def cap_extmsg(): return cap(6, [])
def cap_gr(flags, time, fams): return cap(64, be(((flags & 0xf) << 12) | (time & 0xfff), 2) + [b for f, fl in fams for b in be(f >> 16, 2) + [f & 0xff, fl]])
def cap_as4(a): return cap(65, be(a, 4))
def cap_addpath(l): return cap(69, [b for f, m in l for b in be(f >> 16, 2) + [f & 0xff, m]])
def cap_err(): return cap(70, [])
def cap_llgr(l): return cap(71, [b for f, fl, t in l for b in be(f >> 16, 2) + [f & 0xff, fl] + be(t, 3)])
def cap_fqdn(h, d):
    return cap(73, cat([lenfield(len(h), 1, 'fqdn_host'), B(list(h)), lenfield(len(d), 1, 'fqdn_dom'), B(list(d))]))

def opt_param(ty, body):
    body = body if isinstance(body, B) else B(body)
    return cat([B([ty]), lenfield(len(body), 1, 'param'), body])

def open_msg(asn, hold, rid, params, version=4):
    """params: list of B (optional parameters)."""
    ps = cat(params)
    return frame(1, cat([B([version] + be(asn, 2) + be(hold, 2) + be(rid, 4)), lenfield(len(ps), 1, 'optlen'), ps]))

# ---------------------------------------------------------------- NLRI
def prefix(bits, addr):
    n = (bits + 7) // 8
    return B([bits & 0xff] + list(addr)[:n] + [0] * max(0, n - len(addr)))

def label(v, bos, tc=0):
    raw = ((v & 0xfffff) << 4) | ((tc & 7) << 1) | (1 if bos else 0)
    return be(raw, 3)

def labels_bytes(ls, bos_at=None):
    """bos_at: index of the label carrying the bottom-of-stack bit (default last; -1 none)."""
    if bos_at is None:
        bos_at = len(ls) - 1
    out = []
    for i, v in enumerate(ls):
        out += label(v, i == bos_at)
    return out

def labeled(ls, bits, addr, total=None, bos_at=None):
    n = (bits + 7) // 8
    t = 24 * len(ls) + bits if total is None else total
    return B([t & 0xff] + labels_bytes(ls, bos_at) + list(addr)[:n] + [0] * max(0, n - len(addr)))

def vpn(ls, rd, bits, addr, total=None, bos_at=None):
    n = (bits + 7) // 8
    t = 24 * len(ls) + 64 + bits if total is None else total
    return B([t & 0xff] + labels_bytes(ls, bos_at) + list(rd) + list(addr)[:n] + [0] * max(0, n - len(addr)))

def with_path_id(pid, n):
    return B(be(pid, 4)) + n

# ---------------------------------------------------------------- attributes
def attr(flags, code, value, force_ext=None, length=None):
    value = value if isinstance(value, B) else B(value)
    ext = (len(value) > 255) if force_ext is None else force_ext
    n = len(value) if length is None else length
    if ext:
        return cat([B([flags | 0x10, code]), lenfield(n, 2, 'attr'), value])
    return cat([B([flags & ~0x10 & 0xff, code]), lenfield(n, 1, 'attr'), value])

def aspath_value(segs, width=4):
    out = B()
    for t, asns in segs:
        out = out + B([t]) + lenfield(len(asns), 1, 'seg', scale=width) + B([b for a in asns for b in be(a & ((1 << (8 * width)) - 1), width)])
    return out

def mp_reach_value(fam, nh, nlris, reserved=0):
    return cat([B(be(fam >> 16, 2) + [fam & 0xff]), lenfield(len(nh), 1, 'nhlen'), B(list(nh)), B([reserved])] + list(nlris))

def mp_unreach_value(fam, nlris):
    return cat([B(be(fam >> 16, 2) + [fam & 0xff])] + list(nlris))

def update(withdrawn, attrs, nlris):
    w = cat(withdrawn)
    a = cat(attrs)
    return frame(2, cat([lenfield(len(w), 2, 'wlen'), w, lenfield(len(a), 2, 'alen'), a] + list(nlris)))

# ---------------------------------------------------------------- mutation helpers
def set_len(b, mark, value):
    off, w, sc, k = mark
    d = list(b.d)
    d[off:off + w] = be(value & ((1 << (8 * w)) - 1), w)
    return B(d, b.m)

def get_len(b, mark):
    off, w, sc, k = mark
    return int.from_bytes(bytes(b.d[off:off + w]), 'big')

def fix_hdr(b):
    """make the first frame's header length equal to the byte count (when it fits)"""
    d = list(b.d)
    if len(d) >= 19:
        d[16:18] = be(min(len(d), 0xffff), 2)
    return B(d, b.m)


# ---------------------------------------------------------------- EVPN / RTC / SR policy / flowspec NLRI
RD0 = [0, 0, 0xfd, 0xe8, 0, 0, 0, 100]
ESI0 = [0] * 10

def evpn(rt, data, rl=None):
    return B([rt, (len(data) if rl is None else rl) & 0xff] + list(data))

def evpn_t1(rd=RD0, esi=ESI0, etag=0, label=100):
    return list(rd) + list(esi) + be(etag, 4) + be(label, 3)

def evpn_t2(rd=RD0, esi=ESI0, etag=0, mac=(0, 0x11, 0x22, 0x33, 0x44, 0x55), ip=(), label1=100, label2=None, mac_len=48, ip_len=None):
    il = (len(ip) * 8) if ip_len is None else ip_len
    return list(rd) + list(esi) + be(etag, 4) + [mac_len] + list(mac) + [il] + list(ip) + be(label1, 3) + (be(label2, 3) if label2 is not None else [])

def evpn_t3(rd=RD0, etag=0, ip=(192, 0, 2, 1), ip_len=None):
    return list(rd) + be(etag, 4) + [(len(ip) * 8) if ip_len is None else ip_len] + list(ip)

def evpn_t4(rd=RD0, esi=ESI0, ip=(192, 0, 2, 1), ip_len=None):
    return list(rd) + list(esi) + [(len(ip) * 8) if ip_len is None else ip_len] + list(ip)

def evpn_t5(rd=RD0, esi=ESI0, etag=0, plen=24, ip=(10, 0, 0, 0), gw=(0, 0, 0, 0), label=100):
    return list(rd) + list(esi) + be(etag, 4) + [plen] + list(ip) + list(gw) + be(label, 3)

def rtc(bits, data):
    return B([bits] + list(data))

def srp(bits, dist, color, endpoint):
    return B([bits] + be(dist, 4) + be(color, 4) + list(endpoint))

def fs_len(n, force_two=None):
    two = (n >= 240) if force_two is None else force_two
    return [0xf0 | ((n >> 8) & 0x0f), n & 0xff] if two else [n & 0xff]

def fs_op(bits, value, order=None):
    """operator octet (end/and/comparison bits), value in 1/2/4/8 octets"""
    if order is None:
        order = 0 if value <= 0xff else 1 if value <= 0xffff else 2 if value <= 0xffffffff else 3
    return [(bits & 0xcf) | (order << 4)] + be(value & ((1 << (8 * (1 << order))) - 1), 1 << order)

def fs_ops(ty, vals, end=True):
    out = [ty]
    for i, (bits, v) in enumerate(vals):
        last = i == len(vals) - 1
        out += fs_op((bits & 0x7f) | (0x80 if (last and end) else 0), v)
    return out

def fs_prefix4(ty, bits, addr):
    return [ty, bits] + list(addr)[:(bits + 7) // 8]

def fs_prefix6(ty, bits, off, addr):
    return [ty, bits, off] + list(addr)[:(bits + 7) // 8]

def flowspec(comps, rd=None, nlen=None, force_two=None):
    body = (list(rd) if rd is not None else []) + [b for c in comps for b in c]
    return B(fs_len(len(body) if nlen is None else nlen, force_two) + body)


def mup(rt, body, arch=1, blen=None):
    return B([arch] + be(rt, 2) + [(len(body) if blen is None else blen) & 0xff] + list(body))

def mup_isd(plen, prefix, rd=RD0): return list(rd) + [plen] + list(prefix)
def mup_dsd(addr, rd=RD0): return list(rd) + list(addr)
def mup_t1st(plen, prefix, teid, qfi, ea, sa=None, rd=RD0, ea_len=None, sa_len=None):
    out = list(rd) + [plen] + list(prefix) + be(teid, 4) + [qfi] + [(len(ea) * 8) if ea_len is None else ea_len] + list(ea)
    if sa is None: return out + [0 if sa_len is None else sa_len]
    return out + [(len(sa) * 8) if sa_len is None else sa_len] + list(sa)
def mup_t2st(ea_len, ea, teid_octets, rd=RD0): return list(rd) + [ea_len] + list(ea) + list(teid_octets)


def ls_tlv(t, value, length=None):
    return be(t, 2) + be((len(value) if length is None else length) & 0xffff, 2) + list(value)

def ls_node_desc(subtlvs, container=256, length=None):
    body = [b for t in subtlvs for b in t]
    return ls_tlv(container, body, length)

def ls_nlri(ty, body, length=None):
    return B(be(ty, 2) + be((len(body) if length is None else length) & 0xffff, 2) + list(body))

def ls_head(proto=2, ident=0x0102030405060708):
    return [proto] + be(ident, 8)
