"""C16: generators, renderers and Spec oracle for IpNet::contains, PeerCodec::negotiate,
the FSM's effective send-max and negotiate_gr / negotiate_llgr."""
import itertools, json, os
from vp import val, coqrun, rustrun
from vp.val import cN, cbool, clist, cpair
from gen.common import *

IPV4_LU = (1 << 16) | 4
FAMS = [IPV4, IPV6, IPV4_VPN, IPV4_LU]

def bits_of(octets):
    return [(o >> (7 - k)) & 1 for o in octets for k in range(8)]

def net_to_val(n): return [n[0], list(n[1]), n[2]]
def addr_to_val(a): return [a[0], list(a[1])]
def net_to_coq(n): return '(%s %s %s)' % ('Net4' if n[0] == 4 else 'Net6', val.cbytes(n[1]), cN(n[2]))
def addr_to_coq(a): return '(%s %s)' % ('A4' if a[0] == 4 else 'A6', val.cbytes(a[1]))

def tupcap(c):
    c = list(c)
    for k in range(1, len(c)):
        if isinstance(c[k], list):
            c[k] = [tuple(x) if isinstance(x, list) else x for x in c[k]]
    return tuple(c)

class Prop:
    pid = 'C16'
    props_file = 'Props/C16.v'
    required_theorems = ['negotiate_mirror', 'family_in_force_iff_both', 'flags_in_force_iff_both', 'graceful_restart_mirror',
                         'send_max_without_addpath_tx_refuted', 'llgr_mirror_refuted']
    correspondence_name = ('Model/Negotiate.v vs packet/src/bgp.rs IpNet::contains, PeerCodec::negotiate (harness/hx-neg) and '
                           'daemon fsm.rs effective send-max, event/mod.rs negotiate_gr/negotiate_llgr (harness/daemon/event_hx.rs verif_neg_cases)')
    rule = ('cases = (prefix, address) pairs around every mask boundary, IPv4 and IPv6, canonical and with host bits set, valid and oversized masks; '
            'pairs of capability lists over 4 families with add-path modes 0-7, duplicates, unknown capabilities, GR/LLGR lists; '
            'non-trivial = address shares at least mask-1 leading bits with the prefix, or some family is negotiated / GR / LLGR is in force; distinct by full input')
    exhaustive = {'quick': False, 'thorough': False}
    trusted_base = ['PeerCodec.extended_nexthop is a private field and is not observed (modelled, proved mirror-symmetric, not tied to the code)',
                    'accept_connection, PeerParams::build / build_local_cap / apply_peer_group, add_peer and delete-on-disconnect are not modelled (C16 is partial: negotiation and prefix containment only)']
    assumptions = ['capability lists are what the OPEN parser hands to the FSM (any order, duplicates allowed)',
                   'prefix masks above the address width are outside the property (FromStr rejects them); contains panics there']

    # ---- rendering
    def case_to_val(self, c):
        k = c['kind']
        if k == 'net': return [0, net_to_val(c['net']), addr_to_val(c['addr'])]
        if k == 'neg': return [1, caps_to_val(c['l']), caps_to_val(c['r']), list(c['fams'])]
        return [caps_to_val(c['l']), caps_to_val(c['r']), [list(p) for p in c['smax']], list(c['fams'])]

    def case_to_coq(self, c):
        k = c['kind']
        if k == 'net': return 'v_net_case %s %s' % (net_to_coq(c['net']), addr_to_coq(c['addr']))
        fams = clist([cN(f) for f in c['fams']])
        if k == 'neg': return 'run_neg_case %s %s %s' % (caps_to_coq(c['l']), caps_to_coq(c['r']), fams)
        return 'run_sess_case %s %s %s %s' % (caps_to_coq(c['l']), caps_to_coq(c['r']),
                                             clist([cpair(cN(a), cN(b)) for a, b in c['smax']]), fams)

    def case_to_json(self, c):
        return json.loads(json.dumps(c))

    def case_from_json(self, j):
        c = dict(j)
        if c['kind'] == 'net':
            c['net'] = (j['net'][0], list(j['net'][1]), j['net'][2]); c['addr'] = (j['addr'][0], list(j['addr'][1]))
        else:
            c['l'] = [tupcap(x) for x in j['l']]; c['r'] = [tupcap(x) for x in j['r']]
            if 'smax' in c: c['smax'] = [tuple(x) for x in j['smax']]
        return c

    def corpus_cases(self):
        d = os.path.join(os.path.dirname(os.path.dirname(os.path.abspath(__file__))), 'corpus', 'C16')
        res = []
        if os.path.isdir(d):
            for fn in sorted(os.listdir(d)):
                if fn.endswith('.json'):
                    res.append(self.case_from_json(json.load(open(os.path.join(d, fn)))['case']))
        return res

    # ---- generation
    def gen_net(self, rng, fam, mask, canonical):
        w = 4 if fam == 4 else 16
        pre = [rng.choice([0, 255, 10, 18, 128, rng.randrange(256)]) for _ in range(w)]
        if canonical:
            for i in range(min(mask, w * 8), w * 8):
                pre[i // 8] &= ~(1 << (7 - i % 8)) & 0xff
        addr = list(pre)
        how = rng.random()
        if how < 0.35:
            pass
        elif how < 0.75:
            # flip one bit just inside / at / just outside the mask boundary
            cand = [i for i in (mask - 1, mask, mask - 8, mask + 1, mask - 2, 0, w * 8 - 1) if 0 <= i < w * 8]
            i = rng.choice(cand)
            addr[i // 8] ^= 1 << (7 - i % 8)
        elif how < 0.9:
            for i in range(min(mask, w * 8), w * 8):
                if rng.random() < 0.5: addr[i // 8] ^= 1 << (7 - i % 8)
        else:
            addr = [rng.randrange(256) for _ in range(w)]
        afam = fam if rng.random() < 0.95 else (10 - fam)
        if afam != fam:
            addr = [rng.randrange(256) for _ in range(4 if afam == 4 else 16)]
        return dict(kind='net', net=(fam, pre, mask), addr=(afam, addr))

    def gen_caps(self, rng):
        caps = []
        fams = [f for f in FAMS if rng.random() < 0.6]
        for f in fams:
            caps.append(('mp', f))
        if rng.random() < 0.15 and fams: caps.append(('mp', rng.choice(fams)))
        napx = rng.choice([0, 1, 1, 1, 2])
        for _ in range(napx):
            es = [(rng.choice(FAMS), rng.choice([0, 1, 2, 3, 3, 4, 7])) for _ in range(rng.choice([1, 1, 2, 3]))]
            caps.append(('addpath', es))
        if rng.random() < 0.4: caps.append(('extmsg',))
        if rng.random() < 0.6: caps.append(('as4', 65000))
        if rng.random() < 0.3: caps.append(('enh', [(rng.choice([IPV4, IPV4_VPN, IPV6]), rng.choice([1, 2]))]))
        if rng.random() < 0.2: caps.append(('unknown', 99, [1, 2]))
        if rng.random() < 0.2: caps.append(('rr',))
        for _ in range(rng.choice([0, 1, 1, 2]) if rng.random() < 0.7 else 0):
            caps.append(('gr', rng.choice([0, 4, 8, 12]), rng.choice([0, 90, 4095]),
                         [(rng.choice(FAMS), rng.choice([0, 128])) for _ in range(rng.choice([0, 1, 2, 3]))]))
        for _ in range(rng.choice([0, 1, 1, 2]) if rng.random() < 0.6 else 0):
            caps.append(('llgr', [(rng.choice(FAMS), rng.choice([0, 128]), rng.choice([0, 0, 1, 60, 16777215]))
                                  for _ in range(rng.choice([0, 1, 2, 3]))]))
        rng.shuffle(caps)
        return caps

    def gen_cases(self, rng, tier):
        cases = []
        reps = 2 if tier == 'quick' else 12
        for _ in range(reps):
            for mask in list(range(0, 33)) + [33, 40, 255]:
                for canonical in (True, False):
                    cases.append(self.gen_net(rng, 4, mask, canonical))
            for mask in list(range(0, 129)) + [129, 135, 255]:
                for canonical in (True, False):
                    cases.append(self.gen_net(rng, 6, mask, canonical))
        n = 1200 if tier == 'quick' else 12000
        for k in range(n):
            l, r = self.gen_caps(rng), self.gen_caps(rng)
            if k % 2 == 0:
                cases.append(dict(kind='neg', l=l, r=r, fams=sorted(FAMS)))
            else:
                smax = [(f, rng.choice([1, 2, 8])) for f in FAMS if rng.random() < 0.6]
                cases.append(dict(kind='sess', l=l, r=r, smax=smax, fams=sorted(FAMS)))
        return cases

    # ---- running
    def run_impl(self, cases, tier):
        a = [(k, c) for k, c in enumerate(cases) if c['kind'] in ('net', 'neg')]
        b = [(k, c) for k, c in enumerate(cases) if c['kind'] == 'sess']
        out = [None] * len(cases)
        if a:
            res, err = rustrun.crate_bin('C16', 'hx-neg', '', [self.case_to_val(c) for _, c in a])
            if res is None: return None, err
            for (k, _), o in zip(a, res): out[k] = o
        if b:
            res, err = rustrun.daemon_test('C16d', 'event::verif_hx::verif_neg_cases', [self.case_to_val(c) for _, c in b])
            if res is None: return None, err
            for (k, _), o in zip(b, res): out[k] = o
        return out, ''

    def run_model(self, cases, tier):
        pre = 'From RB Require Import Base.Val Model.Caps Model.Fsm Model.Negotiate.\nOpen Scope N_scope.'
        return coqrun.eval_terms('C16', pre, [self.case_to_coq(c) for c in cases])

    def canon(self, case, obs):
        return obs

    # ---- Spec oracle (the property text on the implementation's observations)
    @staticmethod
    def _mode(caps, f):
        """the add-path mode a list advertises for f, or None when it is ambiguous (several different entries)"""
        ms = [m for c in caps if c[0] == 'addpath' for (g, m) in c[1] if g == f]
        if not ms: return 0
        return ms[0] if len(set(ms)) == 1 else None

    def oracle(self, c, obs):
        k = c['kind']
        if obs == [-1] and k != 'net':
            return 'panic'
        if k == 'net':
            fam, pre, mask = c['net']; afam, addr = c['addr']
            w = 32 if fam == 4 else 128
            if mask > w:
                return None          # not a prefix length
            want = afam == fam and bits_of(pre)[:mask] == bits_of(addr)[:mask]
            if obs == [-1]: return 'contains panicked for a valid prefix length %d' % mask
            if obs != [1 if want else 0]:
                return 'contains says %s for an address %s the prefix (mask %d)' % (obs, 'inside' if want else 'outside', mask)
            return None
        mp = lambda caps, f: ('mp', f) in caps
        if k == 'neg':
            fl, xl, tl, fr, xr, tr = obs
            if xl != xr or tl != tr: return 'extended message / AS width differ between the two ends'
            for (f, p, rx, tx), (f2, p2, rx2, tx2) in zip(fl, fr):
                if p != p2: return 'family %d negotiated at one end only' % f
                if p and (rx != tx2 or tx != rx2): return 'family %d: add-path directions are not mirror images' % f
                if bool(p) != (mp(c['l'], f) and mp(c['r'], f)): return 'family %d in force but not advertised by both (or the reverse)' % f
                ml, mr = self._mode(c['l'], f), self._mode(c['r'], f)
                if p and ml is not None and mr is not None:
                    if bool(rx) != bool(ml & 1 and mr & 2) or bool(tx) != bool(ml & 2 and mr & 1):
                        return 'family %d: add-path direction in force differs from what both advertised' % f
            has = lambda caps, t: any(x[0] == t for x in caps)
            if bool(xl) != (has(c['l'], 'extmsg') and has(c['r'], 'extmsg')): return 'extended message in force but not advertised by both'
            if bool(tl) == (has(c['l'], 'as4') and has(c['r'], 'as4')): return '4-octet AS in force but not advertised by both'
            return None
        gl, ll, gr_, lr, em = obs
        def first(caps, t):
            xs = [x for x in caps if x[0] == t]
            return xs[0] if len(xs) == 1 else (None if not xs else 'amb')
        # graceful restart: in force for a family iff both advertised it
        fl = set(gl[0]) if gl else set(); fr = set(gr_[0]) if gr_ else set()
        if fl != fr: return 'graceful restart families differ between the two ends: %s vs %s' % (sorted(fl), sorted(fr))
        a, b = first(c['l'], 'gr'), first(c['r'], 'gr')
        if a != 'amb' and b != 'amb':
            want = set(f for f, _ in a[3]) & set(f for f, _ in b[3]) if a and b else set()
            if fl != want: return 'graceful restart in force for %s, both advertised %s' % (sorted(fl), sorted(want))
        sl = set(f for f, _ in ll[0]) if ll else set(); sr = set(f for f, _ in lr[0]) if lr else set()
        if sl != sr: return 'LLGR families differ between the two ends: %s vs %s' % (sorted(sl), sorted(sr))
        for f, mx, tx in em:
            if mx > 1 and not tx:
                return 'family %d: more than one path will be sent (max %d) although add-path send is not in force' % (f, mx)
        return None

    def in_known_class(self, kf, c, obs, why):
        if c['kind'] != 'sess':
            return False
        if kf['id'] == 'C16-2' and 'more than one path' in why:
            # decidable class of the input: some family with an effective max > 1 whose add-path
            # entries are ambiguous on either side, or which is not advertised by both
            for f, mx, tx in obs[4]:
                if mx > 1 and not tx:
                    amb = self._mode(c['l'], f) is None or self._mode(c['r'], f) is None
                    nomp = not (('mp', f) in c['l'] and ('mp', f) in c['r'])
                    if not (amb or nomp):
                        return False
            return True
        if kf['id'] == 'C16-3' and why.startswith('LLGR families differ'):
            def dup(caps):
                xs = [x for x in caps if x[0] == 'llgr']
                if not xs: return False
                fs = [e[0] for e in xs[0][1]]
                return len(fs) != len(set(fs))
            return dup(c['l']) or dup(c['r'])
        return False

    def nontrivial_key(self, c, obs):
        if c['kind'] == 'net':
            fam, pre, mask = c['net']; afam, addr = c['addr']
            m = max(min(mask, len(pre) * 8) - 1, 0)
            if afam == fam and bits_of(pre)[:m] == bits_of(addr)[:m]:
                return json.dumps([c['net'], c['addr']])
            return None
        if obs == [-1]: return ('panic',)
        if c['kind'] == 'neg' and any(x[1] for x in obs[0]): return json.dumps([c['l'], c['r']])
        if c['kind'] == 'sess' and (obs[0] or obs[1] or any(x[1] > 1 for x in obs[4])): return json.dumps([c['l'], c['r'], c['smax']])
        return None

    def classify(self, c, obs):
        tags = [c['kind']]
        if c['kind'] == 'net':
            tags.append('v%d' % c['net'][0])
            if obs == [1]: tags.append('contained')
            if obs == [-1]: tags.append('contains_panic')
        return tags
