"""C16: generators, renderers and Spec oracle for IpNet::contains, PeerCodec::negotiate,
the FSM's effective send-max and negotiate_gr / negotiate_llgr."""
import itertools, json, os
from vp import val, coqrun, rustrun
from vp.val import cN, cbool, clist, cpair
from gen.common import *
from gen import bgpenc as E

IPV4_LU = (1 << 16) | 4
FAMS = [IPV4, IPV6, IPV4_VPN, IPV4_LU]

def bits_of(octets):
    return [(o >> (7 - k)) & 1 for o in octets for k in range(8)]

def net_to_val(n): return [n[0], list(n[1]), n[2]]
def addr_to_val(a): return [a[0], list(a[1])]
def net_to_coq(n): return '(%s %s %s)' % ('Net4' if n[0] == 4 else 'Net6', val.cbytes(n[1]), cN(n[2]))
def addr_to_coq(a): return '(%s %s)' % ('A4' if a[0] == 4 else 'A6', val.cbytes(a[1]))

def tupcap(c):
    c = list(c)
    for k in range(1, len(c)):
        if isinstance(c[k], list):
            c[k] = [tuple(x) if isinstance(x, list) else x for x in c[k]]
    return tuple(c)


# ---------------------------------------------------------------- admission decision cases
def opt(x): return [] if x is None else [x]
def copt(x, f=cN): return 'None' if x is None else '(Some %s)' % f(x)
def cpairs(l): return clist([cpair(cN(a), cN(b)) for a, b in l])
def crr(rr): return '(Build_rrcfg %s %s)' % (cbool(rr[0]), copt(rr[1]))
def cgr(g): return 'None' if g is None else '(Some (Build_grcfg %s %s %s))' % (cN(g[0]), cbool(g[1]), clist([cN(f) for f in g[2]]))
def cllgr(l): return 'None' if l is None else '(Some %s)' % cpairs(l)
def caddr(a): return addr_to_coq((a[0], a[1]))
def crole(r): return 'RActive' if r == 0 else 'RPassive'

def group_to_val(g):
    return [g['as'], [net_to_val(n) for n in g['prefixes']], int(g['rs']), opt(g['hold']), g['local_asn'], int(g['passive']),
            [int(g['rr'][0]), opt(g['rr'][1])], opt(g['multihop']), opt(g['ttlsec']), [list(x) for x in g['families']],
            [list(x) for x in g['send_max']], [] if g['gr'] is None else [[g['gr'][0], int(g['gr'][1]), list(g['gr'][2])]],
            [] if g['llgr'] is None else [[list(x) for x in g['llgr']]]]

def group_to_coq(g):
    return '(Build_group %s %s %s %s %s %s %s %s %s %s %s %s %s)' % (
        cN(g['as']), clist([net_to_coq(n) for n in g['prefixes']]), cbool(g['rs']), copt(g['hold']), cN(g['local_asn']),
        cbool(g['passive']), crr(g['rr']), copt(g['multihop']), copt(g['ttlsec']), cpairs(g['families']), cpairs(g['send_max']),
        cgr(g['gr']), cllgr(g['llgr']))

def params_to_val(p):
    return [p['expected'], p['local_asn'], int(p['passive']), int(p['rs']), [int(p['rr'][0]), opt(p['rr'][1])], int(p['delete']),
            int(p['admin_down']), p['hold'], opt(p['multihop']), opt(p['ttlsec']), [list(x) for x in p['families']],
            [list(x) for x in p['send_max']], [list(x) for x in p['prefix_limits']],
            [] if p['gr'] is None else [[p['gr'][0], int(p['gr'][1]), list(p['gr'][2])]],
            [] if p['llgr'] is None else [[list(x) for x in p['llgr']]]]

def params_to_coq(p):
    return '(Build_params %s %s %s %s %s %s %s %s %s %s %s %s %s %s %s)' % (
        cN(p['expected']), cN(p['local_asn']), cbool(p['passive']), cbool(p['rs']), crr(p['rr']), cbool(p['delete']),
        cbool(p['admin_down']), cN(p['hold']), copt(p['multihop']), copt(p['ttlsec']), cpairs(p['families']), cpairs(p['send_max']),
        cpairs(p['prefix_limits']), cgr(p['gr']), cllgr(p['llgr']))

def op_to_val(o):
    if o[0] == 'update':
        u = o[2]
        return [7, addr_to_val(o[1]), [u['asn'], u['local_asn'], u['hold'], int(u['passive']), int(u['rs']), int(u['rrc']), opt(u['cluster'])]]
    if o[0] == 'discrace':
        return [8, addr_to_val(o[1]), int(o[2]), int(o[3])]
    return [{'connect': 0, 'disconnect': 1, 'admin': 2, 'disable': 3, 'enable': 4, 'delete': 5, 'delrace': 6, 'reset': 9}[o[0]], addr_to_val(o[1]), int(o[2])]

def op_to_coq(o):
    if o[0] == 'connect': return '(OConnect %s %s)' % (caddr(o[1]), crole(o[2]))
    if o[0] in ('disconnect', 'reset'): return '(ODisconnect %s %s)' % (caddr(o[1]), crole(o[2]))     # reset: see the harness, op 9
    if o[0] == 'disable': return '(ODisable %s)' % caddr(o[1])
    if o[0] == 'enable': return '(OEnable %s)' % caddr(o[1])
    if o[0] == 'delete': return '(ODelete %s)' % caddr(o[1])
    if o[0] == 'delrace': return '(ODeleteReconnect %s %s)' % (caddr(o[1]), crole(o[2]))
    if o[0] == 'discrace': return '(ODisconnectRace %s %s %s)' % (caddr(o[1]), crole(o[2]), crole(o[3]))
    if o[0] == 'update':
        u = o[2]
        return '(OUpdate %s (Build_upd %s %s %s %s %s %s %s))' % (caddr(o[1]), cN(u['asn']), cN(u['local_asn']), cN(u['hold']),
                                                                 cbool(u['passive']), cbool(u['rs']), cbool(u['rrc']), copt(u['cluster']))
    return '(OAdmin %s %s)' % (caddr(o[1]), cbool(o[2]))

def acc_to_val(c):
    return [c['asn'], c['rid'], [] if c['confed'] is None else [[c['confed'][0], list(c['confed'][1])]], int(c['restarting']),
            [group_to_val(g) for g in c['groups']],
            [[addr_to_val(st['addr']), params_to_val(st['params']), opt(st['group'])] for st in c['statics']],
            [op_to_val(o) for o in c['ops']]]

def acc_to_coq(c, order):
    confed = 'None' if c['confed'] is None else '(Some (%s, %s))' % (cN(c['confed'][0]), clist([cN(m) for m in c['confed'][1]]))
    statics = clist(['(%s, %s, %s)' % (caddr(st['addr']), params_to_coq(st['params']),
                                       'None' if st['group'] is None else '(Some %d%%nat)' % st['group']) for st in c['statics']])
    return 'run_accept_case %s %s %s %s %s %s %s %s' % (
        cN(c['asn']), cN(c['rid']), confed, cbool(c['restarting']), clist([group_to_coq(g) for g in c['groups']]),
        clist(['%d%%nat' % k for k in order]), statics, clist([op_to_coq(o) for o in c['ops']]))

def sort_caps(caps):
    """capability lists modulo the iteration order of the `families` hash map"""
    out = []
    for c in caps:
        c = list(c)
        if c[0] in (69, 5): c[1] = sorted(c[1])
        out.append(c)
    return sorted(out, key=lambda x: json.dumps(x))

def canon_peer_row(r):
    r = list(r)[:15]; r[6] = sort_caps(r[6]); r[10] = sorted(r[10]); r[11] = sorted(r[11]); return r      # r[15]: FSM view, oracle only

def canon_session(sv):
    sv = list(sv); sv[3] = sort_caps(sv[3]); sv[5] = sorted(sv[5]); return sv

def canon_acc(obs):
    if obs == [-1]: return obs
    if obs and obs[0] and obs[0][0] == -7: obs = obs[1:]
    out = [sorted([canon_peer_row(r) for r in obs[0]], key=lambda r: r[0])]
    for res, rows in obs[1:]:
        out.append([[canon_session(x) for x in res[:1]], sorted([canon_peer_row(r) for r in rows], key=lambda r: r[0])])     # res[1]: the OPEN on the wire, oracle only
    return out

class Prop:
    pid = 'C16'
    props_file = 'Props/C16.v'
    extra_targets = ['Model/OpenSession.vo']   # composition used by the wire_* cases, not a dependency of Props/C16.v
    required_theorems = ['negotiate_mirror', 'family_in_force_iff_both', 'flags_in_force_iff_both', 'graceful_restart_mirror', 'send_max_iff_addpath_tx', 'llgr_mirror', 'contains_eq_bit_prefix', 'contains_beyond_width', 'send_max_any_filter_refuted', 'llgr_all_entries_refuted', 'accept_iff_permitted', 'accept_only_if_text', 'session_fields_from_config', 'dynamic_peer_removed', 'dynamic_peers_have_connections', 'peer_group_inheritance', 'local_cap_from_config', 'admission_independent_of_group_order', 'overlapping_groups_order_dependent', 'stale_task_removes_live_dynamic_peer_refuted', 'update_keeps_dynamic', 'live_connection_keeps_record', 'stale_no_sessions_refuted', 'update_clearing_delete_refuted', 'update_local_asn_as_configured']
    correspondence_name = ('Model/Negotiate.v vs packet/src/bgp.rs IpNet::contains, PeerCodec::negotiate (harness/hx-neg) and '
                           'daemon fsm.rs effective send-max, event/mod.rs negotiate_gr/negotiate_llgr (harness/daemon/event_hx.rs verif_neg_cases); '
                           'Model/Accept.v vs event/mod.rs accept_connection, Global::add_peer, PeerSession::run bookkeeping and event/peer.rs '
                           'PeerParams::{apply_peer_group, build, build_local_cap} (harness/daemon/event_accept_hx.rs verif_accept_cases, real loopback connections)')
    rule = ('cases = (prefix, address) pairs around every mask boundary, IPv4 and IPv6, canonical and with host bits set, valid and oversized masks; '
            'pairs of capability lists over 4 families with add-path modes 0-7, duplicates, unknown capabilities, GR/LLGR lists; '
            'non-trivial = address shares at least mask-1 leading bits with the prefix, or some family is negotiated / GR / LLGR is in force; distinct by full input')
    exhaustive = {'quick': False, 'thorough': False}
    trusted_base = ['PeerCodec.extended_nexthop is a private field and is not observed (modelled, not tied to the code)',
                    'admission: the iteration order of Global.peer_group is reported by the harness and given to the model as an input (theorems hold for every order); '
                    'capability lists are compared modulo the iteration order of the families hash map; the admin flag is also written directly (op admin) next to the '
                    'gRPC methods disable_peer / enable_peer / delete_peer / update_peer / reset_peer (hard), which are driven; GTSM min-TTL, MD5, BFD registration, '
                    'export-policy resolution and active connects are not modelled; PeerSession::run is driven to the OPEN it sends and to its end-of-connection bookkeeping '
                    '(the harness peer never answers the OPEN)',
                    'oracle-only observations (not produced by the model, stripped before the comparison): the OPEN read from the wire on every admitted connection, '
                    'the PeerFsm state of both directions and the capability list held by the PeerFsm of every neighbour; a hard ResetPeer is the model operation '
                    '"the connection ends" (the API is called when it is the neighbour\'s only connection, otherwise the client closes that connection)']
    assumptions = ['capability lists are what the OPEN parser hands to the FSM (any order, duplicates allowed)',
                   'prefix masks above the address width are outside the property (FromStr rejects them); contains panics there']

    # ---- rendering
    def case_to_val(self, c):
        k = c['kind']
        if k == 'acc': return acc_to_val(c)
        if k == 'open': return [c['lid'], caps_to_val(c['l']), c['lhold'], c['exp'], list(c['frame']), list(c['fams'])]
        if k == 'net': return [0, net_to_val(c['net']), addr_to_val(c['addr'])]
        if k == 'neg': return [1, caps_to_val(c['l']), caps_to_val(c['r']), list(c['fams'])]
        return [caps_to_val(c['l']), caps_to_val(c['r']), [list(p) for p in c['smax']], list(c['fams'])]

    def case_to_coq(self, c, order=None):
        k = c['kind']
        if k == 'acc': return acc_to_coq(c, order if order is not None else list(range(len(c['groups']))))
        if k == 'open':
            return 'run_open_case %s %s %s %s %s %s' % (cN(c['lid']), caps_to_coq(c['l']), cN(c['lhold']), cN(c['exp']),
                                                       val.cbytes(c['frame']), clist([cN(f) for f in c['fams']]))
        if k == 'net': return 'v_net_case %s %s' % (net_to_coq(c['net']), addr_to_coq(c['addr']))
        fams = clist([cN(f) for f in c['fams']])
        if k == 'neg': return 'run_neg_case %s %s %s' % (caps_to_coq(c['l']), caps_to_coq(c['r']), fams)
        return 'run_sess_case %s %s %s %s' % (caps_to_coq(c['l']), caps_to_coq(c['r']),
                                             clist([cpair(cN(a), cN(b)) for a, b in c['smax']]), fams)

    def case_to_json(self, c):
        return json.loads(json.dumps(c))

    def case_from_json(self, j):
        c = dict(j)
        if c['kind'] == 'acc':
            return json.loads(json.dumps(j))
        if c['kind'] == 'open':
            c['l'] = [tupcap(x) for x in j['l']]
            return c
        if c['kind'] == 'net':
            c['net'] = (j['net'][0], list(j['net'][1]), j['net'][2]); c['addr'] = (j['addr'][0], list(j['addr'][1]))
        else:
            c['l'] = [tupcap(x) for x in j['l']]; c['r'] = [tupcap(x) for x in j['r']]
            if 'smax' in c: c['smax'] = [tuple(x) for x in j['smax']]
        return c

    def corpus_cases(self):
        d = os.path.join(os.path.dirname(os.path.dirname(os.path.abspath(__file__))), 'corpus', 'C16')
        res = []
        if os.path.isdir(d):
            for fn in sorted(os.listdir(d)):
                if fn.endswith('.json'):
                    res.append(self.case_from_json(json.load(open(os.path.join(d, fn)))['case']))
        return res

    # ---- generation
    def gen_net(self, rng, fam, mask, canonical):
        w = 4 if fam == 4 else 16
        pre = [rng.choice([0, 255, 10, 18, 128, rng.randrange(256)]) for _ in range(w)]
        if canonical:
            for i in range(min(mask, w * 8), w * 8):
                pre[i // 8] &= ~(1 << (7 - i % 8)) & 0xff
        addr = list(pre)
        how = rng.random()
        if how < 0.35:
            pass
        elif how < 0.75:
            # flip one bit just inside / at / just outside the mask boundary
            cand = [i for i in (mask - 1, mask, mask - 8, mask + 1, mask - 2, 0, w * 8 - 1) if 0 <= i < w * 8]
            i = rng.choice(cand)
            addr[i // 8] ^= 1 << (7 - i % 8)
        elif how < 0.9:
            for i in range(min(mask, w * 8), w * 8):
                if rng.random() < 0.5: addr[i // 8] ^= 1 << (7 - i % 8)
        else:
            addr = [rng.randrange(256) for _ in range(w)]
        afam = fam if rng.random() < 0.95 else (10 - fam)
        if afam != fam:
            addr = [rng.randrange(256) for _ in range(4 if afam == 4 else 16)]
        return dict(kind='net', net=(fam, pre, mask), addr=(afam, addr))

    def gen_caps(self, rng):
        caps = []
        fams = [f for f in FAMS if rng.random() < 0.6]
        for f in fams:
            caps.append(('mp', f))
        if rng.random() < 0.15 and fams: caps.append(('mp', rng.choice(fams)))
        napx = rng.choice([0, 1, 1, 1, 2])
        for _ in range(napx):
            es = [(rng.choice(FAMS), rng.choice([0, 1, 2, 3, 3, 4, 7])) for _ in range(rng.choice([1, 1, 2, 3]))]
            caps.append(('addpath', es))
        if rng.random() < 0.4: caps.append(('extmsg',))
        if rng.random() < 0.6: caps.append(('as4', 65000))
        if rng.random() < 0.3: caps.append(('enh', [(rng.choice([IPV4, IPV4_VPN, IPV6]), rng.choice([1, 2]))]))
        if rng.random() < 0.2: caps.append(('unknown', 99, [1, 2]))
        if rng.random() < 0.2: caps.append(('rr',))
        for _ in range(rng.choice([0, 1, 1, 2]) if rng.random() < 0.7 else 0):
            caps.append(('gr', rng.choice([0, 4, 8, 12]), rng.choice([0, 90, 4095]),
                         [(rng.choice(FAMS), rng.choice([0, 128])) for _ in range(rng.choice([0, 1, 2, 3]))]))
        for _ in range(rng.choice([0, 1, 1, 2]) if rng.random() < 0.6 else 0):
            caps.append(('llgr', [(rng.choice(FAMS), rng.choice([0, 128]), rng.choice([0, 0, 1, 60, 16777215]))
                                  for _ in range(rng.choice([0, 1, 2, 3]))]))
        rng.shuffle(caps)
        return caps

    # ---- admission decision: configurations and operation sequences
    ADDRS = [(4, [127, 0, 0, 2]), (4, [127, 0, 1, 5]), (4, [127, 0, 18, 5]), (4, [127, 1, 2, 3]), (4, [127, 64, 0, 1]),
             (6, [0] * 15 + [1])]
    NETS = [(4, [127, 0, 0, 0], 16), (4, [127, 0, 16, 0], 20), (4, [127, 0, 18, 0], 20), (4, [127, 0, 1, 5], 32),
            (4, [127, 0, 0, 0], 8), (4, [0, 0, 0, 0], 0), (4, [127, 1, 0, 0], 15), (4, [127, 0, 1, 4], 31),
            (4, [127, 64, 0, 0], 10), (4, [126, 0, 0, 0], 7), (4, [10, 0, 0, 0], 8),
            (6, [0] * 16, 0), (6, [0] * 15 + [1], 128), (6, [0] * 15 + [3], 127), (6, [0x20, 1] + [0] * 14, 32)]
    FAMSETS = [[], [(IPV4, 0)], [(IPV4, 3), (IPV6, 1)], [(IPV4_VPN, 2), (IPV4, 0)], [(IPV6, 0)], [(IPV4, 1), (IPV4_LU, 3)]]

    def gen_common(self, rng):
        fams = rng.choice(self.FAMSETS)
        return dict(
            rr=(rng.random() < 0.3, rng.choice([None, None, 0x0a000001])),
            multihop=rng.choice([None, None, 5]), ttlsec=rng.choice([None, None, None, 10]),
            families=fams, send_max=[(f, rng.choice([1, 4])) for f, m in fams if m & 2 and rng.random() < 0.8],
            gr=rng.choice([None, None, (120, True, [f for f, _ in fams] or [IPV4]), (90, False, [IPV4])]),
            llgr=rng.choice([None, None, [(IPV4, 60)]]))

    def gen_acc(self, rng):
        confed = rng.choice([None, None, (65100, [65001, 65002])])
        groups = []
        for _ in range(rng.choice([0, 1, 2, 2, 3, 4])):
            g = self.gen_common(rng)
            g.update({'as': rng.choice([0, 65000, 65001, 65009]), 'local_asn': rng.choice([0, 0, 65000, 64999]),
                      'prefixes': [rng.choice(self.NETS) for _ in range(rng.choice([0, 1, 1, 2, 3]))],
                      'rs': rng.random() < 0.2, 'hold': rng.choice([None, 30, 90]), 'passive': rng.random() < 0.5})
            groups.append(g)
        statics = []
        for a in rng.sample(self.ADDRS, rng.choice([0, 1, 2, 3])):
            p = self.gen_common(rng)
            p.update({'expected': rng.choice([0, 65000, 65001, 65009]), 'local_asn': rng.choice([0, 0, 65000, 64999]),
                      'passive': rng.random() < 0.7, 'rs': rng.random() < 0.2, 'delete': rng.random() < 0.1,
                      'admin_down': rng.random() < 0.2, 'hold': rng.choice([180, 180, 30, 3]),
                      'prefix_limits': rng.choice([[], [(IPV4, 100)], [(IPV4, 5), (IPV6, 7)]])})
            statics.append(dict(addr=a, params=p, group=(rng.randrange(len(groups)) if groups and rng.random() < 0.5 else None)))
        if statics and rng.random() < 0.1:
            statics.append(dict(statics[0]))      # add_peer of an existing address
        ops = []
        for _ in range(rng.randint(2, 10)):
            x = rng.random()
            a = rng.choice(self.ADDRS)
            if x < 0.6: ops.append(('connect', a, rng.choice([0, 1, 1])))
            elif x < 0.85:
                prev = [o for o in ops if o[0] == 'connect']
                o = rng.choice(prev) if prev and rng.random() < 0.8 else ('connect', a, rng.choice([0, 1]))
                ops.append(('disconnect', o[1], o[2]))
            elif x < 0.89: ops.append(('admin', a, rng.random() < 0.6))
            elif x < 0.94: ops.append(('disable', a, 0))
            elif x < 0.97: ops.append(('enable', a, 0))
            elif x < 0.975: ops.append(('update', a, dict(asn=rng.choice([65001, 65000, 65009]), local_asn=rng.choice([0, 0, 64999]),
                                                          hold=rng.choice([0, 0, 30]), passive=rng.random() < 0.7, rs=rng.random() < 0.2,
                                                          rrc=rng.random() < 0.2, cluster=rng.choice([None, 0x0a000001]))))
            elif x < 0.985 or a[0] == 6: ops.append(('delete', a, 0))
            elif x < 0.993: ops.append(('discrace', a, rng.choice([0, 1]), rng.choice([0, 1])))
            else: ops.append(('delrace', a, rng.choice([0, 1])))
        return dict(kind='acc', asn=65000, rid=0x01000001, confed=confed, restarting=rng.random() < 0.15,
                    groups=groups, statics=statics, ops=[list(o) for o in ops])

    # ---- enumerated classes (every run)
    def enum_neg(self):
        """capability x {absent, present, duplicate} on either side; every add-path mode pair; orderings; GR / LLGR"""
        out = []
        F = IPV4
        def both(cls, l, r, smax=((IPV4, 8),)):
            out.append(dict(kind='neg', l=list(l), r=list(r), fams=sorted(FAMS), cls=cls))
            out.append(dict(kind='sess', l=list(l), r=list(r), smax=[list(x) for x in smax], fams=sorted(FAMS), cls=cls))
        kinds = {
            'mp_v6': ('mp', IPV6), 'mp_vpn': ('mp', IPV4_VPN), 'mp_lu': ('mp', IPV4_LU), 'extmsg': ('extmsg',),
            'as4_2octet': ('as4', 65000), 'as4_4octet': ('as4', 70000), 'as4_trans': ('as4', 23456),
            'enh': ('enh', [(IPV4, 2)]), 'enh_wrong_afi': ('enh', [(IPV4, 1)]), 'enh_v6_family': ('enh', [(IPV6, 2)]),
            'rr': ('rr',), 'err': ('err',), 'unknown': ('unknown', 99, [1, 2]), 'fqdn': ('fqdn', [104], [100]),
            'gr': ('gr', 4, 90, [(F, 128)]), 'llgr': ('llgr', [(F, 128, 60)]), 'addpath': ('addpath', [(F, 3)]),
        }
        variants = {'absent': lambda c: [], 'present': lambda c: [c], 'duplicate': lambda c: [c, c]}
        base = [('mp', F)]
        for name, cap in kinds.items():
            for ln, lv in variants.items():
                for rn, rv in variants.items():
                    both('cap_%s_%s_%s' % (name, ln, rn), base + lv(cap), base + rv(cap))
        # the family itself: absent / present / duplicate on either side, with add-path entries present regardless
        for ln, lv in variants.items():
            for rn, rv in variants.items():
                both('cap_mp_v4_%s_%s' % (ln, rn), lv(('mp', F)) + [('addpath', [(F, 3)])], rv(('mp', F)) + [('addpath', [(F, 3)])])
        # every pair of add-path modes (0-3 and the invalid 4, 7), send-max 1 and 8
        for lm in (0, 1, 2, 3, 4, 7):
            for rm in (0, 1, 2, 3, 4, 7):
                for sm in (1, 8):
                    both('addpath_mode_%d_%d' % (lm, rm), base + [('addpath', [(F, lm)])], base + [('addpath', [(F, rm)])], smax=((F, sm),))
        # several entries for one family: in one capability, in two, in either order (the last one counts)
        for a in (0, 1, 2, 3):
            for b in (0, 1, 2, 3):
                both('addpath_two_entries', base + [('addpath', [(F, a), (F, b)])], base + [('addpath', [(F, 3)])])
                both('addpath_two_caps', base + [('addpath', [(F, a)]), ('addpath', [(F, b)])], base + [('addpath', [(F, 3)])])
                both('addpath_two_caps_remote', base + [('addpath', [(F, 3)])], [('addpath', [(F, a)]), ('mp', F), ('addpath', [(F, b)])])
        # orderings inside the OPEN: ADD-PATH before MultiProtocol etc.
        four = [('mp', F), ('addpath', [(F, 3)]), ('as4', 65000), ('extmsg',)]
        fixed = list(four)
        for perm in itertools.permutations(four):
            both('order_local', perm, fixed)
            both('order_remote', fixed, perm)
        # graceful restart: flags, family lists, several capabilities (the first counts)
        grl = [[], [(F, 0)], [(F, 128), (IPV6, 0)], [(IPV6, 0)], [(F, 0), (F, 128)]]
        for lf in grl:
            for rf in grl:
                for lfl, rfl in ((0, 0), (4, 4), (4, 0), (12, 4), (8, 12)):
                    both('gr_matrix', base + [('mp', IPV6), ('gr', lfl, 120, lf)], base + [('mp', IPV6), ('gr', rfl, 90, rf)])
        both('gr_two_caps', base + [('gr', 0, 120, [(IPV6, 0)]), ('gr', 0, 120, [(F, 0)])], base + [('gr', 0, 90, [(F, 0)])])
        both('gr_two_caps', base + [('gr', 0, 120, [(F, 0)])], base + [('gr', 0, 90, [(IPV6, 0)]), ('gr', 0, 90, [(F, 0)])])
        both('gr_time_bounds', base + [('gr', 0, 0, [(F, 0)])], base + [('gr', 0, 4095, [(F, 0)])])
        # LLGR: stale times 0 / 1 / 60 / 2^24-1 on either side, repeated families, several capabilities
        times = (0, 1, 60, 16777215)
        for lt in times:
            for rt in times:
                both('llgr_times', base + [('llgr', [(F, 0, lt)])], base + [('llgr', [(F, 128, rt)])])
        for a in (0, 60):
            for b in (0, 60):
                both('llgr_repeated_family', base + [('llgr', [(F, 0, a), (F, 0, b)])], base + [('llgr', [(F, 0, 0)])])
                both('llgr_repeated_family', base + [('llgr', [(F, 0, 0)])], base + [('llgr', [(F, 0, a), (F, 0, b)])])
                both('llgr_two_caps', base + [('llgr', [(F, 0, a)]), ('llgr', [(F, 0, b)])], base + [('llgr', [(F, 0, 0), (IPV6, 0, 60)])])
        return out

    def enum_acc(self):
        out = []
        com = dict(rr=[False, None], multihop=None, ttlsec=None, families=[], send_max=[], gr=None, llgr=None)
        def P(**kw):
            p = dict(com); p.update(expected=65001, local_asn=0, passive=True, rs=False, delete=False, admin_down=False, hold=180, prefix_limits=[])
            p.update(kw); return p
        def G(**kw):
            g = dict(com); g.update({'as': 65001, 'local_asn': 0, 'prefixes': [], 'rs': False, 'hold': None, 'passive': True})
            g.update(kw); return g
        def case(cls, groups, statics, ops, confed=None, restarting=False):
            out.append(json.loads(json.dumps(dict(kind='acc', asn=65000, rid=0x01000001, confed=confed, restarting=restarting,
                                                  groups=groups, statics=statics, ops=[list(o) for o in ops], cls=cls))))
        a1, a2 = self.ADDRS[0], self.ADDRS[2]
        # admin-down x direction x existing connection (configured neighbour), and the same for a dynamic one
        for down in (False, True):
            for role in (0, 1):
                for pre in ([], [('connect', a1, role)], [('connect', a1, 1 - role)], [('connect', a1, 0), ('connect', a1, 1)]):
                    case('admin_x_role', [], [dict(addr=a1, params=P(admin_down=down), group=None)], pre + [('connect', a1, role), ('connect', a1, 1 - role)])
                    case('admin_x_role_toggle', [], [dict(addr=a1, params=P(), group=None)],
                         pre + [('admin', a1, down), ('connect', a1, role), ('admin', a1, not down), ('connect', a1, role)])
                    case('admin_x_role_dynamic', [G(prefixes=[(4, [127, 0, 0, 0], 8)])], [], pre + [('admin', a1, down), ('connect', a1, role), ('connect', a1, 1 - role)])
                    case('disable_enable', [G(prefixes=[(4, [127, 0, 0, 0], 8)])], [dict(addr=a2, params=P(), group=None)],
                         pre + [('connect', a2, role), ('disable', a2 if down else a1, 0), ('connect', a2, role), ('connect', a1, role),
                                ('enable', a2, 0), ('connect', a2, role)])
        # every prefix against every address, both directions
        for n in self.NETS:
            for a in self.ADDRS:
                for role in (0, 1):
                    case('prefix_x_address', [G(prefixes=[n])], [], [('connect', a, role), ('disconnect', a, role), ('connect', a, role)])
        # role derivation: peer AS x local AS x route-server x route-reflector x confederation
        for expected in (0, 65000, 65001, 65009, 64999):
            for la in (0, 65000, 64999):
                for rs in (False, True):
                    for rr in ([False, None], [True, None], [True, 0x0a000001], [False, 0x0a000001]):
                        for confed in (None, [65100, [65001, 65002]], [65100, [65000, 65001]]):
                            case('role_matrix', [], [dict(addr=a1, params=P(expected=expected, local_asn=la, rs=rs, rr=rr), group=None)],
                                 [('connect', a1, 1)], confed=confed)
                            case('role_matrix_dynamic', [G(**{'as': expected, 'local_asn': la, 'rs': rs, 'rr': rr, 'prefixes': [(4, [127, 0, 0, 0], 8)]})],
                                 [], [('connect', a1, 1)], confed=confed)
        # TTL: multihop x GTSM x internal / external
        for mh in (None, 5, 255):
            for ts in (None, 1, 10):
                for expected in (65000, 65001):
                    case('ttl_matrix', [], [dict(addr=a1, params=P(expected=expected, multihop=mh, ttlsec=ts), group=None)], [('connect', a1, 1)])
                    case('ttl_matrix_dynamic', [G(**{'as': expected, 'multihop': mh, 'ttlsec': ts, 'prefixes': [(4, [127, 0, 0, 0], 8)]})], [], [('connect', a1, 0)])
        # peer-group inheritance, field by field: the neighbour sets it or not, the group sets it or not
        fam1, fam2 = [[IPV4, 3]], [[IPV6, 1], [IPV4_VPN, 0]]
        fields = [('expected', 'as', 0, 65001, 65009), ('local_asn', 'local_asn', 0, 64999, 64998), ('hold', 'hold', 180, 30, 90),
                  ('multihop', 'multihop', None, 5, 7), ('ttlsec', 'ttlsec', None, 1, 10), ('families', 'families', [], fam1, fam2),
                  ('gr', 'gr', None, [120, True, [IPV4]], [90, False, [IPV6]]), ('llgr', 'llgr', None, [[IPV4, 60]], [[IPV6, 1]]),
                  ('passive', 'passive', False, True, True), ('rs', 'rs', False, True, True),
                  ('rr', 'rr', [False, None], [True, 0x0a000001], [True, None])]
        for pf, gf, unset, v1, v2 in fields:
            for pv in (unset, v1):
                for gv in ((None if gf == 'hold' else unset), v2):
                    p = P(**{pf: pv}); g = G(**{gf: gv})
                    if pf == 'families':
                        p['send_max'] = [[IPV4, 4]] if pv else []; g['send_max'] = [[IPV6, 2]] if gv else []
                    case('inherit_%s' % pf, [g], [dict(addr=a1, params=p, group=0)], [('connect', a1, 1)])
        # hold times a group / neighbour can carry, including the ones that cannot be advertised
        for h in (0, 1, 2, 3, 180, 65535, 65536):
            case('hold_values', [G(hold=h, prefixes=[(4, [127, 0, 0, 0], 8)])], [dict(addr=a2, params=P(hold=h), group=None)],
                 [('connect', a1, 1), ('connect', a2, 1)])
        # a dynamic neighbour's life: both directions, last connection, disable, delete, delete + reconnect
        g = [G(prefixes=[(4, [127, 0, 0, 0], 16)])]
        case('dynamic_lifecycle', g, [], [('connect', a1, 0), ('connect', a1, 1), ('disconnect', a1, 0), ('connect', a1, 1), ('disconnect', a1, 1), ('connect', a1, 1)])
        case('dynamic_lifecycle', g, [], [('connect', a1, 1), ('disable', a1, 0), ('connect', a1, 1), ('connect', a1, 0)])
        case('dynamic_lifecycle', g, [], [('connect', a1, 1), ('admin', a1, True), ('connect', a1, 0), ('disconnect', a1, 1), ('connect', a1, 1)])
        case('dynamic_lifecycle', g, [], [('connect', a1, 1), ('delete', a1, 0), ('connect', a1, 1)])
        case('dynamic_lifecycle', g, [dict(addr=a1, params=P(), group=None)], [('connect', a1, 1), ('delrace', a1, 1), ('disconnect', a1, 1)])
        case('dynamic_lifecycle', g, [dict(addr=a1, params=P(), group=None)], [('connect', a1, 0), ('connect', a1, 1), ('delrace', a1, 0), ('connect', a1, 0)])
        # UpdatePeer / DisablePeer / EnablePeer / DeletePeer on dynamic and configured neighbours in every session state,
        # then the remaining connections end one by one (a dynamic neighbour must go with the last one, a configured one stay)
        same = dict(asn=65001, local_asn=0, hold=0, passive=True, rs=False, rrc=False, cluster=None)
        upds = {'update_same': same, 'update_hold': dict(same, hold=30), 'update_asn': dict(same, asn=65009),
                'update_local_asn': dict(same, local_asn=64999), 'update_passive': dict(same, passive=False),
                'update_cluster': dict(same, cluster=0x0a000001), 'update_rs_mismatch': dict(same, rs=True),
                'update_rr_mismatch': dict(same, rrc=True)}
        states = {'idle': [], 'active': [('connect', a1, 0)], 'passive': [('connect', a1, 1)],
                  'both': [('connect', a1, 0), ('connect', a1, 1)]}
        tail = [('connect', a1, 1), ('connect', a1, 0), ('disconnect', a1, 1), ('disconnect', a1, 0), ('connect', a1, 1)]
        for nkind in ('dynamic', 'static'):
            groups = [G(prefixes=[(4, [127, 0, 0, 0], 16)])] if nkind == 'dynamic' else []
            statics = [] if nkind == 'dynamic' else [dict(addr=a1, params=P(), group=None)]
            for sname, pre in states.items():
                for uname, u in upds.items():
                    case('%s_%s_%s' % (uname, nkind, sname), groups, statics, pre + [('update', a1, u)] + tail)
                case('disable_%s_%s' % (nkind, sname), groups, statics, pre + [('disable', a1, 0)] + tail + [('enable', a1, 0)] + tail)
                case('enable_%s_%s' % (nkind, sname), groups, statics, pre + [('enable', a1, 0)] + tail)
                case('disable_enable_%s_%s' % (nkind, sname), groups, statics, pre + [('disable', a1, 0), ('enable', a1, 0)] + tail)
                case('delete_%s_%s' % (nkind, sname), groups, statics, pre + [('delete', a1, 0)] + tail)
                # hard ResetPeer (the API's own teardown path), then new attempts in both directions, twice over
                for d in (0, 1):
                    case('hard_reset_%s_%s' % (nkind, sname), groups, statics, pre + [('reset', a1, d)] + tail + [('reset', a1, 1), ('reset', a1, 0)] + tail)
                # a connection ends while another one of the same neighbour is being admitted
                for old in (0, 1):
                    for new in (0, 1):
                        case('disconnect_race_%s_%s' % (nkind, sname), groups, statics,
                             pre + [('discrace', a1, old, new), ('disconnect', a1, new), ('disconnect', a1, 1 - new), ('connect', a1, 1)])
        # UpdatePeer that changes nothing but the address families (a neighbour configured with two or three families is
        # updated by a request that names none: back to the address family alone), in every session state; whether the FSM
        # that sends the next OPEN holds the new list is read from the FSM itself (oracle-only observation)
        for extra in ([IPV6], [IPV4_VPN], [IPV4_LU], [IPV6, IPV4_VPN], [IPV4_LU, IPV6, IPV4_VPN]):
            fams = [(IPV4, 0)] + [(x, 0) for x in extra]
            for sname, pre in states.items():
                case('update_families_only_static_%s' % sname, [], [dict(addr=a1, params=P(families=fams), group=None)],
                     pre + [('update', a1, same)] + tail)
        # UpdatePeer under a confederation: external, member and internal neighbours
        for peer_as in (65001, 65009, 65000):
            for nkind in ('dynamic', 'static'):
                groups = [G(**{'as': peer_as, 'prefixes': [(4, [127, 0, 0, 0], 16)]})] if nkind == 'dynamic' else []
                statics = [] if nkind == 'dynamic' else [dict(addr=a1, params=P(expected=peer_as), group=None)]
                case('update_confederation_%s' % nkind, groups, statics,
                     [('connect', a1, 1), ('update', a1, dict(same, asn=peer_as)), ('connect', a1, 1), ('disconnect', a1, 1)],
                     confed=[65100, [65001, 65002]])
        # overlapping dynamic prefixes in two / three groups
        for hs in ((30, 90), (90, 30), (30, 90, 3)):
            case('overlapping_groups', [G(hold=h, prefixes=[(4, [127, 0, 0, 0], 8 + 4 * k)]) for k, h in enumerate(hs)], [], [('connect', a1, 1)])
        # configured twice; restarting speaker
        case('configured_twice', [], [dict(addr=a1, params=P(hold=30), group=None), dict(addr=a1, params=P(hold=90), group=None)], [('connect', a1, 1)])
        case('restarting', g, [dict(addr=a2, params=P(gr=[120, True, [IPV4]]), group=None)], [('connect', a1, 1), ('connect', a2, 1)], restarting=True)
        return out

    def enum_open(self):
        """OPEN messages as octets: capability order and packaging, lengths off by one, unknown codes, AS forms
        (2-octet, AS_TRANS + 4-octet capability), hold times 0/1/2/3/65535, identifiers, against expected AS and local hold"""
        out = []
        F = IPV4
        LID = 0x01000001
        lcap = [('mp', F), ('mp', IPV6), ('addpath', [(F, 3)]), ('as4', 65000), ('extmsg',), ('gr', 4, 120, [(F, 0)]), ('llgr', [(F, 0, 60)])]
        def add(cls, frame, exp=0, lhold=90, l=lcap, peer_as=None):
            fr = frame.d if hasattr(frame, 'd') else list(frame)
            out.append(dict(kind='open', lid=LID, l=list(l), lhold=lhold, exp=exp, frame=fr, fams=sorted(FAMS), cls=cls, peer_as=peer_as))
        caps = {'mp': E.cap_mp(F), 'mp6': E.cap_mp(IPV6), 'addpath': E.cap_addpath([(F, 3)]), 'as4': E.cap_as4(65001), 'extmsg': E.cap_extmsg(),
                'gr': E.cap_gr(4, 90, [(F, 128)]), 'llgr': E.cap_llgr([(F, 0, 30)]), 'rr': E.cap_rr(), 'err': E.cap_err(),
                'enh': E.cap_extnh([(F, 2)]), 'fqdn': E.cap_fqdn([104, 111], [100])}
        def msg(cl, asn=65001, hold=30, rid=100, one_param=True):
            params = [E.opt_param(2, E.cat(cl))] if one_param else [E.opt_param(2, c) for c in cl]
            return E.open_msg(asn, hold, rid, params if cl else [])
        # order and packaging of the capabilities (ADD-PATH before MultiProtocol, one optional parameter or one each)
        four = ['mp', 'addpath', 'as4', 'extmsg']
        for perm in itertools.permutations(four):
            for one in (True, False):
                add('wire_order', msg([caps[x] for x in perm], one_param=one))
        # each capability: absent, once, twice; and with its length octet off by one either way, zero, or beyond the parameter
        for name, cb in caps.items():
            rest = [caps[x] for x in four if x != name]
            add('wire_cap_%s_absent' % name, msg(rest))
            add('wire_cap_%s_once' % name, msg(rest + [cb]))
            add('wire_cap_%s_twice' % name, msg([cb] + rest + [cb]))
            for delta in (-1, 1, None, 200):
                bad = list(cb.d)
                bad[1] = 0 if delta is None else (bad[1] + delta) & 0xff
                add('wire_cap_%s_badlen' % name, msg(rest + [E.B(bad)]))
                add('wire_cap_%s_badlen' % name, msg([E.B(bad)] + rest))
        # capability codes the implementation does not know, with lengths 0 / 1 / 255
        for code in (0, 3, 4, 7, 63, 66, 67, 68, 72, 74, 128, 255):
            for ln in (0, 1, 255):
                add('wire_unknown_cap', msg([caps['mp'], E.B([code, ln] + [1] * min(ln, 3)), caps['as4']]))
                add('wire_unknown_cap', msg([caps['mp'], E.cap(code, [7] * min(ln, 40)), caps['as4']]))
        # add-path modes on the wire 0..4, 255; entries for families without MultiProtocol; several entries
        for m in (0, 1, 2, 3, 4, 255):
            add('wire_addpath_mode', msg([caps['mp'], E.cap_addpath([(F, m)]), caps['as4']]))
            add('wire_addpath_mode', msg([E.cap_addpath([(F, m), (F, 3)]), caps['mp']]))
            add('wire_addpath_mode', msg([E.cap_addpath([(F, 3), (F, m)]), caps['mp']]))
            add('wire_addpath_mode', msg([E.cap_addpath([(IPV6, m)]), caps['mp']]))
        # optional parameter types other than 2, lengths against the message
        for ty in (0, 1, 3, 255):
            add('wire_param_type', E.open_msg(65001, 30, 100, [E.opt_param(ty, [1, 2, 3])]))
        add('wire_param_len', E.open_msg(65001, 30, 100, [E.B([2, 10, 1, 4, 0, 1, 0, 1])]))
        add('wire_param_len', E.open_msg(65001, 30, 100, [E.B([2])]))
        # AS number forms against the expected AS: 2-octet, AS_TRANS with and without the capability, 4-octet, mismatch
        for asn, as4 in ((65001, None), (65001, 65001), (23456, 65001), (23456, 70000), (23456, None), (65001, 70000), (23456, 23456), (0, None), (65535, 65535)):
            for exp in (0, 65001, 70000, 23456):
                cl = [caps['mp']] + ([E.cap_as4(as4)] if as4 is not None else [])
                # the AS the peer is in: the 4-octet capability when My-AS is AS_TRANS (RFC 6793), else the My-AS field;
                # left open when the two contradict each other
                # (AS_TRANS without the capability is not a legitimate AS either: the code records AS 0 there)
                peer_as = as4 if (asn == 23456 and as4 is not None) else (asn if as4 in (None, asn) and asn != 23456 else None)
                add('wire_as_forms', msg(cl, asn=asn), exp=exp, peer_as=peer_as)
        # hold times on either side
        for hold in (0, 1, 2, 3, 4, 65535):
            for lhold in (0, 1, 2, 3, 90, 65535, 65536):
                add('wire_hold', msg([caps['mp']], hold=hold), lhold=lhold)
        # identifiers: unspecified, broadcast, multicast, the local identifier, ordinary
        for rid in (0, 0xffffffff, 0xe0000001, 0xefffffff, 0xdfffffff, 0xf0000000, LID, 1, 100):
            add('wire_router_id', msg([caps['mp']], rid=rid))
        # version, truncation
        add('wire_version', E.open_msg(65001, 30, 100, [], version=3))
        full = msg([caps['mp'], caps['as4']]).d
        for cut in (1, 2, 10):
            fr = list(full[:-cut]); fr[16:18] = [len(fr) >> 8, len(fr) & 0xff]
            add('wire_truncated', fr)
        # GR flag and time bits, LLGR time width
        for fl in (0, 4, 8, 12, 15):
            for tm in (0, 1, 4095):
                add('wire_gr_bits', msg([caps['mp'], E.cap_gr(fl, tm, [(F, 128), (IPV6, 0)])]))
        for tm in (0, 1, 0xffffff):
            add('wire_llgr_time', msg([caps['mp'], E.cap_llgr([(F, 128, tm)])]))
        return out

    def gen_cases(self, rng, tier):
        cases = self.enum_neg() + self.enum_acc() + self.enum_open()
        for _ in range(300 if tier == 'quick' else 4000):
            c = json.loads(json.dumps(self.gen_acc(rng))); c['cls'] = 'random'; cases.append(c)
        reps = 2 if tier == 'quick' else 12
        for _ in range(reps):
            for mask in list(range(0, 33)) + [33, 40, 255]:
                for canonical in (True, False):
                    cases.append(self.gen_net(rng, 4, mask, canonical))
            for mask in list(range(0, 129)) + [129, 135, 255]:
                for canonical in (True, False):
                    cases.append(self.gen_net(rng, 6, mask, canonical))
        n = 800 if tier == 'quick' else 12000
        for k in range(n):
            l, r = self.gen_caps(rng), self.gen_caps(rng)
            if k % 2 == 0:
                cases.append(dict(kind='neg', l=l, r=r, fams=sorted(FAMS), cls='random'))
            else:
                smax = [(f, rng.choice([1, 2, 8])) for f in FAMS if rng.random() < 0.6]
                cases.append(dict(kind='sess', l=l, r=r, smax=smax, fams=sorted(FAMS), cls='random'))
        return cases

    # ---- running
    def run_impl(self, cases, tier):
        a = [(k, c) for k, c in enumerate(cases) if c['kind'] in ('net', 'neg')]
        b = [(k, c) for k, c in enumerate(cases) if c['kind'] == 'sess']
        out = [None] * len(cases)
        if a:
            res, err = rustrun.crate_bin('C16', 'hx-neg', '', [self.case_to_val(c) for _, c in a])
            if res is None: return None, err
            for (k, _), o in zip(a, res): out[k] = o
        if b:
            res, err = rustrun.daemon_test('C16d', 'event::verif_hx::verif_neg_cases', [self.case_to_val(c) for _, c in b])
            if res is None: return None, err
            for (k, _), o in zip(b, res): out[k] = o
        w = [(k, c) for k, c in enumerate(cases) if c['kind'] == 'open']
        if w:
            res, err = rustrun.daemon_test('C16o', 'event::verif_hx::open_hx::verif_open_cases', [self.case_to_val(c) for _, c in w])
            if res is None: return None, err
            for (k, _), o in zip(w, res): out[k] = o
        d = [(k, c) for k, c in enumerate(cases) if c['kind'] == 'acc']
        self._orders = {}
        if d:
            res, err = rustrun.daemon_test('C16a', 'event::verif_hx::accept_hx::verif_accept_cases',
                                           [self.case_to_val(c) for _, c in d])
            if res is None: return None, err
            for (k, c), o in zip(d, res):
                out[k] = o
                # the iteration order of Global.peer_group, an input the model leaves open
                if o != [-1] and o and o[0] and o[0][0] == -7:
                    self._orders[k] = o[0][1:]
        return out, ''

    def run_model(self, cases, tier):
        pre = 'From RB Require Import Base.Val Model.Caps Model.Fsm Model.Negotiate Model.Accept Model.OpenSession.\nOpen Scope N_scope.'
        orders = getattr(self, '_orders', {})
        return coqrun.eval_terms('C16', pre, [self.case_to_coq(c, orders.get(k)) if c['kind'] == 'acc' else self.case_to_coq(c)
                                              for k, c in enumerate(cases)])

    def canon(self, case, obs):
        if case['kind'] == 'acc':
            return canon_acc(obs)
        return obs

    # ---- Spec oracle (the property text on the implementation's observations)
    @staticmethod
    def _mode(caps, f):
        """the add-path mode a list advertises for f, or None when it is ambiguous (several different entries)"""
        ms = [m for c in caps if c[0] == 'addpath' for (g, m) in c[1] if g == f]
        if not ms: return 0
        return ms[0] if len(set(ms)) == 1 else None

    def oracle(self, c, obs):
        k = c['kind']
        if k == 'acc':
            return self.oracle_acc(c, obs)
        if k == 'open':
            return self.oracle_open(c, obs)
        if obs == [-1] and k != 'net':
            return 'panic'
        if k == 'net':
            fam, pre, mask = c['net']; afam, addr = c['addr']
            w = 32 if fam == 4 else 128
            if mask > w:
                return None          # not a prefix length
            want = afam == fam and bits_of(pre)[:mask] == bits_of(addr)[:mask]
            if obs == [-1]: return 'contains panicked for a valid prefix length %d' % mask
            if obs != [1 if want else 0]:
                return 'contains says %s for an address %s the prefix (mask %d)' % (obs, 'inside' if want else 'outside', mask)
            return None
        mp = lambda caps, f: ('mp', f) in caps
        if k == 'neg':
            fl, xl, tl, fr, xr, tr = obs
            if xl != xr or tl != tr: return 'extended message / AS width differ between the two ends'
            for (f, p, rx, tx), (f2, p2, rx2, tx2) in zip(fl, fr):
                if p != p2: return 'family %d negotiated at one end only' % f
                if p and (rx != tx2 or tx != rx2): return 'family %d: add-path directions are not mirror images' % f
                if bool(p) != (mp(c['l'], f) and mp(c['r'], f)): return 'family %d in force but not advertised by both (or the reverse)' % f
                ml, mr = self._mode(c['l'], f), self._mode(c['r'], f)
                if p and ml is not None and mr is not None:
                    if bool(rx) != bool(ml & 1 and mr & 2) or bool(tx) != bool(ml & 2 and mr & 1):
                        return 'family %d: add-path direction in force differs from what both advertised' % f
            has = lambda caps, t: any(x[0] == t for x in caps)
            if bool(xl) != (has(c['l'], 'extmsg') and has(c['r'], 'extmsg')): return 'extended message in force but not advertised by both'
            if bool(tl) == (has(c['l'], 'as4') and has(c['r'], 'as4')): return '4-octet AS in force but not advertised by both'
            return None
        gl, ll, gr_, lr, em = obs
        def first(caps, t):
            xs = [x for x in caps if x[0] == t]
            return xs[0] if len(xs) == 1 else (None if not xs else 'amb')
        # graceful restart: in force for a family iff both advertised it
        fl = set(gl[0]) if gl else set(); fr = set(gr_[0]) if gr_ else set()
        if fl != fr: return 'graceful restart families differ between the two ends: %s vs %s' % (sorted(fl), sorted(fr))
        a, b = first(c['l'], 'gr'), first(c['r'], 'gr')
        if a != 'amb' and b != 'amb':
            want = set(f for f, _ in a[3]) & set(f for f, _ in b[3]) if a and b else set()
            if fl != want: return 'graceful restart in force for %s, both advertised %s' % (sorted(fl), sorted(want))
        sl = set(f for f, _ in ll[0]) if ll else set(); sr = set(f for f, _ in lr[0]) if lr else set()
        if sl != sr: return 'LLGR families differ between the two ends: %s vs %s' % (sorted(sl), sorted(sr))
        cfg = dict(c['smax'])
        for f, mx, tx in em:
            if mx > 1 and not tx:
                return 'family %d: more than one path will be sent (max %d) although add-path send is not in force' % (f, mx)
            if tx and mx != cfg.get(f, 1):
                return 'family %d: add-path send is in force but the configured send-max %d is not used (max %d)' % (f, cfg.get(f, 1), mx)
        return None

    def in_known_class(self, kf, c, obs, why):
        if c['kind'] != 'sess':
            return False
        if kf['id'] == 'C16-2' and 'more than one path' in why:
            # decidable class of the input: some family with an effective max > 1 whose add-path
            # entries are ambiguous on either side, or which is not advertised by both
            for f, mx, tx in obs[4]:
                if mx > 1 and not tx:
                    amb = self._mode(c['l'], f) is None or self._mode(c['r'], f) is None
                    nomp = not (('mp', f) in c['l'] and ('mp', f) in c['r'])
                    if not (amb or nomp):
                        return False
            return True
        if kf['id'] == 'C16-3' and why.startswith('LLGR families differ'):
            def dup(caps):
                xs = [x for x in caps if x[0] == 'llgr']
                if not xs: return False
                fs = [e[0] for e in xs[0][1]]
                return len(fs) != len(set(fs))
            return dup(c['l']) or dup(c['r'])
        return False

    # ---- the property text applied to the admission observations
    @staticmethod
    def _inside(net, addr):
        return net[0] == addr[0] and bits_of(net[1])[:net[2]] == bits_of(addr[1])[:net[2]]

    @staticmethod
    def _expected_caps(addr, local_asn, families, gr, llgr):
        """capabilities the text demands for a neighbour: its families (default: the address family),
        add-path where configured, extended next hop for IPv4 families over IPv6, GR/LLGR as configured,
        4-octet AS and extended message always"""
        v6 = addr[0] == 6
        caps = []
        if not families:
            caps.append([1, IPV6 if v6 else IPV4])
        else:
            caps += [[1, f] for f, _ in families]
            ap = sorted([f, m] for f, m in families if m > 0)
            if ap: caps.append([69, ap])
            if v6:
                enh = sorted([f, 2] for f, _ in families if f >> 16 == 1 and f != ((1 << 16) | 73))
                if enh: caps.append([5, enh])
        if gr is not None: caps.append([64, 4 if gr[1] else 0, gr[0], [[f, 0] for f in gr[2]]])
        if llgr is not None: caps.append([71, [[f, 0, t] for f, t in llgr]])
        caps += [[65, local_asn], [6]]
        return sort_caps(caps)

    @staticmethod
    def _inherit(p, g):
        """a neighbour's own settings, completed from its peer group where it has none"""
        q = dict(p)
        if q['expected'] == 0 and g['as'] != 0: q['expected'] = g['as']
        if q['local_asn'] == 0 and g['local_asn'] != 0: q['local_asn'] = g['local_asn']
        if q['hold'] == 180 and g['hold'] is not None: q['hold'] = g['hold']
        if q['multihop'] is None: q['multihop'] = g['multihop']
        if q['ttlsec'] is None: q['ttlsec'] = g['ttlsec']
        if not q['families']: q['families'], q['send_max'] = g['families'], g['send_max']
        if q['gr'] is None: q['gr'] = g['gr']
        if q['llgr'] is None: q['llgr'] = g['llgr']
        q['passive'] = q['passive'] or g['passive']
        q['rs'] = q['rs'] or g['rs']
        if not q['rr'][0] and g['rr'][0]: q['rr'] = g['rr']
        return q

    def _row_of(self, c, addr, q):
        """the table row the text demands for a neighbour with settings q"""
        own = q['local_asn'] or c['asn']
        la = own
        internal = q['expected'] == own
        if c['confed'] is not None and not internal and q['expected'] not in c['confed'][1]:
            la = c['confed'][0]          # RFC 5065: peers outside the confederation see its identifier
        return dict(addr=list(addr), expected=q['expected'], local_asn=la, passive=int(q['passive']), delete=int(q['delete']),
                    hold=q['hold'], caps=self._expected_caps(addr, la, q['families'], q['gr'], q['llgr']), rs=int(q['rs']),
                    rrc=int(q['rr'][0]), cluster=opt(q['rr'][1]), limits=sorted([list(x) for x in q['prefix_limits']]),
                    smax=sorted([list(x) for x in q['send_max']]), multihop=q['multihop'], ttlsec=q['ttlsec'])

    @staticmethod
    def _row_dict(r):
        r = canon_peer_row(r)
        return dict(addr=r[0], expected=r[1], local_asn=r[2], passive=r[3], delete=r[4], hold=r[5], caps=r[6], rs=r[7], rrc=r[8],
                    cluster=r[9], limits=r[10], smax=r[11], admin=r[12], ca=r[13], cp=r[14])

    def _row_mismatch(self, want, got):
        for k in ('expected', 'local_asn', 'passive', 'delete', 'hold', 'caps', 'rs', 'rrc', 'cluster', 'limits', 'smax'):
            if want[k] != got[k]:
                return '%s is %s, configured %s' % (k, got[k], want[k])
        return None

    def _session_mismatch(self, c, role, row, want, sv):
        sv = canon_session(sv)
        sdir, prole, lasn, caps, restarting, limits, rid, cluster, confed_id, ttl = sv
        if sdir != role: return 'direction'
        if lasn != row['local_asn'] or caps != row['caps'] or limits != row['limits']:
            return 'session local AS / capabilities / prefix limits differ from the neighbour\'s'
        if rid != c['rid'] or restarting != int(c['restarting']): return 'router id / restarting flag'
        if confed_id != (c['confed'][0] if c['confed'] else 0): return 'confederation id'
        members = c['confed'][1] if c['confed'] else []
        own = row['local_asn']
        if row['rs']: wrole = 1
        elif own != 0 and row['expected'] == own: wrole = 3 if row['rrc'] else 2
        elif row['expected'] in members: wrole = 4
        else: wrole = 0
        if prole != wrole: return 'role %d, configuration says %d' % (prole, wrole)
        wcluster = [row['cluster'][0] if row['cluster'] else c['rid']] if wrole in (2, 3) else []
        if cluster != wcluster: return 'cluster id %s, expected %s' % (cluster, wcluster)
        if want is not None:
            if want['ttlsec'] is not None: wttl = [255]
            elif want['multihop'] is not None: wttl = [want['multihop']] if row['expected'] != row['local_asn'] else []
            else: wttl = [1]
            if ttl != wttl: return 'socket TTL %s, expected %s' % (ttl, wttl)
        return None

    def oracle_acc(self, c, obs):
        if obs == [-1]:
            return 'panic in accept_connection / add_peer / run'
        obs = obs[1:] if obs and obs[0] and obs[0][0] == -7 else obs
        # configured neighbours
        want_static = {}
        for st in c['statics']:
            key = json.dumps(st['addr'])
            if key in want_static: continue
            q = self._inherit(st['params'], c['groups'][st['group']]) if st['group'] is not None else dict(st['params'])
            want_static[key] = (self._row_of(c, st['addr'], q), q)
        rows = {json.dumps(self._row_dict(r)['addr']): self._row_dict(r) for r in obs[0]}
        if set(rows) != set(want_static): return 'configured neighbours %s, table has %s' % (sorted(want_static), sorted(rows))
        for key, (want, q) in want_static.items():
            m = self._row_mismatch(want, rows[key])
            if m: return 'configured neighbour %s: %s' % (key, m)
            if rows[key]['admin'] != int(q['admin_down']): return 'admin-down flag'
        dyn = {}
        for k, (o, (res, rws)) in enumerate(zip(c['ops'], obs[1:])):
            kind, addr, arg = o[0], o[1], o[2]
            key = json.dumps(addr)
            after = {json.dumps(self._row_dict(r)['addr']): self._row_dict(r) for r in rws}
            before = rows
            flag = 'ca' if arg == 0 else 'cp'
            exp = {kk: dict(v) for kk, v in before.items()}
            if kind == 'discrace':
                # the connection (addr, old direction) ends and a new one is admitted before the old task has finished:
                # by the text this is a disconnect that is not the last one if the new connection is admitted
                oflag = 'ca' if arg == 0 else 'cp'
                nrole = o[3]
                row = before.get(key)
                if row is None or not row[oflag]:
                    if exp != after: return 'op %d (discrace without a connection): table changed' % k
                    rows = after; continue
                b2 = {kk: dict(v) for kk, v in before.items()}; b2[key][oflag] = 0
                nflag = 'ca' if nrole == 0 else 'cp'
                permitted = not b2[key]['admin'] and not b2[key][nflag]
                if bool(res) != permitted:
                    return 'op %d: connection from %s %s although it is %s' % (k, addr[1], 'accepted' if res else 'dropped', 'permitted' if permitted else 'not permitted')
                exp = b2
                if permitted:
                    exp[key][nflag] = 1
                    got = after.get(key)
                    if got is None or not got[nflag]:
                        return 'op %d: the neighbour record of a live connection was removed or lost its connection mark when an earlier connection of the same neighbour ended' % k
                    want = dyn[key] if key in dyn else want_static.get(key, (None, None))[0]
                    m = self._session_mismatch(c, nrole, got, want, res[0])
                    if m: return 'op %d: session for %s: %s' % (k, addr[1], m)
                else:
                    if exp[key]['delete'] and not exp[key]['ca'] and not exp[key]['cp']: del exp[key]
                kind = 'done'
            if kind == 'update':
                u = arg
                row = before.get(key)
                if row is not None and int(u['rs']) == row['rs'] and int(u['rrc']) == row['rrc']:
                    # the local AS the peer must see: as for a neighbour configured this way (confederation identifier
                    # towards peers outside the confederation)
                    own = u['local_asn'] or c['asn']
                    la = own
                    if c['confed'] is not None and u['asn'] != own and u['asn'] not in c['confed'][1]:
                        la = c['confed'][0]
                    hold = u['hold'] or 180
                    caps = self._expected_caps(addr, la, [], None, None)
                    new = dict(row); new.update(expected=u['asn'], local_asn=la, passive=int(u['passive']), hold=hold, caps=caps,
                                                cluster=opt(u['cluster']), limits=[])
                    # the update names no dynamic / static distinction: a dynamic neighbour stays one
                    changed = any(new[f] != row[f] for f in ('expected', 'local_asn', 'passive', 'hold', 'caps'))
                    if changed:
                        # the sessions run with the old settings: they are torn down, so the last one has ended
                        had = row['ca'] or row['cp']
                        new.update(ca=0, cp=0, smax=[])
                        if had and row['delete']: new = None
                    if new is None: exp.pop(key, None)
                    else: exp[key] = new
                    if key in want_static:
                        w, q = want_static[key]
                        w = dict(w); w.update({f: (new or row)[f] for f in ('expected', 'local_asn', 'passive', 'hold', 'caps', 'cluster', 'limits')})
                        w['multihop'] = None; w['ttlsec'] = None
                        want_static[key] = (w, q)
                    if key in dyn:
                        w = dict(dyn[key]); w.update(multihop=None, ttlsec=None); dyn[key] = w
                kind = 'done'
            if kind == 'delrace':
                # delete_peer, then a connection from the same address while the old tasks end
                before = {kk: v for kk, v in before.items() if kk != key}
                exp.pop(key, None); want_static.pop(key, None); dyn.pop(key, None)
                kind = 'connect'
            if kind == 'connect':
                row = before.get(key)
                if row is not None:
                    permitted = not row['admin'] and not row[flag]
                    cands = None
                else:
                    cands = [g for g in c['groups'] if any(self._inside(n, addr) for n in g['prefixes'])]
                    permitted = bool(cands)
                if bool(res) != permitted:
                    return 'op %d: connection from %s %s although it is %s' % (
                        k, addr[1], 'accepted' if res else 'dropped', 'permitted' if permitted else 'not permitted')
                if res:
                    got = after.get(key)
                    if got is None or not got[flag]: return 'op %d: accepted connection not recorded' % k
                    if row is not None:
                        exp[key][flag] = 1
                        want = dyn[key] if key in dyn else want_static.get(key, (None, None))[0]
                    else:
                        # a dynamic neighbour: the settings of a group whose prefix contains the address
                        ok = None
                        for g in cands:
                            q = dict(expected=g['as'], local_asn=g['local_asn'], passive=g['passive'], rs=g['rs'], rr=g['rr'], delete=True,
                                     hold=g['hold'] if g['hold'] is not None else 180, multihop=g['multihop'], ttlsec=g['ttlsec'],
                                     families=g['families'], send_max=g['send_max'], prefix_limits=[], gr=g['gr'], llgr=g['llgr'])
                            w = self._row_of(c, addr, q)
                            if self._row_mismatch(w, got) is None: ok = w; break
                        if ok is None:
                            return 'op %d: dynamic neighbour %s does not carry the settings of a peer group that permits it' % (k, addr[1])
                        if got['admin'] or got['ca'] + got['cp'] != 1: return 'op %d: dynamic neighbour flags' % k
                        dyn[key] = ok
                        want = ok
                        exp[key] = got
                    m = self._session_mismatch(c, arg, got, want, res[0])
                    if m: return 'op %d: session for %s: %s' % (k, addr[1], m)
            elif kind in ('disconnect', 'reset'):
                row = before.get(key)
                if row is not None and row[flag]:
                    exp[key][flag] = 0
                    if row['delete'] and not exp[key]['ca'] and not exp[key]['cp']:
                        del exp[key]       # a dynamic neighbour's state disappears with its last connection
            elif kind == 'admin':
                if key in exp: exp[key]['admin'] = int(arg)
            elif kind == 'enable':
                if key in exp: exp[key]['admin'] = 0
            elif kind == 'delete':
                exp.pop(key, None); want_static.pop(key, None); dyn.pop(key, None)
            elif kind == 'disable':
                if key in exp and not exp[key]['admin']:
                    had = exp[key]['ca'] or exp[key]['cp']
                    exp[key].update(admin=1, ca=0, cp=0)      # its connections are torn down
                    if had and exp[key]['delete']: del exp[key]
            if key not in exp: dyn.pop(key, None)
            # what the admitted session puts on the wire (harness res[1]) and the FSM behind every neighbour (row[15])
            if res and len(res) > 1:
                got = after.get(key)
                if not res[1]:
                    return 'op %d: the admitted connection from %s was not sent an OPEN (its slot in the neighbour\'s FSM was not free, or the session ended at once)' % (k, addr[1])
                if got is not None:
                    w_as, w_hold, _opt = res[1][0]
                    want_as = got['local_asn'] if got['local_asn'] < 65536 else 23456
                    if w_as != want_as:
                        return 'op %d: the OPEN sent to %s carries AS %d, the neighbour is configured with local AS %d' % (k, addr[1], w_as, got['local_asn'])
                    if 3 <= got['hold'] <= 65535 and w_hold != got['hold']:
                        return 'op %d: the OPEN sent to %s carries hold time %d, configured %d' % (k, addr[1], w_hold, got['hold'])
            for r in rws:
                if len(r) > 15:
                    sa, sp, fcaps = r[15]
                    if (not r[13] and sa != 0) or (not r[14] and sp != 0):
                        return 'op %d (%s): neighbour %s has no %s connection but its FSM slot is in state %d (not Idle): the slot was not freed for a new attempt' % (
                            k, o[0], r[0][1], 'active' if (not r[13] and sa != 0) else 'passive', sa if (not r[13] and sa != 0) else sp)
                    if sort_caps(fcaps) != sort_caps(r[6]):
                        return 'op %d (%s): the capabilities the FSM of %s will advertise differ from the configured ones' % (k, o[0], r[0][1])
            if exp != after:
                diff = sorted(set(exp) ^ set(after)) or [kk for kk in exp if exp[kk] != after[kk]]
                return 'op %d (%s): neighbour table is not what the operation should leave (%s)' % (k, o[0], diff[:2])
            rows = after
        return None

    def oracle_open(self, c, obs):
        if obs == [-1]: return 'panic while handling an OPEN'
        if obs[0] != 1:
            return None          # rejected by the codec: the decoder's verdict is property C03's
        _, asn, hold, rid, rcaps, state, outs, neg, grs = obs
        # expected AS: the session goes on only with the configured AS (0 = any), else Bad Peer AS
        if c.get('peer_as') is not None and asn != c['peer_as']:
            return 'the peer is in AS %d (My-AS field / 4-octet AS capability), the session records AS %d' % (c['peer_as'], asn)
        ok_as = c['exp'] == 0 or c['exp'] == asn
        downs = [o for o in outs if o[2][0] == 5]
        if ok_as and (state != 4 or downs): return 'OPEN from the expected AS %d did not lead to OpenConfirm' % asn
        if not ok_as and (state != 0 or not downs or downs[0][2][1] != [2, 2, 2]):
            return 'OPEN from AS %d accepted although AS %d is configured' % (asn, c['exp'])
        if ok_as:
            lh = c['lhold'] % 65536
            adv = 0 if lh in (1, 2) else lh
            h = min(adv, hold)
            kas = [o[2][1] for o in outs if o[2][0] == 1]; hs = [o[2][1] for o in outs if o[2][0] == 2]
            if h > 0 and (kas != [h // 3] or hs != [h]):
                return 'hold time %d in force, timers asked for: keepalive %s hold %s' % (h, kas, hs)
            if h == 0 and (any(kas) or any(hs)):
                return 'hold time 0 in force but a timer is started: keepalive %s hold %s' % (kas, hs)
        # the two ends: mirror image, in force iff both advertised
        fl, xl, tl, fr, xr, tr = neg
        rc = [tuple(x) for x in rcaps]
        def has(caps, code): return any(x[0] == code for x in caps)
        lv = caps_to_val(c['l'])
        for (f, p, rx, tx), (f2, p2, rx2, tx2) in zip(fl, fr):
            if p != p2 or (p and (rx != tx2 or tx != rx2)): return 'family %d: not mirror images' % f
            both = [1, f] in lv and [1, f] in rcaps
            if bool(p) != both: return 'family %d in force %d, advertised by both %d' % (f, p, both)
        if xl != xr or tl != tr: return 'extended message / AS width differ between the two ends'
        if bool(xl) != (has(lv, 6) and has(rcaps, 6)): return 'extended message in force but not advertised by both'
        if bool(tl) == (has(lv, 65) and has(rcaps, 65)): return '4-octet AS in force but not advertised by both'
        gl, ll, gr_, lr = grs
        if set(gl[0] if gl else []) != set(gr_[0] if gr_ else []): return 'graceful restart families differ between the two ends'
        sl = set(f for f, _ in ll[0]) if ll else set(); sr = set(f for f, _ in lr[0]) if lr else set()
        if sl != sr: return 'LLGR families differ between the two ends'
        return None

    def nontrivial_key(self, c, obs):
        if c['kind'] == 'open':
            return json.dumps(c['frame']) if obs != [-1] and obs[0] == 1 else None
        if c['kind'] == 'acc':
            if obs != [-1] and any(o[0] for o in obs[2:]): return json.dumps(acc_to_val(c))
            return None
        if c['kind'] == 'net':
            fam, pre, mask = c['net']; afam, addr = c['addr']
            m = max(min(mask, len(pre) * 8) - 1, 0)
            if afam == fam and bits_of(pre)[:m] == bits_of(addr)[:m]:
                return json.dumps([c['net'], c['addr']])
            return None
        if obs == [-1]: return ('panic',)
        if c['kind'] == 'neg' and any(x[1] for x in obs[0]): return json.dumps([c['l'], c['r']])
        if c['kind'] == 'sess' and (obs[0] or obs[1] or any(x[1] > 1 for x in obs[4])): return json.dumps([c['l'], c['r'], c['smax']])
        return None

    def classify(self, c, obs):
        tags = [c['kind'], 'class_%s' % (c.get('cls') or ('mask_%d' % c['net'][2] if c['kind'] == 'net' else 'corpus'))]
        if c['kind'] == 'acc' and obs != [-1]:
            if any(o[0] for o in obs[2:]): tags.append('accepted')
        if c['kind'] == 'net':
            tags.append('v%d' % c['net'][0])
            if obs == [1]: tags.append('contained')
            if obs == [-1]: tags.append('contains_panic')
        return tags
