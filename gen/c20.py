"""C20: kernel FIB requests and next-hop tracking stay in step with the RIB.

Cases are histories of TableManager operations over a small colliding domain
(3 peers + the local source, 2 sessions per peer, 2 IPv4 and 2 VPNv4 prefixes,
3 IPv4 and 2 IPv6 next-hop addresses in the three wire forms, 7 attribute blocks in 3 rank classes, 3 VRFs).  The harness
(harness/daemon/table_manager_hx.rs, verif_fib_cases) drives a real TableManager
with a capturing KernelHandle; the model is coq/Model/Fib.v.  The oracle below is
the python mirror of coq/Spec/FibSpec.v and judges the implementation's own
observations (request stream + RIB views) against the property text."""
import json, os, glob
from vp import val, coqrun, rustrun
from vp.val import cN, cbool, clist, cpair, copt

OPN = {'ins': 0, 'rem': 1, 'drop': 2, 'mstale': 3, 'dstale': 4, 'mllgr': 5, 'dllgr': 6,
       'nhv': 7, 'pol': 8, 'reset': 9, 'unreg': 10, 'insl': 11, 'sdef': 12, 'edef': 13}

# ---- fixed configurations (cfg = peers, attrs, vrfs, pols)
def mk_cfg(k):
    peers = [[1, 1, 0], [2, 2, 0], [3, 2 if k % 2 else 3, 1 if k % 3 == 2 else 0]]   # peer, rid, ibgp
    attrs = [[0, 1, 0, 0, [1]], [1, 1, 0, 0, [2]], [2, 1, 0, 1, []], [3, 2, 0, 0, [1, 2]],
             [4, 0, 1, 0, [3]], [5, 3, 0, 0, []], [6, 1, 1, 0, [1]]]                  # tok, pref, llgrc, nollgr, rts
    vrfs = [[5, [1]], [6, [2, 3]], [0, [1]]] if k % 2 == 0 else [[5, [1, 2]], [7, [9]]]
    pols = [[[1, [1]]], [[2, [2, 3]], [3, [1]]], [[1, [2, 2 if k % 2 else 101]], [2, [0]]]]
    return dict(peers=peers, attrs=attrs, vrfs=vrfs, pols=pols)

def cfg_to_val(c):
    def av(a):
        a = list(a)
        if len(a) < 7:
            a = a + [0, None][len(a) - 5:]
        return a[:6] + [[] if a[6] is None else [a[6]]]
    return [c['peers'], [av(a) for a in c['attrs']], c['vrfs'], c['pols']]

def act_coq(a):
    return {0: 'AAccept', 1: 'AReject'}.get(a[0]) or '(ASetNh %s)' % cN(a[1])

def cfg_to_coq(c):
    peers = clist(['(%s, (%s, %s))' % (cN(p), cN(r), cbool(i)) for p, r, i in c['peers']])
    def a7(a):
        a = list(a)
        return a + [0, None][len(a) - 5:] if len(a) < 7 else a
    attrs = clist(['(%s, {| a_pref := %s; a_llgrc := %s; a_nollgr := %s; a_rts := %s; a_clen := %s; a_oid := %s |})' %
                   (cN(t), cN(p), cbool(l), cbool(n), clist([cN(x) for x in r]), cN(cl), copt(None if o is None else cN(o)))
                   for t, p, l, n, r, cl, o in map(a7, c['attrs'])])
    vrfs = clist(['(%s, %s)' % (cN(i), clist([cN(x) for x in r])) for i, r in c['vrfs']])
    pols = clist([clist(['(%s, %s)' % (cN(p), act_coq(a)) for p, a in pol]) for pol in c['pols']])
    return '{| c_peers := %s; c_attrs := %s; c_vrfs := %s; c_pols := %s |}' % (peers, attrs, vrfs, pols)

# next hop forms: None, or [0,a] IPv4, [1,a] 16-byte IPv6, [2,a,l] 32-byte IPv6 global + link-local
# (a bare integer in older corpus files is an IPv4 next hop); address ids >= 100 are IPv6 addresses
def nh_norm(nh):
    if nh is None:
        return None
    if isinstance(nh, int):
        return [0, nh]
    return list(nh)

def nh_coq(nh):
    nh = nh_norm(nh)
    if nh is None:
        return 'None'
    if nh[0] == 0: return '(Some (NhV4 %s))' % cN(nh[1])
    if nh[0] == 1: return '(Some (NhV6 %s))' % cN(nh[1])
    return '(Some (NhV6LL %s %s))' % (cN(nh[1]), cN(nh[2]))

def op_to_val(o):
    t = o[0]
    if t == 'ins':
        _, peer, sess, (k, i), pid, nh, tok = o
        return [0, peer, sess, k, i, pid, [] if nh is None else [nh_norm(nh)], tok]
    if t == 'insl':
        _, peer, sess, (k, i), pid, nh, tok, mx, cnt = o
        return [11, peer, sess, k, i, pid, [] if nh is None else [nh_norm(nh)], tok, mx, cnt]
    if t == 'rem':
        _, peer, sess, (k, i), pid = o
        return [1, peer, sess, k, i, pid]
    if t == 'nhv':
        return [7, o[1], 1 if o[2] else 0]
    return [OPN[t], o[1]]

def op_to_coq(o):
    t = o[0]
    pf = lambda p: '(%s, %s)' % (cN(p[0]), cN(p[1]))
    if t == 'ins':
        _, peer, sess, p, pid, nh, tok = o
        return '(Insert %s %s %s %s %s %s)' % (cN(peer), cN(sess), pf(p), cN(pid), nh_coq(nh), cN(tok))
    if t == 'insl':
        _, peer, sess, p, pid, nh, tok, mx, cnt = o
        return '(InsertLim %s %s %s %s %s %s %s %s)' % (cN(peer), cN(sess), pf(p), cN(pid), nh_coq(nh), cN(tok), cN(mx), cN(cnt))
    if t == 'rem':
        _, peer, sess, p, pid = o
        return '(Remove %s %s %s %s)' % (cN(peer), cN(sess), pf(p), cN(pid))
    if t == 'nhv':
        return '(NhValidity %s %s)' % (cN(o[1]), cbool(o[2]))
    name = {'drop': 'DropPeer', 'unreg': 'DropPeer', 'mstale': 'MarkStale', 'dstale': 'DropStale',
            'mllgr': 'MarkLlgr', 'dllgr': 'DropLlgr', 'pol': 'SetPolicy', 'reset': 'SoftResetIn',
            'sdef': 'StartDef', 'edef': 'EndDef'}[t]
    return '(%s %s)' % (name, cN(o[1]))

# ---- kernel semantics of the request stream (kernel/src/lib.rs Handle::apply and the
# watched reference counts of run_service_loop), written from the kernel crate's docs
def replay(reqs, fib, ref):
    for r in reqs:
        if r[0] == 0:
            tbl = r[1][0] if r[1] else None
            net = tuple(r[2])
            if net[0] in (1, 4):
                continue                       # VPN NLRI in the main table: ignored by Handle::apply
            key = (tbl, net)
            if r[3]:
                fib[key] = list(r[3])
            else:
                fib.pop(key, None)
        elif r[0] == 1:
            ref[r[1]] = ref.get(r[1], 0) + 1
        elif r[0] == 2:
            n = ref.get(r[1], 0)
            if n <= 1:
                ref.pop(r[1], None)
            else:
                ref[r[1]] = n - 1

class Prop:
    pid = 'C20'
    props_file = 'Props/C20.v'
    required_theorems = ['fib_replay_eq_ecmp_of_best', 'vrf_fib_replay_eq_ecmp_of_best_outside_known', 'vrf_fib_replay_eq_ecmp_of_best_refuted', 'nht_refcount_eq_paths', 'kernel_watched_count_is_replay', 'fib_replay_eq_ecmp_of_best_legacy_refuted', 'vrf_fib_replay_eq_ecmp_of_best_legacy_refuted',
                         'unreachable_nexthop_excluded', 'insert_race_is_sequential', 'unreachable_nexthop_excluded_early_read_refuted']
    correspondence_name = ('Model/Fib.v svc_run vs kernel/src/lib.rs run_service_loop (harness/hx-kernel, real rtnetlink socket); Model/Fib.v step vs daemon/src/table_manager.rs TableManager (insert_route, remove_route, drop_families, '
                           'unregister_peer, drop_stale_families, mark_llgr_stale, drop_llgr_stale_families, update_nexthop_validity, '
                           'soft_reset_in, insert_route under a prefix limit, start_deferral_families, end_deferral_families) with a capturing kernel::KernelHandle (harness/daemon/table_manager_hx.rs verif_fib_cases)')
    rule = ('a case is a history of <= 28 operations; non-trivial when some FIB request carries >= 2 next hops or a withdrawal follows an '
            'install; distinct = distinct (configuration, canonical request stream); on every run 926 enumerated histories (Add-Path partial purges, tie-key steps, flag combinations, '
            'nht_register matrix, remove / peer-operation / soft-reset / reachability / VRF classes, prefix-limit boundaries, deferral) and every '
            'register/unregister sequence of length <= 4 precede the random ones; the thorough tier adds every sequence of <= 3 operations '
            'over a 20-letter alphabet (incl. deferral start/end, a limited insert, an IPv6 prefix) after a two-insert prefix and 495 kernel reference-count sequences')
    exhaustive = {'quick': False, 'thorough': False}
    ops_field = 'ops'           # lib/vp/check.py shrink_case drops operations of a failing history
    trusted_base = [
        'C20: the RIB is abstracted to what distribute_update / ecmp_paths / the NHT calls read: per path (peer, session, path id, next hop, '
        'attribute-block identity, rank class, LLGR_STALE/NO_LLGR bits, route targets, filtered, next-hop-invalid); RibEntry::cmp is its '
        'projection on (llgr-stale, rank class, iBGP, stale, router id) with the rank class realised by LOCAL_PREF/AS_PATH length/ORIGIN '
        '(the comparator itself is property C02)',
        'C20: the reference counts of kernel/src/lib.rs run_service_loop are modelled (Model/Fib.v svc_run, proved equal to Spec ref_replay) and tied by '
        'harness/hx-kernel, which starts the real KernelService on an rtnetlink socket and observes the NexthopUpdate emitted when an address becomes watched; '
        'Handle::apply is modelled as "replace the next-hop set of (table, prefix); empty = withdraw; VPN NLRI ignored"; netlink and lookup_route are outside the model',
        'C20: hash-map iteration order (destinations, VRFs, shards) is not modelled; requests are compared per key (prefix / address) in order',
    ]
    assumptions = [
        'operations are sequential (the property quantifies over histories); the one concurrent schedule explored is insert_route parked before its shard lock while another thread applies reachability reports (classes insert_race:*, finding C20-4)',
        'the kernel handle is installed before the history starts; restarting-speaker deferral of a family starts while the family holds no route (it is started at boot, event/mod.rs); the prefix-limit counter is an input of each insert (its bookkeeping is C15)',
        'peer-level operations name every family of the session (IPv4 unicast and VPNv4), as the GR glue does (C10)',
        'VRFs with a kernel table have distinct table ids and distinct VPN prefixes have distinct VRF-local prefixes (one RD)',
    ]

    # ---- rendering
    def case_to_val(self, c):
        if c.get('kind') == 'ref':
            return c['reqs']
        if c.get('kind') == 'race':
            pre, (_, ins, mids) = c['ops'][:-1], c['ops'][-1]
            return [cfg_to_val(c['cfg']), c['shards'], [op_to_val(o) for o in pre], op_to_val(ins), [op_to_val(m) for m in mids]]
        return [cfg_to_val(c['cfg']), c['shards'], [op_to_val(o) for o in c['ops']]]

    def case_to_coq(self, c):
        if c.get('kind') == 'ref':
            return 'run_ref %s' % clist(['(%s %s)' % ('Reg' if r[0] == 1 else 'Unreg', cN(r[1])) for r in c['reqs']])
        if c.get('kind') == 'race':
            pre, (_, ins, mids) = c['ops'][:-1], c['ops'][-1]
            _, peer, sess, p, pid, nh, tok = ins
            return 'run_race %s %s %s %s %s (%s, %s) %s %s %s %s' % (
                os.environ.get('VERIF_C20_EARLY_READ', 'false'), cfg_to_coq(c['cfg']), clist([op_to_coq(o) for o in pre]),
                cN(peer), cN(sess), cN(p[0]), cN(p[1]), cN(pid), nh_coq(nh), cN(tok), clist([op_to_coq(m) for m in mids]))
        return 'run_case %s %s %s' % (os.environ.get('VERIF_C20_VARIANT', 'Fixed'), cfg_to_coq(c['cfg']),
                                      clist([op_to_coq(o) for o in c['ops']]))

    def case_to_json(self, c):
        return json.loads(json.dumps(c))

    def case_from_json(self, j):
        c = dict(j)
        if j.get('kind') == 'ref':
            return c
        ops = []
        for o in j['ops']:
            o = list(o)
            if o[0] in ('ins', 'rem', 'insl'):
                o[3] = tuple(o[3])
            if o[0] == 'race':
                i = list(o[1]); i[3] = tuple(i[3])
                o = ['race', tuple(i), [tuple(m) for m in o[2]]]
            ops.append(tuple(o))
        c['ops'] = ops
        return c

    def corpus_cases(self):
        out = []
        d = os.path.join(os.path.dirname(os.path.dirname(os.path.abspath(__file__))), 'corpus', 'C20')
        for f in sorted(glob.glob(os.path.join(d, '*.json'))):
            out.append(self.case_from_json(json.load(open(f))['case']))
        return out

    # ---- generation
    def gen_ops(self, rng, n, flavour):
        ops = []
        peers = [1, 2, 3]
        prefixes = [(0, 1), (0, 2), (1, 1), (1, 2), (3, 1), (4, 2)]
        if flavour in ('plain', 'v6'):
            prefixes = [(0, 1), (0, 1), (0, 2)]
        elif flavour == 'vpn':
            prefixes = [(1, 1), (1, 1), (1, 2), (0, 1), (4, 2), (4, 1)] + ([(1, 12)] if rng.random() < 0.25 else [])
        toks_tied = [0, 1, 3] if flavour != 'llgr' else [0, 1, 2, 6]
        live = []       # (peer, sess, prefix, pid) inserted so far
        sess = {1: 0, 2: 0, 3: 0, 0: 0}
        deferring = []
        if rng.random() < 0.3:
            # restarting-speaker deferral: started on empty tables, ended somewhere in the history
            deferring = rng.sample([0, 1, 3, 4], rng.choice([1, 2, 4]))
            ops += [('sdef', f) for f in deferring]
        for _ in range(n):
            x = rng.random()
            if deferring and rng.random() < 0.12:
                f = deferring.pop()
                ops.append(('edef', f))
                continue
            if x < 0.42 or not live:
                peer = rng.choice(peers + ([0] if rng.random() < 0.15 else []))
                p = rng.choice(prefixes)
                pid = rng.choice([0, 0, 0, 1])
                nh = rng.choice([1, 2, 3, 1, 2, None]) if rng.random() < 0.9 else None
                if flavour == 'v6' or rng.random() < 0.2:
                    # IPv6 next hops in both wire forms, sharing the global addresses 101 / 102
                    nh = rng.choice([[1, 101], [2, 101, 1], [2, 101, 2], [1, 102], [2, 102, 1], [0, 1], None])
                r = rng.random()
                tok = rng.choice(toks_tied) if r < 0.7 else rng.choice([2, 4, 5, 6])
                if peer == 0:
                    sess[0] = rng.choice([0, 0, 1])       # gRPC-injected or kernel-redistributed pseudo-source
                if rng.random() < 0.12:
                    mx = rng.choice([0, 1, 2, 3])
                    ops.append(('insl', peer, sess[peer], p, pid, nh, tok, mx, max(0, mx + rng.choice([-1, 0, 0, 1]))))
                else:
                    ops.append(('ins', peer, sess[peer], p, pid, nh, tok))
                live.append((peer, sess[peer], p, pid))
            elif x < 0.60:
                peer, s, p, pid = rng.choice(live)
                if rng.random() < 0.1:
                    pid = 1 - pid if pid in (0, 1) else 0
                ops.append(('rem', peer, sess[peer], p, pid))
            elif x < 0.70:
                ops.append(('nhv', rng.choice([101, 101, 102, 1] if flavour == 'v6' else [1, 2, 3, 101]), rng.random() < 0.45))
            elif x < 0.75:
                ops.append((rng.choice(['drop', 'unreg']), rng.choice(peers)))
            elif x < 0.81:
                peer = rng.choice(peers)
                ops.append(('mstale', peer))
                sess[peer] = 1 - sess[peer] if rng.random() < 0.7 else sess[peer]   # reconnect with a fresh Source
            elif x < 0.85:
                ops.append(('dstale', rng.choice(peers)))
            elif x < 0.89:
                ops.append(('mllgr', rng.choice(peers)))
            elif x < 0.92:
                ops.append(('dllgr', rng.choice(peers)))
            elif x < 0.96:
                ops.append(('pol', rng.choice([0, 1, 2, 3])))
            else:
                ops.append(('reset', rng.choice(peers)))
        ops += [('edef', f) for f in deferring]
        return ops

    # ---- classes enumerated on every run (each case carries its class in 'cls')
    ECFG = dict(
        peers=[[1, 1, 0], [2, 2, 0], [3, 3, 1], [4, 1, 0]],      # 3 is iBGP; 4 shares router id 1 with peer 1
        # tok: pref, llgrc, nollgr, rts, clen, oid
        attrs=[[10, 2, 0, 0, [1], 0, None], [22, 2, 0, 0, [1], 0, None],       # 22: same content, another Arc
               [11, 0, 0, 0, [1], 0, None],                                     # higher LOCAL_PREF
               [12, 1, 0, 0, [1], 0, None],                                     # shorter AS_PATH
               [13, 3, 0, 0, [1], 0, None],                                     # worse ORIGIN
               [14, 2, 1, 0, [1], 0, None],                                     # LLGR_STALE community
               [15, 2, 0, 0, [1], 1, None],                                     # CLUSTER_LIST of one
               [16, 2, 0, 0, [1], 0, 0], [17, 2, 0, 0, [1], 0, 5],             # ORIGINATOR_ID below / above every router id
               [18, 2, 0, 1, [1], 0, None],                                     # NO_LLGR
               [19, 2, 0, 0, [], 0, None], [20, 2, 0, 0, [2], 0, None],
               [21, 2, 0, 0, [9, 8, 1], 0, None], [23, 2, 0, 0, [1, 2], 0, None],
               [24, 2, 0, 0, [1], 2, None], [25, 4, 0, 0, [1], 0, None]],      # CLUSTER_LIST of two; ORIGIN incomplete
        vrfs=[[5, [1]], [6, [2, 3]], [0, [1]], [7, [9, 2, 1]]],
        pols=[[[2, [1]]], [[2, [2, 1]]], [[2, [2, 3]]], [[2, [2, 101]]], [[1, [1]], [2, [1]], [3, [1]]]])

    def enum_cases(self):
        E = self.ECFG
        out = []
        def add(cls, ops, shards=2):
            out.append(dict(cfg=E, shards=shards, ops=ops, cls=cls))
        nh = lambda a: [0, a] if a < 100 else [1, a]
        ins = lambda peer, p, a, tok, pid=0, sess=0: ('ins', peer, sess, p, pid, None if a is None else (a if isinstance(a, list) else nh(a)), tok)
        rem = lambda peer, p, pid=0, sess=0: ('rem', peer, sess, p, pid)
        PF = [(0, 1), (3, 1), (1, 2), (4, 12)]
        # T: every step of the tie key is in turn the only difference between two paths
        steps = [('same', 2, 22), ('localpref', 2, 11), ('aspath', 2, 12), ('origin', 2, 13), ('origin2', 2, 25),
                 ('llgr_comm', 2, 14), ('clen1', 2, 15), ('clen2', 2, 24), ('oid_low', 2, 16), ('oid_high', 2, 17),
                 ('ibgp', 3, 10), ('same_rid', 4, 10)]
        for P in PF:
            for name, peer, tok in steps:
                add('tie:%s:k%d:fwd' % (name, P[0]), [ins(1, P, 1, 10), ins(peer, P, 2, tok), rem(peer, P), ins(peer, P, 2, tok), rem(1, P)])
                add('tie:%s:k%d:rev' % (name, P[0]), [ins(peer, P, 2, tok), ins(1, P, 1, 10), rem(1, P), ins(1, P, 3, 10), rem(peer, P)])
            for name, opn in (('stale', 'mstale'), ('llgr', 'mllgr')):
                add('tie:%s:k%d' % (name, P[0]), [ins(1, P, 1, 10), ins(2, P, 2, 10), (opn, 2), ins(2, P, 3, 10, 0, 1), (opn, 1), (opn, 2),
                                                   ('dstale' if opn == 'mstale' else 'dllgr', 1), ('dstale' if opn == 'mstale' else 'dllgr', 2)])
        # F: filtered / next-hop-invalid / GR-stale / LLGR-stale combinations on one member of a tied set of three
        flagops = {'filt': [('pol', 1), ('reset', 2)], 'inv': [('nhv', 2, False)], 'stale': [('mstale', 2)], 'llgr': [('mllgr', 2)]}
        undo = {'filt': [('pol', 0), ('reset', 2)], 'inv': [('nhv', 2, True)], 'stale': [], 'llgr': []}
        names = sorted(flagops)
        import itertools
        for r in (1, 2, 3, 4):
            for combo in itertools.combinations(names, r):
                for P in ((0, 1), (1, 2)):
                    ops = [ins(1, P, 1, 10), ins(2, P, 2, 10), ins(4, P, 3, 10)]
                    for f in combo:
                        ops += flagops[f]
                    ops += [rem(1, P)]
                    for f in combo:
                        ops += undo[f]
                    add('flags:%s:k%d' % ('+'.join(combo), P[0]), ops + [ins(1, P, 1, 10), rem(2, P)])
        # N: nht_register: source x old next hop x new next hop
        for sname, (peer, sess) in (('peer', (1, 0)), ('local', (0, 0)), ('kernel', (0, 1))):
            for oname, old in (('absent', 'absent'), ('none', None), ('a', 1), ('b', 2), ('ll', [2, 101, 1])):
                for nname, new in (('none', None), ('a', 1), ('v6', 101), ('ll', [2, 101, 2])):
                    ops = [ins(2, (0, 1), 1, 10)]
                    if old != 'absent':
                        ops.append(ins(peer, (0, 1), old, 10, 0, sess))
                    ops += [ins(peer, (0, 1), new, 22, 0, sess), rem(peer, (0, 1), 0, sess), rem(peer, (0, 1), 0, sess)]
                    add('nht:%s:old_%s:new_%s' % (sname, oname, nname), ops)
        # R: remove_route: absent prefix, absent path id, filtered path, best / non-best, last / not last
        P = (0, 1)
        add('remove:absent_prefix', [rem(1, P), ins(1, P, 1, 10), rem(1, (0, 2))])
        add('remove:absent_pid', [ins(1, P, 1, 10), rem(1, P, 1), rem(2, P)])
        add('remove:filtered', [('pol', 1), ins(2, P, 2, 10), ins(1, P, 1, 10), rem(2, P), rem(1, P)])
        add('remove:best_not_last', [ins(1, P, 1, 11), ins(2, P, 2, 10), ins(4, P, 3, 10), rem(1, P)])
        add('remove:nonbest', [ins(1, P, 1, 11), ins(2, P, 2, 10), rem(2, P)])
        add('remove:addpath', [ins(1, P, 1, 10, 0), ins(1, P, 1, 10, 1), ins(1, P, 2, 10, 2), rem(1, P, 1), rem(1, P, 0), rem(1, P, 2)])
        # P: peer-level operations on 0 / 1 / 2 / 3 paths sharing a next hop, in 1 / 2 families
        for opn in ('drop', 'unreg', 'mstale', 'dstale', 'mllgr', 'dllgr', 'reset'):
            add('peerop:%s:empty_table' % opn, [(opn, 1), ins(1, P, 1, 10)])
            add('peerop:%s:other_peer' % opn, [ins(2, P, 1, 10), (opn, 1), rem(2, P)])
            for n in (1, 2, 3):
                pre = [ins(1, P, 1, 10, pid) for pid in range(n)] + [ins(2, P, 1, 18)]
                seq = [(opn, 1)]
                if opn in ('dstale', 'dllgr'):
                    seq = [('mstale' if opn == 'dstale' else 'mllgr', 1), (opn, 1), (opn, 1)]
                add('peerop:%s:%d_paths_shared_nh' % (opn, n), pre + seq + [ins(1, P, 1, 10, 0, 1)])
            add('peerop:%s:four_families' % opn, [ins(1, (0, 1), 1, 18), ins(1, (1, 2), 1, 18), ins(1, (3, 1), 101, 18), ins(1, (4, 2), 101, 18),
                                                  ins(2, (0, 1), 1, 10), ('mstale', 1) if opn == 'dstale' else ('mllgr', 1) if opn == 'dllgr' else ('pol', 0), (opn, 1)])
        # S: soft_reset_in with import policies changing the disposition / the next hop
        for pname, pol in (('reject', 1), ('setnh_same', 2), ('setnh_other', 3), ('setnh_v6', 4)):
            for oname, old in (('a', 1), ('none', None), ('ll', [2, 101, 1])):
                add('reset:%s:old_%s' % (pname, oname), [ins(2, P, old, 10), ins(1, P, 3, 10), ('pol', pol), ('reset', 2), ('reset', 2), ('pol', 0), ('reset', 2), rem(2, P)])
        add('reset:stale_skipped', [ins(2, P, 1, 10), ('mstale', 2), ('pol', 3), ('reset', 2), ('dstale', 2)])
        add('reset:insert_under_policy', [('pol', 3), ins(2, P, 1, 10), ('pol', 1), ins(2, P, 1, 10), ('pol', 0), ('reset', 2), rem(2, P)])
        # V: reachability reports: before / after the insert, repeated, for each next-hop form
        for fname, form, a in (('v4', [0, 1], 1), ('v6', [1, 101], 101), ('ll', [2, 101, 1], 101)):
            add('nhv:%s:after_insert' % fname, [ins(1, P, form, 10), ins(2, P, 2, 10), ('nhv', a, False), ('nhv', a, False), ('nhv', a, True), ('nhv', a, True)])
            add('nhv:%s:before_insert' % fname, [('nhv', a, False), ins(1, P, form, 10), ins(2, P, form, 10), ('nhv', a, True), rem(1, P)])
            add('nhv:%s:no_path' % fname, [('nhv', a, True), ('nhv', a, False), ins(2, P, 2, 10), ('nhv', a, True)])
            add('nhv:%s:replace_while_unreachable' % fname, [ins(1, P, form, 10), ('nhv', a, False), ins(1, P, 2, 10), ins(1, P, form, 10), ('nhv', a, True)])
        # VRF: route targets of the best path against the VRFs' import sets, both VPN families
        for P in ((1, 2), (4, 2)):
            for tok in (10, 19, 20, 21, 23):
                add('vrf:rts_tok%d:k%d' % (tok, P[0]), [ins(1, P, 1, tok), ins(2, P, 2, 10), rem(1, P), rem(2, P)])
            add('vrf:importable_to_not_to_importable:k%d' % P[0], [ins(2, P, 2, 10), ins(1, P, 1, 19, 0), ins(1, P, 1, 20), ins(1, P, 1, 10), rem(1, P)])
            add('vrf:best_by_originator:k%d' % P[0], [ins(2, P, 2, 20), ins(1, P, 1, 10), ins(4, P, 3, 16), rem(4, P)])
            # C20-3 (known): two route distinguishers, one inner prefix
            Q = (P[0], P[1] + 10)
            add('vrf:two_rds:k%d' % P[0], [ins(1, P, 1, 10), ins(2, Q, 2, 10), rem(2, Q), rem(1, P)])
            add('vrf:two_rds_one_importable:k%d' % P[0], [ins(1, P, 1, 10), ins(2, Q, 2, 19), rem(2, Q)])
        # A: an Add-Path peer holds 2-3 path ids on one prefix (sharing / not sharing a next hop); the new session
        # refreshes a subset (same or another next hop) and a purge takes the rest: the registrations must follow
        # exactly the removed paths, the FIB the remaining ones
        for P in ((0, 1), (1, 2)):
            for npid in (2, 3):
                for shname, nhs in (('shared', (1, 1, 1)), ('distinct', (1, 2, 3)), ('mixed', (1, 1, 2))):
                    for mask in range(1 << npid):
                        keep = [pid for pid in range(npid) if mask >> pid & 1]
                        ktag = 'k%d:%dpids:%s:kept_%s' % (P[0], npid, shname, ''.join(map(str, keep)) or 'none')
                        first = [ins(1, P, nhs[pid], 10, pid) for pid in range(npid)] + [ins(2, P, 3, 22)]
                        for rname, rnh in (('same_nh', lambda pid: nhs[pid]), ('new_nh', lambda pid: 2 if nhs[pid] != 2 else 1)):
                            refresh = [ins(1, P, rnh(pid), 10, pid, 1) for pid in keep]
                            tail = [rem(1, P, pid, 1) for pid in keep] + [rem(2, P)]
                            add('partial_purge:dstale:%s:%s' % (ktag, rname), first + [('mstale', 1)] + refresh + [('dstale', 1)] + tail)
                            add('partial_purge:dllgr:%s:%s' % (ktag, rname), first + [('mstale', 1), ('mllgr', 1)] + refresh + [('dllgr', 1)] + tail)
                            if rname == 'same_nh':
                                add('partial_purge:drop:%s' % ktag, first + [('mstale', 1)] + refresh + [('drop', 1), rem(2, P)])
                        add('partial_purge:mllgr:%s' % ktag,
                            [ins(1, P, nhs[pid], 10 if pid in keep else 18, pid) for pid in range(npid)] + [ins(2, P, 3, 22), ('mllgr', 1)] +
                            [rem(1, P, pid) for pid in keep] + [rem(2, P)])
        # L: the prefix-limit test of Table::insert in the FIB stream: counter below / at / above the limit
        # (also at the u32 end), for a new prefix / a replacement / another Add-Path id / another peer's path present
        insl = lambda peer, p, a, tok, mx, cnt, pid=0: ('insl', peer, 0, p, pid, nh(a), tok, mx, cnt)
        M = 4294967295
        for P in PF:
            for mx, cnts in ((0, (0, 1)), (1, (0, 1, 2)), (2, (1, 2, 3)), (M, (M - 1, M))):
                for cnt in cnts:
                    tag = 'k%d:max%s:cnt%s' % (P[0], 'M' if mx == M else mx, {M: 'M', M - 1: 'M-1'}.get(cnt, cnt))
                    add('limit:new:' + tag, [insl(1, P, 1, 10, mx, cnt), rem(1, P), ins(1, P, 1, 10)])
                    add('limit:replace:' + tag, [ins(1, P, 1, 10), insl(1, P, 2, 22, mx, cnt), rem(1, P)])
                    add('limit:addpath:' + tag, [ins(1, P, 1, 10), insl(1, P, 2, 22, mx, cnt, 1), rem(1, P, 1), rem(1, P)])
                    add('limit:other_peer:' + tag, [ins(2, P, 1, 10), insl(1, P, 2, 22, mx, cnt), rem(1, P), rem(2, P)])
        # D: restarting-speaker deferral (start on an empty family, changes suppressed, end emits every destination)
        OTHER = {0: (3, 1), 3: (0, 1), 1: (4, 2), 4: (1, 2)}
        for P in PF:
            f, O = P[0], OTHER[P[0]]
            sd, ed = ('sdef', f), ('edef', f)
            add('defer:insert_end:k%d' % f, [sd, ins(1, P, 1, 10), ins(2, P, 2, 22), ed, rem(1, P), rem(2, P)])
            add('defer:insert_remove_end:k%d' % f, [sd, ins(1, P, 1, 10), rem(1, P), ed, ins(1, P, 1, 10)])
            add('defer:replace_end:k%d' % f, [sd, ins(1, P, 1, 10), ins(1, P, 2, 22), ins(1, P, None, 10), ed])
            add('defer:other_family:k%d' % f, [sd, ins(1, O, 1, 10), ins(1, P, 1, 10), rem(1, O), ed, ('edef', O[0])])
            add('defer:all_filtered_at_end:k%d' % f, [('pol', 1), sd, ins(2, P, 2, 10), ins(2, (P[0], P[1] + (1 if P[1] < 10 else -10)), 2, 10), ed, ('pol', 0), ('reset', 2)])
            add('defer:end_without_start:k%d' % f, [ins(1, P, 1, 10), ed, rem(1, P), ed])
            add('defer:start_twice:k%d' % f, [sd, sd, ins(1, P, 1, 10), ed, ins(2, P, 2, 10), ed])
            add('defer:restart:k%d' % f, [sd, ins(1, P, 1, 10), rem(1, P), ed, sd, ins(1, P, 1, 10), ed])
            add('defer:purges:k%d' % f, [sd, ins(1, P, 1, 10), ins(2, P, 2, 18), ins(4, P, 3, 10), ('mstale', 2), ('dstale', 2), ('nhv', 1, False),
                                         ('mllgr', 4), ('drop', 1), ed, ('nhv', 1, True), ('dllgr', 4)])
            add('defer:reset:k%d' % f, [sd, ins(2, P, 1, 10), ('pol', 3), ('reset', 2), ed, ('pol', 0), ('reset', 2)])
            add('defer:limit:k%d' % f, [sd, insl(1, P, 1, 10, 1, 1), insl(2, P, 2, 10, 1, 0), ed])
            add('defer:all_families:k%d' % f, [('sdef', 0), ('sdef', 1), ('sdef', 3), ('sdef', 4), ins(1, P, 1, 10), ins(2, O, 2, 10), ed, ('edef', O[0])])
        return out

    def race_cases(self):
        """X: insert_route reaching its shard lock after reachability reports issued by another thread
        have been applied: report kinds x next-hop forms x what the table held before"""
        E = self.ECFG
        out = []
        P = (0, 1)
        forms = (('v4', [0, 1], 1), ('v6', [1, 101], 101), ('ll', [2, 101, 1], 101))
        for fname, form, a in forms:
            other = 2 if a == 1 else 102
            pres = (('empty', []), ('other_path_same_nh', [('ins', 2, 0, P, 0, form, 10)]),
                    ('already_unreachable', [('nhv', a, False)]), ('replaces_own_path', [('ins', 1, 0, P, 0, [0, 3], 10)]))
            midss = (('none', []), ('down', [('nhv', a, False)]), ('up', [('nhv', a, True)]), ('down_up', [('nhv', a, False), ('nhv', a, True)]),
                     ('up_down', [('nhv', a, True), ('nhv', a, False)]), ('other_down', [('nhv', other, False)]))
            for pname, pre in pres:
                for mname, mids in midss:
                    out.append(dict(kind='race', cfg=E, shards=1 if mname != 'down' else 2,
                                    ops=list(pre) + [('race', ('ins', 1, 0, P, 0, form, 10), list(mids))],
                                    cls='insert_race:%s:%s:%s' % (fname, pname, mname)))
        return out

    def gen_cases(self, rng, tier):
        cases = self.enum_cases() + self.race_cases()
        # K: every request sequence of length <= 4 over register/unregister of two addresses
        import itertools
        for d in (1, 2, 3, 4):
            for seq in itertools.product([[1, 1], [2, 1], [1, 2], [2, 2]], repeat=d):
                cases.append(dict(kind='ref', reqs=[list(x) for x in seq], cls='kref:len%d' % d))
        n = 1200 if tier == 'quick' else 12000
        for k in range(n):
            flavour = ['mixed', 'plain', 'vpn', 'llgr', 'v6', 'mixed'][k % 6]
            ln = rng.choice([2, 3, 4, 6, 8, 12, 16, 22, 28])
            ops = self.gen_ops(rng, ln, flavour)
            if k % 7 == 3:
                # soft reset after a policy change, the path that re-registers next hops
                ops += [('pol', rng.choice([1, 2, 3])), ('reset', rng.choice([1, 2, 3])), ('pol', 0), ('reset', rng.choice([1, 2]))]
            cases.append(dict(cfg=mk_cfg(k % 6), shards=1 + (k % 3), ops=ops))
        if tier == 'thorough':
            # every sequence of <= 3 operations over a 16-letter alphabet built around one prefix
            # with two tied paths, after a fixed two-insert prefix (exhaustive small space)
            import itertools
            P1 = (0, 1)
            al = [('ins', 1, 0, P1, 0, 1, 0), ('ins', 2, 0, P1, 0, 2, 1), ('ins', 3, 0, P1, 0, 1, 5), ('ins', 2, 0, P1, 0, None, 0),
                  ('ins', 2, 0, P1, 0, [2, 101, 1], 1), ('nhv', 101, False),
                  ('rem', 1, 0, P1, 0), ('rem', 2, 0, P1, 0), ('nhv', 1, False), ('nhv', 1, True), ('drop', 2),
                  ('mstale', 1), ('dstale', 1), ('mllgr', 2), ('pol', 3), ('reset', 2),
                  ('sdef', 3), ('edef', 3), ('ins', 1, 0, (3, 1), 0, [1, 101], 0), ('insl', 2, 0, P1, 0, 2, 1, 1, 1)]
            for d in (1, 2, 3):
                for seq in itertools.product(al, repeat=d):
                    # a deferral starts on an empty family (assumption): not after the IPv6 insert
                    if any(o[0] == 'sdef' and any(x[0] == 'ins' and x[3][0] == 3 for x in seq[:i]) for i, o in enumerate(seq)):
                        continue
                    cases.append(dict(cfg=mk_cfg(0), shards=2,
                                      ops=[('ins', 1, 0, P1, 0, 1, 0), ('ins', 3, 0, P1, 1, 3, 3)] + list(seq)))
        # request sequences for the reference counts of the kernel service task
        # (balanced, over-released and re-registered addresses; counts 0..3)
        nref = 200 if tier == 'quick' else 495
        for k in range(nref):
            ln = rng.choice([1, 2, 3, 5, 8, 12, 16])
            reqs = [[rng.choice([1, 1, 2]) if rng.random() < 0.6 else rng.choice([1, 2, 2]), rng.choice([1, 1, 2, 3])] for _ in range(ln)]
            cases.append(dict(kind='ref', reqs=reqs))
        return cases

    # ---- running
    def run_impl(self, cases, tier):
        hist = [k for k, c in enumerate(cases) if c.get('kind') not in ('ref', 'race')]
        races = [k for k, c in enumerate(cases) if c.get('kind') == 'race']
        refs = [k for k, c in enumerate(cases) if c.get('kind') == 'ref']
        out = [None] * len(cases)
        a, err = rustrun.daemon_test('C20', 'table_manager::verif_hx::verif_fib_cases', [self.case_to_val(cases[k]) for k in hist])
        if a is None:
            return None, err
        for k, o in zip(hist, a):
            out[k] = o
        if races:
            r, err = rustrun.daemon_test('C20r', 'table_manager::verif_hx::verif_fib_race_cases', [self.case_to_val(cases[k]) for k in races])
            if r is None:
                return None, err
            for k, o in zip(races, r):
                out[k] = o
        if refs:
            b, err = rustrun.crate_bin('C20k', 'hx-kernel', '', [self.case_to_val(cases[k]) for k in refs])
            if b is None:
                return None, 'hx-kernel (real KernelService on a netlink socket): ' + err
            for k, o in zip(refs, b):
                out[k] = o
        return out, ''

    def run_model(self, cases, tier):
        pre = 'From RB Require Import Base.Val Model.Fib.\nOpen Scope N_scope.'
        return coqrun.eval_terms('C20', pre, [self.case_to_coq(c) for c in cases])

    def canon(self, case, obs):
        if obs == [-1] or case.get('kind') == 'ref':
            return obs
        out = []
        # VRF-local prefixes fed by two VPN prefixes (known class C20-3): within one operation their
        # requests come in hash-map order, which is not modelled
        seen, shared = {}, set()
        for o in case['ops']:
            if o[0] in ('ins', 'insl') and o[3][0] in (1, 4):
                lk = (o[3][0] + 1, o[3][1] % 10)
                seen.setdefault(lk, set()).add(tuple(o[3]))
                if len(seen[lk]) > 1:
                    shared.add(lk)
        for reqs, view in obs:
            def key(r):
                if r[0] == 0:
                    return (0, r[1][0] if r[1] else -1, r[2][0], r[2][1], tuple(r[3]) if (r[1] and tuple(r[2]) in shared) else 0)
                return (1, r[1], 0, 0, r[0])        # per address: registrations before unregistrations
            rq = sorted(reqs, key=key)              # stable: per (table, prefix) the order of the Applies is kept
            out.append([rq, sorted(view, key=lambda d: d[0])])
        return out

    # ---- Spec oracle (python mirror of Spec/FibSpec.v), on the implementation's observations
    def oracle(self, c, obs):
        if c.get('kind') == 'ref':
            # the documented contract of register_nexthop / unregister_nexthop: reference counted,
            # an initial NexthopUpdate when an address becomes watched, no longer watched at zero
            if obs == [-1]:
                return 'the kernel service did not answer'
            cnt, want = {}, []
            for t, a in c['reqs']:
                if t == 1:
                    cnt[a] = cnt.get(a, 0) + 1
                    if cnt[a] == 1:
                        want.append(a)
                elif cnt.get(a, 0) > 0:
                    cnt[a] -= 1
            return None if obs == want else 'kernel service announced %s for the requests %s, the reference counts demand %s' % (obs, c['reqs'], want)
        if obs == [-1]:
            return 'panic'
        cfg = c['cfg']
        pinfo = {p: (r, i) for p, r, i in cfg['peers']}
        pinfo[0] = (0, 1)
        ainfo = {}
        for a in cfg['attrs']:
            a = list(a) + [0, None][len(a) - 5:] if len(a) < 7 else list(a)
            ainfo[a[0]] = tuple(a[1:])          # pref, llgrc, nollgr, rts, clen, oid
        fib, ref = {}, {}
        unreach = set()
        vpn_seen = {}                           # VRF-local prefix -> VPN prefixes inserted so far
        frozen = {}                             # deferring family -> FIB contents of its keys when the deferral started
        fam_of = lambda key: key[1][0] if key[0] is None else key[1][0] - 1
        prev_view = []
        for k, (o, (reqs, view)) in enumerate(zip(c['ops'], obs)):
            if o[0] == 'race':
                # an insert that reached its shard lock after the reports [o[2]] were applied completely:
                # judged as the history ... reports, insert
                for m in o[2]:
                    (unreach.discard if m[2] else unreach.add)(m[1])
                o = o[1]
            if o[0] == 'nhv':
                (unreach.discard if o[2] else unreach.add)(o[1])
            if o[0] in ('ins', 'insl') and o[3][0] in (1, 4):
                vpn_seen.setdefault((o[3][0] + 1, o[3][1] % 10), set()).add(tuple(o[3]))
            if o[0] == 'sdef' and o[1] not in frozen:
                frozen[o[1]] = {key: sorted(set(v)) for key, v in fib.items() if fam_of(key) == o[1]}
            if o[0] == 'edef':
                frozen.pop(o[1], None)
            if o[0] == 'insl':
                # a peer's first path for a prefix is refused when its counter has reached the limit; every
                # other insert is stored
                pv = {tuple(n): a for n, a, _ in prev_view}
                nv = {tuple(n): a for n, a, _ in view}
                had = any(x[0] == o[1] for x in pv.get(tuple(o[3]), []))
                refused = (not had) and o[8] >= o[7]
                has = any(x[0] == o[1] and x[2] == o[4] for x in nv.get(tuple(o[3]), []))
                if refused and (sorted(map(json.dumps, prev_view)) != sorted(map(json.dumps, view)) or reqs):
                    return 'step %d: insert refused by the prefix limit (%d >= %d) changed the RIB or issued requests %s' % (k, o[8], o[7], reqs)
                if not refused and not has:
                    return 'step %d: insert within the prefix limit (counter %d, limit %d, prefix %s for the peer) was not stored' % (
                        k, o[8], o[7], 'known' if had else 'new')
            prev_view = view
            replay(reqs, fib, ref)
            want_fib = {}
            vrf_want = {}                       # (table, local prefix) -> list of (vpn prefix, importable, nhs)
            cnt = {}
            for net, allp, el in view:
                net = tuple(net)
                for peer, sess, pid, nh, tok, unf in allp:
                    if peer != 0 and nh:
                        cnt[nh[0][1]] = cnt.get(nh[0][1], 0) + 1
                # (3) unreachable next hops are excluded from selection, reachable ones are not
                sel = sorted([e[0], e[1], e[2], e[3]] for e in el)
                exp = sorted([p[0], p[1], p[3], p[4]] for p in allp if p[5] and not (p[3] and p[3][0][1] in unreach))
                if sel != exp:
                    return 'step %d: %s selectable paths %s but the unfiltered paths with a reachable next hop are %s' % (k, list(net), sel, exp)
                if not el:
                    continue
                def skey(e):
                    # the decision steps before the router-id step, in order
                    peer, sess, nh, tok, stale, llgr = e
                    a = ainfo[tok]
                    return (1 if (llgr or a[1]) else 0, a[0], pinfo.get(peer, (peer, 0))[1], stale, a[4])
                m = min(skey(e) for e in el)
                ecmp = [e for e in el if skey(e) == m]
                nhs = sorted(set(e[2][0][1] for e in ecmp if e[2]))
                if net[0] in (0, 3):
                    want_fib[(None, net)] = nhs
                else:
                    # the best path: minimal under the full order (ORIGINATOR_ID, else router id, last);
                    # full ties are left to the implementation
                    def fk(e):
                        oid = ainfo[e[3]][5]
                        return skey(e) + (oid if oid is not None else pinfo.get(e[0], (e[0], 0))[0],)
                    mf = min(fk(e) for e in el)
                    bests = [e for e in el if fk(e) == mf]
                    for tid, imp in cfg['vrfs']:
                        if tid == 0:
                            continue
                        oks = set(bool(set(ainfo[b[3]][3]) & set(imp)) for b in bests)
                        vrf_want.setdefault((tid, (net[0] + 1, net[1] % 10)), []).append(
                            (net, oks.pop() if len(oks) == 1 else None, nhs))
            # (1) replayed FIB = ECMP next-hop set, for every prefix
            for key in set(fib) | set(want_fib) | set(vrf_want):
                if fam_of(key) in frozen:
                    got = sorted(set(fib.get(key, [])))
                    if got != frozen[fam_of(key)].get(key, []):
                        return 'step %d: FIB table %s prefix %s changed from %s to %s while its family is in deferral' % (
                            k, key[0], list(key[1]), frozen[fam_of(key)].get(key, []), got)
            for key in set(fib) | set(want_fib):
                if key[0] is not None or fam_of(key) in frozen:
                    continue
                w = want_fib.get(key, [])
                got = sorted(set(fib.get(key, [])))
                if got != w:
                    return 'step %d: FIB table %s prefix %s holds next hops %s, the best path and its ties have %s' % (k, key[0], list(key[1]), got, w)
            # (1b) ... and in every VRF table: what each importable VPN prefix demands, nothing otherwise
            for key in set(x for x in fib if x[0] is not None) | set(vrf_want):
                if fam_of(key) in frozen:
                    continue
                got = sorted(set(fib.get(key, [])))
                demands = vrf_want.get(key, [])
                shared = ' [shared VRF-local prefix: %s]' % sorted(vpn_seen.get(key[1], [])) if len(vpn_seen.get(key[1], [])) > 1 else ''
                if any(ok is None for _, ok, _ in demands):
                    continue
                imp_d = [(n, nh) for n, ok, nh in demands if ok]
                for n, nh in imp_d:
                    if got != nh:
                        return 'step %d: FIB table %s prefix %s holds next hops %s, the best path of %s is importable and it and its ties have %s%s' % (
                            k, key[0], list(key[1]), got, list(n), nh, shared)
                if not imp_d and got:
                    return 'step %d: FIB table %s prefix %s holds next hops %s, no VPN prefix has an importable best path%s' % (k, key[0], list(key[1]), got, shared)
            # (2) outstanding registrations = peer-learned paths using the address
            for a in set(ref) | set(cnt):
                if ref.get(a, 0) != cnt.get(a, 0):
                    return 'step %d: %d registrations outstanding for next hop %d, %d peer-learned paths use it' % (k, ref.get(a, 0), a, cnt.get(a, 0))
        return None

    def in_known_class(self, kf, c, obs, why):
        if kf['id'] == 'C20-3':
            # the class: the history has inserted two VPN prefixes that differ only in the route
            # distinguisher (same family, same inner prefix), and the failing VRF entry is theirs
            return '[shared VRF-local prefix' in (why or '')
        return False

    def nontrivial_key(self, c, obs):
        if c.get('kind') == 'ref':
            return ('ref', json.dumps(c['reqs'])) if obs != [-1] and len(obs) >= 2 else None
        if obs == [-1]:
            return None
        fl = [tuple(map(str, r)) for reqs, _ in self.canon(c, obs) for r in reqs]
        multi = any(r[0] == 0 and len(r[3]) >= 2 for reqs, _ in obs for r in reqs)
        seen, wd = set(), False
        for reqs, _ in obs:
            for r in reqs:
                if r[0] == 0:
                    k = (str(r[1]), tuple(r[2]))
                    if r[3]:
                        seen.add(k)
                    elif k in seen:
                        wd = True
        if multi or wd:
            return (json.dumps(c['cfg'], sort_keys=True), tuple(fl))
        return None

    def classify(self, c, obs):
        if c.get('kind') == 'ref':
            return ['kernel_refcount_sequence'] + (['enum_' + c['cls']] if c.get('cls') else [])
        tags = ['len_%s' % ('1-4' if len(c['ops']) <= 4 else '5-12' if len(c['ops']) <= 12 else '13+'), 'shards_%d' % c['shards']]
        for o in c['ops']:
            tags.append('op_' + o[0])
            if o[0] in ('ins', 'rem', 'insl'):
                tags.append('prefix_kind_%d' % o[3][0])
        if c.get('cls'):
            tags.append('enum_' + c['cls'])
            tags.append('enumclass_' + c['cls'].split(':')[0])
        if obs != [-1]:
            if any(r[0] == 0 and len(r[3]) >= 2 for reqs, _ in obs for r in reqs): tags.append('ecmp_install')
            if any(r[0] == 0 and r[1] for reqs, _ in obs for r in reqs): tags.append('vrf_request')
            if any(r[0] == 2 for reqs, _ in obs for r in reqs): tags.append('unregister')
            if any(len(a) != len(e) for _, view in obs for _, a, e in view): tags.append('ineligible_path_present')
        return sorted(set(tags))
