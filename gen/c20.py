"""C20: kernel FIB requests and next-hop tracking stay in step with the RIB.

Cases are histories of TableManager operations over a small colliding domain
(3 peers + the local source, 2 sessions per peer, 2 IPv4 and 2 VPNv4 prefixes,
3 IPv4 and 2 IPv6 next-hop addresses in the three wire forms, 7 attribute blocks in 3 rank classes, 3 VRFs).  The harness
(harness/daemon/table_manager_hx.rs, verif_fib_cases) drives a real TableManager
with a capturing KernelHandle; the model is coq/Model/Fib.v.  The oracle below is
the python mirror of coq/Spec/FibSpec.v and judges the implementation's own
observations (request stream + RIB views) against the property text."""
import json, os, glob
from vp import val, coqrun, rustrun
from vp.val import cN, cbool, clist, cpair, copt

OPN = {'ins': 0, 'rem': 1, 'drop': 2, 'mstale': 3, 'dstale': 4, 'mllgr': 5, 'dllgr': 6,
       'nhv': 7, 'pol': 8, 'reset': 9, 'unreg': 10}

# ---- fixed configurations (cfg = peers, attrs, vrfs, pols)
def mk_cfg(k):
    peers = [[1, 1, 0], [2, 2, 0], [3, 2 if k % 2 else 3, 1 if k % 3 == 2 else 0]]   # peer, rid, ibgp
    attrs = [[0, 1, 0, 0, [1]], [1, 1, 0, 0, [2]], [2, 1, 0, 1, []], [3, 2, 0, 0, [1, 2]],
             [4, 0, 1, 0, [3]], [5, 3, 0, 0, []], [6, 1, 1, 0, [1]]]                  # tok, pref, llgrc, nollgr, rts
    vrfs = [[5, [1]], [6, [2, 3]], [0, [1]]] if k % 2 == 0 else [[5, [1, 2]], [7, [9]]]
    pols = [[[1, [1]]], [[2, [2, 3]], [3, [1]]], [[1, [2, 2 if k % 2 else 101]], [2, [0]]]]
    return dict(peers=peers, attrs=attrs, vrfs=vrfs, pols=pols)

def cfg_to_val(c):
    return [c['peers'], c['attrs'], c['vrfs'], c['pols']]

def act_coq(a):
    return {0: 'AAccept', 1: 'AReject'}.get(a[0]) or '(ASetNh %s)' % cN(a[1])

def cfg_to_coq(c):
    peers = clist(['(%s, (%s, %s))' % (cN(p), cN(r), cbool(i)) for p, r, i in c['peers']])
    attrs = clist(['(%s, {| a_pref := %s; a_llgrc := %s; a_nollgr := %s; a_rts := %s |})' %
                   (cN(t), cN(p), cbool(l), cbool(n), clist([cN(x) for x in r])) for t, p, l, n, r in c['attrs']])
    vrfs = clist(['(%s, %s)' % (cN(i), clist([cN(x) for x in r])) for i, r in c['vrfs']])
    pols = clist([clist(['(%s, %s)' % (cN(p), act_coq(a)) for p, a in pol]) for pol in c['pols']])
    return '{| c_peers := %s; c_attrs := %s; c_vrfs := %s; c_pols := %s |}' % (peers, attrs, vrfs, pols)

# next hop forms: None, or [0,a] IPv4, [1,a] 16-byte IPv6, [2,a,l] 32-byte IPv6 global + link-local
# (a bare integer in older corpus files is an IPv4 next hop); address ids >= 100 are IPv6 addresses
def nh_norm(nh):
    if nh is None:
        return None
    if isinstance(nh, int):
        return [0, nh]
    return list(nh)

def nh_coq(nh):
    nh = nh_norm(nh)
    if nh is None:
        return 'None'
    if nh[0] == 0: return '(Some (NhV4 %s))' % cN(nh[1])
    if nh[0] == 1: return '(Some (NhV6 %s))' % cN(nh[1])
    return '(Some (NhV6LL %s %s))' % (cN(nh[1]), cN(nh[2]))

def op_to_val(o):
    t = o[0]
    if t == 'ins':
        _, peer, sess, (k, i), pid, nh, tok = o
        return [0, peer, sess, k, i, pid, [] if nh is None else [nh_norm(nh)], tok]
    if t == 'rem':
        _, peer, sess, (k, i), pid = o
        return [1, peer, sess, k, i, pid]
    if t == 'nhv':
        return [7, o[1], 1 if o[2] else 0]
    return [OPN[t], o[1]]

def op_to_coq(o):
    t = o[0]
    pf = lambda p: '(%s, %s)' % (cN(p[0]), cN(p[1]))
    if t == 'ins':
        _, peer, sess, p, pid, nh, tok = o
        return '(Insert %s %s %s %s %s %s)' % (cN(peer), cN(sess), pf(p), cN(pid), nh_coq(nh), cN(tok))
    if t == 'rem':
        _, peer, sess, p, pid = o
        return '(Remove %s %s %s %s)' % (cN(peer), cN(sess), pf(p), cN(pid))
    if t == 'nhv':
        return '(NhValidity %s %s)' % (cN(o[1]), cbool(o[2]))
    name = {'drop': 'DropPeer', 'unreg': 'DropPeer', 'mstale': 'MarkStale', 'dstale': 'DropStale',
            'mllgr': 'MarkLlgr', 'dllgr': 'DropLlgr', 'pol': 'SetPolicy', 'reset': 'SoftResetIn'}[t]
    return '(%s %s)' % (name, cN(o[1]))

# ---- kernel semantics of the request stream (kernel/src/lib.rs Handle::apply and the
# watched reference counts of run_service_loop), written from the kernel crate's docs
def replay(reqs, fib, ref):
    for r in reqs:
        if r[0] == 0:
            tbl = r[1][0] if r[1] else None
            net = tuple(r[2])
            if net[0] == 1:
                continue                       # VPN NLRI in the main table: ignored by Handle::apply
            key = (tbl, net)
            if r[3]:
                fib[key] = list(r[3])
            else:
                fib.pop(key, None)
        elif r[0] == 1:
            ref[r[1]] = ref.get(r[1], 0) + 1
        elif r[0] == 2:
            n = ref.get(r[1], 0)
            if n <= 1:
                ref.pop(r[1], None)
            else:
                ref[r[1]] = n - 1

class Prop:
    pid = 'C20'
    props_file = 'Props/C20.v'
    required_theorems = ['fib_replay_eq_ecmp_of_best', 'vrf_fib_replay_eq_ecmp_of_best', 'nht_refcount_eq_paths', 'kernel_watched_count_is_replay', 'fib_replay_eq_ecmp_of_best_legacy_refuted', 'vrf_fib_replay_eq_ecmp_of_best_legacy_refuted',
                         'unreachable_nexthop_excluded']
    correspondence_name = ('Model/Fib.v svc_run vs kernel/src/lib.rs run_service_loop (harness/hx-kernel, real rtnetlink socket); Model/Fib.v step vs daemon/src/table_manager.rs TableManager (insert_route, remove_route, drop_families, '
                           'unregister_peer, drop_stale_families, mark_llgr_stale, drop_llgr_stale_families, update_nexthop_validity, '
                           'soft_reset_in) with a capturing kernel::KernelHandle (harness/daemon/table_manager_hx.rs verif_fib_cases)')
    rule = ('a case is a history of <= 28 operations; non-trivial when some FIB request carries >= 2 next hops or a withdrawal follows an '
            'install; distinct = distinct (configuration, canonical request stream); the thorough tier adds every sequence of <= 3 operations '
            'over a 16-letter alphabet after a two-insert prefix (4368 cases) and 495 kernel reference-count sequences')
    exhaustive = {'quick': False, 'thorough': False}
    ops_field = 'ops'           # lib/vp/check.py shrink_case drops operations of a failing history
    trusted_base = [
        'C20: the RIB is abstracted to what distribute_update / ecmp_paths / the NHT calls read: per path (peer, session, path id, next hop, '
        'attribute-block identity, rank class, LLGR_STALE/NO_LLGR bits, route targets, filtered, next-hop-invalid); RibEntry::cmp is its '
        'projection on (llgr-stale, rank class, iBGP, stale, router id) with the rank class realised by LOCAL_PREF/AS_PATH length/ORIGIN '
        '(the comparator itself is property C02)',
        'C20: the reference counts of kernel/src/lib.rs run_service_loop are modelled (Model/Fib.v svc_run, proved equal to Spec ref_replay) and tied by '
        'harness/hx-kernel, which starts the real KernelService on an rtnetlink socket and observes the NexthopUpdate emitted when an address becomes watched; '
        'Handle::apply is modelled as "replace the next-hop set of (table, prefix); empty = withdraw; VPN NLRI ignored"; netlink and lookup_route are outside the model',
        'C20: hash-map iteration order (destinations, VRFs, shards) is not modelled; requests are compared per key (prefix / address) in order',
    ]
    assumptions = [
        'operations are sequential (the property quantifies over histories); insert_route reading nexthop_invalid before taking the shard lock is a schedule-dependent window not explored',
        'the kernel handle is installed before the history starts; no family is in restarting-speaker deferral (C11); no prefix limit (C15)',
        'peer-level operations name every family of the session (IPv4 unicast and VPNv4), as the GR glue does (C10)',
        'VRFs with a kernel table have distinct table ids and distinct VPN prefixes have distinct VRF-local prefixes (one RD)',
    ]

    # ---- rendering
    def case_to_val(self, c):
        if c.get('kind') == 'ref':
            return c['reqs']
        return [cfg_to_val(c['cfg']), c['shards'], [op_to_val(o) for o in c['ops']]]

    def case_to_coq(self, c):
        if c.get('kind') == 'ref':
            return 'run_ref %s' % clist(['(%s %s)' % ('Reg' if r[0] == 1 else 'Unreg', cN(r[1])) for r in c['reqs']])
        return 'run_case %s %s %s' % (os.environ.get('VERIF_C20_VARIANT', 'Fixed'), cfg_to_coq(c['cfg']),
                                      clist([op_to_coq(o) for o in c['ops']]))

    def case_to_json(self, c):
        return json.loads(json.dumps(c))

    def case_from_json(self, j):
        c = dict(j)
        if j.get('kind') == 'ref':
            return c
        ops = []
        for o in j['ops']:
            o = list(o)
            if o[0] in ('ins', 'rem'):
                o[3] = tuple(o[3])
            ops.append(tuple(o))
        c['ops'] = ops
        return c

    def corpus_cases(self):
        out = []
        d = os.path.join(os.path.dirname(os.path.dirname(os.path.abspath(__file__))), 'corpus', 'C20')
        for f in sorted(glob.glob(os.path.join(d, '*.json'))):
            out.append(self.case_from_json(json.load(open(f))['case']))
        return out

    # ---- generation
    def gen_ops(self, rng, n, flavour):
        ops = []
        peers = [1, 2, 3]
        prefixes = [(0, 1), (0, 2), (1, 1), (1, 2)]
        if flavour in ('plain', 'v6'):
            prefixes = [(0, 1), (0, 1), (0, 2)]
        elif flavour == 'vpn':
            prefixes = [(1, 1), (1, 1), (1, 2), (0, 1)]
        toks_tied = [0, 1, 3] if flavour != 'llgr' else [0, 1, 2, 6]
        live = []       # (peer, sess, prefix, pid) inserted so far
        sess = {1: 0, 2: 0, 3: 0, 0: 0}
        for _ in range(n):
            x = rng.random()
            if x < 0.42 or not live:
                peer = rng.choice(peers + ([0] if rng.random() < 0.15 else []))
                p = rng.choice(prefixes)
                pid = rng.choice([0, 0, 0, 1])
                nh = rng.choice([1, 2, 3, 1, 2, None]) if rng.random() < 0.9 else None
                if flavour == 'v6' or rng.random() < 0.2:
                    # IPv6 next hops in both wire forms, sharing the global addresses 101 / 102
                    nh = rng.choice([[1, 101], [2, 101, 1], [2, 101, 2], [1, 102], [2, 102, 1], [0, 1], None])
                r = rng.random()
                tok = rng.choice(toks_tied) if r < 0.7 else rng.choice([2, 4, 5, 6])
                if peer == 0:
                    sess[0] = rng.choice([0, 0, 1])       # gRPC-injected or kernel-redistributed pseudo-source
                ops.append(('ins', peer, sess[peer], p, pid, nh, tok))
                live.append((peer, sess[peer], p, pid))
            elif x < 0.60:
                peer, s, p, pid = rng.choice(live)
                if rng.random() < 0.1:
                    pid = 1 - pid if pid in (0, 1) else 0
                ops.append(('rem', peer, sess[peer], p, pid))
            elif x < 0.70:
                ops.append(('nhv', rng.choice([101, 101, 102, 1] if flavour == 'v6' else [1, 2, 3, 101]), rng.random() < 0.45))
            elif x < 0.75:
                ops.append((rng.choice(['drop', 'unreg']), rng.choice(peers)))
            elif x < 0.81:
                peer = rng.choice(peers)
                ops.append(('mstale', peer))
                sess[peer] = 1 - sess[peer] if rng.random() < 0.7 else sess[peer]   # reconnect with a fresh Source
            elif x < 0.85:
                ops.append(('dstale', rng.choice(peers)))
            elif x < 0.89:
                ops.append(('mllgr', rng.choice(peers)))
            elif x < 0.92:
                ops.append(('dllgr', rng.choice(peers)))
            elif x < 0.96:
                ops.append(('pol', rng.choice([0, 1, 2, 3])))
            else:
                ops.append(('reset', rng.choice(peers)))
        return ops

    def gen_cases(self, rng, tier):
        cases = []
        n = 1200 if tier == 'quick' else 12000
        for k in range(n):
            flavour = ['mixed', 'plain', 'vpn', 'llgr', 'v6', 'mixed'][k % 6]
            ln = rng.choice([2, 3, 4, 6, 8, 12, 16, 22, 28])
            ops = self.gen_ops(rng, ln, flavour)
            if k % 7 == 3:
                # soft reset after a policy change, the path that re-registers next hops
                ops += [('pol', rng.choice([1, 2, 3])), ('reset', rng.choice([1, 2, 3])), ('pol', 0), ('reset', rng.choice([1, 2]))]
            cases.append(dict(cfg=mk_cfg(k % 6), shards=1 + (k % 3), ops=ops))
        if tier == 'thorough':
            # every sequence of <= 3 operations over a 16-letter alphabet built around one prefix
            # with two tied paths, after a fixed two-insert prefix (exhaustive small space)
            import itertools
            P1 = (0, 1)
            al = [('ins', 1, 0, P1, 0, 1, 0), ('ins', 2, 0, P1, 0, 2, 1), ('ins', 3, 0, P1, 0, 1, 5), ('ins', 2, 0, P1, 0, None, 0),
                  ('ins', 2, 0, P1, 0, [2, 101, 1], 1), ('nhv', 101, False),
                  ('rem', 1, 0, P1, 0), ('rem', 2, 0, P1, 0), ('nhv', 1, False), ('nhv', 1, True), ('drop', 2),
                  ('mstale', 1), ('dstale', 1), ('mllgr', 2), ('pol', 3), ('reset', 2)]
            for d in (1, 2, 3):
                for seq in itertools.product(al, repeat=d):
                    cases.append(dict(cfg=mk_cfg(0), shards=2,
                                      ops=[('ins', 1, 0, P1, 0, 1, 0), ('ins', 3, 0, P1, 1, 3, 3)] + list(seq)))
        # request sequences for the reference counts of the kernel service task
        # (balanced, over-released and re-registered addresses; counts 0..3)
        nref = 200 if tier == 'quick' else 495
        for k in range(nref):
            ln = rng.choice([1, 2, 3, 5, 8, 12, 16])
            reqs = [[rng.choice([1, 1, 2]) if rng.random() < 0.6 else rng.choice([1, 2, 2]), rng.choice([1, 1, 2, 3])] for _ in range(ln)]
            cases.append(dict(kind='ref', reqs=reqs))
        return cases

    # ---- running
    def run_impl(self, cases, tier):
        hist = [k for k, c in enumerate(cases) if c.get('kind') != 'ref']
        refs = [k for k, c in enumerate(cases) if c.get('kind') == 'ref']
        out = [None] * len(cases)
        a, err = rustrun.daemon_test('C20', 'table_manager::verif_hx::verif_fib_cases', [self.case_to_val(cases[k]) for k in hist])
        if a is None:
            return None, err
        for k, o in zip(hist, a):
            out[k] = o
        if refs:
            b, err = rustrun.crate_bin('C20k', 'hx-kernel', '', [self.case_to_val(cases[k]) for k in refs])
            if b is None:
                return None, 'hx-kernel (real KernelService on a netlink socket): ' + err
            for k, o in zip(refs, b):
                out[k] = o
        return out, ''

    def run_model(self, cases, tier):
        pre = 'From RB Require Import Base.Val Model.Fib.\nOpen Scope N_scope.'
        return coqrun.eval_terms('C20', pre, [self.case_to_coq(c) for c in cases])

    def canon(self, case, obs):
        if obs == [-1] or case.get('kind') == 'ref':
            return obs
        out = []
        for reqs, view in obs:
            def key(r):
                if r[0] == 0:
                    return (0, r[1][0] if r[1] else -1, r[2][0], r[2][1], 0)
                return (1, r[1], 0, 0, r[0])        # per address: registrations before unregistrations
            rq = sorted(reqs, key=key)              # stable: per (table, prefix) the order of the Applies is kept
            out.append([rq, sorted(view, key=lambda d: d[0])])
        return out

    # ---- Spec oracle (python mirror of Spec/FibSpec.v), on the implementation's observations
    def oracle(self, c, obs):
        if c.get('kind') == 'ref':
            # the documented contract of register_nexthop / unregister_nexthop: reference counted,
            # an initial NexthopUpdate when an address becomes watched, no longer watched at zero
            if obs == [-1]:
                return 'the kernel service did not answer'
            cnt, want = {}, []
            for t, a in c['reqs']:
                if t == 1:
                    cnt[a] = cnt.get(a, 0) + 1
                    if cnt[a] == 1:
                        want.append(a)
                elif cnt.get(a, 0) > 0:
                    cnt[a] -= 1
            return None if obs == want else 'kernel service announced %s for the requests %s, the reference counts demand %s' % (obs, c['reqs'], want)
        if obs == [-1]:
            return 'panic'
        cfg = c['cfg']
        pinfo = {p: (r, i) for p, r, i in cfg['peers']}
        pinfo[0] = (0, 1)
        ainfo = {t: (p, l, n, r) for t, p, l, n, r in cfg['attrs']}
        fib, ref = {}, {}
        unreach = set()
        for k, (o, (reqs, view)) in enumerate(zip(c['ops'], obs)):
            if o[0] == 'nhv':
                (unreach.discard if o[2] else unreach.add)(o[1])
            replay(reqs, fib, ref)
            want_fib = {}
            cnt = {}
            for net, allp, el in view:
                net = tuple(net)
                for peer, sess, pid, nh, tok, unf in allp:
                    if peer != 0 and nh:
                        cnt[nh[0][1]] = cnt.get(nh[0][1], 0) + 1
                # (3) unreachable next hops are excluded from selection, reachable ones are not
                sel = sorted([e[0], e[1], e[2], e[3]] for e in el)
                exp = sorted([p[0], p[1], p[3], p[4]] for p in allp if p[5] and not (p[3] and p[3][0][1] in unreach))
                if sel != exp:
                    return 'step %d: %s selectable paths %s but the unfiltered paths with a reachable next hop are %s' % (k, list(net), sel, exp)
                if not el:
                    continue
                def skey(e):
                    peer, sess, nh, tok, stale, llgr = e
                    return (1 if (llgr or ainfo[tok][1]) else 0, ainfo[tok][0], pinfo.get(peer, (peer, 0))[1], stale)
                m = min(skey(e) for e in el)
                ecmp = [e for e in el if skey(e) == m]
                nhs = sorted(set(e[2][0][1] for e in ecmp if e[2]))
                if net[0] == 0:
                    want_fib[(None, net)] = nhs
                else:
                    # the best path: minimal under the full order; ties on the router id as well are left to the implementation
                    fk = lambda e: skey(e) + (pinfo.get(e[0], (e[0], 0))[0],)
                    mf = min(fk(e) for e in el)
                    bests = [e for e in el if fk(e) == mf]
                    for tid, imp in cfg['vrfs']:
                        if tid == 0:
                            continue
                        oks = set(bool(set(ainfo[b[3]][3]) & set(imp)) for b in bests)
                        if len(oks) == 1:
                            want_fib[(tid, (2, net[1]))] = nhs if oks.pop() else []
                        else:
                            want_fib[(tid, (2, net[1]))] = None
            # (1) replayed FIB = ECMP next-hop set, for every prefix and VRF table
            for key in set(fib) | set(want_fib):
                w = want_fib.get(key, [])
                if w is None:
                    continue
                got = sorted(set(fib.get(key, [])))
                if got != w:
                    return 'step %d: FIB table %s prefix %s holds next hops %s, the best path and its ties have %s' % (k, key[0], list(key[1]), got, w)
            # (2) outstanding registrations = peer-learned paths using the address
            for a in set(ref) | set(cnt):
                if ref.get(a, 0) != cnt.get(a, 0):
                    return 'step %d: %d registrations outstanding for next hop %d, %d peer-learned paths use it' % (k, ref.get(a, 0), a, cnt.get(a, 0))
        return None

    def in_known_class(self, kf, c, obs, why):
        return False

    def nontrivial_key(self, c, obs):
        if c.get('kind') == 'ref':
            return ('ref', json.dumps(c['reqs'])) if obs != [-1] and len(obs) >= 2 else None
        if obs == [-1]:
            return None
        fl = [tuple(map(str, r)) for reqs, _ in self.canon(c, obs) for r in reqs]
        multi = any(r[0] == 0 and len(r[3]) >= 2 for reqs, _ in obs for r in reqs)
        seen, wd = set(), False
        for reqs, _ in obs:
            for r in reqs:
                if r[0] == 0:
                    k = (str(r[1]), tuple(r[2]))
                    if r[3]:
                        seen.add(k)
                    elif k in seen:
                        wd = True
        if multi or wd:
            return (json.dumps(c['cfg'], sort_keys=True), tuple(fl))
        return None

    def classify(self, c, obs):
        if c.get('kind') == 'ref':
            return ['kernel_refcount_sequence']
        tags = ['len_%s' % ('1-4' if len(c['ops']) <= 4 else '5-12' if len(c['ops']) <= 12 else '13+'), 'shards_%d' % c['shards']]
        for o in c['ops']:
            tags.append('op_' + o[0])
        if obs != [-1]:
            if any(r[0] == 0 and len(r[3]) >= 2 for reqs, _ in obs for r in reqs): tags.append('ecmp_install')
            if any(r[0] == 0 and r[1] for reqs, _ in obs for r in reqs): tags.append('vrf_request')
            if any(r[0] == 2 for reqs, _ in obs for r in reqs): tags.append('unregister')
            if any(len(a) != len(e) for _, view in obs for _, a, e in view): tags.append('ineligible_path_present')
        return sorted(set(tags))
