"""RIB-core cases (properties C02, C06, C15): generation, rendering to the
hx-rib harness and to Gallina, canonicalisation, and a reference RIB written
from the property texts (a set of paths per prefix, ranked by the stated
decision order) against which the implementation's observations are judged."""
import itertools, json
from vp import val, coqrun, rustrun
from vp.val import cN, cbool, clist, cpair, copt

ROLES = {0: 'ebgp', 1: 'rsclient', 2: 'ibgp', 3: 'rrclient', 4: 'confed'}

def mk_attr(tok, lp=None, segs=None, origin=None, clen=None, oid=None, llgr=False, nollgr=False, mm=None, orig=None):
    """orig: token of the attribute block as received (original_attr) when import policy replaced it"""
    return dict(tok=tok, lp=lp, segs=segs, origin=origin, clen=clen, oid=oid, llgr=llgr, nollgr=nollgr, mm=mm, orig=orig)

def orig_tok(a):
    return a.get('orig') if a.get('orig') is not None else a['tok']

def src_val(s): return list(s)
def attr_val(a):
    o = lambda x: [] if x is None else [x]
    return [a['tok'], o(a['lp']), o(None if a['segs'] is None else [list(x) for x in a['segs']]), o(a['origin']),
            o(a['clen']), o(a['oid']), 1 if a['llgr'] else 0, 1 if a['nollgr'] else 0, o(a['mm']), orig_tok(a)]

def op_val(o):
    t = o[0]
    o_ = lambda x: [] if x is None else [x]
    if t == 'ins':
        _, s, net, rpid, nh, a, filt, nhinv, lim = o
        return [0, src_val(s), net, rpid, o_(nh), attr_val(a), int(filt), int(nhinv), o_(None if lim is None else list(lim))]
    if t == 'rem':
        _, s, net, rpid, ctr = o
        return [1, src_val(s), net, rpid, o_(ctr)]
    if t == 'drop':
        _, kind, addr, ctr = o
        return [2, kind, addr, o_(ctr)]
    if t == 'restale':
        return [3, int(o[1]), o[2]]
    if t == 'nhv':
        return [4, o[1], int(o[2])]
    if t == 'startdef': return [5]
    if t == 'enddef': return [6]
    if t == 'odef': return [8, int(o[1])]
    if t == 'sync': return [7, o[1], o[2]]
    raise ValueError(o)

def c_src(s): return '{| s_tok := %s; s_addr := %s; s_rid := %s; s_role := %s |}' % tuple(cN(x) for x in s)
def c_attr(a):
    on = lambda x: copt(None if x is None else cN(x))
    segs = copt(None if a['segs'] is None else clist([cpair(cN(t), cN(n)) for t, n in a['segs']]))
    return ('{| a_tok := %s; a_lp := %s; a_segs := %s; a_origin := %s; a_clen := %s; a_oid := %s; '
            'a_llgr := %s; a_nollgr := %s; a_mm := %s; a_orig := %s |}') % (
        cN(a['tok']), on(a['lp']), segs, on(a['origin']), on(a['clen']), on(a['oid']),
        cbool(a['llgr']), cbool(a['nollgr']), on(a['mm']), cN(orig_tok(a)))

DK = ['DKAll', 'DKStale', 'DKLlgr', 'DKNoLlgr']
def op_coq(o):
    t = o[0]
    on = lambda x: copt(None if x is None else cN(x))
    if t == 'ins':
        _, s, net, rpid, nh, a, filt, nhinv, lim = o
        return '(Insert %s %s %s %s %s %s %s %s)' % (c_src(s), cN(net), cN(rpid), on(nh), c_attr(a), cbool(filt), cbool(nhinv),
                                                  copt(None if lim is None else cpair(cN(lim[0]), cN(lim[1]))))
    if t == 'rem':
        _, s, net, rpid, ctr = o
        return '(Remove %s %s %s %s)' % (c_src(s), cN(net), cN(rpid), on(ctr))
    if t == 'drop':
        return '(Drop %s %s %s)' % (DK[o[1]], cN(o[2]), on(o[3]))
    if t == 'restale':
        return '(Restale %s %s)' % (cbool(o[1]), cN(o[2]))
    if t == 'nhv':
        return '(NhValidity %s %s)' % (cN(o[1]), cbool(o[2]))
    if t == 'startdef': return 'StartDeferral'
    if t == 'enddef': return 'EndDeferral'
    # the deferral of ANOTHER family starts / ends: nothing happens in the (one-family) model -- rendered as the
    # reachability report of a next hop no path uses
    if t == 'odef': return '(NhValidity 4094 true)'
    raise ValueError(o)

def case_val(c):
    return [c['shard'], c['addrs'], c['ctrs'], int(c['evpn']), [op_val(o) for o in c['ops']]]

def case_coq(c):
    return 'run_case %s %s %s %s' % (cN(c['shard']), clist([cN(x) for x in c['addrs']]),
                                    clist([cN(x) for x in c['ctrs']]), clist([op_coq(o) for o in c['ops']]))

PRE = 'From RB Require Import Base.Val Model.Rib.\nOpen Scope N_scope.'

def run_impl(name, cases, release=False):
    return rustrun.crate_bin(name, 'hx-rib', 'rib', [case_val(c) for c in cases], release=release)

def run_model(name, cases):
    return coqrun.eval_terms(name, PRE, [case_coq(c) for c in cases])

# histories with the session glue (Model/RibSession.v): ('sync', counter, addr) sets a session's
# prefix-limit counter to the number of prefixes the RIB holds from the peer
SPRE = 'From RB Require Import Base.Val Model.Rib Model.RibSession.\nOpen Scope N_scope.'

def sop_coq(o):
    if o[0] == 'sync':
        return '(Sync %s %s)' % (cN(o[1]), cN(o[2]))
    return '(Tbl %s)' % op_coq(o)

def scase_coq(c):
    return 'run_scase %s %s %s %s' % (cN(c['shard']), clist([cN(x) for x in c['addrs']]),
                                      clist([cN(x) for x in c['ctrs']]), clist([sop_coq(o) for o in c['ops']]))

def run_smodel(name, cases):
    return coqrun.eval_terms(name, SPRE, [scase_coq(c) for c in cases])

def add_syncs(ops):
    """the repaired caller discipline of the daemon: a session (Source token) that starts acting for a
    peer first synchronises its counter with the RIB, and does so again after a purge of the peer's
    routes that ran without the counter; Table::drop ends the peer's session"""
    out = []
    cur = {}
    for o in ops:
        if o[0] in ('ins', 'rem'):
            tok, addr = o[1][0], o[1][1]
            uses = (o[8] is not None) if o[0] == 'ins' else (o[4] is not None)
            if uses and cur.get(addr) != tok:
                out.append(('sync', tok, addr)); cur[addr] = tok
        if o[0] == 'drop' and o[1] != 0 and o[3] is not None and cur.get(o[2]) != o[3]:
            out.append(('sync', o[3], o[2])); cur[o[2]] = o[3]
        out.append(o)
        if o[0] == 'drop' and o[1] == 0:
            cur.pop(o[2], None)
        if o[0] == 'drop' and o[1] != 0 and o[3] is None and o[2] in cur:
            out.append(('sync', cur[o[2]], o[2]))
    return out

def case_to_json(c):
    return json.loads(json.dumps(c))

def case_from_json(j):
    def fix_op(o):
        o = list(o)
        if o[0] == 'ins':
            o[1] = tuple(o[1])
            if o[5]['segs'] is not None:
                o[5]['segs'] = [tuple(x) for x in o[5]['segs']]
            if o[8] is not None:
                o[8] = tuple(o[8])
        if o[0] == 'rem':
            o[1] = tuple(o[1])
        return tuple(o)
    c = dict(j)
    c['ops'] = [fix_op(o) for o in j['ops']]
    return c

# ---------------------------------------------------------------- canonical form
def canon_obs(obs):
    """hash-map ordered collections sorted by prefix; destination ids are
    renamed by first appearance in the run (uniqueness is checked by the oracle,
    the numbering policy is not part of any property)"""
    if obs and obs[0] == -1:
        return obs
    out = []
    for step in obs:
        chs, lim, st = step
        loc, dests, tstate, stats, ctrs, bad, rsl = st[:7]
        views = st[7] if len(st) > 7 else [[], [], []]
        # destination ids: only the id<->prefix relation of the step is compared
        rel = {}
        for c in list(chs) + list(loc):
            rel.setdefault(c[1], set()).add(c[0])
        nets_of = {}
        for i, ns in rel.items():
            for n in ns:
                nets_of.setdefault(n, set()).add(i)
        if all(len(v) == 1 for v in rel.values()) and all(len(v) == 1 for v in nets_of.values()):
            chs = [[c[0], 0] + c[2:] for c in chs]
            loc = [[c[0], 0] + c[2:] for c in loc]
        out.append([sorted(chs, key=lambda c: c[0]), lim,
                    [sorted(loc, key=lambda c: c[0]), sorted(dests, key=lambda d: d[0]), tstate, stats, ctrs, bad,
                     [[a, sorted(per, key=lambda x: x[0])] for a, per in rsl],
                     [sorted(views[0], key=lambda x: x[0]), sorted(views[1], key=lambda x: x[0]),
                      [[a, sorted(per, key=lambda x: x[0])] for a, per in views[2]]]]])
    return out

# ------------------------------------------------------------- reference RIB
def hops(a):
    if a['segs'] is None: return 0
    n = 0
    for t, k in a['segs']:
        if t == 1: n += 1
        elif t == 2: n += k
    return n

class RefRib:
    """What the property texts say the RIB holds: per prefix a set of paths keyed
    by (peer address, path id); ranking by the decision order of C02."""
    def __init__(self):
        self.paths = {}          # net -> {(addr, rpid): dict(src, attr, nh, filtered, nhinv)}
        self.stale = set()       # source tokens
        self.llgr = set()
        self.deferring = False
        self.announced = set()

    def key_before_rid(self, net, p):
        a = p['attr']; s = p['src']
        llgr = (s[0] in self.llgr) or a['llgr']
        k = []
        if net >= 1000:
            k += [0 if a['mm'] is not None else 1, -(a['mm'] or 0)]
        k += [1 if llgr else 0,
              -(a['lp'] if a['lp'] is not None else 100),
              hops(a),
              a['origin'] if a['origin'] is not None else 2,
              0 if s[3] in (0, 1) else 1,
              1 if s[0] in self.stale else 0,
              a['clen'] or 0]
        return k

    def key(self, net, p):
        a = p['attr']; s = p['src']
        return self.key_before_rid(net, p) + [a['oid'] if a['oid'] is not None else s[2]]

    def eligible(self, p): return not p['filtered'] and not p['nhinv']

    def apply(self, o):
        t = o[0]
        if t == 'ins':
            _, s, net, rpid, nh, a, filt, nhinv, lim = o
            self.paths.setdefault(net, {})[(s[1], rpid)] = dict(src=s, attr=a, nh=nh, filtered=filt, nhinv=nhinv, rpid=rpid)
        elif t == 'rem':
            _, s, net, rpid, ctr = o
            d = self.paths.get(net, {})
            d.pop((s[1], rpid), None)
        elif t == 'drop':
            _, kind, addr, ctr = o
            for net, d in self.paths.items():
                for k in list(d):
                    p = d[k]
                    if p['src'][1] != addr: continue
                    if kind == 0 or (kind == 1 and p['src'][0] in self.stale) or \
                       (kind == 2 and p['src'][0] in self.llgr) or \
                       (kind == 3 and p['attr']['nollgr']):
                        del d[k]
        elif t == 'restale':
            _, llgr, addr = o
            for d in self.paths.values():
                for p in d.values():
                    if p['src'][1] == addr:
                        (self.llgr if llgr else self.stale).add(p['src'][0])
        elif t == 'nhv':
            _, nh, reach = o
            for d in self.paths.values():
                for p in d.values():
                    if p['nh'] == nh:
                        p['nhinv'] = not reach
        elif t == 'startdef':
            self.deferring = True
        elif t == 'enddef':
            self.deferring = False
        elif t == 'odef':
            pass        # another family's deferral
        for net in list(self.paths):
            if not self.paths[net]:
                del self.paths[net]

    def undo_insert(self, o, prev):
        """a PrefixLimitExceeded insert installs nothing"""
        _, s, net, rpid = o[:4]
        if prev is None:
            self.paths.get(net, {}).pop((s[1], rpid), None)
            if net in self.paths and not self.paths[net]:
                del self.paths[net]
        else:
            self.paths.setdefault(net, {})[(s[1], rpid)] = prev

# ---------------------------------------------------------------- generation
def attr_pool(rng, evpn, n=6, long_paths=False):
    pool = []
    for k in range(n):
        segs = None
        x = rng.random()
        if x < 0.75:
            segs = []
            for _ in range(rng.choice([0, 1, 1, 2, 3])):
                segs.append((rng.choice([1, 2, 2, 2, 3, 4]), rng.choice([0, 1, 1, 2, 2, 3])))
        if long_paths and rng.random() < 0.5:
            segs = [(2, 255), (2, rng.choice([0, 1, 2, 255])), (rng.choice([1, 2, 3]), rng.choice([1, 145, 255]))]
        pool.append(mk_attr(100 + k,
                            lp=rng.choice([None, 100, 100, 200, 50]),
                            segs=segs,
                            origin=rng.choice([None, 0, 0, 1, 2]),
                            clen=rng.choice([None, None, 0, 1, 2]),
                            oid=rng.choice([None, None, 5, 9, 20]),
                            llgr=rng.random() < 0.12,
                            nollgr=rng.random() < 0.15,
                            mm=(rng.choice([None, 1, 2, 2, 7]) if evpn else None),
                            orig=(1100 + k if k % 3 == 1 else None)))
    return pool

# sources: (tok, addr, rid, role); tokens 11..13 are a second session of peers 1..3
def sources(rng):
    roles = [rng.choice([0, 0, 1, 2, 2, 3, 4]) for _ in range(3)]
    rids = [rng.choice([5, 9, 9, 20]) for _ in range(3)]
    s = {}
    for i in range(3):
        for g in range(6):
            s[i + 1 + 10 * g] = (i + 1 + 10 * g, i + 1, rids[i], roles[i])
    return s

def gen_history(rng, n_ops, evpn=False, long_paths=False, limits=False, deferral=False, weights=None):
    pool = attr_pool(rng, evpn, long_paths=long_paths)
    srcs = sources(rng)
    nets = [1000, 1001] if evpn else [1, 2, 3]
    live_tok = {1: 1, 2: 2, 3: 3}          # current session token per peer address
    maxes = {a: rng.choice([0, 1, 2, 2, 3, 5]) for a in (1, 2, 3)}
    ops = []
    w = weights or dict(ins=10, rem=3, drop=1, dropk=2, restale=2, nhv=2, reconnect=1, deferral=1 if deferral else 0)
    kinds = [k for k, v in w.items() for _ in range(v)]
    for _ in range(n_ops):
        k = rng.choice(kinds)
        addr = rng.choice([1, 1, 2, 3])
        tok = live_tok[addr]
        s = srcs[tok]
        lim = (maxes[addr], tok) if limits else None
        ctr = tok if limits else None
        if k == 'ins':
            ops.append(('ins', s, rng.choice(nets), rng.choice([0, 0, 0, 1, 2]), rng.choice([None, 1, 1, 2, 3]),
                        rng.choice(pool), rng.random() < 0.2, rng.random() < 0.1, lim))
        elif k == 'rem':
            ops.append(('rem', s, rng.choice(nets), rng.choice([0, 0, 0, 1, 2]), ctr))
        elif k == 'drop':
            # the session ends: its counter dies with it, the peer comes back with a new Source
            ops.append(('drop', 0, addr, None))
            live_tok[addr] = live_tok[addr] + 10 if live_tok[addr] + 10 < 60 else live_tok[addr]
        elif k == 'dropk':
            ops.append(('drop', rng.choice([1, 2, 3]), addr, ctr))
        elif k == 'restale':
            ops.append(('restale', rng.random() < 0.4, addr))
        elif k == 'nhv':
            ops.append(('nhv', rng.choice([1, 2, 3]), rng.random() < 0.5))
        elif k == 'reconnect':
            # the peer's session restarts: later operations of this peer use a new Source
            if live_tok[addr] + 10 < 60:
                live_tok[addr] = live_tok[addr] + 10
        elif k == 'deferral':
            # start_deferral is a start-up operation (empty family): it is generated
            # only as the first operation; end_deferral anywhere
            ops.append(('enddef',))
    if deferral and rng.random() < 0.8:
        ops.insert(0, ('startdef',))
    return dict(shard=rng.choice([0, 0, 1, 3]), addrs=[1, 2, 3], ctrs=[a + 10 * g for g in range(6) for a in (1, 2, 3)], evpn=evpn, ops=ops)
