"""C19: generators, renderers, independent structural readers (RFC 7854 / RFC 6396) and
Spec oracle for the BMP / MRT record encoders.

A case is one *session*: a list of messages/records pushed through ONE codec into ONE
buffer (as tokio's Framed sink / the MRT dumper do).  The BGP encoder is outside this
property (C04): the harness prints, next to the record bytes, the reference encoding of
every embedded BGP message (`PeerCodec::encode_to` on a fresh codec whose only
negotiated feature is the add-path setting of the record); the model takes those byte
strings as its opaque parameter.  The oracle reads the implementation's bytes with the
python readers below, and judges the embedded PDUs through the repository's own BGP
parser (harness mode `parse`).
"""
import json, os, resource
from vp import val, coqrun, rustrun
from vp.val import cN, cbool, clist, cpair
from gen.common import IPV4, IPV6
IPV4_MC = (1 << 16) | 2
IPV6_MC = (2 << 16) | 2

MARKER = [255] * 16

# coqc reads back 65536-element lists (the u16 truncation boundary cases) recursively:
# give the child processes of this check the hard stack limit instead of the 8 MB default.
try:
    _soft, _hard = resource.getrlimit(resource.RLIMIT_STACK)
    resource.setrlimit(resource.RLIMIT_STACK, (_hard, _hard))
except (ValueError, OSError):
    pass

# ------------------------------------------------------------------ byte helpers

def be(k, n):
    return [(n >> (8 * (k - 1 - i))) & 255 for i in range(k)]

def dec(bs):
    n = 0
    for b in bs:
        n = n * 256 + b
    return n

def expand(v):
    """the compact list form [-1, n, x] of the harness (n copies of x)"""
    if isinstance(v, list) and len(v) == 3 and v[0] == -1:
        return [v[2]] * v[1]
    return v

class Bad(Exception):
    pass

class Rd:
    """cursor over a byte list; every read checks bounds"""
    def __init__(self, bs, pos=0, end=None):
        self.bs, self.pos, self.end = bs, pos, len(bs) if end is None else end
    def left(self):
        return self.end - self.pos
    def take(self, n, what=''):
        if n < 0 or self.pos + n > self.end:
            raise Bad('truncated %s: need %d bytes, %d left' % (what, n, self.left()))
        r = self.bs[self.pos:self.pos + n]
        self.pos += n
        return r
    def num(self, k, what=''):
        return dec(self.take(k, what))

def split_frames(blob):
    """BGP frames in a byte string (RFC 4271 4.1): marker, length >= 19 covering the frame"""
    out, r = [], Rd(blob)
    while r.left() > 0:
        start = r.pos
        if r.take(16, 'marker') != MARKER:
            raise Bad('BGP marker is not all ones')
        n = r.num(2, 'BGP length')
        if n < 19:
            raise Bad('BGP length %d < 19' % n)
        r.pos = start
        out.append(r.take(n, 'BGP frame'))
    return out

def read_pdu(r, ty, what):
    start = r.pos
    if r.take(16, what + ' marker') != MARKER:
        raise Bad(what + ': BGP marker is not all ones')
    n = r.num(2, what + ' length')
    if n < 19:
        raise Bad('%s: BGP length %d < 19' % (what, n))
    t = r.num(1, what + ' type')
    if t != ty:
        raise Bad('%s: BGP message type %d, expected %d' % (what, t, ty))
    r.pos = start
    return r.take(n, what)

# ------------------------------------------------------------------ BMP reader (RFC 7854)

def read_peer(r):
    return dict(type=r.num(1, 'peer type'), flags=r.num(1, 'peer flags'), dist=r.num(8, 'distinguisher'),
                addr=r.take(16, 'peer address'), asn=r.num(4, 'peer AS'), id=r.take(4, 'peer BGP ID'),
                sec=r.num(4, 'timestamp'), usec=r.num(4, 'timestamp us'))

def read_tlvs(r):
    out = []
    while r.left() > 0:
        t = r.num(2, 'TLV type'); l = r.num(2, 'TLV length')
        out.append((t, r.take(l, 'TLV value')))
    return out

def read_bmp(bs, pos):
    """one BMP message at bs[pos:] -> (view, next pos)"""
    h = Rd(bs, pos)
    ver = h.num(1, 'version')
    if ver != 3:
        raise Bad('BMP version %d' % ver)
    ln = h.num(4, 'message length'); ty = h.num(1, 'message type')
    if ln < 6:
        raise Bad('message length %d < 6' % ln)
    if pos + ln > len(bs):
        raise Bad('message length %d exceeds the %d bytes that follow the header start' % (ln, len(bs) - pos))
    r = Rd(bs, pos + 6, pos + ln)
    v = dict(ty=ty, len=ln)
    if ty == 0:
        v['peer'] = read_peer(r)
        v['pdus'] = [read_pdu(r, 2, 'Route Monitoring UPDATE')]
        if r.left():
            raise Bad('Route Monitoring: %d bytes after the single BGP UPDATE PDU' % r.left())
    elif ty == 2:
        v['peer'] = read_peer(r)
        reason = v['reason'] = r.num(1, 'reason')
        v['pdus'] = []
        if reason in (1, 3):
            v['pdus'] = [read_pdu(r, 3, 'Peer Down NOTIFICATION')]
        elif reason == 2:
            v['fsm'] = r.num(2, 'FSM event code')
        elif reason not in (4, 5):
            raise Bad('Peer Down reason %d' % reason)
        if r.left():
            raise Bad('Peer Down: %d trailing bytes' % r.left())
    elif ty == 3:
        v['peer'] = read_peer(r)
        v['laddr'] = r.take(16, 'local address'); v['lport'] = r.num(2, 'local port'); v['rport'] = r.num(2, 'remote port')
        v['pdus'] = [read_pdu(r, 1, 'Peer Up sent OPEN'), read_pdu(r, 1, 'Peer Up received OPEN')]
        v['info'] = read_tlvs(r)
    elif ty == 4:
        v['info'] = read_tlvs(r)
    else:
        raise Bad('message type %d is not one the daemon emits' % ty)
    return v, pos + ln

def read_bmp_stream(bs, pos):
    out = []
    while pos < len(bs):
        v, pos = read_bmp(bs, pos)
        out.append(v)
    return out

# ------------------------------------------------------------------ MRT reader (RFC 6396, RFC 8050)

def read_mrt(bs, pos):
    """one MRT record at bs[pos:] -> (view, next pos)"""
    h = Rd(bs, pos)
    ts = h.num(4, 'timestamp'); ty = h.num(2, 'type'); sub = h.num(2, 'subtype'); ln = h.num(4, 'length')
    if pos + 12 + ln > len(bs):
        raise Bad('record length %d exceeds the %d bytes that follow the header' % (ln, len(bs) - pos - 12))
    r = Rd(bs, pos + 12, pos + 12 + ln)
    v = dict(ts=ts, ty=ty, sub=sub, len=ln)
    if ty == 16 and sub in (4, 8, 1, 9):
        as4 = sub in (4, 8)
        v['addpath'] = sub in (8, 9)
        v['peer_as'] = r.num(4 if as4 else 2, 'peer AS'); v['local_as'] = r.num(4 if as4 else 2, 'local AS')
        v['ifidx'] = r.num(2, 'interface index'); v['afi'] = r.num(2, 'address family')
        if v['afi'] not in (1, 2):
            raise Bad('BGP4MP address family %d' % v['afi'])
        n = 4 if v['afi'] == 1 else 16
        v['peer_ip'] = r.take(n, 'peer IP'); v['local_ip'] = r.take(n, 'local IP')
        start = r.pos
        if r.take(16, 'BGP marker') != MARKER:
            raise Bad('BGP4MP: BGP marker is not all ones (the local address is missing or of the wrong size?)')
        bl = r.num(2, 'BGP length')
        if bl < 19:
            raise Bad('BGP4MP: BGP length %d < 19' % bl)
        r.pos = start
        v['pdus'] = [r.take(bl, 'BGP message')]
        if r.left():
            raise Bad('BGP4MP: %d bytes after the single BGP message' % r.left())
    elif ty == 13 and sub == 1:
        v['collector'] = r.take(4, 'collector BGP ID')
        v['view_name'] = r.take(r.num(2, 'view name length'), 'view name')
        cnt = r.num(2, 'peer count')
        v['count'] = cnt
        peers = []
        for k in range(cnt):
            pt = r.num(1, 'peer type')
            pid = r.take(4, 'peer BGP ID')
            ip = r.take(16 if pt & 1 else 4, 'peer IP')
            asn = r.num(4 if pt & 2 else 2, 'peer AS')
            peers.append((pt, pid, ip, asn))
        v['peers'] = peers
        if r.left():
            raise Bad('PEER_INDEX_TABLE: %d bytes after the %d peer entries announced' % (r.left(), cnt))
    elif ty == 13 and sub in (2, 4):
        v['seq'] = r.num(4, 'sequence')
        pl = v['plen'] = r.num(1, 'prefix length')
        if pl > (32 if sub == 2 else 128):
            raise Bad('prefix length %d' % pl)
        v['prefix'] = r.take((pl + 7) // 8, 'prefix')
        cnt = v['count'] = r.num(2, 'entry count')
        es = []
        for k in range(cnt):
            idx = r.num(2, 'peer index'); orig = r.num(4, 'originated time')
            al = r.num(2, 'attribute length')
            es.append((idx, orig, r.take(al, 'attributes')))
        v['entries'] = es
        if r.left():
            raise Bad('RIB record: %d bytes after the %d entries announced' % (r.left(), cnt))
    else:
        raise Bad('MRT type %d subtype %d is not one the daemon emits' % (ty, sub))
    return v, pos + 12 + ln

def read_mrt_stream(bs, pos):
    out = []
    while pos < len(bs):
        v, pos = read_mrt(bs, pos)
        out.append(v)
    return out

def read_attrs(bs):
    """path attributes (RFC 4271 4.3): [(flags, code, value)]"""
    r, out = Rd(bs), []
    while r.left() > 0:
        fl = r.num(1, 'attr flags'); code = r.num(1, 'attr type')
        ln = r.num(2 if fl & 0x10 else 1, 'attr length')
        out.append((fl, code, r.take(ln, 'attr value')))
    return out

# ------------------------------------------------------------------ value domains

V4S = [[10, 0, 0, 1], [192, 0, 2, 1], [0, 0, 0, 0], [255, 255, 255, 255], [172, 16, 254, 3]]
V6S = [[0x20, 1, 0x0d, 0xb8] + [0] * 11 + [1], [0xfe, 0x80] + [0] * 13 + [2], [0] * 12 + [10, 0, 0, 1],
       [0] * 16, [255] * 16, [0x20, 1, 0x0d, 0xb8, 0, 1, 0, 2, 0, 3, 0, 4, 0, 5, 0, 6]]
ASNS = [0, 1, 23456, 65001, 65535, 65536, 4200000000, 2 ** 32 - 1]
U32S = [0, 1, 255, 256, 65535, 65536, 1700000000, 2 ** 31, 2 ** 32 - 1]
U16S = [0, 1, 179, 255, 256, 40000, 65535]
DISTS = [0, 1, 2 ** 32, 2 ** 64 - 1]
DAEMON_FLAGS = [0, 0x40, 0x10, 0x50]
CAPS = [
    [],
    [[1, IPV4], [65, 65001]],
    [[1, IPV4], [1, IPV6], [2], [69, [[IPV4, 3], [IPV6, 1]]], [65, 4200000000]],
    [[1, IPV6], [64, 8, 120, [[IPV6, 128]]], [6], [70], [0, 99, [1, 2, 3]]],
]
ATTRSETS = [
    [[0, 1, 0], [1, 2, [2, 1, 0, 0, 253, 233]]],
    [[0, 1, 2], [1, 2, [2, 2, 0, 0, 253, 233, 0, 1, 0, 0]], [0, 4, 77], [0, 5, 200], [1, 8, [255, 255, 255, 1, 0, 1, 0, 2]]],
    [[0, 1, 1], [1, 2, []], [2, 99, 0xc0, [1, 2, 3, 4, 5]], [1, 32, [0, 0, 0, 1, 0, 0, 0, 2, 0, 0, 0, 3]]],
    [[0, 1, 0], [1, 2, [2, 1, 0, 0, 253, 233]], [1, 8, [-1, 300, 7]]],     # extended-length attribute, block > 255 bytes
]

def pick(rng, l):
    return l[rng.randrange(len(l))]

def gen_ip(rng, v6=None):
    if v6 is None:
        v6 = rng.random() < 0.45
    if rng.random() < 0.7:
        return list(pick(rng, V6S if v6 else V4S))
    return [rng.randrange(256) for _ in range(16 if v6 else 4)]

def gen_pph(rng, daemon=True):
    return [pick(rng, [0, 0, 0, 3]), pick(rng, DAEMON_FLAGS) if daemon else pick(rng, [0x80, 0xc0, 0xff, 1]),
            pick(rng, ASNS), pick(rng, V4S), pick(rng, DISTS), gen_ip(rng), pick(rng, U32S)]

def gen_nlri(rng, v6, mask=None):
    if mask is None:
        mask = pick(rng, [0, 1, 7, 8, 9, 16, 24, 31, 32] + ([33, 48, 64, 127, 128] if v6 else []))
    n = 16 if v6 else 4
    nb = (mask + 7) // 8
    addr = [rng.randrange(256) for _ in range(nb)] + [0] * (n - nb)
    return [1 if v6 else 0, mask, addr]

def gen_entries(rng, v6, n, addpath):
    seen, out = set(), []
    while len(out) < n:
        if n > 50:
            # many distinct host routes: what makes encode_to split
            k = len(out)
            addr = ([0x20, 1] + [0] * 10 + be(4, k)) if v6 else [10] + be(3, k)
            e = [rng.randrange(3) if addpath else 0, [1 if v6 else 0, 128 if v6 else 32, addr]]
        else:
            e = [pick(rng, [0, 1, 2, 2 ** 32 - 1]) if addpath else 0, gen_nlri(rng, v6)]
        key = json.dumps(e)
        if key not in seen:
            seen.add(key); out.append(e)
    return out

def gen_nexthop(rng, v6):
    x = rng.random()
    if v6:
        if x < 0.6: return [list(pick(rng, V6S[:2] + V6S[5:]))]
        return [list(V6S[0]) + list(V6S[1])]   # global + link-local
    return [list(pick(rng, V4S[:2] + V4S[4:]))]

def gen_update(rng, big=False):
    """-> (msg spec, addpath)"""
    v6 = rng.random() < 0.45
    fam = IPV6 if v6 else IPV4
    addpath = rng.random() < 0.35
    x = rng.random()
    n = pick(rng, [1, 1, 1, 2, 3, 5])
    if big:
        n = pick(rng, [600, 700, 820, 1300] if not v6 else [230, 260, 500])
    if x < 0.6:
        # RFC 8950: an IPv4 route may have an IPv6 next hop (finding C19-3)
        nh = gen_nexthop(rng, True if (not v6 and not big and rng.random() < 0.06) else v6)
        return [2, 0, fam, gen_entries(rng, v6, n, addpath), nh, pick(rng, ATTRSETS)], addpath
    if x < 0.85:
        return [2, 1, fam, gen_entries(rng, v6, n, addpath)], addpath
    return [2, 2, fam], addpath

def gen_open(rng):
    caps = pick(rng, CAPS)
    asn = pick(rng, [65001, 65535, 1, 64512])
    for c in caps:
        if c[0] == 65:
            asn = c[1]
    return [1, asn, pick(rng, [0, 3, 90, 65535]), dec(pick(rng, V4S[:2] + V4S[4:])), caps]

def gen_notif(rng):
    return pick(rng, [[3, 6, 2, []], [3, 3, 5, [1, 2, 3]], [3, 4, 0, []], [3, 2, 7, [65, 4, 0, 0, 253, 233]], [3, 7, 0, list(range(40))]])

def gen_bmp_msg(rng, big=False):
    x = rng.random()
    if big or x < 0.45:
        u, ap = gen_update(rng, big)
        return [0, gen_pph(rng), u, 1 if ap else 0]
    if x < 0.62:
        h = gen_pph(rng)
        la = gen_ip(rng, v6=(len(h[5]) == 16) if rng.random() < 0.9 else None)
        return [3, h, la, pick(rng, U16S), pick(rng, U16S), gen_open(rng), gen_open(rng)]
    if x < 0.82:
        r = pick(rng, [1, 2, 3, 4, 5])
        if r in (1, 3): reason = [r, gen_notif(rng)]
        elif r == 2: reason = [2, pick(rng, U16S)]
        else: reason = [r]
        return [2, gen_pph(rng), reason]
    tl = []
    for _ in range(rng.randrange(4)):
        ln = pick(rng, [0, 1, 8, 255, 256, 300])
        tl.append([pick(rng, [0, 1, 2, 65535]), [rng.randrange(256) for _ in range(ln)]])
    return [4, tl]

# ------------------------------------------------------------------ Coq rendering

def cbytes(bs):
    bs = list(bs)
    if len(bs) > 64 and len(set(bs)) == 1:
        return '(repeat %s (N.to_nat %s))' % (cN(bs[0]), cN(len(bs)))
    return val.cbytes(bs)

def cip(b):
    return '(%s %s)' % ('IP6' if len(b) == 16 else 'IP4', cbytes(b))

def cpph(h):
    return ('{| p_type := %s; p_flags := %s; p_asn := %s; p_id := %s; p_dist := %s; p_addr := %s; p_ts := %s |}'
            % (cN(h[0]), cN(h[1]), cN(h[2]), cbytes(h[3]), cN(h[4]), cip(h[5]), cN(h[6])))

def bmp_to_coq(m, blobs):
    t = m[0]
    if t == 0: return '(RouteMonitoring %s %s)' % (cpph(m[1]), cbytes(blobs[0]))
    if t == 1: return 'StatsReports'
    if t == 2:
        r = m[2]
        if r[0] == 1: rc = '(LocalNotification %s)' % cbytes(blobs[0])
        elif r[0] == 2: rc = '(LocalFsm %s)' % cN(r[1])
        elif r[0] == 3: rc = '(RemoteNotification %s)' % cbytes(blobs[0])
        elif r[0] == 4: rc = 'RemoteUnexpected'
        else: rc = 'Deconfigured'
        return '(PeerDown %s %s)' % (cpph(m[1]), rc)
    if t == 3:
        return '(PeerUp %s %s %s %s %s %s)' % (cpph(m[1]), cip(m[2]), cN(m[3]), cN(m[4]), cbytes(blobs[0]), cbytes(blobs[1]))
    if t == 4:
        return '(Initiation %s)' % clist(['(%s, %s)' % (cN(a), cbytes(expand(b))) for a, b in m[1]])
    return {5: 'Termination', 6: 'RouteMirroring'}[t]


def gen_mph(rng, mixed=False):
    v6 = rng.random() < 0.45
    ra = gen_ip(rng, v6)
    la = gen_ip(rng, (not v6) if mixed else v6)
    return [pick(rng, ASNS), pick(rng, ASNS), pick(rng, U16S), ra, la, 1]

def gen_mp(rng, big=False):
    u, ap = gen_update(rng, big)
    return [gen_mph(rng), u, 1 if ap else 0]

def gen_rib_entry(rng, v6, npeers):
    nh = []
    x = rng.random()
    if x < 0.85:
        nh = gen_nexthop(rng, v6)
    return [pick(rng, [0, 1, max(0, npeers - 1), 65535]) if rng.random() < 0.2 else rng.randrange(max(1, npeers)),
            pick(rng, U32S), nh, pick(rng, ATTRSETS)]

def gen_td(rng):
    """a dump: peer index table, then RIB records"""
    npeers = pick(rng, [0, 1, 1, 2, 3, 5])
    peers = [[pick(rng, V4S), gen_ip(rng), pick(rng, ASNS)] for _ in range(npeers)]
    recs = [[pick(rng, U32S), [0, pick(rng, V4S), peers]]]
    for k in range(rng.randrange(0, 4)):
        v6 = rng.random() < 0.5
        es = [gen_rib_entry(rng, v6, npeers) for _ in range(pick(rng, [0, 1, 1, 2, 3]))]
        recs.append([pick(rng, U32S), [2 if v6 else 1, pick(rng, U32S), gen_nlri(rng, v6), es]])
    return recs

def cmph(h):
    return ('{| m_rasn := %s; m_lasn := %s; m_ifidx := %s; m_raddr := %s; m_laddr := %s; m_asn4 := %s |}'
            % (cN(h[0]), cN(h[1]), cN(h[2]), cip(h[3]), cip(h[4]), cbool(h[5])))

def mp_to_coq(m, blobs):
    return '{| mp_hdr := %s; mp_blob := %s; mp_addpath := %s |}' % (cmph(m[0]), cbytes(blobs[0]), cbool(m[2]))

def copt_bytes(nh):
    return 'None' if not nh else '(Some %s)' % cbytes(nh[0])

def centry(e, attrs):
    return '{| re_idx := %s; re_orig := %s; re_nh := %s; re_attrs := %s |}' % (
        cN(e[0]), cN(e[1]), copt_bytes(e[2]), clist([cbytes(a) for a in attrs]))

def crep(items, render):
    """a list, or the compact [-1, n, x] form as (repeat x n)"""
    if isinstance(items, list) and len(items) == 3 and items[0] == -1:
        return '(repeat %s (N.to_nat %s))' % (render(items[2], 0), cN(items[1]))
    return clist([render(x, k) for k, x in enumerate(items)])

def td_to_coq(tr, side):
    ts, rec = tr
    if rec[0] == 0:
        r = '(PeerIndexTable %s %s)' % (cbytes(rec[1]), crep(rec[2], lambda p, k: '{| pe_id := %s; pe_addr := %s; pe_asn := %s |}' % (cbytes(p[0]), cip(p[1]), cN(p[2]))))
    else:
        prefix, attrs = side
        r = '(%s %s %s %s)' % ('RibIpv4Unicast' if rec[0] == 1 else 'RibIpv6Unicast', cN(rec[1]), cbytes(prefix),
                               crep(rec[3], lambda e, k: centry(e, attrs[k])))
    return '(%s, %s)' % (cN(ts), r)

# ------------------------------------------------------------------ daemon-side converters

SOURCES = [
    [[10, 0, 0, 1], [10, 0, 0, 254], 65001, 65000, [10, 0, 0, 1]],
    [[192, 0, 2, 1], [192, 0, 2, 254], 4200000000, 65000, [192, 0, 2, 1]],
    [[0x20, 1, 0x0d, 0xb8] + [0] * 11 + [1], [0x20, 1, 0x0d, 0xb8] + [0] * 11 + [2], 65535, 4200000001, [172, 16, 254, 3]],
    [[0xfe, 0x80] + [0] * 13 + [2], [0xfe, 0x80] + [0] * 13 + [1], 65536, 65000, [10, 0, 0, 2]],
]
SMALL_NLRI = {IPV4: [[0, 24, [10, 1, 1, 0]], [0, 24, [10, 1, 2, 0]], [0, 8, [10, 0, 0, 0]], [0, 32, [10, 1, 1, 1]]],
              IPV6: [[1, 32, [0x20, 1, 0x0d, 0xb8] + [0] * 12], [1, 64, [0x20, 1, 0x0d, 0xb8, 0, 1, 0, 2] + [0] * 8],
                     [1, 128, [0x20, 1] + [0] * 13 + [9]], [1, 0, [0] * 16]]}

def gen_change(rng, src=None, small=False, n=None):
    v6 = rng.random() < 0.45
    fam = IPV6 if v6 else IPV4
    ap = 1 if rng.random() < 0.3 else 0
    if small:
        k = n if n is not None else 1
        es = []
        while len(es) < k:
            e = [pick(rng, [0, 1]) if ap else 0, pick(rng, SMALL_NLRI[fam])]
            if e not in es: es.append(e)
    else:
        es = gen_entries(rng, v6, n if n is not None else pick(rng, [1, 1, 1, 2, 3]), ap)
    reach = rng.random() < 0.65
    return [src if src is not None else pick(rng, SOURCES), fam, ap, es,
            [pick(rng, ATTRSETS)] if reach else [], gen_nexthop(rng, v6) if reach else [], pick(rng, U32S)]

def cval(v):
    if isinstance(v, list):
        return 'VL [' + '; '.join(cval(x) for x in v) + ']'
    return 'VI (%d)%%Z' % v

def csource(sv):
    return '{| s_raddr := %s; s_laddr := %s; s_rasn := %s; s_lasn := %s; s_rid := %s |}' % (
        cip(sv[0]), cip(sv[1]), cN(sv[2]), cN(sv[3]), cbytes(sv[4]))

def attrs_enc(attrs):
    return [attr_wire(a) for a in attrs]

def cchange(c):
    return ('{| c_source := %s; c_family := %s; c_addpath := %s; c_nlris := %s; c_attrs := %s; c_nexthop := %s; c_ts := %s |}'
            % (csource(c[0]), cN(c[1]), cbool(c[2]), clist([cval(e) for e in c[3]]),
               ('(Some (%s))' % cval(attrs_enc(c[4][0]))) if c[4] else 'None', '(%s)' % cval(c[5]), cN(c[6])))

def update_desc(c):
    """what the converters must build from a change (Spec side)"""
    if c[4]:
        return [2, 0, c[1], c[3], c[5], attrs_enc(c[4][0])]
    return [2, 1, c[1], c[3]]

def net_state(changes, addr):
    """Spec of the snapshot: (family, nlri) -> data of the last reach, for one peer"""
    st = {}
    for c in changes:
        if c[0][0] != addr:
            continue
        for e in c[3]:
            k = json.dumps([c[1], e])
            if c[4]:
                st[k] = (c, e)
            else:
                st.pop(k, None)
    return st

# ------------------------------------------------------------------ classes enumerated on EVERY run
# (generator audit: one class per clause of the property text and per branch / comparison /
# format switch of the anchored functions, with the values on both sides of each boundary)

H4 = [0, 0, 65001, [10, 0, 0, 1], 0, [192, 0, 2, 1], 7]
H6 = [0, 0x40, 4200000000, [10, 0, 0, 2], 0, list(V6S[0]), 1700000000]
A0 = ATTRSETS[0]
NH4, NH6, NH6LL = [[192, 0, 2, 9]], [list(V6S[5])], [list(V6S[0]) + list(V6S[1])]

def host_entries(v6, n, ap=0, start=0):
    out = []
    for k in range(start, start + n):
        addr = ([0x20, 1] + [0] * 10 + be(4, k)) if v6 else [10] + be(3, k)
        out.append([(k % 3) if ap else 0, [1 if v6 else 0, 128 if v6 else 32, addr]])
    return out

def all_masks(v6):
    n = 16 if v6 else 4
    out = []
    for m in range(0, (128 if v6 else 32) + 1):
        nb = (m + 7) // 8
        addr = [0xa5] * nb + [0] * (n - nb)
        if m % 8 and nb:
            addr[nb - 1] = (0xa5 >> (8 - m % 8)) << (8 - m % 8)      # no bits beyond the mask
        out.append([0, [1 if v6 else 0, m, addr]])
    return out

def opaque(n, code=99, flags=0xc0):
    return [2, code, flags, [-1, n, 7]] if n > 64 else [2, code, flags, [7] * n]

ATTR_KINDS = [
    ('origin_igp', [[0, 1, 0]]), ('origin_egp', [[0, 1, 1]]), ('origin_incomplete', [[0, 1, 2]]),
    ('aspath_empty', [[1, 2, []]]), ('aspath_seq1', [[1, 2, [2, 1, 0, 0, 253, 233]]]),
    ('aspath_set', [[1, 2, [1, 2, 0, 0, 0, 1, 255, 255, 255, 255]]]),
    ('aspath_two_segments', [[1, 2, [2, 1, 0, 0, 253, 233, 1, 1, 0, 0, 0, 7]]]),
    ('aspath_seg_63', [[1, 2, [2, 63] + [0, 0, 253, 233] * 63]]),          # 254 bytes: one-octet length
    ('aspath_seg_64', [[1, 2, [2, 64] + [0, 0, 253, 233] * 64]]),          # 258 bytes: extended length
    ('aspath_seg_255', [[1, 2, [2, 255] + [0, 1, 2, 3] * 255]]),
    ('aspath_confed', [[1, 2, [3, 1, 0, 0, 253, 232, 2, 1, 0, 0, 253, 233]]]),
    ('med_0', [[0, 4, 0]]), ('med_max', [[0, 4, 2 ** 32 - 1]]), ('local_pref', [[0, 5, 100]]),
    ('atomic_aggregate', [[1, 6, []]]), ('aggregator', [[1, 7, [0, 0, 253, 233, 10, 0, 0, 1]]]),
    ('community_1', [[1, 8, [255, 255, 0, 6]]]), ('community_252', [[1, 8, [0, 1, 0, 2] * 63]]),
    ('community_256', [[1, 8, [0, 1, 0, 2] * 64]]),
    ('rr_originator_and_cluster_list', [[0, 9, 0x0a000001], [1, 10, [10, 0, 0, 1, 10, 0, 0, 2]]]),
    ('ext_community', [[1, 16, [0, 2, 253, 233, 0, 0, 0, 1]]]), ('large_community', [[1, 32, [0, 0, 0, 1, 0, 0, 0, 2, 0, 0, 0, 3]]]),
    ('aigp', [[1, 26, [1, 0, 11, 0, 0, 0, 0, 0, 0, 0, 9]]]),
    ('unknown_transitive', [opaque(5)]), ('unknown_partial', [opaque(5, 98, 0xe0)]),
    ('unknown_255', [opaque(255)]), ('unknown_256', [opaque(256)]), ('unknown_empty', [opaque(0)]),
    ('every_kind', [[0, 4, 5], [0, 5, 6], [1, 6, []], [1, 7, [0, 0, 253, 233, 10, 0, 0, 1]], [1, 8, [0, 1, 0, 2]],
                    [0, 9, 1], [1, 10, [1, 1, 1, 1]], [1, 16, [0, 2, 253, 233, 0, 0, 0, 1]], [1, 32, [0] * 12], opaque(3)]),
]

def upd(fam, kind, entries=None, nh=None, attrs=None):
    if kind == 2: return [2, 2, fam]
    if kind == 1: return [2, 1, fam, entries]
    return [2, 0, fam, entries, nh, attrs if attrs is not None else A0]

def update_forms():
    """(class name, update spec, addpath) for every family x kind x add-path x next-hop form"""
    out = []
    for v6 in (0, 1):
        fam = IPV6 if v6 else IPV4
        f = 'v6' if v6 else 'v4'
        nhs = [('nh6', NH6), ('nh6ll', NH6LL), ('nh4mapped', NH4)] if v6 else [('nh4', NH4), ('nh6_rfc8950', NH6), ('nh6ll_rfc8950', NH6LL)]
        for ap in (0, 1):
            for nm, nh in nhs:
                out.append(('reach_%s_%s_ap%d' % (f, nm, ap), upd(fam, 0, host_entries(v6, 2, ap), nh), ap))
            out.append(('unreach_%s_ap%d' % (f, ap), upd(fam, 1, host_entries(v6, 2, ap)), ap))
            out.append(('eor_%s_ap%d' % (f, ap), upd(fam, 2), ap))
        out.append(('reach_%s_all_masks' % f, upd(fam, 0, all_masks(v6), NH6 if v6 else NH4), 0))
        out.append(('unreach_%s_all_masks' % f, upd(fam, 1, all_masks(v6)), 0))
        out.append(('reach_%s_path_ids' % f, upd(fam, 0, [[pid, all_masks(v6)[8 + k][1]] for k, pid in enumerate([0, 1, 255, 256, 65535, 65536, 2 ** 32 - 1])], NH6 if v6 else NH4), 1))
        out.append(('reach_%s_path_ids_without_addpath' % f, upd(fam, 0, [[5, all_masks(v6)[24][1]], [2 ** 32 - 1, all_masks(v6)[16][1]]], NH6 if v6 else NH4), 0))
        out.append(('reach_%s_single_default_route' % f, upd(fam, 0, [all_masks(v6)[0]], NH6 if v6 else NH4), 0))
    # another SAFI through the same path (everything but IPv4 unicast goes through MP_REACH / MP_UNREACH):
    # IPv4 / IPv6 multicast, whose NLRI are plain prefixes
    for fam, v6, f in ((IPV4_MC, 0, 'v4_multicast'), (IPV6_MC, 1, 'v6_multicast')):
        for ap in (0, 1):
            out.append(('reach_%s_ap%d' % (f, ap), upd(fam, 0, host_entries(v6, 3, ap), NH6 if v6 else NH4), ap))
            out.append(('unreach_%s_ap%d' % (f, ap), upd(fam, 1, host_entries(v6, 3, ap)), ap))
        out.append(('eor_%s' % f, upd(fam, 2), 0))
        out.append(('reach_%s_all_masks' % f, upd(fam, 0, all_masks(v6), NH6 if v6 else NH4), 0))
    for nm, at in ATTR_KINDS:
        base = [] if nm.startswith(('origin', 'aspath')) else []
        attrs = ([[0, 1, 0]] if not nm.startswith('origin') else []) + at + ([[1, 2, [2, 1, 0, 0, 253, 233]]] if not nm.startswith('aspath') else [])
        attrs.sort(key=lambda a: a[1])
        out.append(('attr_' + nm, upd(IPV4, 0, host_entries(0, 1), NH4, attrs), 0))
    return out

# the number of host routes around which encode_to starts a second frame (4096-octet limit):
# (family, kind, add-path, next hop) -> window of counts holding the last fit and the first split
def split_windows():
    w = []
    w.append(('v4_reach', upd, (IPV4, 0), 0, NH4, range(809, 813)))          # 43 + 5n
    w.append(('v4_reach_addpath', upd, (IPV4, 0), 1, NH4, range(449, 452)))  # 43 + 9n
    w.append(('v4_unreach', upd, (IPV4, 1), 0, None, range(813, 817)))       # 23 + 5n
    w.append(('v6_reach', upd, (IPV6, 0), 0, NH6, range(236, 240)))          # 61 + 17n
    w.append(('v6_unreach', upd, (IPV6, 1), 0, None, range(238, 242)))       # 30 + 17n
    w.append(('v4_reach_rfc8950', upd, (IPV4, 0), 0, NH6, range(805, 809)))  # 61 + 5n
    out = []
    for nm, _, (fam, kind), ap, nh, rng_ in w:
        for n in rng_:
            out.append(('split_%s_%d' % (nm, n), upd(fam, kind, host_entries(fam == IPV6, n, ap), nh), ap))
    out.append(('split_three_frames_v4', upd(IPV4, 0, host_entries(0, 1700), NH4), 0))
    out.append(('split_three_frames_v6_addpath', upd(IPV6, 1, host_entries(1, 450, 1)), 1))
    return out

def big_attr_forms():
    """attribute blocks around the size that leaves room for exactly one / no NLRI in 4096 octets"""
    out = []
    # frame = 19 + 4 + attrs + 7 (NEXT_HOP) + 5 (one /32); attrs = 4 (ORIGIN) + 9 (AS_PATH) + 4 + n (opaque, extended)
    for nm, n in (('fits_exactly', 4096 - 19 - 4 - 7 - 5 - 13 - 4), ('one_octet_too_long', 4096 - 19 - 4 - 7 - 5 - 13 - 4 + 1), ('5000', 5000)):
        out.append(('attrs_' + nm, upd(IPV4, 0, host_entries(0, 1), NH4, [[0, 1, 0], [1, 2, [2, 1, 0, 0, 253, 233]], opaque(n)]), 0))
    return out

OPEN_FORMS = [
    ('no_caps', [1, 65001, 90, 0x0a000001, []]),
    ('as_trans_with_as4', [1, 4200000000, 90, 0x0a000001, [[65, 4200000000]]]),
    ('as_65535', [1, 65535, 0, 0x0a000001, [[65, 65535]]]),
    ('as_65536', [1, 65536, 3, 0x0a000001, [[65, 65536]]]),
    ('hold_max', [1, 1, 65535, 0xc0000201, []]),
    ('every_capability', [1, 65001, 180, 0x0a000001, [[1, IPV4], [1, IPV6], [2], [5, [[IPV4, 2]]], [6], [64, 8, 4095, [[IPV4, 128], [IPV6, 0]]],
                                                      [65, 65001], [69, [[IPV4, 1], [IPV6, 3]]], [70], [71, [[IPV4, 0, 16777215]]],
                                                      [73, [104, 111, 115, 116], [100, 111, 109]], [0, 200, []]]]),
    ('caps_253_octets', [1, 65001, 90, 0x0a000001, [[0, 201, [9] * 251]]]),        # cap_len + 2 = 255: the largest that fits
]

NOTIF_FORMS = [[3, 6, 2, []], [3, 1, 2, [0, 18]], [3, 3, 5, [-1, 255, 3]], [3, 2, 7, [65, 4, 0, 0, 253, 233]], [3, 4, 0, []], [3, 6, 9, []]]

def enum_cases():
    cases = []
    def add(cls, c):
        c['cls'] = cls
        cases.append(c)
    forms = update_forms()
    # ---- BMP: per-peer header matrix (peer type x flags x address shape), small EoR body
    addrs = [('v4', [192, 0, 2, 1]), ('v4_zero', [0, 0, 0, 0]), ('v6', list(V6S[0])), ('v6_looks_like_padded_v4', [0] * 12 + [10, 0, 0, 1]),
             ('v6_zero', [0] * 16), ('v6_ones', [255] * 16)]
    k = 0
    for an, a in addrs:
        ms = []
        for pt in (0, 1, 2, 3):
            for fl in DAEMON_FLAGS:
                ms.append([0, [pt, fl, ASNS[k % len(ASNS)], V4S[k % len(V4S)], DISTS[k % len(DISTS)], a, U32S[k % len(U32S)]], upd(IPV4 if k % 2 else IPV6, 2), 0])
                k += 1
        add('bmp_hdr_matrix_' + an, {'kind': 'bmp', 'pre': [], 'msgs': ms})
    # ---- BMP: every update form, alone in a session
    for nm, u, ap in forms:
        add('bmp_' + nm, {'kind': 'bmp', 'pre': [], 'msgs': [[0, H6 if u[2] >> 16 == 2 else H4, u, ap]]})
    for nm, u, ap in split_windows():
        add('bmp_' + nm, {'kind': 'bmp', 'pre': [], 'msgs': [[0, H4, u, ap]]})
    for nm, u, ap in big_attr_forms():
        add('bmp_' + nm, {'kind': 'bmp', 'pre': [], 'msgs': [[0, H4, u, ap]]})
    # ---- BMP: one codec, one buffer, forms that must not leak state into each other
    leak = [f for f in forms if f[0] in ('reach_v4_nh6_rfc8950_ap1', 'reach_v4_nh4_ap0', 'unreach_v4_ap0', 'eor_v4_ap0', 'reach_v6_nh6_ap1',
                                         'reach_v6_nh6_ap0', 'reach_v4_nh6ll_rfc8950_ap0', 'unreach_v4_ap1', 'reach_v4_nh4_ap1', 'eor_v6_ap1')]
    order = ['reach_v4_nh6_rfc8950_ap1', 'reach_v4_nh4_ap0', 'reach_v4_nh6ll_rfc8950_ap0', 'unreach_v4_ap0', 'reach_v6_nh6_ap1', 'reach_v6_nh6_ap0',
             'reach_v4_nh4_ap1', 'unreach_v4_ap1', 'reach_v4_nh6_rfc8950_ap1', 'eor_v4_ap0', 'eor_v6_ap1', 'reach_v4_nh4_ap0']
    byname = dict((f[0], f) for f in leak)
    ms = []
    for nm in order:
        _, u, ap = byname[nm]
        ms.append([0, H6 if u[2] == IPV6 else H4, u, ap])
    ms.insert(4, [3, H4, [10, 0, 0, 9], 179, 40000, OPEN_FORMS[0][1], OPEN_FORMS[1][1]])
    ms.insert(8, [2, H6, [1, NOTIF_FORMS[0]]])
    add('bmp_codec_state_across_messages', {'kind': 'bmp', 'pre': [1, 2, 3], 'msgs': ms})
    # the 4096-octet limit must be back in force after an update that needed the extended one
    big = big_attr_forms()[2][1]
    sw = dict((f[0], f) for f in split_windows())
    add('bmp_codec_state_after_extended_length', {'kind': 'bmp', 'pre': [], 'msgs': [[0, H4, big, 0], [0, H4, sw['split_v4_reach_812'][1], 0], [0, H4, big, 0], [0, H4, sw['split_v4_unreach_816'][1], 0]]})
    # ---- BMP: Peer Down, every reason x peer family; FSM code and NOTIFICATION data boundaries
    for hn, h in (('v4', H4), ('v6', H6)):
        ms = [[2, h, [1, n]] for n in NOTIF_FORMS[:3]] + [[2, h, [2, c]] for c in (0, 1, 255, 256, 65535)] + \
             [[2, h, [3, n]] for n in NOTIF_FORMS[3:]] + [[2, h, [4]], [2, h, [5]]]
        add('bmp_peer_down_all_reasons_' + hn, {'kind': 'bmp', 'pre': [], 'msgs': ms})
    # ---- BMP: Peer Up, local/peer family combinations, port boundaries, OPEN forms
    for hn, h in (('v4', H4), ('v6', H6)):
        for ln, la in (('v4', [10, 0, 0, 9]), ('v6', list(V6S[5]))):
            ms = [[3, h, la, lp, rp, OPEN_FORMS[i % len(OPEN_FORMS)][1], OPEN_FORMS[(i + 3) % len(OPEN_FORMS)][1]]
                  for i, (lp, rp) in enumerate([(0, 0), (179, 65535), (65535, 1), (255, 256)])]
            add('bmp_peer_up_peer_%s_local_%s' % (hn, ln), {'kind': 'bmp', 'pre': [], 'msgs': ms})
    for nm, o in OPEN_FORMS:
        add('bmp_open_' + nm, {'kind': 'bmp', 'pre': [], 'msgs': [[3, H4, [10, 0, 0, 9], 179, 179, o, OPEN_FORMS[0][1]], [3, H6, list(V6S[5]), 1, 2, OPEN_FORMS[0][1], o]]})
    # ---- BMP: Initiation, TLV count and length boundaries
    add('bmp_initiation_no_tlv', {'kind': 'bmp', 'pre': [], 'msgs': [[4, []], [4, []]]})
    for ln in (0, 1, 255, 256, 4095, 4096, 65535):
        add('bmp_initiation_len_%d' % ln, {'kind': 'bmp', 'pre': [], 'msgs': [[4, [[1, [-1, ln, 66] if ln > 64 else [66] * ln], [65535, [1]]]]]})
    add('bmp_initiation_64_tlvs', {'kind': 'bmp', 'pre': [], 'msgs': [[4, [[t % 3, [t] * (t % 5)] for t in range(64)]]]})
    # ---- BMP: pre-filled buffers of every length up to one per-peer header
    for n in (1, 5, 6, 7, 41, 42, 43, 48):
        add('bmp_prefill_%d' % n, {'kind': 'bmp', 'pre': [(3 * i + 1) % 256 for i in range(n)],
                                   'msgs': [[4, [[2, [114]]]], [0, H4, upd(IPV4, 1, host_entries(0, 1)), 0], [2, H6, [4]]]})
    # ---- BMP, correspondence only (outside the quantifier): kinds the daemon never emits, V bit from the caller,
    # a Route Monitoring around something that is not an UPDATE
    add('bmp_api_stats_termination_mirroring', {'kind': 'bmp', 'pre': [9], 'msgs': [[1], [5], [6], [1]], 'api_only': 1})
    for fl in (0x80, 0xc0, 0xff):
        add('bmp_api_caller_flags_%#x' % fl, {'kind': 'bmp', 'pre': [], 'msgs': [[0, [0, fl, 1, [1, 1, 1, 1], 0, [10, 0, 0, 1], 0], upd(IPV4, 2), 0],
                                                                                [0, [0, fl, 1, [1, 1, 1, 1], 0, list(V6S[0]), 0], upd(IPV6, 2), 0]], 'api_only': 1})
    add('bmp_api_route_monitoring_of_non_update', {'kind': 'bmp', 'pre': [], 'msgs': [[0, H4, [4], 0], [0, H4, OPEN_FORMS[0][1], 1], [0, H6, NOTIF_FORMS[0], 0], [0, H6, [5, IPV6], 1]], 'api_only': 1})
    # ---- MRT BGP4MP: header matrix
    for r6 in (0, 1):
        ra, la = (list(V6S[0]), list(V6S[5])) if r6 else ([192, 0, 2, 1], [192, 0, 2, 254])
        ms = [[[ASNS[i], ASNS[-1 - i], U16S[i % len(U16S)], ra, la, 1], upd(IPV6 if i % 2 else IPV4, 2), i % 2] for i in range(len(ASNS))]
        add('mrt_hdr_%s_as_and_ifindex_bounds' % ('v6' if r6 else 'v4'), {'kind': 'mrt', 'pre': [], 'msgs': ms})
        for l6 in (0, 1):
            for as4 in (0, 1):
                if l6 == r6 and as4:
                    continue
                la2 = list(V6S[5]) if l6 else [192, 0, 2, 254]
                add('mrt_api_hdr_remote_%s_local_%s_as4_%d' % ('v6' if r6 else 'v4', 'v6' if l6 else 'v4', as4),
                    {'kind': 'mrt', 'pre': [], 'msgs': [[[65001, 65536, 1, ra, la2, as4], upd(IPV4, 2), 0]], 'api_only': 1})
    MH4 = [65001, 65000, 0, [192, 0, 2, 1], [192, 0, 2, 254], 1]
    MH6 = [4200000000, 65000, 0, list(V6S[0]), list(V6S[5]), 1]
    for nm, u, ap in forms:
        add('mrt_' + nm, {'kind': 'mrt', 'pre': [], 'msgs': [[MH6 if u[2] >> 16 == 2 else MH4, u, ap]]})
    for nm, u, ap in split_windows():
        add('mrt_' + nm, {'kind': 'mrt', 'pre': [], 'msgs': [[MH4, u, ap]]})
    for nm, u, ap in big_attr_forms():
        add('mrt_' + nm, {'kind': 'mrt', 'pre': [], 'msgs': [[MH4, u, ap]]})
    ms = []
    for nm in order:
        _, u, ap = byname[nm]
        ms.append([MH6 if u[2] == IPV6 else MH4, u, ap])
    add('mrt_codec_state_across_messages', {'kind': 'mrt', 'pre': [7], 'msgs': ms})
    add('mrt_codec_state_after_extended_length', {'kind': 'mrt', 'pre': [], 'msgs': [[MH4, big, 0], [MH4, sw['split_v4_reach_812'][1], 0], [MH4, big, 0], [MH4, sw['split_v4_unreach_816'][1], 0]]})
    # a BGP4MP record may carry any BGP message
    add('mrt_bodies_other_than_update', {'kind': 'mrt', 'pre': [], 'msgs': [[MH4, [4], 0], [MH6, OPEN_FORMS[5][1], 0], [MH4, NOTIF_FORMS[2], 1], [MH6, [5, IPV6], 1], [MH4, [4], 1]]})
    for n in (1, 11, 12, 13):
        add('mrt_prefill_%d' % n, {'kind': 'mrt', 'pre': list(range(n)), 'msgs': [[MH4, upd(IPV4, 2), 0], [MH6, upd(IPV6, 1, host_entries(1, 1)), 1]]})
    # ---- TABLE_DUMP_V2
    def peer(k, v6):
        return [V4S[k % len(V4S)], (list(V6S[k % len(V6S)]) if v6 else [10, 1, k // 256 % 256, k % 256]), ASNS[k % len(ASNS)]]
    for n in (0, 1, 2, 255, 256, 257):
        add('td_peer_count_%d' % n, {'kind': 'td', 'pre': [], 'recs': [[U32S[n % len(U32S)], [0, [1, 1, 1, 1], [peer(k, k % 3 == 0) for k in range(n)]]]]})
    E = lambda idx, orig, nh, at: [idx, orig, nh, at]
    for n in (0, 1, 2, 255, 256, 257):
        for v6 in (0, 1):
            es = [E(k % 4, k, [] if k % 5 == 4 else (NH6 if v6 else NH4), [] if k % 2 else A0) for k in range(n)]
            add('td_entry_count_%d_%s' % (n, 'v6' if v6 else 'v4'), {'kind': 'td', 'pre': [], 'recs': [[7, [2 if v6 else 1, n, all_masks(v6)[24][1], es]]]})
    for v6 in (0, 1):
        nhs = [('none', []), ('v4', NH4), ('v6', NH6), ('v6ll', NH6LL)]
        es = [E(i, U32S[i], nh, A0) for i, (_, nh) in enumerate(nhs)] + [E(65535, 2 ** 32 - 1, nh, []) for _, nh in nhs]
        add('td_nexthop_forms_%s_table' % ('v6' if v6 else 'v4'), {'kind': 'td', 'pre': [], 'recs': [[2 ** 32 - 1, [2 if v6 else 1, 2 ** 32 - 1, all_masks(v6)[17][1], es]]]})
        add('td_all_prefix_lengths_' + ('v6' if v6 else 'v4'), {'kind': 'td', 'pre': [], 'recs': [[0, [2 if v6 else 1, k, e[1], [E(0, 0, [], [])]]] for k, e in enumerate(all_masks(v6))]})
    # attribute block length: the two-octet field around its one-octet and both-octet carries
    for ln in (0, 1, 240, 241, 242, 248, 249, 255, 256, 65527, 65528):
        # block = 4 (ORIGIN) + 3|4 + ln (opaque) [+ 7 NEXT_HOP]
        add('td_attr_block_opaque_%d' % ln, {'kind': 'td', 'pre': [], 'recs': [[7, [1, 1, [0, 8, [10, 0, 0, 0]], [E(0, 1, NH4 if ln < 65000 else [], [[0, 1, 0], opaque(ln)])]]]], 'api_only': int(ln > 65527)})
    add('td_every_attribute_kind', {'kind': 'td', 'pre': [], 'recs': [[7, [1, 1, [0, 8, [10, 0, 0, 0]], [E(0, 1, NH4, at) for _, at in ATTR_KINDS]]]]})
    add('td_whole_dump_in_one_buffer', {'kind': 'td', 'pre': [5, 5], 'recs': [[9, [0, [1, 1, 1, 1], [peer(0, 0), peer(1, 1)]]],
                                                                             [9, [1, 0, all_masks(0)[24][1], [E(0, 9, NH4, A0), E(1, 9, NH6, A0)]]],
                                                                             [9, [1, 1, all_masks(0)[8][1], [E(1, 9, NH4, A0)]]],
                                                                             [9, [2, 0, all_masks(1)[64][1], [E(1, 9, NH6LL, A0)]]]]})
    add('td_api_rib_v4_record_with_v6_prefix', {'kind': 'td', 'pre': [], 'recs': [[7, [1, 0, all_masks(1)[64][1], [E(0, 0, NH4, A0)]]], [7, [2, 0, all_masks(0)[24][1], [E(0, 0, NH6, A0)]]]], 'api_only': 1})
    # ---- daemon-side converters
    S4, S6 = SOURCES[0], SOURCES[2]
    DUAL6 = [[0x20, 1, 0x0d, 0xb8] + [0] * 11 + [0x11], [0x20, 1, 0x0d, 0xb8] + [0] * 11 + [0xfe], S4[2], S4[3], list(S4[4])]
    SAMEID = [[10, 0, 9, 9], [10, 0, 9, 254], 65077, 65000, list(S4[4])]
    for v6 in (0, 1):
        fam = IPV6 if v6 else IPV4
        src = S6 if v6 else S4
        nhl = ([NH6, NH6LL, NH4] if v6 else [NH4, NH6, NH6LL])
        for ap in (0, 1):
            for ne in (0, 1, 2):
                es = host_entries(v6, ne, ap)
                for reach in (1, 0):
                    for nh in (nhl if reach else [[]]):
                        ch = [src, fam, ap, es, [A0] if reach else [], nh, U32S[(ne + ap) % len(U32S)]]
                        nm = '%s_%s_ap%d_n%d_nh%d' % ('v6' if v6 else 'v4', 'reach' if reach else 'withdraw', ap, ne, len(nh[0]) if nh else 0)
                        add('dconv_' + nm, {'kind': 'dconv', 'change': ch})
                        if ne:
                            add('dmrt_' + nm, {'kind': 'dmrt', 'change': ch})
        for reach in (1, 0):
            for mi in (0, 1, 8, 9, 32) + ((64, 127, 128) if v6 else ()):
                for nh in (nhl if reach else [[]]):
                    add('dloc_%s_%s_mask%d_nh%d' % ('v6' if v6 else 'v4', 'reach' if reach else 'withdraw', mi, len(nh[0]) if nh else 0),
                        {'kind': 'dloc', 'family': fam, 'net': all_masks(v6)[mi][1], 'attrs': [A0] if reach else [], 'nexthop': nh,
                         'ts': U32S[mi % len(U32S)], 'rid': V4S[mi % len(V4S)], 'asn': ASNS[mi % len(ASNS)]})
    # the Loc-RIB virtual peer's Peer Up, for every AS-number width; the live Peer Down for every
    # SessionDownReason; the Adj-RIB-Out converter
    for asn in ASNS:
        for rid in (V4S[0], V4S[4]):
            add('dlocup_asn_%d' % asn, {'kind': 'dlocup', 'rid': rid, 'asn': asn})
    for h in (H4, H6):
        for nm, r in (('none', []), ('hold_timer', [0]), ('remote_notification', [1, NOTIF_FORMS[1]]), ('local_notification', [2, NOTIF_FORMS[0]]),
                      ('remote_notification_with_data', [1, NOTIF_FORMS[2]]), ('fsm_error', [3]), ('admin_shutdown', [4]), ('io_error', [5])):
            add('ddown_%s_peer_%s' % (nm, 'v6' if len(h[5]) == 16 else 'v4'), {'kind': 'ddown', 'reason': r, 'hdr': h})
    for v6 in (0, 1):
        fam = IPV6 if v6 else IPV4
        for ap in (0, 1):
            for reach in (1, 0):
                add('dout_%s_%s_ap%d' % ('v6' if v6 else 'v4', 'reach' if reach else 'withdraw', ap),
                    {'kind': 'dout', 'peer': [S6[0] if v6 else S4[0], ASNS[ap + 5], 0x0a000001], 'family': fam, 'addpath': ap,
                     'entry': host_entries(v6, 1, ap, 1 + ap)[0], 'attrs': [A0] if reach else [], 'nexthop': (NH6 if v6 else NH4) if reach else [], 'ts': 9})
    # a session of another family than the peer address (cannot happen over TCP: correspondence only)
    mixed = [list(S4[0]), list(S6[1]), 1, 2, S4[4]]
    add('dmrt_api_local_address_of_other_family', {'kind': 'dmrt', 'change': [mixed, IPV4, 0, host_entries(0, 1), [A0], NH4, 1], 'api_only': 1})
    P = SMALL_NLRI
    def ch(src, fam, ap, es, reach, ts=5, at=None):
        return [src, fam, ap, es, [at if at is not None else A0] if reach else [], (NH6 if fam == IPV6 else NH4) if reach else [], ts]
    e = lambda fam, i, pid=0: [pid, P[fam][i]]
    scripts = [
        ('no_events', []),
        ('reach_only', [ch(S4, IPV4, 0, [e(IPV4, 0)], 1)]),
        ('reach_then_withdraw', [ch(S4, IPV4, 0, [e(IPV4, 0)], 1), ch(S4, IPV4, 0, [e(IPV4, 0)], 0)]),
        ('withdraw_then_reach', [ch(S4, IPV4, 0, [e(IPV4, 0)], 0), ch(S4, IPV4, 0, [e(IPV4, 0)], 1)]),
        ('withdraw_of_unknown_peer', [ch(S4, IPV4, 0, [e(IPV4, 0)], 0)]),
        ('replace_keeps_last', [ch(S4, IPV4, 0, [e(IPV4, 0)], 1, 5, ATTRSETS[0]), ch(S4, IPV4, 0, [e(IPV4, 0)], 1, 6, ATTRSETS[1])]),
        ('two_families', [ch(S4, IPV4, 0, [e(IPV4, 0)], 1), ch(S4, IPV6, 0, [e(IPV6, 0)], 1), ch(S4, IPV6, 0, [e(IPV6, 1)], 1)]),
        ('family_emptied_by_withdrawal', [ch(S4, IPV4, 0, [e(IPV4, 0)], 1), ch(S4, IPV6, 0, [e(IPV6, 0)], 1), ch(S4, IPV6, 0, [e(IPV6, 0)], 0)]),
        ('two_peers_same_prefix', [ch(S4, IPV4, 0, [e(IPV4, 0)], 1), ch(SOURCES[1], IPV4, 0, [e(IPV4, 0)], 1, 9)]),
        ('other_peer_withdraws', [ch(S4, IPV4, 0, [e(IPV4, 0)], 1), ch(SOURCES[1], IPV4, 0, [e(IPV4, 0)], 0)]),
        ('addpath_two_ids_one_withdrawn', [ch(S4, IPV4, 1, [e(IPV4, 0, 1)], 1), ch(S4, IPV4, 1, [e(IPV4, 0, 2)], 1), ch(S4, IPV4, 1, [e(IPV4, 0, 1)], 0)]),
        ('multi_nlri_change_partly_withdrawn', [ch(S4, IPV4, 0, [e(IPV4, 0), e(IPV4, 1), e(IPV4, 2)], 1), ch(S4, IPV4, 0, [e(IPV4, 1)], 0)]),
        ('same_prefix_in_two_families_of_keys', [ch(S4, IPV4, 0, [e(IPV4, 3)], 1), ch(S4, IPV4, 0, [e(IPV4, 0)], 1), ch(S4, IPV4, 0, [e(IPV4, 3)], 0)]),
        ('v6_peer', [ch(S6, IPV6, 0, [e(IPV6, 0)], 1), ch(S6, IPV4, 0, [e(IPV4, 0)], 1)]),
    ]
    for nm, cs in scripts:
        for who, wn in ((S4, 'peer'), (S6, 'v6peer'), (SOURCES[3], 'absent_peer')):
            for fl in (0, 0x40):
                add('dflush_%s_flush_%s_flags_%#x' % (nm, wn, fl), {'kind': 'dflush', 'changes': cs, 'addr': who[0],
                    'hdr': [0, fl, who[2], who[4], 0, who[0], 77], 'flags': fl})
    R = lambda src, fam, i, pid=0, nh=None: [src, fam, P[fam][i], pid, nh if nh is not None else (NH6 if fam == IPV6 else NH4), A0]
    dumps = [
        ('empty', []),
        ('one_v4', [R(S4, IPV4, 0)]), ('one_v6', [R(S6, IPV6, 0)]),
        ('v4_and_v6_same_peer', [R(S4, IPV4, 0), R(S4, IPV6, 0)]),
        ('two_peers_same_prefix', [R(S4, IPV4, 0), R(SOURCES[1], IPV4, 0)]),
        ('addpath_two_paths_same_peer', [R(S4, IPV4, 0, 1), R(S4, IPV4, 0, 2)]),
        ('same_route_replaced', [R(S4, IPV4, 0), R(S4, IPV4, 0, 0, [[192, 0, 2, 77]])]),
        ('four_peers_both_families', [R(SOURCES[i], IPV4, i) for i in range(4)] + [R(SOURCES[i], IPV6, 3 - i) for i in range(4)]),
        ('v6_link_local_peer_with_v4_routes', [R(SOURCES[3], IPV4, 1), R(SOURCES[3], IPV4, 2)]),
        ('v4_routes_with_v6_next_hops', [R(S4, IPV4, 0, 0, NH6), R(S6, IPV4, 1, 0, NH6LL)]),
        ('only_v6_family', [R(S4, IPV6, 0), R(S6, IPV6, 1), R(S6, IPV6, 2)]),
        ('every_small_prefix_every_peer', [R(SOURCES[i], f, j) for i in range(4) for f in (IPV4, IPV6) for j in range(4)]),
        # sessions are told apart by their address, not by the BGP identifier: a dual-stack neighbour with one
        # router id on both sessions, and two neighbours of different ASes re-using a router id (RFC 6286)
        ('dual_stack_peer_one_bgp_id', [R(S4, IPV4, 0), R(DUAL6, IPV6, 0), R(DUAL6, IPV4, 1), R(S4, IPV6, 1)]),
        ('two_ases_one_bgp_id', [R(S4, IPV4, 0), R(SAMEID, IPV4, 0), R(SAMEID, IPV4, 2), R(S4, IPV6, 2)]),
        ('three_peers_one_bgp_id_same_prefix', [R(S4, IPV4, 3), R(DUAL6, IPV4, 3), R(SAMEID, IPV4, 3)]),
    ]
    for nm, routes in dumps:
        add('ddump_' + nm, {'kind': 'ddump', 'rid': V4S[len(routes) % len(V4S)], 'routes': routes})
    return cases

# ------------------------------------------------------------------ oracle helpers

def norm_nlri(n):
    t, mask, addr = n
    nb = (mask + 7) // 8
    return (t, mask, tuple(addr[:nb]))

def norm_entries(es, addpath):
    return sorted((e[0] if addpath else 0, norm_nlri(e[1])) for e in es)

def attr_wire(a):
    """wire form of a generated attribute spec (the generator only uses canonical flags)"""
    CANON = {1: 0x40, 2: 0x40, 3: 0x40, 4: 0x80, 5: 0x40, 6: 0x40, 7: 0xc0, 8: 0xc0, 9: 0x80, 10: 0x80,
             16: 0xc0, 17: 0xc0, 18: 0xc0, 23: 0xc0, 26: 0x80, 29: 0x80, 32: 0xc0, 40: 0xc0}
    if a[0] == 0:
        code, v = a[1], a[2]
        return [CANON[code], code] + ([1, v & 255] if code == 1 else [4] + be(4, v))
    if a[0] == 1:
        code, b, fl = a[1], expand(a[2]), CANON[a[1]]
    else:
        code, fl, b = a[1], a[2], expand(a[3])
    if len(b) > 255:
        return [fl | 0x10, code] + be(2, len(b)) + b
    return [fl, code, len(b)] + b

def open_expect(o):
    asn = o[1]
    as4 = [c[1] for c in o[4] if c[0] == 65]
    if asn > 65535 or asn == 23456:
        asn = as4[-1] if as4 else 0
    return [1, asn, o[2], o[3], o[4]]

def uinfo(u):
    return (u[1], u[2]) if u[0] == 2 else (10 + u[0], 0)

def known3(spec):
    """the class of the (fixed) finding C19-3: an IPv4-unicast announcement whose next hop is
    IPv6 (RFC 8950); it must travel with its NLRI inside MP_REACH_NLRI"""
    return spec[0] == 2 and spec[1] == 0 and spec[2] == IPV4 and bool(spec[4]) and len(spec[4][0]) in (16, 32)

KNOWN3 = None

def check_update(spec, addpath, parsed_list):
    """the PDUs of one monitored UPDATE (one per frame) against what was monitored"""
    kind, fam = spec[1], spec[2]
    via_mp = fam != IPV4 or known3(spec)
    if kind == 2:
        if len(parsed_list) != 1 or parsed_list[0][0] != 6 or parsed_list[0][1] != fam:
            return 'End-of-RIB for family %d parsed back as %s' % (fam, parsed_list)
        return None
    want = norm_entries(spec[3], addpath)
    got = []
    for p in parsed_list:
        if p[0] != 2:
            return 'embedded UPDATE parsed back as %s' % (p[:3],)
        if p[-1] != 0:
            return 'embedded UPDATE: %d bytes left after the parser consumed the frame' % p[-1]
        reach, mp_reach, unreach, mp_unreach, attrs, nerr = p[1], p[2], p[3], p[4], p[5], p[6]
        if nerr:
            return 'embedded UPDATE has %d attributes the parser rejects' % nerr
        if kind == 0:
            src = mp_reach if via_mp else reach
            if unreach or mp_unreach or (reach if via_mp else mp_reach):
                return 'announcement parsed back with routes in the wrong section'
            if not src:
                return 'announcement parsed back without reachable NLRI'
            f, es, nh = src[0]
            if f != fam:
                return 'family %d parsed back as %d' % (fam, f)
            want_nh = spec[4]
            if fam == IPV6 and want_nh and len(want_nh[0]) == 4:
                want_nh = [[0] * 10 + [255, 255] + want_nh[0]]       # RFC 4798: IPv4-mapped form
            if nh != want_nh:
                return 'next hop %s parsed back as %s' % (spec[4], nh)
            wa = sorted(tuple(attr_wire(a)) for a in spec[5])
            ga = sorted(tuple(a) for a in attrs)
            if wa != ga:
                return 'attributes parsed back differ: monitored %s, read %s' % (wa, ga)
            got += [(e[0] if addpath else 0, norm_nlri(e[1])) for e in es]
        else:
            src = unreach if fam == IPV4 else mp_unreach
            if reach or mp_reach or (mp_unreach if fam == IPV4 else unreach):
                return 'withdrawal parsed back with routes in the wrong section'
            if not src:
                return 'withdrawal parsed back without NLRI'
            f, es = src[0]
            if f != fam:
                return 'family %d parsed back as %d' % (fam, f)
            got += [(e[0] if addpath else 0, norm_nlri(e[1])) for e in es]
    if sorted(got) != want:
        return 'prefixes parsed back differ from the monitored ones (%d monitored, %d read)' % (len(want), len(got))
    return None

def check_msg(spec, addpath, parsed_list):
    """the PDUs of one monitored BGP message of any type"""
    if spec[0] == 2:
        return check_update(spec, addpath, parsed_list)
    if len(parsed_list) != 1:
        return 'a %d-frame rendering of a message that is not an UPDATE' % len(parsed_list)
    p = parsed_list[0]
    if p[-1] != 0:
        return 'embedded message: %d bytes left after the parser consumed the frame' % p[-1]
    want = {1: lambda: open_expect(spec), 3: lambda: [3, spec[1], spec[2], expand(spec[3])], 4: lambda: [4], 5: lambda: [5, spec[1]]}[spec[0]]()
    if p[:len(want)] != want:
        return 'embedded message parsed back as %s, monitored %s' % (p, want)
    return None

def check_peer(pv, h, what):
    addr = h[5]
    v6 = len(addr) == 16
    if bool(pv['flags'] & 0x80) != v6:
        return '%s: V flag %d for a %s peer address' % (what, pv['flags'] >> 7, 'IPv6' if v6 else 'IPv4')
    if not v6 and pv['addr'][:12] != [0] * 12:
        return '%s: IPv4 peer address not behind twelve zero octets' % what
    if (pv['addr'] if v6 else pv['addr'][12:]) != addr:
        return '%s: peer address differs from the monitored one' % what
    if pv['flags'] & 0x7f != h[1] & 0x7f:
        return '%s: flags %#x, monitored %#x' % (what, pv['flags'], h[1])
    if (pv['type'], pv['dist'], pv['asn'], pv['id'], pv['sec'], pv['usec']) != (h[0], h[4], h[2], h[3], h[6], 0):
        return '%s: per-peer header fields differ from the monitored ones' % what
    return None

# ------------------------------------------------------------------ the property

class Prop:
    pid = 'C19'
    props_file = 'Props/C19.v'
    required_theorems = ['bmp_length_exact', 'bmp_readback', 'bmp_stream_readback', 'bmp_vflag_iff_v6',
                         'mrt_readback', 'mrt_length_exact', 'table_dump_counts_consistent',
                         'conv_update_faithful', 'loc_rib_header_wf', 'flush_headers_wf', 'dump_peer_indexes_consistent',
                         'session_down_reason', 'loc_rib_peer_up_wf', 'embed_total', 'needs_rfc8950_iff']
    correspondence_name = ('Model/Bmp.v bmp_encode_all vs packet/src/bmp.rs BmpCodec::encode (harness/hx-mon), '
                           'bytes compared one to one')
    rule = ('a case is a session (BMP / BGP4MP / TABLE_DUMP_V2: 1..16 items through one codec into one, possibly pre-filled, buffer) '
            'or one call of a daemon-side converter; about 520 classes are ENUMERATED on every run (tag enum:<class> in the input '
            'distribution: header matrices, every update form x family x add-path x next-hop form, every prefix length, counts and '
            'lengths on both sides of every boundary of the code: frame split at 4096 octets, attribute block that leaves room for '
            'one / no NLRI, 255/256, 65535, every Peer Down reason and SessionDownReason, every capability, scripted snapshot '
            'histories and RIB contents), the rest is drawn from the seed; non-trivial when it holds an embedded BGP message, '
            'TLVs, peers or entries; distinct = distinct (kinds, address families, add-path, frames per UPDATE, size class)')
    exhaustive = {'quick': False, 'thorough': False}
    trusted_base = [
        'the BGP encoder is outside this property (C04): embedded BGP messages enter the model as opaque byte strings '
        '(the output of PeerCodec::encode_to on a fresh codec with the add-path setting of the record, printed by the harness); '
        'the theorems assume only that such a string is a concatenation of frames with marker and exact 2-byte length (checked on every blob of every run)',
        'the python structural readers of gen/c19.py (written from RFC 7854 / RFC 6396) and the harness mode `parse` '
        '(the repository\'s own BGP parser, PeerCodec::try_parse) are the Spec oracle for the implementation\'s bytes',
    ]
    assumptions = [
        'caller-supplied per-peer flags do not contain the V bit (true of every header daemon/src/bmp.rs builds); fields have their Rust types (u8/u16/u32/u64, 4/16-octet addresses)',
        'an Initiation TLV value is shorter than 65536 bytes and a message shorter than 2^32 bytes (the daemon sends a version string and the host name)',
        'NLRI families generated: IPv4/IPv6 unicast and multicast; the other families reach BmpCodec/MrtCodec through the same MP_REACH/MP_UNREACH path, their content is property C04',
    ]

    def __init__(self):
        self._side = []

    # ---- cases
    def case_to_json(self, c):
        return json.loads(json.dumps(c))

    def case_from_json(self, j):
        return j

    def corpus_cases(self):
        d = os.path.join(os.path.dirname(os.path.dirname(os.path.abspath(__file__))), 'corpus', 'C19')
        out = []
        if os.path.isdir(d):
            for fn in sorted(os.listdir(d)):
                if fn.endswith('.json'):
                    out.append(json.load(open(os.path.join(d, fn)))['case'])
        return out

    def gen_cases(self, rng, tier):
        cases = enum_cases()
        q = tier == 'quick'
        for k in range(120 if q else 2500):
            pre = [] if rng.random() < 0.7 else [rng.randrange(256) for _ in range(rng.randrange(1, 9))]
            ms = [gen_bmp_msg(rng) for _ in range(rng.randrange(1, 6))]
            cases.append({'kind': 'bmp', 'pre': pre, 'msgs': ms})
        for k in range(5 if q else 60):
            cases.append({'kind': 'bmp', 'pre': [], 'msgs': [gen_bmp_msg(rng, big=True)] + ([gen_bmp_msg(rng)] if k % 2 else [])})
        # correspondence only (outside the property's quantifier): caller flags with the V bit,
        # message kinds the daemon never emits, TLV values of 65535..65537 bytes
        for k in range(20 if q else 100):
            u, ap = gen_update(rng)
            ms = [pick(rng, [[1], [5], [6], [0, gen_pph(rng, daemon=False), u, 1 if ap else 0]])]
            cases.append({'kind': 'bmp', 'pre': [], 'msgs': ms, 'api_only': 1})
        for ln in (65535, 65536, 65537):
            cases.append({'kind': 'bmp', 'pre': [], 'msgs': [[4, [[1, [-1, ln, 65]], [2, [7]]]]], 'api_only': 1})
        # ---- MRT BGP4MP
        for k in range(60 if q else 1500):
            pre = [] if rng.random() < 0.7 else [rng.randrange(256) for _ in range(rng.randrange(1, 9))]
            cases.append({'kind': 'mrt', 'pre': pre, 'msgs': [gen_mp(rng) for _ in range(rng.randrange(1, 5))]})
        for k in range(4 if q else 40):
            cases.append({'kind': 'mrt', 'pre': [], 'msgs': [gen_mp(rng, big=True)]})
        # correspondence only: 2-octet AS form (never used by the daemon), local address of the other family
        for k in range(20 if q else 100):
            m = gen_mp(rng)
            if k % 2:
                m[0][5] = 0
            else:
                m[0] = gen_mph(rng, mixed=True)
            cases.append({'kind': 'mrt', 'pre': [], 'msgs': [m], 'api_only': 1})
        # ---- TABLE_DUMP_V2
        for k in range(80 if q else 1500):
            pre = [] if rng.random() < 0.8 else [rng.randrange(256) for _ in range(rng.randrange(1, 9))]
            cases.append({'kind': 'td', 'pre': pre, 'recs': gen_td(rng)})
        # the u16 count boundaries (correspondence only beyond 65535)
        for n in ((65535, 65536) if q else (65535, 65536, 65537)):
            peer = [[10, 0, 0, 1], [10, 0, 0, 1], 65001]
            ent = [0, 5, [], []]
            cases.append({'kind': 'td', 'pre': [], 'recs': [[7, [0, [1, 1, 1, 1], [-1, n, peer]]]], 'api_only': int(n > 65535), 'digest': 1})
            cases.append({'kind': 'td', 'pre': [], 'recs': [[7, [1, 9, [0, 24, [10, 1, 2, 0]], [-1, n, ent]]]], 'api_only': int(n > 65535), 'digest': 1})
        # an attribute block of 65535 / 65536+ bytes in one entry
        for ln, api in ((65535 - 7 - 4 - 7, 0), (65536 - 7 - 4 - 7, 1)):
            big = [[0, 1, 0], [1, 8, [-1, ln, 1]]]
            cases.append({'kind': 'td', 'pre': [], 'recs': [[7, [1, 1, [0, 8, [10, 0, 0, 0]], [[0, 1, [[10, 0, 0, 1]], big]]]]], 'api_only': api})
        # ---- daemon-side converters (hooks in daemon/src/bmp.rs, daemon/src/mrt.rs)
        for k in range(20 if q else 800):
            cases.append({'kind': 'dconv', 'change': gen_change(rng)})
        for k in range(20 if q else 800):
            v6 = rng.random() < 0.5
            fam = IPV6 if v6 else IPV4
            reach = rng.random() < 0.7
            cases.append({'kind': 'dloc', 'family': fam, 'net': gen_nlri(rng, v6), 'attrs': [pick(rng, ATTRSETS)] if reach else [],
                          'nexthop': gen_nexthop(rng, v6) if reach else [], 'ts': pick(rng, U32S),
                          'rid': pick(rng, V4S), 'asn': pick(rng, ASNS)})
        for k in range(40 if q else 800):
            peers = [pick(rng, SOURCES) for _ in range(2)]
            cs = [gen_change(rng, src=pick(rng, peers), small=True, n=pick(rng, [1, 1, 2])) for _ in range(rng.randrange(0, 9))]
            who = pick(rng, peers + [pick(rng, SOURCES)])
            cases.append({'kind': 'dflush', 'changes': cs, 'addr': who[0],
                          'hdr': [0, pick(rng, [0, 0x40]), who[2], who[4], 0, who[0], pick(rng, U32S)], 'flags': pick(rng, [0, 0x40])})
        for k in range(20 if q else 800):
            cases.append({'kind': 'dmrt', 'change': gen_change(rng)})
        for k in range(50 if q else 800):
            routes = []
            for _ in range(rng.randrange(0, 9)):
                v6 = rng.random() < 0.5
                fam = IPV6 if v6 else IPV4
                routes.append([pick(rng, SOURCES), fam, pick(rng, SMALL_NLRI[fam]), pick(rng, [0, 0, 1]),
                               gen_nexthop(rng, v6), pick(rng, ATTRSETS)])
            cases.append({'kind': 'ddump', 'rid': pick(rng, V4S), 'routes': routes})
        return cases

    # ---- running
    def _harness(self, mode, vals):
        return rustrun.crate_bin('C19', 'hx-mon', mode, vals)

    def _views(self, c, o):
        if c['kind'] == 'bmp':
            return read_bmp_stream(o[0], len(c['pre']))
        return read_mrt_stream(o[0], len(c['pre']))

    def run_impl(self, cases, tier):
        obs = [None] * len(cases)
        for kind, mk in (('bmp', lambda c: [c['pre'], c['msgs']]), ('mrt', lambda c: [c['pre'], c['msgs']]),
                         ('td', lambda c: [c['pre'], c['recs']])):
            idx = [k for k, c in enumerate(cases) if c['kind'] == kind]
            if not idx:
                continue
            res, err = self._harness(kind, [mk(cases[k]) for k in idx])
            if res is None:
                return None, err
            for k, r in zip(idx, res):
                if kind == 'mrt' and r != [-1]:
                    r = [r[0], r[2], r[1]]          # [buffer, blobs, timestamps ok]
                obs[k] = r
        for hook, test, kinds in (('C19b', 'bmp::verif_hx::verif_bmp_cases', ('dconv', 'dloc', 'dflush', 'dlocup', 'ddown', 'dout')),
                                  ('C19m', 'mrt::verif_hx::verif_mrt_cases', ('dmrt', 'ddump'))):
            idx = [k for k, c in enumerate(cases) if c['kind'] in kinds]
            if not idx:
                continue
            res, err = rustrun.daemon_test(hook, test, [self._dval(cases[k]) for k in idx])
            if res is None:
                return None, err
            for k, r in zip(idx, res):
                obs[k] = r
        # second pass: the repository's BGP parser on the PDUs the python readers find
        jobs, where = [], []
        for k, c in enumerate(cases):
            o = obs[k]
            if o == [-1] or c['kind'] not in ('bmp', 'mrt'):
                continue
            try:
                views = self._views(c, o)
            except Bad:
                o.insert(2, [])
                continue
            per, flat = [], self._addpath_plan(c, o)
            for v in views:
                pl = []
                for pdu in v.get('pdus', []):
                    where.append(pl); pl.append(None)
                    ap = flat.pop(0) if flat else 0
                    jobs.append([[IPV4, IPV6, IPV4_MC, IPV6_MC], ap, pdu])
                per.append(pl)
            o.insert(2, per)
        for k, c in enumerate(cases):
            o = obs[k]
            if o == [-1] or c['kind'] not in ('dlocup', 'ddown'):
                continue
            pl = []
            try:
                for v in read_bmp_stream(o[0], 0):
                    for pdu in v.get('pdus', []):
                        where.append(pl); pl.append(None)
                        jobs.append([[IPV4, IPV6], 0, pdu])
            except Bad:
                pass
            o.append(pl)
        if jobs:
            pres, err = self._harness('parse', jobs)
            if pres is None:
                return None, err
            for slot, p in zip(where, pres):
                slot[slot.index(None)] = p
        # what run_model needs from this run (reference encodings, dump timestamps), by position
        self._side = list(obs)
        return obs, ''

    def _dval(self, c):
        k = c['kind']
        if k == 'dconv': return [0, c['change']]
        if k == 'dloc': return [1, c['family'], c['net'], c['attrs'], c['nexthop'], c['ts'], c['rid'], c['asn']]
        if k == 'dflush': return [2, c['changes'], c['addr'], c['hdr'], c['flags']]
        if k == 'dlocup': return [3, c['rid'], c['asn']]
        if k == 'ddown': return [4, c['reason'], c['hdr']]
        if k == 'dout': return [5, c['peer'], c['family'], c['addpath'], c['entry'], c['attrs'], c['nexthop'], c['ts']]
        if k == 'dmrt': return [0, c['change']]
        return [1, c['rid'], c['routes']]

    def _addpath_plan(self, c, o):
        """the add-path setting under which each embedded PDU, in stream order, is to be parsed:
        the one stated for the monitored message it belongs to (frames per message from the
        reference blobs)"""
        flat = []
        for m, blobs in zip(c['msgs'], o[1]):
            if c['kind'] == 'mrt' or m[0] == 0:
                try:
                    nfr = max(1, len(split_frames(blobs[0])))
                except Bad:
                    nfr = 1
                flat += [m[2] if c['kind'] == 'mrt' else m[3]] * nfr
            elif m[0] == 3:
                flat += [0, 0]
            elif m[0] == 2 and m[2][0] in (1, 3):
                flat += [0]
        return flat

    def run_model(self, cases, tier):
        terms = []
        for k, c in enumerate(cases):
            o = self._side[k] if k < len(self._side) else None
            if o is None or o == [-1]:
                # no reference encodings available (the implementation panicked): the model cannot be evaluated
                terms.append('run_case [] []')
                continue
            if c['kind'] == 'dconv':
                terms.append('run_conv_update %s' % cchange(c['change']))
            elif c['kind'] == 'dloc':
                terms.append('run_loc %s (%s) %s (%s) %s %s %s %s' % (
                    cN(c['family']), cval(c['net']), ('(Some (%s))' % cval(attrs_enc(c['attrs'][0]))) if c['attrs'] else 'None',
                    cval(c['nexthop']), cN(c['ts']), cbytes(c['rid']), cN(c['asn']), cbytes(o[1])))
            elif c['kind'] == 'dlocup':
                terms.append('run_locup %s %s %s' % (cbytes(c['rid']), cN(c['asn']), cbytes(o[1][0])))
            elif c['kind'] == 'ddown':
                r = c['reason']
                sd = 'None' if not r else '(Some %s)' % {0: 'SDHoldTimerExpired', 1: '(SDRemoteNotification %s)' % cbytes(o[1]), 2: '(SDLocalNotification %s)' % cbytes(o[1]),
                                                         3: 'SDFsmError', 4: 'SDAdminShutdown', 5: 'SDIoError'}[r[0]]
                terms.append('run_down %s %s' % (sd, cpph(c['hdr'])))
            elif c['kind'] == 'dout':
                terms.append('run_out_update %s (%s) %s (%s)' % (cN(c['family']), cval(c['entry']),
                             ('(Some (%s))' % cval(attrs_enc(c['attrs'][0]))) if c['attrs'] else 'None', cval(c['nexthop'])))
            elif c['kind'] == 'dflush':
                terms.append('run_flush %s %s %s %s' % (clist([cchange(x) for x in c['changes']]), cip(c['addr']), cpph(c['hdr']), cN(c['flags'])))
            elif c['kind'] == 'dmrt':
                terms.append('run_mrt_conv %s %s' % (cchange(c['change']), cbytes(o[1])))
            elif c['kind'] == 'ddump':
                def dch(desc, side):
                    out = []
                    for (nl, paths), (pfx, attrs) in zip(desc, side):
                        ps = ['{| d_addr := %s; d_rid := %s; d_asn := %s; d_nh := %s; d_attrs := %s |}' % (
                            cip(p[0]), cbytes(be(4, p[1])), cN(p[2]), copt_bytes(p[3]), clist([cbytes(a) for a in at]))
                            for p, at in zip(paths, attrs)]
                        out.append('(%s, %s)' % (cbytes(pfx), clist(ps)))
                    return clist(out)
                terms.append('run_dump %s %s %s %s' % (cbytes(c['rid']), cN(o[1]), dch(o[3], o[5]), dch(o[4], o[6])))
            elif c['kind'] == 'bmp':
                terms.append('run_case %s %s' % (cbytes(c['pre']), clist([bmp_to_coq(m, b) for m, b in zip(c['msgs'], o[1])])))
            elif c['kind'] == 'mrt':
                terms.append('run_mrt %s %s' % (cbytes(c['pre']), clist([mp_to_coq(m, b) for m, b in zip(c['msgs'], o[1])])))
            else:
                terms.append('%s %s %s' % ('run_td_digest' if c.get('digest') else 'run_td', cbytes(c['pre']), clist([td_to_coq(tr, sd) for tr, sd in zip(c['recs'], o[1])])))
        pre = 'From RB Require Import Base.Val Base.BytesBuf Model.Bmp Model.Mrt Model.MonConv.\nOpen Scope N_scope.'
        return coqrun.eval_terms('C19', pre, terms)

    def canon(self, case, obs):
        k = case['kind']
        if obs == [-1]:
            return obs
        if k == 'dconv':
            return obs
        if k == 'dloc':
            return obs
        if k == 'dlocup':
            return obs[:7]
        if k == 'ddown':
            return obs[:4]
        if k == 'dout':
            return obs
        if k == 'dmrt':
            return obs[:4]
        if k == 'ddump':
            return obs[0] if (obs and isinstance(obs[0], list)) else obs
        if k == 'dflush':
            if len(obs) == 3:        # implementation: [[bytes, blob, update, addpath]...], eor order, peers left
                items = []
                for it in obs[0]:
                    try:
                        v, _ = read_bmp(it[0], 0)
                        pv = v['peer']
                        v6 = bool(pv['flags'] & 0x80)
                        hdr = [pv['type'], pv['flags'] & 0x7f, pv['asn'], pv['id'], pv['dist'],
                               pv['addr'] if v6 else pv['addr'][12:], pv['sec']]
                    except (Bad, KeyError):
                        hdr = ['unreadable']
                    items.append([hdr, it[2], it[3]])
                return [sorted(items, key=json.dumps), sorted(obs[2])]
            return [sorted(obs[0], key=json.dumps), sorted(obs[1])]
        if obs and isinstance(obs[0], list):
            if case.get('digest') and len(obs) == 2:
                # implementation side of a digest case (the model prints [len, checksum, [first bytes]])
                s1 = s2 = 0
                for b in obs[0]:
                    s1 += b
                    s2 += s1
                return [len(obs[0]), [s1, s2], obs[0][:40]]
            if case.get('digest'):
                return obs
            return obs[0]
        return obs

    # ---- Spec oracle
    def oracle(self, c, obs):
        if obs == [-1]:
            return 'panic in the encoder'
        if c.get('api_only'):
            return None
        if c['kind'].startswith('d'):
            return self._oracle_daemon(c, obs)
        if obs[0][:len(c['pre'])] != c['pre']:
            return 'the encoder changed bytes that were already in the buffer'
        return {'bmp': self._oracle_bmp, 'mrt': self._oracle_mrt, 'td': self._oracle_td}[c['kind']](c, obs)

    def _oracle_daemon(self, c, obs):
        k = c['kind']
        if k == 'dconv':
            if obs != update_desc(c['change']):
                return 'adj_rib_in_to_bmp_update built %s from a change that says %s' % (obs, update_desc(c['change']))
            return None
        if k == 'dout':
            want = [2, 0, c['family'], [c['entry']], c['nexthop'], attrs_enc(c['attrs'][0])] if c['attrs'] else [2, 1, c['family'], [c['entry']]]
            if obs != want:
                return 'adj_rib_out_to_bmp_update built %s from a change that says %s' % (obs, want)
            return None
        if k == 'dlocup':
            try:
                views = read_bmp_stream(obs[0], 0)
            except Bad as e:
                return 'Loc-RIB Peer Up does not read back: %s' % e
            if len(views) != 1 or views[0]['ty'] != 3:
                return 'Loc-RIB Peer Up is not exactly one Peer Up message'
            v = views[0]
            why = check_peer(v['peer'], [3, 0, c['asn'], c['rid'], 0, [0, 0, 0, 0], 0], 'Loc-RIB Peer Up header')
            if why: return why
            if v['laddr'] != [0] * 16 or v['lport'] or v['rport'] or v['info']:
                return 'Loc-RIB Peer Up local address/ports/TLVs are not the zero ones'
            for p, nm in zip(obs[-1], ('sent', 'received')):
                # RFC 9069 4.4: a fabricated OPEN that states the local AS and BGP identifier
                if p[0] != 1 or p[1] != c['asn'] or p[3] != dec(c['rid']) or p[-1] != 0:
                    return '%s OPEN of the Loc-RIB peer parses back as AS %s id %s, the router is AS %d id %d' % (
                        nm, p[1] if len(p) > 1 else p, p[3] if len(p) > 3 else '?', c['asn'], dec(c['rid']))
            return None
        if k == 'ddown':
            r = c['reason']
            want_code = 4 if not r else {0: 2, 1: 3, 2: 1, 3: 2, 4: 2, 5: 4}[r[0]]
            try:
                views = read_bmp_stream(obs[0], 0)
            except Bad as e:
                return 'Peer Down does not read back: %s' % e
            if len(views) != 1 or views[0]['ty'] != 2:
                return 'not exactly one Peer Down message'
            v = views[0]
            why = check_peer(v['peer'], c['hdr'], 'Peer Down header')
            if why: return why
            if v['reason'] != want_code:
                return 'Peer Down reason %d for session-down cause %s' % (v['reason'], r)
            if want_code in (1, 3):
                p = obs[-1][0]
                if p[:4] != [3, r[1][1], r[1][2], expand(r[1][3])]:
                    return 'NOTIFICATION of the Peer Down parsed back as %s' % (p,)
            return None
        if k == 'dloc':
            want = [2, 0 if c['attrs'] else 1, c['family'], [[0, c['net']]]] + ([c['nexthop'], attrs_enc(c['attrs'][0])] if c['attrs'] else [])
            if obs[2] != want or obs[3] != 0:
                return 'loc_rib_to_bmp built %s, the Loc-RIB event says %s' % (obs[2], want)
            try:
                v, end = read_bmp(obs[0], 0)
            except Bad as e:
                return 'Loc-RIB message does not read back: %s' % e
            if end != len(obs[0]) or v['ty'] != 0:
                return 'Loc-RIB event is not exactly one Route Monitoring message'
            return check_peer(v['peer'], [3, 0, c['asn'], c['rid'], 0, [0, 0, 0, 0], c['ts']], 'Loc-RIB header')
        if k == 'dmrt':
            ch = c['change']
            if not obs[4]:
                return 'MRT timestamp outside the wall-clock window of the call'
            if obs[2] != update_desc(ch) or obs[3] != ch[2]:
                return 'adj_rib_in_to_mrt built %s / add-path %s from a change that says %s / %s' % (obs[2], obs[3], update_desc(ch), ch[2])
            try:
                views = read_mrt_stream(obs[0], 0)
            except Bad as e:
                return 'BGP4MP record does not read back: %s' % e
            src = ch[0]
            for v in views:
                if v['ty'] != 16 or v['sub'] != (8 if ch[2] else 4):
                    return 'record type/subtype %d/%d does not state add-path=%d' % (v['ty'], v['sub'], ch[2])
                if (v['peer_as'], v['local_as'], v['ifidx'], v['peer_ip'], v['local_ip']) != (src[2], src[3], 0, src[0], src[1]):
                    return 'BGP4MP header differs from the session of the change'
                if v['afi'] != (2 if len(src[0]) == 16 else 1):
                    return 'address family does not match the peer address'
            if b''.join(bytes(v['pdus'][0]) for v in views) != bytes(obs[1]):
                return 'the records do not carry the BGP message(s) of the change'
            return None
        if k == 'dflush':
            items, eor_last, left = obs
            if not eor_last:
                return 'End-of-RIB messages do not follow the route messages'
            st = net_state(c['changes'], c['addr'])
            want_routes, fams = [], set()
            for key, (ch, e) in st.items():
                fams.add(ch[1])
                want_routes.append([[0, c['flags'], ch[0][2], ch[0][4], 0, ch[0][0], ch[6]], [2, 0, ch[1], [e], ch[5], attrs_enc(ch[4][0])], ch[2]])
            want_eor = [[c['hdr'], [2, 2, f], 0] for f in fams]
            got = self.canon(c, obs)[0]
            want = sorted(want_routes + want_eor, key=json.dumps)
            if got != want:
                return 'flush_peer_snapshot sent %d messages, the net state of the peer is %d routes in %d families (or their content differs)' % (len(got), len(want_routes), len(fams))
            others = sorted(set(json.dumps(ch[0][0]) for ch in c['changes'] if ch[4] and ch[0][0] != c['addr']))
            if sorted(json.dumps(a) for a in left) != others and not set(json.dumps(a) for a in left) >= set(others):
                return 'flush removed another peer from the snapshot'
            if c['addr'] in left:
                return 'the flushed peer is still in the snapshot'
            return None
        # ddump
        buf, ts, ts_ok, d4, d6 = obs[0], obs[1], obs[2], obs[3], obs[4]
        if not ts_ok:
            return 'dump timestamp outside the wall-clock window of the call'
        try:
            views = read_mrt_stream(buf, 0)
        except Bad as e:
            return 'the dump is not a sequence of well-formed MRT records: %s' % e
        if not views or views[0]['ty'] != 13 or views[0]['sub'] != 1:
            return 'the dump does not start with a PEER_INDEX_TABLE'
        pit = views[0]
        if pit['collector'] != c['rid'] or pit['count'] != len(pit['peers']):
            return 'PEER_INDEX_TABLE collector id / count differ'
        if len(set(json.dumps(p[2]) for p in pit['peers'])) != len(pit['peers']):
            return 'PEER_INDEX_TABLE lists a peer address twice'
        want = {}
        for r in c['routes']:
            want[json.dumps([r[1], r[2], r[0][0], r[3]])] = r
        seen, seqs = [], {2: [], 4: []}
        for v in views[1:]:
            if v['ty'] != 13 or v['sub'] not in (2, 4) or v['ts'] != ts:
                return 'unexpected record type/subtype/timestamp in the dump'
            seqs[v['sub']].append(v['seq'])
            if v['count'] == 0:
                return 'a RIB record without entries was written'
            for idx, orig, ab in v['entries']:
                if idx >= len(pit['peers']):
                    return 'peer index %d with %d peers in the index table' % (idx, len(pit['peers']))
                if orig != ts:
                    return 'originated time differs from the dump timestamp'
                seen.append((v['sub'], v['plen'], tuple(v['prefix']), tuple(pit['peers'][idx][2]), tuple(ab)))
        for sub in (2, 4):
            if seqs[sub] != list(range(len(seqs[sub]))):
                return 'sequence numbers of subtype %d are %s' % (sub, seqs[sub])
        wantl = []
        for r in want.values():
            mask, addr = r[2][1], r[2][2]
            wantl.append((2 if r[1] == IPV4 else 4, mask, tuple(addr[:(mask + 7) // 8]), tuple(r[0][0])))
        if sorted(x[:4] for x in seen) != sorted(wantl):
            return 'the (prefix, peer) pairs dumped differ from the Loc-RIB contents (%d dumped, %d routes)' % (len(seen), len(wantl))
        for p in pit['peers']:
            srcs = [r[0] for r in c['routes'] if r[0][0] == p[2]]
            if not srcs or (p[1], p[3]) != (srcs[0][4], srcs[0][2]) or bool(p[0] & 1) != (len(p[2]) == 16) or not p[0] & 2:
                return 'peer entry %s does not describe a session of the dump' % (p,)
        return None

    def _oracle_mrt(self, c, obs):
        buf, blobs, parsed, ts_ok = obs[0], obs[1], obs[2], obs[3]
        if not ts_ok:
            return 'MRT timestamp outside the wall-clock window of the call'
        for bl in blobs:
            try:
                split_frames(bl[0])
            except Bad as e:
                return 'encode_to output is not a sequence of BGP frames (%s)' % e
        try:
            views = read_mrt_stream(buf, len(c['pre']))
        except Bad as e:
            return 'the bytes are not a sequence of well-formed MRT records: %s' % e
        vi, known = 0, None
        for mi, (m, bl) in enumerate(zip(c['msgs'], blobs)):
            what = 'message %d' % mi
            h, spec, ap = m
            nfr = len(split_frames(bl[0]))
            mine, mparsed = views[vi:vi + nfr], parsed[vi:vi + nfr]
            vi += nfr
            if len(mine) != nfr:
                return '%s: expected %d BGP4MP records (one per BGP frame)' % (what, nfr)
            for v in mine:
                if v['ty'] != 16 or v['sub'] != (8 if ap else 4):
                    return '%s: type/subtype %d/%d does not state add-path=%d (AS4 form)' % (what, v['ty'], v['sub'], ap)
                v6 = len(h[3]) == 16
                if v['afi'] != (2 if v6 else 1):
                    return '%s: address family %d for a %s peer' % (what, v['afi'], 'IPv6' if v6 else 'IPv4')
                if (v['peer_as'], v['local_as'], v['ifidx'], v['peer_ip'], v['local_ip']) != (h[0], h[1], h[2], h[3], h[4]):
                    return '%s: BGP4MP header fields differ from the monitored ones' % what
            why = check_msg(spec, ap, [p[0] for p in mparsed])
            if why:
                return '%s: %s' % (what, why)
        if vi != len(views):
            return '%d MRT records in the stream beyond those monitored' % (len(views) - vi)
        return known

    def _oracle_td(self, c, obs):
        buf, side = obs[0], obs[1]
        try:
            views = read_mrt_stream(buf, len(c['pre']))
        except Bad as e:
            return 'the bytes are not a sequence of well-formed MRT records: %s' % e
        if len(views) != len(c['recs']):
            return '%d records read, %d written' % (len(views), len(c['recs']))
        for ri, ((ts, rec), v, sd) in enumerate(zip(c['recs'], views, side)):
            what = 'record %d' % ri
            if v['ts'] != ts or v['ty'] != 13:
                return '%s: timestamp/type differ' % what
            if rec[0] == 0:
                peers = expand(rec[2])
                if v['sub'] != 1 or v['collector'] != rec[1] or v['view_name'] != []:
                    return '%s: PEER_INDEX_TABLE header differs' % what
                if v['count'] != len(peers) or len(v['peers']) != len(peers):
                    return '%s: peer count %d, %d peers written' % (what, v['count'], len(peers))
                for (pt, pid, ip, asn), p in zip(v['peers'], peers):
                    if bool(pt & 1) != (len(p[1]) == 16):
                        return '%s: peer type %d for a %d-octet address' % (what, pt, len(p[1]))
                    if not pt & 2 or pt & ~3:
                        return '%s: peer type %d (AS4 bit expected, no other bits)' % (what, pt)
                    if (pid, ip, asn) != (p[0], p[1], p[2]):
                        return '%s: peer entry differs from the one written' % what
            else:
                es = expand(rec[3])
                if v['sub'] != (2 if rec[0] == 1 else 4) or v['seq'] != rec[1]:
                    return '%s: RIB subtype/sequence differ' % what
                mask, addr = rec[2][1], rec[2][2]
                if v['plen'] != mask or v['prefix'] != addr[:(mask + 7) // 8]:
                    return '%s: prefix differs from the one dumped' % what
                if v['count'] != len(es) or len(v['entries']) != len(es):
                    return '%s: entry count %d, %d entries written' % (what, v['count'], len(es))
                for k, ((idx, orig, ab), e) in enumerate(zip(v['entries'], es)):
                    if (idx, orig) != (e[0], e[1]):
                        return '%s entry %d: peer index / originated time differ' % (what, k)
                    try:
                        got = read_attrs(ab)
                    except Bad as ex:
                        return '%s entry %d: attribute block of %d bytes does not parse (%s)' % (what, k, len(ab), ex)
                    want = [tuple(attr_wire(a)) for a in expand(e[3])]
                    gotw = [tuple([fl, code] + (be(2, len(vb)) if fl & 0x10 else [len(vb)]) + vb) for fl, code, vb in got]
                    nh = e[2]
                    if nh:
                        last = got[-1] if got else None
                        if rec[0] == 1:
                            ok = last is not None and last[1] == 3 and last[2] == nh[0]
                        else:
                            ok = last is not None and last[1] == 14 and last[2] == [len(nh[0])] + nh[0]
                        if not ok:
                            return '%s entry %d: next hop not carried by the last attribute' % (what, k)
                        gotw = gotw[:-1]
                    if gotw != want:
                        return '%s entry %d: attributes differ from the ones dumped' % (what, k)
        return None

    def _oracle_bmp(self, c, obs):
        buf, blobs, parsed = obs[0], obs[1], obs[2]
        # contract of the opaque parameter (C04): every reference blob is a sequence of frames
        for bl in blobs:
            for b in bl:
                try:
                    split_frames(b)
                except Bad as e:
                    return 'encode_to output is not a sequence of BGP frames (%s)' % e
        try:
            views = read_bmp_stream(buf, len(c['pre']))
        except Bad as e:
            return 'the bytes are not a sequence of well-formed BMP messages: %s' % e
        vi, known = 0, None
        for mi, (m, bl) in enumerate(zip(c['msgs'], blobs)):
            what = 'message %d' % mi
            if m[0] == 0:
                nfr = len(split_frames(bl[0]))
                mine, mparsed = views[vi:vi + nfr], parsed[vi:vi + nfr]
                vi += nfr
                if len(mine) != nfr or any(v['ty'] != 0 for v in mine):
                    return '%s: expected %d Route Monitoring messages (one per BGP frame)' % (what, nfr)
                for v in mine:
                    why = check_peer(v['peer'], m[1], what)
                    if why: return why
                why = check_update(m[2], m[3], [p[0] for p in mparsed])
                if why: return '%s: %s' % (what, why)
                continue
            if vi >= len(views):
                return '%s: missing from the stream' % what
            v, pp = views[vi], parsed[vi]
            vi += 1
            if v['ty'] != m[0]:
                return '%s: message type %d, expected %d' % (what, v['ty'], m[0])
            if m[0] == 4:
                if [[t, b] for t, b in v['info']] != [[t, expand(b)] for t, b in m[1]]:
                    return '%s: Initiation TLVs differ' % what
                continue
            why = check_peer(v['peer'], m[1], what)
            if why: return why
            if m[0] == 2:
                r = m[2]
                if v['reason'] != r[0]:
                    return '%s: Peer Down reason %d, expected %d' % (what, v['reason'], r[0])
                if r[0] == 2 and v.get('fsm') != r[1]:
                    return '%s: FSM code differs' % what
                if r[0] in (1, 3):
                    p = pp[0]
                    if p[:4] != [3, r[1][1], r[1][2], expand(r[1][3])]:
                        return '%s: NOTIFICATION parsed back as %s' % (what, p)
            elif m[0] == 3:
                la = m[2]
                want = la if len(la) == 16 else [0] * 12 + la
                if v['laddr'] != want or v['lport'] != m[3] or v['rport'] != m[4]:
                    return '%s: Peer Up local address/ports differ' % what
                if v['info']:
                    return '%s: unexpected information TLVs' % what
                for p, o, nm in ((pp[0], m[5], 'sent'), (pp[1], m[6], 'received')):
                    if p[:5] != open_expect(o):
                        return '%s: %s OPEN parsed back as %s, monitored %s' % (what, nm, p, open_expect(o))
        if vi != len(views):
            return '%d BMP messages in the stream beyond those monitored' % (len(views) - vi)
        return known

    def in_known_class(self, kf, c, obs, why):
        return False

    def nontrivial_key(self, c, obs):
        if obs == [-1]:
            return ('panic',)
        key = []
        if c['kind'] in ('dconv', 'dmrt'):
            ch = c['change']
            return (c['kind'], ch[1], ch[2], len(ch[3]), bool(ch[4]), len(ch[0][0]), len(ch[5][0]) if ch[5] else 0)
        if c['kind'] == 'dlocup':
            return ('dlocup', c['asn'], tuple(c['rid']))
        if c['kind'] == 'ddown':
            return ('ddown', json.dumps(c['reason']), len(c['hdr'][5]))
        if c['kind'] == 'dout':
            return ('dout', c['family'], c['addpath'], bool(c['attrs']))
        if c['kind'] == 'dloc':
            return ('dloc', c['family'], bool(c['attrs']), c['net'][1], c['asn'], c['ts'])
        if c['kind'] == 'dflush':
            if not c['changes']:
                return None
            return ('dflush', tuple((json.dumps(ch[0][0]) == json.dumps(c['addr']), ch[1], bool(ch[4]), json.dumps(ch[3])) for ch in c['changes']))
        if c['kind'] == 'ddump':
            if not c['routes']:
                return None
            return ('ddump', tuple(sorted((r[1], json.dumps(r[2]), json.dumps(r[0][0]), r[3]) for r in c['routes'])))
        if c['kind'] == 'td':
            for ts, rec in c['recs']:
                if rec[0] == 0:
                    key.append((0, tuple(len(p[1]) for p in expand(rec[2])[:8]), len(expand(rec[2]))))
                else:
                    es = expand(rec[3])
                    key.append((rec[0], rec[2][1], len(es), tuple((len(e[2][0]) if e[2] else 0, len(expand(e[3]))) for e in es[:8])))
            return ('td', len(c['pre']) > 0, tuple(key)) if any(k[0] != 0 or k[2] for k in key) else None
        for m, bl in zip(c['msgs'], obs[1]):
            if c['kind'] == 'mrt':
                try: nfr = len(split_frames(bl[0]))
                except Bad: nfr = -1
                key.append((len(m[0][3]), len(m[0][4]), m[0][5]) + uinfo(m[1]) + (m[2], nfr, min(len(bl[0]) // 64, 80)))
            elif m[0] == 0:
                try: nfr = len(split_frames(bl[0]))
                except Bad: nfr = -1
                key.append((0, len(m[1][5])) + uinfo(m[2]) + (m[3], nfr, min(len(bl[0]) // 64, 80)))
            elif m[0] == 3:
                key.append((3, len(m[1][5]), len(m[2]), len(bl[0]), len(bl[1])))
            elif m[0] == 2:
                key.append((2, len(m[1][5]), m[2][0]))
            elif m[0] == 4:
                key.append((4, tuple(len(expand(b)) for _, b in m[1])))
        return (c['kind'], len(c['pre']) > 0, tuple(key)) if key else None

    def classify(self, c, obs):
        tags = [c['kind']]
        if c.get('cls'):
            tags.append('enum:' + c['cls'])
        if c.get('api_only'):
            tags.append('correspondence_only')
        if obs == [-1]:
            return tags + ['panic']
        if c['kind'].startswith('d'):
            if c['kind'] == 'dflush':
                st = net_state(c['changes'], c['addr'])
                tags.append('flush_%s' % ('empty' if not st else 'routes'))
                if any(not ch[4] for ch in c['changes']): tags.append('flush_with_withdrawals')
            if c['kind'] == 'ddump':
                tags.append('dump_%d_peers' % len(set(json.dumps(r[0][0]) for r in c['routes'])))
            return sorted(set(tags))
        if c['pre']:
            tags.append('prefilled_buffer')
        if c['kind'] == 'td':
            for ts, rec in c['recs']:
                tags.append(['td_peer_index', 'td_rib_v4', 'td_rib_v6'][rec[0]])
                n = len(expand(rec[2] if rec[0] == 0 else rec[3]))
                tags.append('td_count_%s' % ('0' if n == 0 else '1-5' if n <= 5 else 'u16_boundary'))
            return sorted(set(tags))
        names = {0: 'route_monitoring', 1: 'stats', 2: 'peer_down', 3: 'peer_up', 4: 'initiation', 5: 'termination', 6: 'mirroring'}
        for m, bl in zip(c['msgs'], obs[1]):
            if c['kind'] == 'mrt':
                u, ap = m[1], m[2]
                tags.append('mrt_peer_v6' if len(m[0][3]) == 16 else 'mrt_peer_v4')
            else:
                tags.append(names[m[0]])
                if m[0] in (0, 2, 3):
                    tags.append('peer_v6' if len(m[1][5]) == 16 else 'peer_v4')
                if m[0] != 0:
                    continue
                u, ap = m[2], m[3]
            if u[0] != 2:
                tags.append('embedded_' + {1: 'open', 3: 'notification', 4: 'keepalive', 5: 'route_refresh'}[u[0]])
                continue
            tags.append(['reach', 'unreach', 'eor'][u[1]] + ('_v6' if u[2] >> 16 == 2 else '_v4') + ('_multicast' if u[2] & 255 == 2 else ''))
            if ap: tags.append('addpath')
            try:
                if len(split_frames(bl[0])) > 1: tags.append('update_split_into_frames')
            except Bad:
                pass
        return sorted(set(tags))
