"""C19: generators, renderers, independent structural readers (RFC 7854 / RFC 6396) and
Spec oracle for the BMP / MRT record encoders.

A case is one *session*: a list of messages/records pushed through ONE codec into ONE
buffer (as tokio's Framed sink / the MRT dumper do).  The BGP encoder is outside this
property (C04): the harness prints, next to the record bytes, the reference encoding of
every embedded BGP message (`PeerCodec::encode_to` on a fresh codec whose only
negotiated feature is the add-path setting of the record); the model takes those byte
strings as its opaque parameter.  The oracle reads the implementation's bytes with the
python readers below, and judges the embedded PDUs through the repository's own BGP
parser (harness mode `parse`).
"""
import json, os, resource
from vp import val, coqrun, rustrun
from vp.val import cN, cbool, clist, cpair
from gen.common import IPV4, IPV6

MARKER = [255] * 16

# coqc reads back 65536-element lists (the u16 truncation boundary cases) recursively:
# give the child processes of this check the hard stack limit instead of the 8 MB default.
try:
    _soft, _hard = resource.getrlimit(resource.RLIMIT_STACK)
    resource.setrlimit(resource.RLIMIT_STACK, (_hard, _hard))
except (ValueError, OSError):
    pass

# ------------------------------------------------------------------ byte helpers

def be(k, n):
    return [(n >> (8 * (k - 1 - i))) & 255 for i in range(k)]

def dec(bs):
    n = 0
    for b in bs:
        n = n * 256 + b
    return n

def expand(v):
    """the compact list form [-1, n, x] of the harness (n copies of x)"""
    if isinstance(v, list) and len(v) == 3 and v[0] == -1:
        return [v[2]] * v[1]
    return v

class Bad(Exception):
    pass

class Rd:
    """cursor over a byte list; every read checks bounds"""
    def __init__(self, bs, pos=0, end=None):
        self.bs, self.pos, self.end = bs, pos, len(bs) if end is None else end
    def left(self):
        return self.end - self.pos
    def take(self, n, what=''):
        if n < 0 or self.pos + n > self.end:
            raise Bad('truncated %s: need %d bytes, %d left' % (what, n, self.left()))
        r = self.bs[self.pos:self.pos + n]
        self.pos += n
        return r
    def num(self, k, what=''):
        return dec(self.take(k, what))

def split_frames(blob):
    """BGP frames in a byte string (RFC 4271 4.1): marker, length >= 19 covering the frame"""
    out, r = [], Rd(blob)
    while r.left() > 0:
        start = r.pos
        if r.take(16, 'marker') != MARKER:
            raise Bad('BGP marker is not all ones')
        n = r.num(2, 'BGP length')
        if n < 19:
            raise Bad('BGP length %d < 19' % n)
        r.pos = start
        out.append(r.take(n, 'BGP frame'))
    return out

def read_pdu(r, ty, what):
    start = r.pos
    if r.take(16, what + ' marker') != MARKER:
        raise Bad(what + ': BGP marker is not all ones')
    n = r.num(2, what + ' length')
    if n < 19:
        raise Bad('%s: BGP length %d < 19' % (what, n))
    t = r.num(1, what + ' type')
    if t != ty:
        raise Bad('%s: BGP message type %d, expected %d' % (what, t, ty))
    r.pos = start
    return r.take(n, what)

# ------------------------------------------------------------------ BMP reader (RFC 7854)

def read_peer(r):
    return dict(type=r.num(1, 'peer type'), flags=r.num(1, 'peer flags'), dist=r.num(8, 'distinguisher'),
                addr=r.take(16, 'peer address'), asn=r.num(4, 'peer AS'), id=r.take(4, 'peer BGP ID'),
                sec=r.num(4, 'timestamp'), usec=r.num(4, 'timestamp us'))

def read_tlvs(r):
    out = []
    while r.left() > 0:
        t = r.num(2, 'TLV type'); l = r.num(2, 'TLV length')
        out.append((t, r.take(l, 'TLV value')))
    return out

def read_bmp(bs, pos):
    """one BMP message at bs[pos:] -> (view, next pos)"""
    h = Rd(bs, pos)
    ver = h.num(1, 'version')
    if ver != 3:
        raise Bad('BMP version %d' % ver)
    ln = h.num(4, 'message length'); ty = h.num(1, 'message type')
    if ln < 6:
        raise Bad('message length %d < 6' % ln)
    if pos + ln > len(bs):
        raise Bad('message length %d exceeds the %d bytes that follow the header start' % (ln, len(bs) - pos))
    r = Rd(bs, pos + 6, pos + ln)
    v = dict(ty=ty, len=ln)
    if ty == 0:
        v['peer'] = read_peer(r)
        v['pdus'] = [read_pdu(r, 2, 'Route Monitoring UPDATE')]
        if r.left():
            raise Bad('Route Monitoring: %d bytes after the single BGP UPDATE PDU' % r.left())
    elif ty == 2:
        v['peer'] = read_peer(r)
        reason = v['reason'] = r.num(1, 'reason')
        v['pdus'] = []
        if reason in (1, 3):
            v['pdus'] = [read_pdu(r, 3, 'Peer Down NOTIFICATION')]
        elif reason == 2:
            v['fsm'] = r.num(2, 'FSM event code')
        elif reason not in (4, 5):
            raise Bad('Peer Down reason %d' % reason)
        if r.left():
            raise Bad('Peer Down: %d trailing bytes' % r.left())
    elif ty == 3:
        v['peer'] = read_peer(r)
        v['laddr'] = r.take(16, 'local address'); v['lport'] = r.num(2, 'local port'); v['rport'] = r.num(2, 'remote port')
        v['pdus'] = [read_pdu(r, 1, 'Peer Up sent OPEN'), read_pdu(r, 1, 'Peer Up received OPEN')]
        v['info'] = read_tlvs(r)
    elif ty == 4:
        v['info'] = read_tlvs(r)
    else:
        raise Bad('message type %d is not one the daemon emits' % ty)
    return v, pos + ln

def read_bmp_stream(bs, pos):
    out = []
    while pos < len(bs):
        v, pos = read_bmp(bs, pos)
        out.append(v)
    return out

# ------------------------------------------------------------------ MRT reader (RFC 6396, RFC 8050)

def read_mrt(bs, pos):
    """one MRT record at bs[pos:] -> (view, next pos)"""
    h = Rd(bs, pos)
    ts = h.num(4, 'timestamp'); ty = h.num(2, 'type'); sub = h.num(2, 'subtype'); ln = h.num(4, 'length')
    if pos + 12 + ln > len(bs):
        raise Bad('record length %d exceeds the %d bytes that follow the header' % (ln, len(bs) - pos - 12))
    r = Rd(bs, pos + 12, pos + 12 + ln)
    v = dict(ts=ts, ty=ty, sub=sub, len=ln)
    if ty == 16 and sub in (4, 8, 1, 9):
        as4 = sub in (4, 8)
        v['addpath'] = sub in (8, 9)
        v['peer_as'] = r.num(4 if as4 else 2, 'peer AS'); v['local_as'] = r.num(4 if as4 else 2, 'local AS')
        v['ifidx'] = r.num(2, 'interface index'); v['afi'] = r.num(2, 'address family')
        if v['afi'] not in (1, 2):
            raise Bad('BGP4MP address family %d' % v['afi'])
        n = 4 if v['afi'] == 1 else 16
        v['peer_ip'] = r.take(n, 'peer IP'); v['local_ip'] = r.take(n, 'local IP')
        start = r.pos
        if r.take(16, 'BGP marker') != MARKER:
            raise Bad('BGP4MP: BGP marker is not all ones (the local address is missing or of the wrong size?)')
        bl = r.num(2, 'BGP length')
        if bl < 19:
            raise Bad('BGP4MP: BGP length %d < 19' % bl)
        r.pos = start
        v['pdus'] = [r.take(bl, 'BGP message')]
        if r.left():
            raise Bad('BGP4MP: %d bytes after the single BGP message' % r.left())
    elif ty == 13 and sub == 1:
        v['collector'] = r.take(4, 'collector BGP ID')
        v['view_name'] = r.take(r.num(2, 'view name length'), 'view name')
        cnt = r.num(2, 'peer count')
        v['count'] = cnt
        peers = []
        for k in range(cnt):
            pt = r.num(1, 'peer type')
            pid = r.take(4, 'peer BGP ID')
            ip = r.take(16 if pt & 1 else 4, 'peer IP')
            asn = r.num(4 if pt & 2 else 2, 'peer AS')
            peers.append((pt, pid, ip, asn))
        v['peers'] = peers
        if r.left():
            raise Bad('PEER_INDEX_TABLE: %d bytes after the %d peer entries announced' % (r.left(), cnt))
    elif ty == 13 and sub in (2, 4):
        v['seq'] = r.num(4, 'sequence')
        pl = v['plen'] = r.num(1, 'prefix length')
        if pl > (32 if sub == 2 else 128):
            raise Bad('prefix length %d' % pl)
        v['prefix'] = r.take((pl + 7) // 8, 'prefix')
        cnt = v['count'] = r.num(2, 'entry count')
        es = []
        for k in range(cnt):
            idx = r.num(2, 'peer index'); orig = r.num(4, 'originated time')
            al = r.num(2, 'attribute length')
            es.append((idx, orig, r.take(al, 'attributes')))
        v['entries'] = es
        if r.left():
            raise Bad('RIB record: %d bytes after the %d entries announced' % (r.left(), cnt))
    else:
        raise Bad('MRT type %d subtype %d is not one the daemon emits' % (ty, sub))
    return v, pos + 12 + ln

def read_mrt_stream(bs, pos):
    out = []
    while pos < len(bs):
        v, pos = read_mrt(bs, pos)
        out.append(v)
    return out

def read_attrs(bs):
    """path attributes (RFC 4271 4.3): [(flags, code, value)]"""
    r, out = Rd(bs), []
    while r.left() > 0:
        fl = r.num(1, 'attr flags'); code = r.num(1, 'attr type')
        ln = r.num(2 if fl & 0x10 else 1, 'attr length')
        out.append((fl, code, r.take(ln, 'attr value')))
    return out

# ------------------------------------------------------------------ value domains

V4S = [[10, 0, 0, 1], [192, 0, 2, 1], [0, 0, 0, 0], [255, 255, 255, 255], [172, 16, 254, 3]]
V6S = [[0x20, 1, 0x0d, 0xb8] + [0] * 11 + [1], [0xfe, 0x80] + [0] * 13 + [2], [0] * 12 + [10, 0, 0, 1],
       [0] * 16, [255] * 16, [0x20, 1, 0x0d, 0xb8, 0, 1, 0, 2, 0, 3, 0, 4, 0, 5, 0, 6]]
ASNS = [0, 1, 23456, 65001, 65535, 65536, 4200000000, 2 ** 32 - 1]
U32S = [0, 1, 255, 256, 65535, 65536, 1700000000, 2 ** 31, 2 ** 32 - 1]
U16S = [0, 1, 179, 255, 256, 40000, 65535]
DISTS = [0, 1, 2 ** 32, 2 ** 64 - 1]
DAEMON_FLAGS = [0, 0x40, 0x10, 0x50]
CAPS = [
    [],
    [[1, IPV4], [65, 65001]],
    [[1, IPV4], [1, IPV6], [2], [69, [[IPV4, 3], [IPV6, 1]]], [65, 4200000000]],
    [[1, IPV6], [64, 8, 120, [[IPV6, 128]]], [6], [70], [0, 99, [1, 2, 3]]],
]
ATTRSETS = [
    [[0, 1, 0], [1, 2, [2, 1, 0, 0, 253, 233]]],
    [[0, 1, 2], [1, 2, [2, 2, 0, 0, 253, 233, 0, 1, 0, 0]], [0, 4, 77], [0, 5, 200], [1, 8, [255, 255, 255, 1, 0, 1, 0, 2]]],
    [[0, 1, 1], [1, 2, []], [2, 99, 0xc0, [1, 2, 3, 4, 5]], [1, 32, [0, 0, 0, 1, 0, 0, 0, 2, 0, 0, 0, 3]]],
    [[0, 1, 0], [1, 2, [2, 1, 0, 0, 253, 233]], [1, 8, [-1, 300, 7]]],     # extended-length attribute, block > 255 bytes
]

def pick(rng, l):
    return l[rng.randrange(len(l))]

def gen_ip(rng, v6=None):
    if v6 is None:
        v6 = rng.random() < 0.45
    if rng.random() < 0.7:
        return list(pick(rng, V6S if v6 else V4S))
    return [rng.randrange(256) for _ in range(16 if v6 else 4)]

def gen_pph(rng, daemon=True):
    return [pick(rng, [0, 0, 0, 3]), pick(rng, DAEMON_FLAGS) if daemon else pick(rng, [0x80, 0xc0, 0xff, 1]),
            pick(rng, ASNS), pick(rng, V4S), pick(rng, DISTS), gen_ip(rng), pick(rng, U32S)]

def gen_nlri(rng, v6, mask=None):
    if mask is None:
        mask = pick(rng, [0, 1, 7, 8, 9, 16, 24, 31, 32] + ([33, 48, 64, 127, 128] if v6 else []))
    n = 16 if v6 else 4
    nb = (mask + 7) // 8
    addr = [rng.randrange(256) for _ in range(nb)] + [0] * (n - nb)
    return [1 if v6 else 0, mask, addr]

def gen_entries(rng, v6, n, addpath):
    seen, out = set(), []
    while len(out) < n:
        if n > 50:
            # many distinct host routes: what makes encode_to split
            k = len(out)
            addr = ([0x20, 1] + [0] * 10 + be(4, k)) if v6 else [10] + be(3, k)
            e = [rng.randrange(3) if addpath else 0, [1 if v6 else 0, 128 if v6 else 32, addr]]
        else:
            e = [pick(rng, [0, 1, 2, 2 ** 32 - 1]) if addpath else 0, gen_nlri(rng, v6)]
        key = json.dumps(e)
        if key not in seen:
            seen.add(key); out.append(e)
    return out

def gen_nexthop(rng, v6):
    x = rng.random()
    if v6:
        if x < 0.6: return [list(pick(rng, V6S[:2] + V6S[5:]))]
        return [list(V6S[0]) + list(V6S[1])]   # global + link-local
    return [list(pick(rng, V4S[:2] + V4S[4:]))]

def gen_update(rng, big=False):
    """-> (msg spec, addpath)"""
    v6 = rng.random() < 0.45
    fam = IPV6 if v6 else IPV4
    addpath = rng.random() < 0.35
    x = rng.random()
    n = pick(rng, [1, 1, 1, 2, 3, 5])
    if big:
        n = pick(rng, [600, 700, 820, 1300] if not v6 else [230, 260, 500])
    if x < 0.6:
        # RFC 8950: an IPv4 route may have an IPv6 next hop (finding C19-3)
        nh = gen_nexthop(rng, True if (not v6 and not big and rng.random() < 0.06) else v6)
        return [2, 0, fam, gen_entries(rng, v6, n, addpath), nh, pick(rng, ATTRSETS)], addpath
    if x < 0.85:
        return [2, 1, fam, gen_entries(rng, v6, n, addpath)], addpath
    return [2, 2, fam], addpath

def gen_open(rng):
    caps = pick(rng, CAPS)
    asn = pick(rng, [65001, 65535, 1, 64512])
    for c in caps:
        if c[0] == 65:
            asn = c[1]
    return [1, asn, pick(rng, [0, 3, 90, 65535]), dec(pick(rng, V4S[:2] + V4S[4:])), caps]

def gen_notif(rng):
    return pick(rng, [[3, 6, 2, []], [3, 3, 5, [1, 2, 3]], [3, 4, 0, []], [3, 2, 7, [65, 4, 0, 0, 253, 233]], [3, 7, 0, list(range(40))]])

def gen_bmp_msg(rng, big=False):
    x = rng.random()
    if big or x < 0.45:
        u, ap = gen_update(rng, big)
        return [0, gen_pph(rng), u, 1 if ap else 0]
    if x < 0.62:
        h = gen_pph(rng)
        la = gen_ip(rng, v6=(len(h[5]) == 16) if rng.random() < 0.9 else None)
        return [3, h, la, pick(rng, U16S), pick(rng, U16S), gen_open(rng), gen_open(rng)]
    if x < 0.82:
        r = pick(rng, [1, 2, 3, 4, 5])
        if r in (1, 3): reason = [r, gen_notif(rng)]
        elif r == 2: reason = [2, pick(rng, U16S)]
        else: reason = [r]
        return [2, gen_pph(rng), reason]
    tl = []
    for _ in range(rng.randrange(4)):
        ln = pick(rng, [0, 1, 8, 255, 256, 300])
        tl.append([pick(rng, [0, 1, 2, 65535]), [rng.randrange(256) for _ in range(ln)]])
    return [4, tl]

# ------------------------------------------------------------------ Coq rendering

def cbytes(bs):
    bs = list(bs)
    if len(bs) > 64 and len(set(bs)) == 1:
        return '(repeat %s (N.to_nat %s))' % (cN(bs[0]), cN(len(bs)))
    return val.cbytes(bs)

def cip(b):
    return '(%s %s)' % ('IP6' if len(b) == 16 else 'IP4', cbytes(b))

def cpph(h):
    return ('{| p_type := %s; p_flags := %s; p_asn := %s; p_id := %s; p_dist := %s; p_addr := %s; p_ts := %s |}'
            % (cN(h[0]), cN(h[1]), cN(h[2]), cbytes(h[3]), cN(h[4]), cip(h[5]), cN(h[6])))

def bmp_to_coq(m, blobs):
    t = m[0]
    if t == 0: return '(RouteMonitoring %s %s)' % (cpph(m[1]), cbytes(blobs[0]))
    if t == 1: return 'StatsReports'
    if t == 2:
        r = m[2]
        if r[0] == 1: rc = '(LocalNotification %s)' % cbytes(blobs[0])
        elif r[0] == 2: rc = '(LocalFsm %s)' % cN(r[1])
        elif r[0] == 3: rc = '(RemoteNotification %s)' % cbytes(blobs[0])
        elif r[0] == 4: rc = 'RemoteUnexpected'
        else: rc = 'Deconfigured'
        return '(PeerDown %s %s)' % (cpph(m[1]), rc)
    if t == 3:
        return '(PeerUp %s %s %s %s %s %s)' % (cpph(m[1]), cip(m[2]), cN(m[3]), cN(m[4]), cbytes(blobs[0]), cbytes(blobs[1]))
    if t == 4:
        return '(Initiation %s)' % clist(['(%s, %s)' % (cN(a), cbytes(expand(b))) for a, b in m[1]])
    return {5: 'Termination', 6: 'RouteMirroring'}[t]


def gen_mph(rng, mixed=False):
    v6 = rng.random() < 0.45
    ra = gen_ip(rng, v6)
    la = gen_ip(rng, (not v6) if mixed else v6)
    return [pick(rng, ASNS), pick(rng, ASNS), pick(rng, U16S), ra, la, 1]

def gen_mp(rng, big=False):
    u, ap = gen_update(rng, big)
    return [gen_mph(rng), u, 1 if ap else 0]

def gen_rib_entry(rng, v6, npeers):
    nh = []
    x = rng.random()
    if x < 0.85:
        nh = gen_nexthop(rng, v6)
    return [pick(rng, [0, 1, max(0, npeers - 1), 65535]) if rng.random() < 0.2 else rng.randrange(max(1, npeers)),
            pick(rng, U32S), nh, pick(rng, ATTRSETS)]

def gen_td(rng):
    """a dump: peer index table, then RIB records"""
    npeers = pick(rng, [0, 1, 1, 2, 3, 5])
    peers = [[pick(rng, V4S), gen_ip(rng), pick(rng, ASNS)] for _ in range(npeers)]
    recs = [[pick(rng, U32S), [0, pick(rng, V4S), peers]]]
    for k in range(rng.randrange(0, 4)):
        v6 = rng.random() < 0.5
        es = [gen_rib_entry(rng, v6, npeers) for _ in range(pick(rng, [0, 1, 1, 2, 3]))]
        recs.append([pick(rng, U32S), [2 if v6 else 1, pick(rng, U32S), gen_nlri(rng, v6), es]])
    return recs

def cmph(h):
    return ('{| m_rasn := %s; m_lasn := %s; m_ifidx := %s; m_raddr := %s; m_laddr := %s; m_asn4 := %s |}'
            % (cN(h[0]), cN(h[1]), cN(h[2]), cip(h[3]), cip(h[4]), cbool(h[5])))

def mp_to_coq(m, blobs):
    return '{| mp_hdr := %s; mp_blob := %s; mp_addpath := %s |}' % (cmph(m[0]), cbytes(blobs[0]), cbool(m[2]))

def copt_bytes(nh):
    return 'None' if not nh else '(Some %s)' % cbytes(nh[0])

def centry(e, attrs):
    return '{| re_idx := %s; re_orig := %s; re_nh := %s; re_attrs := %s |}' % (
        cN(e[0]), cN(e[1]), copt_bytes(e[2]), clist([cbytes(a) for a in attrs]))

def crep(items, render):
    """a list, or the compact [-1, n, x] form as (repeat x n)"""
    if isinstance(items, list) and len(items) == 3 and items[0] == -1:
        return '(repeat %s (N.to_nat %s))' % (render(items[2], 0), cN(items[1]))
    return clist([render(x, k) for k, x in enumerate(items)])

def td_to_coq(tr, side):
    ts, rec = tr
    if rec[0] == 0:
        r = '(PeerIndexTable %s %s)' % (cbytes(rec[1]), crep(rec[2], lambda p, k: '{| pe_id := %s; pe_addr := %s; pe_asn := %s |}' % (cbytes(p[0]), cip(p[1]), cN(p[2]))))
    else:
        prefix, attrs = side
        r = '(%s %s %s %s)' % ('RibIpv4Unicast' if rec[0] == 1 else 'RibIpv6Unicast', cN(rec[1]), cbytes(prefix),
                               crep(rec[3], lambda e, k: centry(e, attrs[k])))
    return '(%s, %s)' % (cN(ts), r)

# ------------------------------------------------------------------ daemon-side converters

SOURCES = [
    [[10, 0, 0, 1], [10, 0, 0, 254], 65001, 65000, [10, 0, 0, 1]],
    [[192, 0, 2, 1], [192, 0, 2, 254], 4200000000, 65000, [192, 0, 2, 1]],
    [[0x20, 1, 0x0d, 0xb8] + [0] * 11 + [1], [0x20, 1, 0x0d, 0xb8] + [0] * 11 + [2], 65535, 4200000001, [172, 16, 254, 3]],
    [[0xfe, 0x80] + [0] * 13 + [2], [0xfe, 0x80] + [0] * 13 + [1], 65536, 65000, [10, 0, 0, 2]],
]
SMALL_NLRI = {IPV4: [[0, 24, [10, 1, 1, 0]], [0, 24, [10, 1, 2, 0]], [0, 8, [10, 0, 0, 0]], [0, 32, [10, 1, 1, 1]]],
              IPV6: [[1, 32, [0x20, 1, 0x0d, 0xb8] + [0] * 12], [1, 64, [0x20, 1, 0x0d, 0xb8, 0, 1, 0, 2] + [0] * 8],
                     [1, 128, [0x20, 1] + [0] * 13 + [9]], [1, 0, [0] * 16]]}

def gen_change(rng, src=None, small=False, n=None):
    v6 = rng.random() < 0.45
    fam = IPV6 if v6 else IPV4
    ap = 1 if rng.random() < 0.3 else 0
    if small:
        k = n if n is not None else 1
        es = []
        while len(es) < k:
            e = [pick(rng, [0, 1]) if ap else 0, pick(rng, SMALL_NLRI[fam])]
            if e not in es: es.append(e)
    else:
        es = gen_entries(rng, v6, n if n is not None else pick(rng, [1, 1, 1, 2, 3]), ap)
    reach = rng.random() < 0.65
    return [src if src is not None else pick(rng, SOURCES), fam, ap, es,
            [pick(rng, ATTRSETS)] if reach else [], gen_nexthop(rng, v6) if reach else [], pick(rng, U32S)]

def cval(v):
    if isinstance(v, list):
        return 'VL [' + '; '.join(cval(x) for x in v) + ']'
    return 'VI (%d)%%Z' % v

def csource(sv):
    return '{| s_raddr := %s; s_laddr := %s; s_rasn := %s; s_lasn := %s; s_rid := %s |}' % (
        cip(sv[0]), cip(sv[1]), cN(sv[2]), cN(sv[3]), cbytes(sv[4]))

def attrs_enc(attrs):
    return [attr_wire(a) for a in attrs]

def cchange(c):
    return ('{| c_source := %s; c_family := %s; c_addpath := %s; c_nlris := %s; c_attrs := %s; c_nexthop := %s; c_ts := %s |}'
            % (csource(c[0]), cN(c[1]), cbool(c[2]), clist([cval(e) for e in c[3]]),
               ('(Some (%s))' % cval(attrs_enc(c[4][0]))) if c[4] else 'None', '(%s)' % cval(c[5]), cN(c[6])))

def update_desc(c):
    """what the converters must build from a change (Spec side)"""
    if c[4]:
        return [2, 0, c[1], c[3], c[5], attrs_enc(c[4][0])]
    return [2, 1, c[1], c[3]]

def net_state(changes, addr):
    """Spec of the snapshot: (family, nlri) -> data of the last reach, for one peer"""
    st = {}
    for c in changes:
        if c[0][0] != addr:
            continue
        for e in c[3]:
            k = json.dumps([c[1], e])
            if c[4]:
                st[k] = (c, e)
            else:
                st.pop(k, None)
    return st

# ------------------------------------------------------------------ oracle helpers

def norm_nlri(n):
    t, mask, addr = n
    nb = (mask + 7) // 8
    return (t, mask, tuple(addr[:nb]))

def norm_entries(es, addpath):
    return sorted((e[0] if addpath else 0, norm_nlri(e[1])) for e in es)

def attr_wire(a):
    """wire form of a generated attribute spec (the generator only uses canonical flags)"""
    CANON = {1: 0x40, 2: 0x40, 3: 0x40, 4: 0x80, 5: 0x40, 6: 0x40, 7: 0xc0, 8: 0xc0, 9: 0x80, 10: 0x80,
             16: 0xc0, 17: 0xc0, 18: 0xc0, 32: 0xc0}
    if a[0] == 0:
        code, v = a[1], a[2]
        return [CANON[code], code] + ([1, v & 255] if code == 1 else [4] + be(4, v))
    if a[0] == 1:
        code, b, fl = a[1], expand(a[2]), CANON[a[1]]
    else:
        code, fl, b = a[1], a[2], expand(a[3])
    if len(b) > 255:
        return [fl | 0x10, code] + be(2, len(b)) + b
    return [fl, code, len(b)] + b

def open_expect(o):
    asn = o[1]
    as4 = [c[1] for c in o[4] if c[0] == 65]
    if asn > 65535 or asn == 23456:
        asn = as4[-1] if as4 else 0
    return [1, asn, o[2], o[3], o[4]]

def known3(spec):
    """finding C19-3: an IPv4-unicast announcement whose next hop is IPv6 (RFC 8950)"""
    return spec[0] == 2 and spec[1] == 0 and spec[2] == IPV4 and bool(spec[4]) and len(spec[4][0]) in (16, 32)

KNOWN3 = 'known C19-3: IPv4 route with an IPv6 next hop is embedded without any next hop'

def check_update(spec, addpath, parsed_list):
    """the PDUs of one monitored UPDATE (one per frame) against what was monitored"""
    kind, fam = spec[1], spec[2]
    if known3(spec):
        # the listed symptom, and nothing else: NLRI present, no next hop, the parser's
        # only complaint is the missing NEXT_HOP
        if all(p[0] == 2 and p[1] and p[1][0][2] == [] and p[6] == 1 and not p[2] for p in parsed_list):
            return KNOWN3
    if kind == 2:
        if len(parsed_list) != 1 or parsed_list[0][0] != 6 or parsed_list[0][1] != fam:
            return 'End-of-RIB for family %d parsed back as %s' % (fam, parsed_list)
        return None
    want = norm_entries(spec[3], addpath)
    got = []
    for p in parsed_list:
        if p[0] != 2:
            return 'embedded UPDATE parsed back as %s' % (p[:3],)
        if p[-1] != 0:
            return 'embedded UPDATE: %d bytes left after the parser consumed the frame' % p[-1]
        reach, mp_reach, unreach, mp_unreach, attrs, nerr = p[1], p[2], p[3], p[4], p[5], p[6]
        if nerr:
            return 'embedded UPDATE has %d attributes the parser rejects' % nerr
        if kind == 0:
            src = reach if fam == IPV4 else mp_reach
            if unreach or mp_unreach or (mp_reach if fam == IPV4 else reach):
                return 'announcement parsed back with routes in the wrong section'
            if not src:
                return 'announcement parsed back without reachable NLRI'
            f, es, nh = src[0]
            if f != fam:
                return 'family %d parsed back as %d' % (fam, f)
            if nh != spec[4]:
                return 'next hop %s parsed back as %s' % (spec[4], nh)
            wa = sorted(tuple(attr_wire(a)) for a in spec[5])
            ga = sorted(tuple(a) for a in attrs)
            if wa != ga:
                return 'attributes parsed back differ: monitored %s, read %s' % (wa, ga)
            got += [(e[0] if addpath else 0, norm_nlri(e[1])) for e in es]
        else:
            src = unreach if fam == IPV4 else mp_unreach
            if reach or mp_reach or (mp_unreach if fam == IPV4 else unreach):
                return 'withdrawal parsed back with routes in the wrong section'
            if not src:
                return 'withdrawal parsed back without NLRI'
            f, es = src[0]
            if f != fam:
                return 'family %d parsed back as %d' % (fam, f)
            got += [(e[0] if addpath else 0, norm_nlri(e[1])) for e in es]
    if sorted(got) != want:
        return 'prefixes parsed back differ from the monitored ones (%d monitored, %d read)' % (len(want), len(got))
    return None

def check_peer(pv, h, what):
    addr = h[5]
    v6 = len(addr) == 16
    if bool(pv['flags'] & 0x80) != v6:
        return '%s: V flag %d for a %s peer address' % (what, pv['flags'] >> 7, 'IPv6' if v6 else 'IPv4')
    if not v6 and pv['addr'][:12] != [0] * 12:
        return '%s: IPv4 peer address not behind twelve zero octets' % what
    if (pv['addr'] if v6 else pv['addr'][12:]) != addr:
        return '%s: peer address differs from the monitored one' % what
    if pv['flags'] & 0x7f != h[1] & 0x7f:
        return '%s: flags %#x, monitored %#x' % (what, pv['flags'], h[1])
    if (pv['type'], pv['dist'], pv['asn'], pv['id'], pv['sec'], pv['usec']) != (h[0], h[4], h[2], h[3], h[6], 0):
        return '%s: per-peer header fields differ from the monitored ones' % what
    return None

# ------------------------------------------------------------------ the property

class Prop:
    pid = 'C19'
    props_file = 'Props/C19.v'
    required_theorems = ['bmp_length_exact', 'bmp_readback', 'bmp_stream_readback', 'bmp_vflag_iff_v6',
                         'mrt_readback', 'mrt_length_exact', 'table_dump_counts_consistent',
                         'conv_update_faithful', 'loc_rib_header_wf', 'flush_headers_wf', 'dump_peer_indexes_consistent']
    correspondence_name = ('Model/Bmp.v bmp_encode_all vs packet/src/bmp.rs BmpCodec::encode (harness/hx-mon), '
                           'bytes compared one to one')
    rule = ('a case is a session: 1..6 messages through one codec into one (possibly pre-filled) buffer; '
            'non-trivial when it holds an embedded BGP message or TLVs; distinct = distinct '
            '(message kinds, address families, add-path, frames per UPDATE, body length class)')
    exhaustive = {'quick': False, 'thorough': False}
    trusted_base = [
        'the BGP encoder is outside this property (C04): embedded BGP messages enter the model as opaque byte strings '
        '(the output of PeerCodec::encode_to on a fresh codec with the add-path setting of the record, printed by the harness); '
        'the theorems assume only that such a string is a concatenation of frames with marker and exact 2-byte length (checked on every blob of every run)',
        'the python structural readers of gen/c19.py (written from RFC 7854 / RFC 6396) and the harness mode `parse` '
        '(the repository\'s own BGP parser, PeerCodec::try_parse) are the Spec oracle for the implementation\'s bytes',
    ]
    assumptions = [
        'caller-supplied per-peer flags do not contain the V bit (true of every header daemon/src/bmp.rs builds); fields have their Rust types (u8/u16/u32/u64, 4/16-octet addresses)',
        'an Initiation TLV value is shorter than 65536 bytes and a message shorter than 2^32 bytes (the daemon sends a version string and the host name)',
    ]

    def __init__(self):
        self._side = []

    # ---- cases
    def case_to_json(self, c):
        return json.loads(json.dumps(c))

    def case_from_json(self, j):
        return j

    def corpus_cases(self):
        d = os.path.join(os.path.dirname(os.path.dirname(os.path.abspath(__file__))), 'corpus', 'C19')
        out = []
        if os.path.isdir(d):
            for fn in sorted(os.listdir(d)):
                if fn.endswith('.json'):
                    out.append(json.load(open(os.path.join(d, fn)))['case'])
        return out

    def gen_cases(self, rng, tier):
        cases = []
        q = tier == 'quick'
        for k in range(250 if q else 2500):
            pre = [] if rng.random() < 0.7 else [rng.randrange(256) for _ in range(rng.randrange(1, 9))]
            ms = [gen_bmp_msg(rng) for _ in range(rng.randrange(1, 6))]
            cases.append({'kind': 'bmp', 'pre': pre, 'msgs': ms})
        for k in range(5 if q else 60):
            cases.append({'kind': 'bmp', 'pre': [], 'msgs': [gen_bmp_msg(rng, big=True)] + ([gen_bmp_msg(rng)] if k % 2 else [])})
        # correspondence only (outside the property's quantifier): caller flags with the V bit,
        # message kinds the daemon never emits, TLV values of 65535..65537 bytes
        for k in range(20 if q else 100):
            u, ap = gen_update(rng)
            ms = [pick(rng, [[1], [5], [6], [0, gen_pph(rng, daemon=False), u, 1 if ap else 0]])]
            cases.append({'kind': 'bmp', 'pre': [], 'msgs': ms, 'api_only': 1})
        for ln in (65535, 65536, 65537):
            cases.append({'kind': 'bmp', 'pre': [], 'msgs': [[4, [[1, [-1, ln, 65]], [2, [7]]]]], 'api_only': 1})
        # ---- MRT BGP4MP
        for k in range(150 if q else 1500):
            pre = [] if rng.random() < 0.7 else [rng.randrange(256) for _ in range(rng.randrange(1, 9))]
            cases.append({'kind': 'mrt', 'pre': pre, 'msgs': [gen_mp(rng) for _ in range(rng.randrange(1, 5))]})
        for k in range(4 if q else 40):
            cases.append({'kind': 'mrt', 'pre': [], 'msgs': [gen_mp(rng, big=True)]})
        # correspondence only: 2-octet AS form (never used by the daemon), local address of the other family
        for k in range(20 if q else 100):
            m = gen_mp(rng)
            if k % 2:
                m[0][5] = 0
            else:
                m[0] = gen_mph(rng, mixed=True)
            cases.append({'kind': 'mrt', 'pre': [], 'msgs': [m], 'api_only': 1})
        # ---- TABLE_DUMP_V2
        for k in range(150 if q else 1500):
            pre = [] if rng.random() < 0.8 else [rng.randrange(256) for _ in range(rng.randrange(1, 9))]
            cases.append({'kind': 'td', 'pre': pre, 'recs': gen_td(rng)})
        # the u16 count boundaries (correspondence only beyond 65535)
        for n in ((65535, 65536) if q else (65535, 65536, 65537)):
            peer = [[10, 0, 0, 1], [10, 0, 0, 1], 65001]
            ent = [0, 5, [], []]
            cases.append({'kind': 'td', 'pre': [], 'recs': [[7, [0, [1, 1, 1, 1], [-1, n, peer]]]], 'api_only': int(n > 65535), 'digest': 1})
            cases.append({'kind': 'td', 'pre': [], 'recs': [[7, [1, 9, [0, 24, [10, 1, 2, 0]], [-1, n, ent]]]], 'api_only': int(n > 65535), 'digest': 1})
        # an attribute block of 65535 / 65536+ bytes in one entry
        for ln, api in ((65535 - 7 - 4 - 7, 0), (65536 - 7 - 4 - 7, 1)):
            big = [[0, 1, 0], [1, 8, [-1, ln, 1]]]
            cases.append({'kind': 'td', 'pre': [], 'recs': [[7, [1, 1, [0, 8, [10, 0, 0, 0]], [[0, 1, [[10, 0, 0, 1]], big]]]]], 'api_only': api})
        # ---- daemon-side converters (hooks in daemon/src/bmp.rs, daemon/src/mrt.rs)
        for k in range(60 if q else 800):
            cases.append({'kind': 'dconv', 'change': gen_change(rng)})
        for k in range(80 if q else 800):
            v6 = rng.random() < 0.5
            fam = IPV6 if v6 else IPV4
            reach = rng.random() < 0.7
            cases.append({'kind': 'dloc', 'family': fam, 'net': gen_nlri(rng, v6), 'attrs': [pick(rng, ATTRSETS)] if reach else [],
                          'nexthop': gen_nexthop(rng, v6) if reach else [], 'ts': pick(rng, U32S),
                          'rid': pick(rng, V4S), 'asn': pick(rng, ASNS)})
        for k in range(100 if q else 800):
            peers = [pick(rng, SOURCES) for _ in range(2)]
            cs = [gen_change(rng, src=pick(rng, peers), small=True, n=pick(rng, [1, 1, 2])) for _ in range(rng.randrange(0, 9))]
            who = pick(rng, peers + [pick(rng, SOURCES)])
            cases.append({'kind': 'dflush', 'changes': cs, 'addr': who[0],
                          'hdr': [0, pick(rng, [0, 0x40]), who[2], who[4], 0, who[0], pick(rng, U32S)], 'flags': pick(rng, [0, 0x40])})
        for k in range(60 if q else 800):
            cases.append({'kind': 'dmrt', 'change': gen_change(rng)})
        for k in range(80 if q else 800):
            routes = []
            for _ in range(rng.randrange(0, 9)):
                v6 = rng.random() < 0.5
                fam = IPV6 if v6 else IPV4
                routes.append([pick(rng, SOURCES), fam, pick(rng, SMALL_NLRI[fam]), pick(rng, [0, 0, 1]),
                               gen_nexthop(rng, v6), pick(rng, ATTRSETS)])
            cases.append({'kind': 'ddump', 'rid': pick(rng, V4S), 'routes': routes})
        return cases

    # ---- running
    def _harness(self, mode, vals):
        return rustrun.crate_bin('C19', 'hx-mon', mode, vals)

    def _views(self, c, o):
        if c['kind'] == 'bmp':
            return read_bmp_stream(o[0], len(c['pre']))
        return read_mrt_stream(o[0], len(c['pre']))

    def run_impl(self, cases, tier):
        obs = [None] * len(cases)
        for kind, mk in (('bmp', lambda c: [c['pre'], c['msgs']]), ('mrt', lambda c: [c['pre'], c['msgs']]),
                         ('td', lambda c: [c['pre'], c['recs']])):
            idx = [k for k, c in enumerate(cases) if c['kind'] == kind]
            if not idx:
                continue
            res, err = self._harness(kind, [mk(cases[k]) for k in idx])
            if res is None:
                return None, err
            for k, r in zip(idx, res):
                if kind == 'mrt' and r != [-1]:
                    r = [r[0], r[2], r[1]]          # [buffer, blobs, timestamps ok]
                obs[k] = r
        for hook, test, kinds in (('C19b', 'bmp::verif_hx::verif_bmp_cases', ('dconv', 'dloc', 'dflush')),
                                  ('C19m', 'mrt::verif_hx::verif_mrt_cases', ('dmrt', 'ddump'))):
            idx = [k for k, c in enumerate(cases) if c['kind'] in kinds]
            if not idx:
                continue
            res, err = rustrun.daemon_test(hook, test, [self._dval(cases[k]) for k in idx])
            if res is None:
                return None, err
            for k, r in zip(idx, res):
                obs[k] = r
        # second pass: the repository's BGP parser on the PDUs the python readers find
        jobs, where = [], []
        for k, c in enumerate(cases):
            o = obs[k]
            if o == [-1] or c['kind'] not in ('bmp', 'mrt'):
                continue
            try:
                views = self._views(c, o)
            except Bad:
                o.insert(2, [])
                continue
            per, flat = [], self._addpath_plan(c, o)
            for v in views:
                pl = []
                for pdu in v.get('pdus', []):
                    where.append(pl); pl.append(None)
                    ap = flat.pop(0) if flat else 0
                    jobs.append([[IPV4, IPV6], ap, pdu])
                per.append(pl)
            o.insert(2, per)
        if jobs:
            pres, err = self._harness('parse', jobs)
            if pres is None:
                return None, err
            for slot, p in zip(where, pres):
                slot[slot.index(None)] = p
        # what run_model needs from this run (reference encodings, dump timestamps), by position
        self._side = list(obs)
        return obs, ''

    def _dval(self, c):
        k = c['kind']
        if k == 'dconv': return [0, c['change']]
        if k == 'dloc': return [1, c['family'], c['net'], c['attrs'], c['nexthop'], c['ts'], c['rid'], c['asn']]
        if k == 'dflush': return [2, c['changes'], c['addr'], c['hdr'], c['flags']]
        if k == 'dmrt': return [0, c['change']]
        return [1, c['rid'], c['routes']]

    def _addpath_plan(self, c, o):
        """the add-path setting under which each embedded PDU, in stream order, is to be parsed:
        the one stated for the monitored message it belongs to (frames per message from the
        reference blobs)"""
        flat = []
        for m, blobs in zip(c['msgs'], o[1]):
            if c['kind'] == 'mrt' or m[0] == 0:
                try:
                    nfr = max(1, len(split_frames(blobs[0])))
                except Bad:
                    nfr = 1
                flat += [m[2] if c['kind'] == 'mrt' else m[3]] * nfr
            elif m[0] == 3:
                flat += [0, 0]
            elif m[0] == 2 and m[2][0] in (1, 3):
                flat += [0]
        return flat

    def run_model(self, cases, tier):
        terms = []
        for k, c in enumerate(cases):
            o = self._side[k] if k < len(self._side) else None
            if o is None or o == [-1]:
                # no reference encodings available (the implementation panicked): the model cannot be evaluated
                terms.append('run_case [] []')
                continue
            if c['kind'] == 'dconv':
                terms.append('run_conv_update %s' % cchange(c['change']))
            elif c['kind'] == 'dloc':
                terms.append('run_loc %s (%s) %s (%s) %s %s %s %s' % (
                    cN(c['family']), cval(c['net']), ('(Some (%s))' % cval(attrs_enc(c['attrs'][0]))) if c['attrs'] else 'None',
                    cval(c['nexthop']), cN(c['ts']), cbytes(c['rid']), cN(c['asn']), cbytes(o[1])))
            elif c['kind'] == 'dflush':
                terms.append('run_flush %s %s %s %s' % (clist([cchange(x) for x in c['changes']]), cip(c['addr']), cpph(c['hdr']), cN(c['flags'])))
            elif c['kind'] == 'dmrt':
                terms.append('run_mrt_conv %s %s' % (cchange(c['change']), cbytes(o[1])))
            elif c['kind'] == 'ddump':
                def dch(desc, side):
                    out = []
                    for (nl, paths), (pfx, attrs) in zip(desc, side):
                        ps = ['{| d_addr := %s; d_rid := %s; d_asn := %s; d_nh := %s; d_attrs := %s |}' % (
                            cip(p[0]), cbytes(be(4, p[1])), cN(p[2]), copt_bytes(p[3]), clist([cbytes(a) for a in at]))
                            for p, at in zip(paths, attrs)]
                        out.append('(%s, %s)' % (cbytes(pfx), clist(ps)))
                    return clist(out)
                terms.append('run_dump %s %s %s %s' % (cbytes(c['rid']), cN(o[1]), dch(o[3], o[5]), dch(o[4], o[6])))
            elif c['kind'] == 'bmp':
                terms.append('run_case %s %s' % (cbytes(c['pre']), clist([bmp_to_coq(m, b) for m, b in zip(c['msgs'], o[1])])))
            elif c['kind'] == 'mrt':
                terms.append('run_mrt %s %s' % (cbytes(c['pre']), clist([mp_to_coq(m, b) for m, b in zip(c['msgs'], o[1])])))
            else:
                terms.append('%s %s %s' % ('run_td_digest' if c.get('digest') else 'run_td', cbytes(c['pre']), clist([td_to_coq(tr, sd) for tr, sd in zip(c['recs'], o[1])])))
        pre = 'From RB Require Import Base.Val Base.BytesBuf Model.Bmp Model.Mrt Model.MonConv.\nOpen Scope N_scope.'
        return coqrun.eval_terms('C19', pre, terms)

    def canon(self, case, obs):
        k = case['kind']
        if obs == [-1]:
            return obs
        if k == 'dconv':
            return obs
        if k == 'dloc':
            return obs
        if k == 'dmrt':
            return obs[:4]
        if k == 'ddump':
            return obs[0] if (obs and isinstance(obs[0], list)) else obs
        if k == 'dflush':
            if len(obs) == 3:        # implementation: [[bytes, blob, update, addpath]...], eor order, peers left
                items = []
                for it in obs[0]:
                    try:
                        v, _ = read_bmp(it[0], 0)
                        pv = v['peer']
                        v6 = bool(pv['flags'] & 0x80)
                        hdr = [pv['type'], pv['flags'] & 0x7f, pv['asn'], pv['id'], pv['dist'],
                               pv['addr'] if v6 else pv['addr'][12:], pv['sec']]
                    except (Bad, KeyError):
                        hdr = ['unreadable']
                    items.append([hdr, it[2], it[3]])
                return [sorted(items, key=json.dumps), sorted(obs[2])]
            return [sorted(obs[0], key=json.dumps), sorted(obs[1])]
        if obs and isinstance(obs[0], list):
            if case.get('digest') and len(obs) == 2:
                # implementation side of a digest case (the model prints [len, checksum, [first bytes]])
                s1 = s2 = 0
                for b in obs[0]:
                    s1 += b
                    s2 += s1
                return [len(obs[0]), [s1, s2], obs[0][:40]]
            if case.get('digest'):
                return obs
            return obs[0]
        return obs

    # ---- Spec oracle
    def oracle(self, c, obs):
        if obs == [-1]:
            return 'panic in the encoder'
        if c.get('api_only'):
            return None
        if c['kind'].startswith('d'):
            return self._oracle_daemon(c, obs)
        if obs[0][:len(c['pre'])] != c['pre']:
            return 'the encoder changed bytes that were already in the buffer'
        return {'bmp': self._oracle_bmp, 'mrt': self._oracle_mrt, 'td': self._oracle_td}[c['kind']](c, obs)

    def _oracle_daemon(self, c, obs):
        k = c['kind']
        if k == 'dconv':
            if obs != update_desc(c['change']):
                return 'adj_rib_in_to_bmp_update built %s from a change that says %s' % (obs, update_desc(c['change']))
            return None
        if k == 'dloc':
            want = [2, 0 if c['attrs'] else 1, c['family'], [[0, c['net']]]] + ([c['nexthop'], attrs_enc(c['attrs'][0])] if c['attrs'] else [])
            if obs[2] != want or obs[3] != 0:
                return 'loc_rib_to_bmp built %s, the Loc-RIB event says %s' % (obs[2], want)
            try:
                v, end = read_bmp(obs[0], 0)
            except Bad as e:
                return 'Loc-RIB message does not read back: %s' % e
            if end != len(obs[0]) or v['ty'] != 0:
                return 'Loc-RIB event is not exactly one Route Monitoring message'
            return check_peer(v['peer'], [3, 0, c['asn'], c['rid'], 0, [0, 0, 0, 0], c['ts']], 'Loc-RIB header')
        if k == 'dmrt':
            ch = c['change']
            if not obs[4]:
                return 'MRT timestamp outside the wall-clock window of the call'
            if obs[2] != update_desc(ch) or obs[3] != ch[2]:
                return 'adj_rib_in_to_mrt built %s / add-path %s from a change that says %s / %s' % (obs[2], obs[3], update_desc(ch), ch[2])
            try:
                views = read_mrt_stream(obs[0], 0)
            except Bad as e:
                return 'BGP4MP record does not read back: %s' % e
            src = ch[0]
            for v in views:
                if v['ty'] != 16 or v['sub'] != (8 if ch[2] else 4):
                    return 'record type/subtype %d/%d does not state add-path=%d' % (v['ty'], v['sub'], ch[2])
                if (v['peer_as'], v['local_as'], v['ifidx'], v['peer_ip'], v['local_ip']) != (src[2], src[3], 0, src[0], src[1]):
                    return 'BGP4MP header differs from the session of the change'
                if v['afi'] != (2 if len(src[0]) == 16 else 1):
                    return 'address family does not match the peer address'
            if b''.join(bytes(v['pdus'][0]) for v in views) != bytes(obs[1]):
                return 'the records do not carry the BGP message(s) of the change'
            return None
        if k == 'dflush':
            items, eor_last, left = obs
            if not eor_last:
                return 'End-of-RIB messages do not follow the route messages'
            st = net_state(c['changes'], c['addr'])
            want_routes, fams = [], set()
            for key, (ch, e) in st.items():
                fams.add(ch[1])
                want_routes.append([[0, c['flags'], ch[0][2], ch[0][4], 0, ch[0][0], ch[6]], [2, 0, ch[1], [e], ch[5], attrs_enc(ch[4][0])], ch[2]])
            want_eor = [[c['hdr'], [2, 2, f], 0] for f in fams]
            got = self.canon(c, obs)[0]
            want = sorted(want_routes + want_eor, key=json.dumps)
            if got != want:
                return 'flush_peer_snapshot sent %d messages, the net state of the peer is %d routes in %d families (or their content differs)' % (len(got), len(want_routes), len(fams))
            others = sorted(set(json.dumps(ch[0][0]) for ch in c['changes'] if ch[4] and ch[0][0] != c['addr']))
            if sorted(json.dumps(a) for a in left) != others and not set(json.dumps(a) for a in left) >= set(others):
                return 'flush removed another peer from the snapshot'
            if c['addr'] in left:
                return 'the flushed peer is still in the snapshot'
            return None
        # ddump
        buf, ts, ts_ok, d4, d6 = obs[0], obs[1], obs[2], obs[3], obs[4]
        if not ts_ok:
            return 'dump timestamp outside the wall-clock window of the call'
        try:
            views = read_mrt_stream(buf, 0)
        except Bad as e:
            return 'the dump is not a sequence of well-formed MRT records: %s' % e
        if not views or views[0]['ty'] != 13 or views[0]['sub'] != 1:
            return 'the dump does not start with a PEER_INDEX_TABLE'
        pit = views[0]
        if pit['collector'] != c['rid'] or pit['count'] != len(pit['peers']):
            return 'PEER_INDEX_TABLE collector id / count differ'
        if len(set(json.dumps(p[2]) for p in pit['peers'])) != len(pit['peers']):
            return 'PEER_INDEX_TABLE lists a peer address twice'
        want = {}
        for r in c['routes']:
            want[json.dumps([r[1], r[2], r[0][0], r[3]])] = r
        seen, seqs = [], {2: [], 4: []}
        for v in views[1:]:
            if v['ty'] != 13 or v['sub'] not in (2, 4) or v['ts'] != ts:
                return 'unexpected record type/subtype/timestamp in the dump'
            seqs[v['sub']].append(v['seq'])
            if v['count'] == 0:
                return 'a RIB record without entries was written'
            for idx, orig, ab in v['entries']:
                if idx >= len(pit['peers']):
                    return 'peer index %d with %d peers in the index table' % (idx, len(pit['peers']))
                if orig != ts:
                    return 'originated time differs from the dump timestamp'
                seen.append((v['sub'], v['plen'], tuple(v['prefix']), tuple(pit['peers'][idx][2]), tuple(ab)))
        for sub in (2, 4):
            if seqs[sub] != list(range(len(seqs[sub]))):
                return 'sequence numbers of subtype %d are %s' % (sub, seqs[sub])
        wantl = []
        for r in want.values():
            mask, addr = r[2][1], r[2][2]
            wantl.append((2 if r[1] == IPV4 else 4, mask, tuple(addr[:(mask + 7) // 8]), tuple(r[0][0])))
        if sorted(x[:4] for x in seen) != sorted(wantl):
            return 'the (prefix, peer) pairs dumped differ from the Loc-RIB contents (%d dumped, %d routes)' % (len(seen), len(wantl))
        for p in pit['peers']:
            srcs = [r[0] for r in c['routes'] if r[0][0] == p[2]]
            if not srcs or (p[1], p[3]) != (srcs[0][4], srcs[0][2]) or bool(p[0] & 1) != (len(p[2]) == 16) or not p[0] & 2:
                return 'peer entry %s does not describe a session of the dump' % (p,)
        return None

    def _oracle_mrt(self, c, obs):
        buf, blobs, parsed, ts_ok = obs[0], obs[1], obs[2], obs[3]
        if not ts_ok:
            return 'MRT timestamp outside the wall-clock window of the call'
        for bl in blobs:
            try:
                split_frames(bl[0])
            except Bad as e:
                return 'encode_to output is not a sequence of BGP frames (%s)' % e
        try:
            views = read_mrt_stream(buf, len(c['pre']))
        except Bad as e:
            return 'the bytes are not a sequence of well-formed MRT records: %s' % e
        vi, known = 0, None
        for mi, (m, bl) in enumerate(zip(c['msgs'], blobs)):
            what = 'message %d' % mi
            h, spec, ap = m
            nfr = len(split_frames(bl[0]))
            mine, mparsed = views[vi:vi + nfr], parsed[vi:vi + nfr]
            vi += nfr
            if len(mine) != nfr:
                return '%s: expected %d BGP4MP records (one per BGP frame)' % (what, nfr)
            for v in mine:
                if v['ty'] != 16 or v['sub'] != (8 if ap else 4):
                    return '%s: type/subtype %d/%d does not state add-path=%d (AS4 form)' % (what, v['ty'], v['sub'], ap)
                v6 = len(h[3]) == 16
                if v['afi'] != (2 if v6 else 1):
                    return '%s: address family %d for a %s peer' % (what, v['afi'], 'IPv6' if v6 else 'IPv4')
                if (v['peer_as'], v['local_as'], v['ifidx'], v['peer_ip'], v['local_ip']) != (h[0], h[1], h[2], h[3], h[4]):
                    return '%s: BGP4MP header fields differ from the monitored ones' % what
            why = check_update(spec, ap, [p[0] for p in mparsed])
            if why == KNOWN3:
                known = KNOWN3
            elif why:
                return '%s: %s' % (what, why)
        if vi != len(views):
            return '%d MRT records in the stream beyond those monitored' % (len(views) - vi)
        return known

    def _oracle_td(self, c, obs):
        buf, side = obs[0], obs[1]
        try:
            views = read_mrt_stream(buf, len(c['pre']))
        except Bad as e:
            return 'the bytes are not a sequence of well-formed MRT records: %s' % e
        if len(views) != len(c['recs']):
            return '%d records read, %d written' % (len(views), len(c['recs']))
        for ri, ((ts, rec), v, sd) in enumerate(zip(c['recs'], views, side)):
            what = 'record %d' % ri
            if v['ts'] != ts or v['ty'] != 13:
                return '%s: timestamp/type differ' % what
            if rec[0] == 0:
                peers = expand(rec[2])
                if v['sub'] != 1 or v['collector'] != rec[1] or v['view_name'] != []:
                    return '%s: PEER_INDEX_TABLE header differs' % what
                if v['count'] != len(peers) or len(v['peers']) != len(peers):
                    return '%s: peer count %d, %d peers written' % (what, v['count'], len(peers))
                for (pt, pid, ip, asn), p in zip(v['peers'], peers):
                    if bool(pt & 1) != (len(p[1]) == 16):
                        return '%s: peer type %d for a %d-octet address' % (what, pt, len(p[1]))
                    if not pt & 2 or pt & ~3:
                        return '%s: peer type %d (AS4 bit expected, no other bits)' % (what, pt)
                    if (pid, ip, asn) != (p[0], p[1], p[2]):
                        return '%s: peer entry differs from the one written' % what
            else:
                es = expand(rec[3])
                if v['sub'] != (2 if rec[0] == 1 else 4) or v['seq'] != rec[1]:
                    return '%s: RIB subtype/sequence differ' % what
                mask, addr = rec[2][1], rec[2][2]
                if v['plen'] != mask or v['prefix'] != addr[:(mask + 7) // 8]:
                    return '%s: prefix differs from the one dumped' % what
                if v['count'] != len(es) or len(v['entries']) != len(es):
                    return '%s: entry count %d, %d entries written' % (what, v['count'], len(es))
                for k, ((idx, orig, ab), e) in enumerate(zip(v['entries'], es)):
                    if (idx, orig) != (e[0], e[1]):
                        return '%s entry %d: peer index / originated time differ' % (what, k)
                    try:
                        got = read_attrs(ab)
                    except Bad as ex:
                        return '%s entry %d: attribute block of %d bytes does not parse (%s)' % (what, k, len(ab), ex)
                    want = [tuple(attr_wire(a)) for a in expand(e[3])]
                    gotw = [tuple([fl, code] + (be(2, len(vb)) if fl & 0x10 else [len(vb)]) + vb) for fl, code, vb in got]
                    nh = e[2]
                    if nh:
                        last = got[-1] if got else None
                        if rec[0] == 1:
                            ok = last is not None and last[1] == 3 and last[2] == nh[0]
                        else:
                            ok = last is not None and last[1] == 14 and last[2] == [len(nh[0])] + nh[0]
                        if not ok:
                            return '%s entry %d: next hop not carried by the last attribute' % (what, k)
                        gotw = gotw[:-1]
                    if gotw != want:
                        return '%s entry %d: attributes differ from the ones dumped' % (what, k)
        return None

    def _oracle_bmp(self, c, obs):
        buf, blobs, parsed = obs[0], obs[1], obs[2]
        # contract of the opaque parameter (C04): every reference blob is a sequence of frames
        for bl in blobs:
            for b in bl:
                try:
                    split_frames(b)
                except Bad as e:
                    return 'encode_to output is not a sequence of BGP frames (%s)' % e
        try:
            views = read_bmp_stream(buf, len(c['pre']))
        except Bad as e:
            return 'the bytes are not a sequence of well-formed BMP messages: %s' % e
        vi, known = 0, None
        for mi, (m, bl) in enumerate(zip(c['msgs'], blobs)):
            what = 'message %d' % mi
            if m[0] == 0:
                nfr = len(split_frames(bl[0]))
                mine, mparsed = views[vi:vi + nfr], parsed[vi:vi + nfr]
                vi += nfr
                if len(mine) != nfr or any(v['ty'] != 0 for v in mine):
                    return '%s: expected %d Route Monitoring messages (one per BGP frame)' % (what, nfr)
                for v in mine:
                    why = check_peer(v['peer'], m[1], what)
                    if why: return why
                why = check_update(m[2], m[3], [p[0] for p in mparsed])
                if why == KNOWN3: known = KNOWN3
                elif why: return '%s: %s' % (what, why)
                continue
            if vi >= len(views):
                return '%s: missing from the stream' % what
            v, pp = views[vi], parsed[vi]
            vi += 1
            if v['ty'] != m[0]:
                return '%s: message type %d, expected %d' % (what, v['ty'], m[0])
            if m[0] == 4:
                if [[t, b] for t, b in v['info']] != [[t, expand(b)] for t, b in m[1]]:
                    return '%s: Initiation TLVs differ' % what
                continue
            why = check_peer(v['peer'], m[1], what)
            if why: return why
            if m[0] == 2:
                r = m[2]
                if v['reason'] != r[0]:
                    return '%s: Peer Down reason %d, expected %d' % (what, v['reason'], r[0])
                if r[0] == 2 and v.get('fsm') != r[1]:
                    return '%s: FSM code differs' % what
                if r[0] in (1, 3):
                    p = pp[0]
                    if p[:4] != [3, r[1][1], r[1][2], r[1][3]]:
                        return '%s: NOTIFICATION parsed back as %s' % (what, p)
            elif m[0] == 3:
                la = m[2]
                want = la if len(la) == 16 else [0] * 12 + la
                if v['laddr'] != want or v['lport'] != m[3] or v['rport'] != m[4]:
                    return '%s: Peer Up local address/ports differ' % what
                if v['info']:
                    return '%s: unexpected information TLVs' % what
                for p, o, nm in ((pp[0], m[5], 'sent'), (pp[1], m[6], 'received')):
                    if p[:5] != open_expect(o):
                        return '%s: %s OPEN parsed back as %s, monitored %s' % (what, nm, p, open_expect(o))
        if vi != len(views):
            return '%d BMP messages in the stream beyond those monitored' % (len(views) - vi)
        return known

    def in_known_class(self, kf, c, obs, why):
        if kf['id'] == 'C19-3':
            # decidable class of the input: some monitored announcement is IPv4 unicast with an IPv6
            # next hop; and the only thing the oracle found wrong is the listed symptom
            ups = [m[2] for m in c.get('msgs', []) if c['kind'] == 'bmp' and m[0] == 0] +                   [m[1] for m in c.get('msgs', []) if c['kind'] == 'mrt']
            return why == KNOWN3 and any(known3(u) for u in ups)
        return False

    def nontrivial_key(self, c, obs):
        if obs == [-1]:
            return ('panic',)
        key = []
        if c['kind'] in ('dconv', 'dmrt'):
            ch = c['change']
            return (c['kind'], ch[1], ch[2], len(ch[3]), bool(ch[4]), len(ch[0][0]), len(ch[5][0]) if ch[5] else 0)
        if c['kind'] == 'dloc':
            return ('dloc', c['family'], bool(c['attrs']), c['net'][1], c['asn'], c['ts'])
        if c['kind'] == 'dflush':
            if not c['changes']:
                return None
            return ('dflush', tuple((json.dumps(ch[0][0]) == json.dumps(c['addr']), ch[1], bool(ch[4]), json.dumps(ch[3])) for ch in c['changes']))
        if c['kind'] == 'ddump':
            if not c['routes']:
                return None
            return ('ddump', tuple(sorted((r[1], json.dumps(r[2]), json.dumps(r[0][0]), r[3]) for r in c['routes'])))
        if c['kind'] == 'td':
            for ts, rec in c['recs']:
                if rec[0] == 0:
                    key.append((0, tuple(len(p[1]) for p in expand(rec[2])[:8]), len(expand(rec[2]))))
                else:
                    es = expand(rec[3])
                    key.append((rec[0], rec[2][1], len(es), tuple((len(e[2][0]) if e[2] else 0, len(expand(e[3]))) for e in es[:8])))
            return ('td', len(c['pre']) > 0, tuple(key)) if any(k[0] != 0 or k[2] for k in key) else None
        for m, bl in zip(c['msgs'], obs[1]):
            if c['kind'] == 'mrt':
                try: nfr = len(split_frames(bl[0]))
                except Bad: nfr = -1
                key.append((len(m[0][3]), len(m[0][4]), m[0][5], m[1][1], m[1][2], m[2], nfr, min(len(bl[0]) // 64, 80)))
            elif m[0] == 0:
                try: nfr = len(split_frames(bl[0]))
                except Bad: nfr = -1
                key.append((0, len(m[1][5]), m[2][1], m[2][2], m[3], nfr, min(len(bl[0]) // 64, 80)))
            elif m[0] == 3:
                key.append((3, len(m[1][5]), len(m[2]), len(bl[0]), len(bl[1])))
            elif m[0] == 2:
                key.append((2, len(m[1][5]), m[2][0]))
            elif m[0] == 4:
                key.append((4, tuple(len(expand(b)) for _, b in m[1])))
        return (c['kind'], len(c['pre']) > 0, tuple(key)) if key else None

    def classify(self, c, obs):
        tags = [c['kind']]
        if c.get('api_only'):
            tags.append('correspondence_only')
        if obs == [-1]:
            return tags + ['panic']
        if c['kind'].startswith('d'):
            if c['kind'] == 'dflush':
                st = net_state(c['changes'], c['addr'])
                tags.append('flush_%s' % ('empty' if not st else 'routes'))
                if any(not ch[4] for ch in c['changes']): tags.append('flush_with_withdrawals')
            if c['kind'] == 'ddump':
                tags.append('dump_%d_peers' % len(set(json.dumps(r[0][0]) for r in c['routes'])))
            return sorted(set(tags))
        if c['pre']:
            tags.append('prefilled_buffer')
        if c['kind'] == 'td':
            for ts, rec in c['recs']:
                tags.append(['td_peer_index', 'td_rib_v4', 'td_rib_v6'][rec[0]])
                n = len(expand(rec[2] if rec[0] == 0 else rec[3]))
                tags.append('td_count_%s' % ('0' if n == 0 else '1-5' if n <= 5 else 'u16_boundary'))
            return sorted(set(tags))
        names = {0: 'route_monitoring', 1: 'stats', 2: 'peer_down', 3: 'peer_up', 4: 'initiation', 5: 'termination', 6: 'mirroring'}
        for m, bl in zip(c['msgs'], obs[1]):
            if c['kind'] == 'mrt':
                u, ap = m[1], m[2]
                tags.append('mrt_peer_v6' if len(m[0][3]) == 16 else 'mrt_peer_v4')
            else:
                tags.append(names[m[0]])
                if m[0] in (0, 2, 3):
                    tags.append('peer_v6' if len(m[1][5]) == 16 else 'peer_v4')
                if m[0] != 0:
                    continue
                u, ap = m[2], m[3]
            tags.append(['reach', 'unreach', 'eor'][u[1]] + ('_v6' if u[2] == IPV6 else '_v4'))
            if ap: tags.append('addpath')
            try:
                if len(split_frames(bl[0])) > 1: tags.append('update_split_into_frames')
            except Bad:
                pass
        return sorted(set(tags))
