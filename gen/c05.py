"""C05: a malformed UPDATE never installs a route; the session resets only if it must.
Generators (a valid UPDATE with any subset of attributes corrupted in the RFC 7606
ways), renderers, and the Spec oracle.  The Spec itself is Gallina
(coq/Spec/Rfc7606.v `judge`): it is evaluated by coqc on every case next to the
model, and the oracle judges the implementation's validated messages against
that verdict."""
import json, os
from vp import coqrun
from vp.val import cN, cbool, clist, cpair, cbytes
from gen import hxpacket
from gen import bgpenc as E
from gen.bgpenc import B, cat
from gen.c03 import (rand_codec, codec_val, codec_coq, addpath_of, rbytes, rand_prefix, rand_nlri,
                     rand_aspath, rand_attrs, rand_nexthop, cbytes_big, PANIC)

ROLES = ['ebgp', 'ibgp', 'ibgp_rr_client', 'confed_ebgp', 'rs_client']

def is_ebgp_of_role(role):
    """daemon/src/event/mod.rs run_select (as repaired): external, non-confederation peer"""
    return role in ('ebgp', 'rs_client')

def external(role):
    return role in ('ebgp', 'rs_client')

KNOWN = {1: 0x40, 2: 0x40, 3: 0x40, 4: 0x80, 5: 0x40, 6: 0x40, 7: 0xc0, 8: 0xc0, 9: 0x80, 10: 0x80,
         16: 0xc0, 17: 0xc0, 18: 0xc0, 32: 0xc0, 26: 0x80, 40: 0xc0, 29: 0x80, 23: 0xc0}

def good_value(rng, code, codec):
    w = 2 if codec['two'] else 4
    if code == 1: return [rng.choice([0, 1, 2])]
    if code == 2: return E.aspath_value([(2, [rng.choice([65001, 23456, 100]) for _ in range(rng.randint(1, 3))])] +
                                        ([(1, [7, 8])] if rng.random() < 0.3 else []), w).d
    if code in (3, 4, 5, 9): return rbytes(rng, 4)
    if code == 6: return []
    if code == 7: return rbytes(rng, rng.choice([6, 8]))
    if code in (8, 10): return rbytes(rng, 4 * rng.randint(1, 3))
    if code == 16: return rbytes(rng, 8 * rng.randint(1, 2))
    if code == 32: return rbytes(rng, 12 * rng.randint(1, 2))
    if code == 17: return E.aspath_value([(2, [70000, 4200000000][:rng.randint(1, 2)])], 4).d
    if code == 18: return rbytes(rng, 8)
    return rbytes(rng, rng.randint(0, 9))

def corrupt(rng, code, flags, value, codec):
    """one RFC 7606 way of corrupting an attribute: returns (flags, code, value, force_ext, length_override)"""
    x = rng.random()
    if x < 0.3:      # length: value of another size
        n = rng.choice([0, 1, 2, 3, 5, 6, 7, 9, len(value) + 1, max(0, len(value) - 1), len(value) + 4])
        return (flags, code, (value + rbytes(rng, 16))[:n], None, None)
    if x < 0.55:     # flags
        f = flags ^ rng.choice([0x80, 0x40, 0xc0, 0x20, 0x10, 0x01])
        return (f, code, value, None, None)
    if x < 0.8:      # value
        v = list(value)
        if code == 1: v = [rng.choice([3, 255])]
        elif code in (2, 17) and len(v) >= 2:
            y = rng.random()
            if y < 0.35: v[0] = rng.choice([0, 5, 255])
            elif y < 0.7: v[1] = rng.choice([0, v[1] + 1, 255])
            else: v = v + [2, 0]
        elif v: v[rng.randrange(len(v))] ^= 0xff
        return (flags, code, v, None, None)
    if x < 0.9:      # extended-length encoding of a short value (legal) / partial bit
        return (flags | 0x20, code, value, True, None)
    return (flags, rng.choice([0, 11, 12, 13, 19, 20, 99]), value, None, None)   # unrecognised code, same flags

def build_update(rng, codec, role):
    """(bytes, tags): a valid UPDATE, then a random subset of its attributes corrupted"""
    fams = [f for f, _ in codec['fams']]
    ap4 = addpath_of(codec, E.IPV4)
    tags = []
    has4 = E.IPV4 in fams
    wd = [rand_prefix(rng, 32, ap4) for _ in range(rng.randint(1, 2))] if has4 and rng.random() < 0.4 else []
    nl = [rand_prefix(rng, 32, ap4) for _ in range(rng.randint(1, 3))] if has4 and rng.random() < 0.65 else []
    mpf = [f for f in fams if f != E.IPV4]
    specs = []     # (flags, code, value)
    codes = [1, 2] + ([3] if nl or rng.random() < 0.15 else [])
    for code in (4, 5, 6, 7, 8, 9, 10, 16, 17, 18, 32, 26, 40):
        if rng.random() < 0.22: codes.append(code)
    for code in codes:
        specs.append((KNOWN[code], code, good_value(rng, code, codec)))
    if rng.random() < 0.25: specs.append((rng.choice([0xc0, 0x80, 0x40, 0xe0]), rng.choice([99, 128, 200]), rbytes(rng, rng.randint(0, 5))))
    if mpf and rng.random() < 0.5:
        f = rng.choice(mpf)
        v = E.mp_reach_value(f, rand_nexthop(rng, f), [rand_nlri(rng, f, addpath_of(codec, f)) for _ in range(rng.randint(1, 2))]).d
        specs.insert(rng.randrange(len(specs) + 1), (0x80, 14, v)); tags.append('mp_reach')
    if mpf and rng.random() < 0.3:
        f = rng.choice(mpf)
        v = E.mp_unreach_value(f, [rand_nlri(rng, f, addpath_of(codec, f), reach=False) for _ in range(rng.randint(1, 2))]).d
        specs.insert(rng.randrange(len(specs) + 1), (0x80, 15, v)); tags.append('mp_unreach')
    if nl: tags.append('legacy_nlri')
    if wd: tags.append('legacy_withdraw')
    # ---- corrupt any subset
    ncor = rng.choice([0, 1, 1, 1, 2, 3])
    out = []
    cor = set(rng.sample(range(len(specs)), min(ncor, len(specs)))) if specs else set()
    for i, (fl, code, v) in enumerate(specs):
        if i in cor:
            fl2, code2, v2, fe, lo = corrupt(rng, code, fl, v, codec)
            out.append(E.attr(fl2, code2, v2, force_ext=fe, length=lo)); tags.append('corrupt_%d' % code)
        else:
            out.append(E.attr(fl, code, v))
    y = rng.random()
    if out and y < 0.12:      # omission of a mandatory attribute
        k = [i for i, (fl, code, v) in enumerate(specs) if code in (1, 2, 3)]
        if k:
            j = rng.choice(k); tags.append('omit_%d' % specs[j][1]); del out[j]
    elif out and y < 0.2:     # duplication
        out.insert(rng.randrange(len(out) + 1), rng.choice(out)); tags.append('duplicate')
    b = E.update(wd, out, nl)
    d = b.d
    z = rng.random()
    if z < 0.12:              # truncation of the attribute block: attribute length field shorter/longer than the attributes
        mk = [m for m in b.m if m[3] == 'alen'][0]
        cur = E.get_len(b, mk)
        if z < 0.06:
            # cut inside the block: the NLRI field then starts in the middle of an attribute - keep NLRI empty so that it stays locatable
            b2 = E.update(wd, out, [])
            mk = [m for m in b2.m if m[3] == 'alen'][0]
            cur = E.get_len(b2, mk)
            cutat = rng.choice([1, 2, 3, max(0, cur - 1), max(0, cur - 2), max(0, cur - 3)])
            blk_start = mk[0] + 2
            d = E.fix_hdr(B(E.set_len(b2, mk, min(cur, cutat)).d[:blk_start + min(cur, cutat)])).d
            tags.append('attr_block_truncated')
        else:
            # a dangling attribute header at the end of the block
            tail = rng.choice([[0x40], [0x40, 4], [0x50, 4, 0], [0x80, 4, 4], [0xc0, 8, 4, 1, 2]])
            b2 = E.update(wd, out + [B(tail)], nl)
            d = b2.d; tags.append('attr_block_dangling_header')
    return d, tags

def enum_c05():
    """Case classes enumerated on every run (no randomness), one per clause of the property text
    and per branch of validate_update / the attribute walk; each carries a 'cls' tag."""
    from gen.c03_enum import fill
    out = []
    c4 = {'ext': False, 'two': False, 'nh': False, 'fams': [(E.IPV4, False), (E.IPV6, False), (E.IPV4_VPN, False)]}
    c2 = dict(c4); c2['two'] = True
    def add(cls, codec, role, d): out.append({'codec': codec, 'role': role, 'bytes': d, 'tags': [], 'cls': cls})
    def base(codec, skip=()):
        w = 2 if codec['two'] else 4
        return [a for a, c in ((E.attr(0x40, 1, [0]), 1), (E.attr(0x40, 2, E.aspath_value([(2, [65001])], w)), 2), (E.attr(0x40, 3, [192, 0, 2, 1]), 3)) if c not in skip]
    nl = [E.prefix(24, [10, 0, 0])]
    wd = [E.prefix(8, [9])]
    mp = lambda: E.attr(0x80, 14, E.mp_reach_value(E.IPV6, fill(16), [E.prefix(32, [0x20, 1, 0xd, 0xb8])]))
    mpu = lambda: E.attr(0x80, 15, E.mp_unreach_value(E.IPV6, [E.prefix(16, [0x20, 2])]))
    good = {1: [0], 2: None, 3: [192, 0, 2, 1], 4: [0, 0, 0, 5], 5: [0, 0, 0, 100], 6: [], 7: fill(8), 8: fill(4), 9: fill(4), 10: fill(4), 16: fill(8),
            17: E.aspath_value([(2, [70000])], 4).d, 18: fill(8), 32: fill(12), 26: fill(11), 40: fill(7), 29: fill(9), 23: fill(12)}
    # every attribute type code 0..255 x the four optional/transitive flag classes (recognised, unrecognised well-known, unrecognised optional)
    for code in range(256):
        if code in (14, 15): continue
        for fl in (0x00, 0x40, 0x80, 0xc0):
            for codec in (c4,):
                v = good.get(code, fill(3))
                if v is None: v = E.aspath_value([(2, [65001])], 4).d
                attrs = base(codec, skip=(code,)) + [E.attr(fl, code, v)]
                add('every_code_x_flag_class', codec, ROLES[code % len(ROLES)], E.update(wd, attrs, nl).d)
    # every recognised code x every high nibble of the flags octet (partial and extended-length bits included), legacy and MP announcement
    for code in KNOWN:
        if code in (14, 15): continue
        for hi in range(16):
            for codec in (c4, c2):
                v = good[code]
                if v is None: v = E.aspath_value([(2, [65001])], 2 if codec['two'] else 4).d
                a = cat([B([hi << 4, code]), B(E.be(len(v), 2) if hi & 1 else [len(v)]), B(v)])
                add('known_code_x_flags_nibble', codec, 'ebgp', E.update(wd, base(codec, skip=(code,)) + [a], nl).d)
                if hi in (4, 8, 12, 0): add('known_code_x_flags_nibble_mp', codec, 'ibgp', E.update([], base(codec, skip=(code, 3)) + [a, mp()], []).d)
    # MP attributes x every flags nibble
    for hi in range(16):
        for code, v in ((14, E.mp_reach_value(E.IPV6, fill(16), [E.prefix(32, [0x20, 1, 0xd, 0xb8])]).d), (15, E.mp_unreach_value(E.IPV6, [E.prefix(16, [0x20, 2])]).d)):
            a = cat([B([hi << 4, code]), B(E.be(len(v), 2) if hi & 1 else [len(v)]), B(v)])
            add('mp_attr_x_flags_nibble', c4, 'ebgp', E.update(wd, base(c4, skip=(3,)) + [a], []).d)
    # omission of each mandatory attribute x (legacy NLRI only, MP_REACH only, both, withdrawals only)
    for skip in ((), (1,), (2,), (3,), (1, 2), (1, 2, 3)):
        for shape in ('legacy', 'mp', 'both', 'withdraw_only', 'mp_unreach_only'):
            attrs = base(c4, skip=skip)
            if shape in ('mp', 'both'): attrs = attrs + [mp()]
            if shape == 'mp_unreach_only': attrs = attrs + [mpu()]
            add('mandatory_omission_x_shape', c4, 'ebgp', E.update(wd, attrs, nl if shape in ('legacy', 'both') else []).d)
    # NEXT_HOP length 0..33
    for n in range(0, 34):
        add('nexthop_length', c4, 'ebgp', E.update([], base(c4, skip=(3,)) + [E.attr(0x40, 3, fill(n))], nl).d)
        if n in (0, 3, 4, 5, 16, 32): add('nexthop_length_mp_only', c4, 'ebgp', E.update([], base(c4, skip=(3,)) + [E.attr(0x40, 3, fill(n)), mp()], []).d)
    # ORIGIN values, AS_PATH shapes (zero-length segment, every segment type, confed), both widths
    for v in (0, 1, 2, 3, 255):
        add('origin_value', c4, 'ebgp', E.update([], base(c4, skip=(1,)) + [E.attr(0x40, 1, [v])], nl).d)
    for codec in (c4, c2):
        w = 2 if codec['two'] else 4
        for segs in ([], [(2, [])], [(2, [1]), (2, [])], [(0, [1])], [(1, [1])], [(3, [1])], [(4, [1])], [(5, [1])], [(2, [1]), (1, [2, 3]), (3, [4])], [(2, list(range(1, 256)))]):
            add('aspath_shape', codec, 'ebgp', E.update([], base(codec, skip=(2,)) + [E.attr(0x40, 2, E.aspath_value(segs, w))], nl).d)
        for d in (-1, 1):
            v = E.aspath_value([(2, [1, 2])], w).d
            v = v[:d] if d < 0 else v + [0]
            add('aspath_shape', codec, 'ebgp', E.update([], base(codec, skip=(2,)) + [E.attr(0x40, 2, v)], nl).d)
    # every role x each iBGP-only attribute present, and all three
    for role in ROLES:
        for codes in ((5,), (9,), (10,), (5, 9, 10), ()):
            attrs = base(c4) + [E.attr(KNOWN[k], k, good[k]) for k in codes]
            add('role_x_ibgp_only_attrs', c4, role, E.update([], attrs, nl).d)
            add('role_x_ibgp_only_attrs', c4, role, E.update([], base(c4, skip=(3,)) + [E.attr(KNOWN[k], k, good[k]) for k in codes] + [mp()], []).d)
    # two errors together: every pair (fatal, discardable, none) and positions first/last
    fatal = E.attr(0xc0, 8, fill(3)); disc = E.attr(0x80, 4, fill(3)); as4bad = E.attr(0xc0, 17, [2]); unk_wk = E.attr(0x40, 99, [1]); unk_opt = E.attr(0x80, 99, [1]); unk_tr = E.attr(0xc0, 99, [1])
    for x in (fatal, disc, as4bad, unk_wk, unk_opt, unk_tr):
        for y in (None, fatal, disc, as4bad):
            for first in (True, False):
                extra = [a for a in (x, y) if a is not None]
                attrs = (extra + base(c4)) if first else (base(c4) + extra)
                add('error_pairs_x_position', c4, 'ebgp', E.update(wd, attrs + [mpu()], nl).d)
    # duplicates of every code (second copy malformed / well-formed), MP twice
    for code in (1, 2, 3, 4, 5, 8, 17):
        v = good[code] if good[code] is not None else E.aspath_value([(2, [65001])], 4).d
        a = E.attr(KNOWN[code], code, v); bad = E.attr(KNOWN[code], code, v + [1, 2, 3])
        for second in (a, bad):
            add('duplicate_attr', c4, 'ebgp', E.update([], base(c4, skip=(code,)) + [a, second], nl).d)
            add('duplicate_attr', c4, 'ebgp', E.update([], base(c4, skip=(code,)) + [bad, a], nl).d)
    add('duplicate_mp', c4, 'ebgp', E.update([], base(c4) + [mp(), mp()], nl).d)
    add('duplicate_mp', c4, 'ebgp', E.update([], base(c4) + [mpu(), mpu()], nl).d)
    # attribute block ending inside an attribute, with legacy NLRI / without
    for tail in ([0x40], [0x40, 4], [0x50, 4], [0x50, 4, 0], [0x80, 4, 4], [0x80, 4, 4, 1, 2, 3], [0xc0, 8, 0], [0x80, 14, 4, 0, 2, 1]):
        add('attr_block_truncated', c4, 'ebgp', E.update(wd, base(c4) + [B(tail)], nl).d)
        add('attr_block_truncated', c4, 'ebgp', E.update(wd, base(c4, skip=(3,)) + [mp(), B(tail)], []).d)
    # session reset only if it must: NLRI that cannot be parsed / family not negotiated / MP structure
    add('reset_cases', c4, 'ebgp', E.update([], base(c4), [B([33, 1, 2, 3, 4, 5])]).d)
    add('reset_cases', c4, 'ebgp', E.update([B([33, 1, 2, 3, 4, 5])], [], []).d)
    add('reset_cases', c4, 'ebgp', E.update([], base(c4, skip=(3,)) + [E.attr(0x80, 14, E.mp_reach_value(E.IPV6_MC, fill(16), [E.prefix(8, [1])]))], []).d)
    add('reset_cases', c4, 'ebgp', E.update([], base(c4, skip=(3,)) + [E.attr(0x80, 14, [0, 2, 1])], []).d)
    add('reset_cases', c4, 'ebgp', E.update([], base(c4, skip=(3,)) + [E.attr(0x80, 14, E.mp_reach_value(E.IPV6, fill(5), [E.prefix(8, [1])]))], []).d)
    # families modelled since round 3: a faulty attribute next to their MP_REACH / MP_UNREACH (must be withdrawn),
    # a missing mandatory attribute, and NLRI of theirs that cannot be parsed (reset allowed)
    fam_nlri = {E.EVPN: E.evpn(2, E.evpn_t2(ip=[192, 0, 2, 9])), E.RTC: E.rtc(96, fill(12)), E.IPV4_SRP: E.srp(96, 1, 2, [1, 2, 3, 4]),
                E.IPV4_FS: E.flowspec([E.fs_prefix4(1, 24, [10, 0, 0]), E.fs_ops(3, [(1, 6)])]),
                E.IPV6_FS: E.flowspec([E.fs_prefix6(1, 32, 0, [0x20, 1, 0xd, 0xb8])]),
                E.IPV4_FSVPN: E.flowspec([E.fs_ops(5, [(1, 80)])], rd=E.RD0),
                E.IPV4_MUP: E.mup(1, E.mup_isd(24, [10, 0, 0])),
                E.LS: E.ls_nlri(3, E.ls_head() + E.ls_node_desc([E.ls_tlv(512, [0, 0, 0xfd, 0xe9])]) + E.ls_tlv(265, [24, 10, 0, 1]))}
    for fam, n in fam_nlri.items():
        cf = {'ext': False, 'two': False, 'nh': False, 'fams': [(E.IPV4, False), (fam, False)]}
        nh = [] if (fam & 0xff) in (133, 134) else [10, 0, 0, 1]
        mr = lambda x: E.attr(0x80, 14, E.mp_reach_value(fam, nh, [x]))
        mu = lambda x: E.attr(0x80, 15, E.mp_unreach_value(fam, [x]))
        for extra in ([], [fatal], [disc], [unk_wk], [E.attr(0x40, 5, fill(3))]):
            add('new_family_x_attr_error', cf, 'ebgp', E.update([], base(cf, skip=(3,)) + extra + [mr(n)], []).d)
            add('new_family_x_attr_error', cf, 'ibgp', E.update([], base(cf, skip=(3,)) + extra + [mr(n), mu(n)], []).d)
        for skip in ((1, 3), (2, 3), (1, 2, 3)):
            add('new_family_missing_mandatory', cf, 'ebgp', E.update([], base(cf, skip=skip) + [mr(n)], []).d)
        add('new_family_flag_error_mp', cf, 'ebgp', E.update([], base(cf, skip=(3,)) + [E.attr(0xc0, 14, E.mp_reach_value(fam, nh, [n]))], []).d)
        add('new_family_flag_error_mp', cf, 'ebgp', E.update([], [E.attr(0x00, 15, E.mp_unreach_value(fam, [n]))], []).d)
        add('new_family_unparsable_nlri', cf, 'ebgp', E.update([], base(cf, skip=(3,)) + [mr(B(n.d[:-1]))], []).d)
        add('new_family_unparsable_nlri', cf, 'ebgp', E.update([], [mu(B(n.d + [255]))], []).d)
        add('new_family_nexthop_forms', cf, 'ebgp', E.update([], base(cf, skip=(3,)) + [E.attr(0x80, 14, E.mp_reach_value(fam, [], [n]))], []).d)
        add('new_family_nexthop_forms', cf, 'ebgp', E.update([], base(cf, skip=(3,)) + [E.attr(0x80, 14, E.mp_reach_value(fam, fill(16), [n]))], []).d)
    for nh in ([0] * 8 + [1, 1, 1, 1], [0] * 8 + fill(16), fill(4), fill(16), fill(32)):
        add('vpn_nexthop_forms', c4, 'ebgp', E.update([], base(c4, skip=(3,)) + [E.attr(0x80, 14, E.mp_reach_value(E.IPV4_VPN, nh, [E.vpn([100], [0, 0, 0, 1, 0, 0, 0, 1], 24, [10, 0, 1])]))], []).d)
    # list-valued attributes whose length must be a non-zero multiple of the element width (COMMUNITY 4,
    # EXTENDED_COMMUNITY 8, CLUSTER_LIST 4, LARGE_COMMUNITY 12, IPv6 ext. communities 20): every length
    # around each multiple near the one-octet / two-octet length switch and past it, so a width test done
    # on a truncated length (e.g. the low octet) shows: 252..300, 504..532, 1020..1032, 4080..4092
    for code, width, fl in ((8, 4, 0xc0), (16, 8, 0xc0), (10, 4, 0x80), (32, 12, 0xc0), (25, 20, 0xc0)):
        lens = set()
        for lo, hi in ((252, 300), (504, 532), (1020, 1032)):
            lens.update(range(lo, hi + 1))
        lens.update((0, 1, width - 1, width, width + 1, 2 * width, 255, 256 + width, 256 + 2 * width, 512 + width))
        for n in sorted(lens):
            if code == 10 and n > 300: continue
            add('list_attr_length_x_width_%d' % code, c4, 'ibgp' if code == 10 else 'ebgp',
                E.update([], base(c4) + [E.attr(fl, code, fill(n))], nl).d)
    return out

class Prop:
    pid = 'C05'
    props_file = 'Props/C05.v'
    required_theorems = ['bad_update_installs_nothing', 'bad_update_leaves_no_route', 'withdrawals_survive_errors',
                         'reset_only_if_nlri_unlocatable', 'parsed_update_is_locatable', 'ibgp_only_attrs_dropped_from_external']
    correspondence_name = ('Model/Validate.v validate_update (on Model/Wire*.v try_parse) vs packet/src/bgp.rs '
                           'validate_message(PeerCodec::try_parse(bytes), is_ebgp) (harness/hx-packet kind 3, debug and release)')
    rule = ('a case is (codec, peer role, one UPDATE frame built valid and then corrupted: any subset of attributes in one of '
            'the RFC 7606 ways - length, flags, value, unrecognised code - plus omission of a mandatory attribute, duplication, '
            'truncation of the attribute block); non-trivial when the UPDATE parses to routes; distinct = distinct '
            '(two-byte AS, external peer, attribute codes delivered, error attribute list, which of reach/mp_reach/unreach/mp_unreach are present, '
            'kinds of validated messages)')
    exhaustive = {'quick': False, 'thorough': False}
    trusted_base = ['Spec/Rfc7606.v reuses the NLRI field decoders of Model/WireNlri.v to list the announced/withdrawn prefixes (NLRI syntax is C03); '
                    'its attribute walk, flag/length/value rules, mandatory-attribute rule and MP-attribute structure are independent of the model; '
                    'that the parser model agrees with it is proved (Proofs/Rfc7606.v), and the same verdict is also evaluated on every generated frame and '
                    'used to judge the real crate\'s output',
                    'the is_ebgp argument is computed from the peer role in PeerSession::run_select; that one-line mapping is covered by a unit test in the repository '
                    '(received_from_external_peer_by_role), not by this correspondence run',
                    'PeerSession::rx_update (loop detection, default LOCAL_PREF injection, prefix limits) is abstracted to insert/remove per NLRI (Model/Validate.v apply_vmsg)']
    assumptions = [
                   'syntax of AIGP, PREFIX_SID, BGP-LS and TUNNEL_ENCAP values is not judged (the receive path stores them as bytes)']

    def __init__(self):
        self._verdict = {}

    # ---- rendering
    def case_to_val(self, c):
        return [3, codec_val(c['codec']), 1 if is_ebgp_of_role(c['role']) else 0, c['bytes']]

    def case_to_coq(self, c):
        return 'run_c05 %s %s %s' % (codec_coq(c['codec']), cbool(is_ebgp_of_role(c['role'])), cbytes_big(c['bytes']))

    def case_to_json(self, c):
        return json.loads(json.dumps(c))

    def case_from_json(self, j):
        c = dict(j)
        c['codec'] = dict(c['codec'])
        c['codec']['fams'] = [tuple(x) for x in c['codec']['fams']]
        return c

    def corpus_cases(self):
        d = os.path.join(os.path.dirname(os.path.dirname(os.path.abspath(__file__))), 'corpus', 'C05')
        out = []
        if os.path.isdir(d):
            for fn in sorted(os.listdir(d)):
                if fn.endswith('.json'):
                    out.append(self.case_from_json(json.load(open(os.path.join(d, fn)))['case']))
        return out

    # ---- generation
    def gen_cases(self, rng, tier):
        n = 3000 if tier == 'quick' else 20000
        out = enum_c05()
        c4 = {'ext': False, 'two': False, 'nh': False, 'fams': [(E.IPV4, False), (E.IPV6, False)]}
        c2 = {'ext': False, 'two': True, 'nh': False, 'fams': [(E.IPV4, False), (E.IPV6, False)]}
        # deterministic sweep: every recognised attribute x every small value length x flag patterns, legacy and MP announcements
        for codec in (c4, c2):
            for code, fl in KNOWN.items():
                if code in (14, 15): continue
                for nbytes in list(range(0, 10)) + [12, 16, 24]:
                    for flags in (fl, fl ^ 0x80, fl ^ 0x40, fl | 0x20):
                        if flags != fl and nbytes not in (0, 4, 8): continue
                        v = good_value(rng, code, codec)
                        v = (v + rbytes(rng, 24))[:nbytes]
                        attrs = [E.attr(KNOWN[k], k, good_value(rng, k, codec)) for k in (1, 2, 3) if k != code] + [E.attr(flags, code, v)]
                        role = ROLES[(code + nbytes) % len(ROLES)]
                        out.append({'codec': codec, 'role': role, 'bytes': E.update([E.prefix(8, [9])], attrs, [E.prefix(24, [10, 0, 0])]).d,
                                    'tags': ['sweep_%d' % code]})
                        if nbytes in (0, 3, 4):
                            mp = E.attr(0x80, 14, E.mp_reach_value(E.IPV6, rbytes(rng, 16), [E.prefix(32, [0x20, 1, 0xd, 0xb8])]))
                            out.append({'codec': codec, 'role': role, 'bytes': E.update([], attrs + [mp], []).d, 'tags': ['sweep_mp_%d' % code]})
        # MP_REACH / MP_UNREACH with wrong flags, and unknown well-known attributes
        for flags in (0x80, 0xc0, 0x40, 0x00, 0xa0, 0x90):
            for code in (14, 15):
                v = (E.mp_reach_value(E.IPV6, rbytes(rng, 16), [E.prefix(32, [0x20, 1, 0xd, 0xb8])]) if code == 14
                     else E.mp_unreach_value(E.IPV6, [E.prefix(32, [0x20, 1, 0xd, 0xb8])])).d
                attrs = [E.attr(0x40, 1, [0]), E.attr(0x40, 2, []), E.attr(flags, code, v)]
                out.append({'codec': c4, 'role': 'ebgp', 'bytes': E.update([], attrs, []).d, 'tags': ['mp_flags']})
        for _ in range(n):
            codec = rand_codec(rng, rng.choice([[E.IPV4], [E.IPV4, E.IPV6], [E.IPV4, E.IPV6, E.IPV4_VPN], [E.IPV6], list(E.MODELLED)]))
            codec['ext'] = False
            role = rng.choice(ROLES)
            d, tags = build_update(rng, codec, role)
            out.append({'codec': codec, 'role': role, 'bytes': d, 'tags': tags})
        return out

    # ---- running
    def run_impl(self, cases, tier):
        return hxpacket.run_both('C05', [self.case_to_val(c) for c in cases])

    def run_model(self, cases, tier):
        from gen.c03 import _unlimit_stack
        _unlimit_stack()
        pre = ('From RB Require Import Base.Val Base.Bytes Model.Stream Model.Wire Model.WireNlri Model.WireUpdate Model.WireMsg '
               'Spec.Rfc7606 Model.Validate.\nOpen Scope N_scope.')
        res, err = coqrun.eval_terms('C05', pre, [self.case_to_coq(c) for c in cases])
        if res is None:
            return None, err
        self._verdict = {}
        out = []
        for c, r in zip(cases, res):
            self._verdict[json.dumps(c['bytes']) + json.dumps(codec_val(c['codec']))] = r[1]
            out.append(r[0])
        return out, ''

    def canon(self, case, obs):
        return obs

    # ---- Spec oracle: the implementation's validated messages against the Gallina verdict
    def oracle(self, c, obs):
        v = self._verdict.get(json.dumps(c['bytes']) + json.dumps(codec_val(c['codec'])))
        if v is None:
            return None
        locatable, must_withdraw, discard, announced, withdrawn = v
        b = c['bytes']
        is_update_frame = len(b) >= 23 and b[18] == 2 and ((b[16] << 8) | b[17]) == len(b) and len(b) <= 4096
        for prof, o in zip(('debug', 'release'), obs):
            if o == PANIC:
                return '%s build: panic while parsing/validating an UPDATE' % prof
            if not is_update_frame:
                continue
            if o[0] == 1:
                return '%s build: complete UPDATE frame answered "need more"' % prof
            if o[0] in (2, 3):
                if locatable:
                    return ('%s build: session reset (NOTIFICATION %d/%d) although the NLRI of the UPDATE can be located and parsed'
                            % (prof, o[-3] if o[0] == 3 else o[1], o[-2] if o[0] == 3 else o[2]))
                continue
            if not locatable:
                continue
            msgs = o[2]
            reach = [m for m in msgs if m[0] == 2 and m[1] == 1]
            unreach_keys = set()
            for m in msgs:
                if m[0] == 2 and m[1] == 2:
                    for e in m[3]:
                        unreach_keys.add(json.dumps([m[2], e[0], e[1]]))
            for k in withdrawn:
                if json.dumps(k) not in unreach_keys:
                    return '%s build: a withdrawal carried by the UPDATE did not take effect' % prof
            if must_withdraw:
                if reach:
                    return ('%s build: UPDATE with a malformed / wrongly flagged / unrecognised well-known / missing mandatory attribute '
                            'still announces routes (codes at fault: %s)' % (prof, discard))
                for k in announced:
                    if json.dumps(k) not in unreach_keys:
                        return '%s build: prefix announced in a faulty UPDATE is not treated as withdrawn' % prof
            else:
                for m in reach:
                    codes = [a[0] for a in m[5]]
                    for code in discard:
                        if code in codes:
                            return '%s build: faulty attribute %d is still attached to an announced route' % (prof, code)
            if external(c['role']):
                for m in reach:
                    for a in m[5]:
                        if a[0] in (5, 9, 10):
                            return '%s build: iBGP-only attribute %d from an external peer is believed' % (prof, a[0])
        return None

    def in_known_class(self, kf, c, obs, why):
        return False

    def nontrivial_key(self, c, obs):
        o = obs[0]
        if o == PANIC: return ('panic',)
        if o[0] != 0: return None
        p = o[1]
        if p[0] != 2 or p[1] != 1: return None
        return (c['codec']['two'], external(c['role']), tuple(a[0] for a in p[6]), tuple(tuple(x) for x in p[7]),
                tuple(len(x) for x in p[2:6]), tuple(m[1] for m in o[2]))

    def classify(self, c, obs):
        o = obs[0]
        t = list(dict.fromkeys([x.split('_')[0] if x.startswith('sweep') else x for x in c.get('tags', [])]))[:6]
        t.append('role_' + c['role'])
        t.append('class_' + c.get('cls', 'random'))
        if o == PANIC: return t + ['panic']
        if o[0] in (2, 3): t.append('reset')
        elif o[0] == 0:
            p = o[1]
            if p[0] == 2 and p[1] == 1:
                t.append('routes_with_error_attrs' if p[7] else 'routes_clean')
                kinds = [m[1] for m in o[2]]
                if 1 in kinds: t.append('announces')
                if p[7] and 1 not in kinds: t.append('treated_as_withdraw')
        return t
