"""C17: case classes ENUMERATED ON EVERY RUN (no randomness): one class per clause of the property text
and per branch / comparison / format switch of the anchored functions, with values on both sides of every
boundary.  Each case carries 'cls' (shown by classify() as enum:<cls>).

A list written ['rep', item, n] stands for n copies of item (expanded for the harness, rendered as
(repeat item n) for the model), so that 65535 / 65536-octet values stay small in the case files."""

T, O, PARTIAL, EXT = 0x40, 0x80, 0x20, 0x10
U32MAX = 2 ** 32 - 1

def S(s): return [ord(c) for c in s]
def be16(v): return [(v >> 8) & 255, v & 255]
def be32(v): return [(v >> 24) & 255, (v >> 16) & 255, (v >> 8) & 255, v & 255]
def rep(item, n): return ['rep', item, n]

def wire(cls, flags, code, data): return {'k': 0, 'flags': flags, 'code': code, 'data': data, 'cls': cls}
def api(cls, x): return {'k': 1, 'api': x, 'cls': cls}
def napi(cls, x): return {'k': 2, 'api': x, 'cls': cls}
def nlri(cls, n): return {'k': 3, 'n': n, 'cls': cls}
def lp(cls, fam, n, attrs, ident=0): return {'k': 5, 'fam': fam, 'nlri': n, 'attrs': attrs, 'id': ident, 'cls': cls}
def evapi(cls, x): return {'k': 6, 'api': x, 'cls': cls}
def ev(cls, e): return {'k': 7, 'e': e, 'cls': cls}

CANON = {1: T, 2: T, 3: T, 4: O, 5: T, 6: T, 7: T | O, 8: T | O, 9: O, 10: O, 14: O, 15: O, 16: T | O,
         17: T | O, 18: T | O, 26: O, 32: T | O, 40: T | O, 29: O, 23: T | O}

# AS numbers whose octets look like segment headers (type 1..4, count) when re-read out of step
ADV_AS = [0x02400000, 0x01010000, 0x0240FFFF, 0x03FF0000, 0x04000001, 0x02000000, 0x00020100, 0x05050505]

def seg(t, n, k=0): return [t & 255, n & 255] + [b for i in range(n) for b in be32(ADV_AS[(i + k) % len(ADV_AS)])]

def enum_wire():
    out = []
    # every flags octet against a value-held, a list, a defined-raw and an undefined attribute type
    for f in range(256):
        out.append(wire('wire:flags_all', f, 1, [1]))
        out.append(wire('wire:flags_all', f, 8, be32(0xffff0006)))
        out.append(wire('wire:flags_all', f, 26, [1, 0, 11, 0, 0, 0, 0, 0, 0, 0, 5]))
        out.append(wire('wire:flags_all', f & ~EXT, 99, [1, 2, 3]))
    # value lengths around each type's rule
    for ln in (0, 1, 2): out.append(wire('wire:len_origin', T, 1, [1] * ln))
    for v in (0, 1, 2, 3, 255): out.append(wire('wire:origin_value', T, 1, [v]))
    for code, fl in ((4, O), (5, T), (9, O)):
        for ln in (0, 3, 4, 5): out.append(wire('wire:len_u32', fl, code, [0, 1, 2, 3, 4][:ln]))
        for v in (0, 1, 255, 256, 2 ** 31, U32MAX): out.append(wire('wire:u32_value', fl, code, be32(v)))
    for ln in (0, 1): out.append(wire('wire:len_atomic', T, 6, [0] * ln))
    for ln in (0, 5, 6, 7, 8, 9): out.append(wire('wire:len_aggregator', T | O, 7, [0, 1, 2, 3, 4, 5, 6, 7, 8][:ln]))
    for code, unit in ((8, 4), (10, 4), (16, 8), (32, 12)):
        fl = CANON[code]
        for ln in (0, unit - 1, unit, unit + 1, 2 * unit, 252 // unit * unit, 256 // unit * unit, (256 // unit + 1) * unit,
                   255, 256, 4092 // unit * unit):
            data = [(7 * k) & 255 if code != 16 else [0, 2, 0, 1, 0, 0, 0, 9][k % 8] for k in range(ln)]
            out.append(wire('wire:len_list_%d' % code, fl | (EXT if ln > 255 else 0), code, data))
    # AS_PATH: segment types, counts at the one-octet boundaries, exact / short / long fill, header-like AS numbers
    for t in (0, 1, 2, 3, 4, 5, 255): out.append(wire('wire:aspath_type', T, 2, seg(t, 1)))
    for n in (0, 1, 2, 63, 64, 65, 127, 128, 129, 254, 255):
        b = seg(2, n)
        out.append(wire('wire:aspath_count', T | (EXT if len(b) > 255 else 0), 2, b))
        for t in (1, 3, 4):
            b2 = seg(t, n, 1) + seg(2, 3)
            out.append(wire('wire:aspath_count', T | (EXT if len(b2) > 255 else 0), 2, b2))
    for cut in (1, 2, 3, 5, 6, 9): out.append(wire('wire:aspath_truncated', T, 2, seg(2, 2)[:cut]))
    out.append(wire('wire:aspath_truncated', T, 2, seg(2, 2) + [2]))
    out.append(wire('wire:aspath_truncated', T, 2, seg(2, 2) + [2, 1, 0, 0]))
    out.append(wire('wire:aspath_empty', T, 2, []))
    out.append(wire('wire:aspath_zero_segment', T, 2, seg(2, 1) + [2, 0]))
    for t in (17, 18):
        for ln in (0, 4, 6, 8, 10): out.append(wire('wire:as4', T | O, t, seg(2, 2)[:ln]))
    # special types that are decoded but kept outside the list
    for code in (3, 14, 15):
        for ln in (0, 3, 4, 5, 16): out.append(wire('wire:kept_aside', CANON[code], code, [0, 1, 1, 4, 10, 0, 0, 1, 0, 0, 0, 0, 0, 0, 0, 0][:ln]))
    # undefined types: every class-bit combination, value lengths across the extended-length switch
    for code in (0, 11, 22, 41, 255):
        for fl in (0, T, O, T | O, T | O | PARTIAL, T | O | 1):
            out.append(wire('wire:unknown_class_bits', fl, code, [9, 9]))
    for ln in (0, 1, 254, 255, 256, 257, 4000):
        out.append(wire('wire:unknown_len', T | O | (EXT if ln > 255 else 0), 99, [k & 255 for k in range(ln)]))
        out.append(wire('wire:raw_len', O | (EXT if ln > 255 else 0), 26, [k & 255 for k in range(ln)]))
    # extended communities: every type octet x the sub-types the code distinguishes x reserved-bit patterns
    chunks = []
    for t in range(256):
        for st in (2, 6, 7, 8, 9):
            chunks.append([t, st, 0, 0, 0, 0, 0, 1])
            chunks.append([t, st, 0, 0, 0, 0, 1, 3])
    for st in range(0, 16):
        for t in (0x80, 0x81, 0x82, 0x0c, 0x00, 0x41):
            chunks.append([t, st, 1, 2, 3, 4, 5, 6])
    for b7 in (0, 1, 2, 3, 4, 5, 63, 64, 65, 127, 128, 255):
        chunks.append([0x80, 7, 0, 0, 0, 0, 0, b7])
        chunks.append([0x80, 9, 0, 0, 0, 0, 0, b7])
    for pos in range(2, 7):
        c7 = [0x80, 7, 0, 0, 0, 0, 0, 1]; c7[pos] = 1; chunks.append(c7)
        c9 = [0x80, 9, 0, 0, 0, 0, 0, 1]; c9[pos] = 255; chunks.append(c9)
    # every typed category with all-ones / all-zero fields (the u8 / u16 / u32 edges of each field)
    for t in (0x00, 0x40, 0x01, 0x41, 0x02, 0x42, 0x0c, 0x4c, 0x80, 0xc0, 0x81, 0xc1, 0x82, 0xc2, 0x03, 0xff):
        for st in (0, 2, 6, 7, 8, 9, 255):
            chunks.append([t, st] + [255] * 6); chunks.append([t, st] + [0] * 6)
    for k in range(0, len(chunks), 24):
        data = [b for ch in chunks[k:k + 24] for b in ch]
        out.append(wire('wire:extcom_grid', T | O, 16, data))
    return out

GOOD4 = ['0.0.0.0', '255.255.255.255', '1.2.3.4', '10.0.0.1', '9.99.199.249', '100.200.0.25']
BAD4 = ['', '1.2.3', '1.2.3.4.5', '01.2.3.4', '1.2.3.04', '256.1.1.1', '1.2.3.256', '1.2.3.4 ', ' 1.2.3.4', 'a.b.c.d', '1..2.3',
        '.1.2.3', '1.2.3.', '1234.1.1.1', '1.2.3.-4', '+1.2.3.4', '1.2.3.4/8', '00.0.0.0', '1,2,3,4', '1.2.3.4\n', '0x1.2.3.4',
        '255.255.255.2555', '1.2.3.4.', '0.0.0.00', '1.2.3.4\x00']
GOOD6 = ['::', '::1', '2001:db8::1', '1:2:3:4:5:6:7:8', '::ffff:1.2.3.4', '::1.2.3.4', '1:2:3:4:5:6:1.2.3.4', 'FFFF::', '1::',
         '1:2:3:4:5:6:7::', '::2:3:4:5:6:7:8', '0:0:0:0:0:0:0:0', '00a::', 'ffff:ffff:ffff:ffff:ffff:ffff:ffff:ffff', '1:0:0:4::8',
         '0:0:1::', '1::0:0:8']
BAD6 = [':', ':::', '1:::2', '1:2:3:4:5:6:7', '1:2:3:4:5:6:7:8:9', '12345::', 'g::', '::1::', ':1', '1:', '1::2::3', '::1.2.3',
        '1.2.3.4::', '1:2:3:4:5:6:7:1.2.3.4', '1:2:3:4:5:6:7:8::', '::1:2:3:4:5:6:7:8', '::1/64', '::%eth0', ' ::1', '::01.2.3.4',
        '::256.1.1.1', '1:2:3:4:5:6:7:', '[::1]', '1:2:3:4:5:1.2.3.4:7', '::1 ']

def enum_api_attr():
    out = []
    out.append(api('api:oneof_missing', [0]))
    # the oneof variants attr_from_api does not implement (each one)
    for tag in (13, 15, 16, 17, 19, 20): out.append(api('api:oneof_unimplemented', [tag]))
    # Unknown: type at the u8 edge, flags at the u8 edge and every class-bit pair, value at the u16 edge
    for ty in (254, 255, 256, 257, 65535, 65536, U32MAX):
        out.append(api('api:unknown_type_edge', [1, T | O, ty, [1]]))
    for fl in (0, T, O, T | O, T | O | PARTIAL, 255, 256, 256 + (T | O), U32MAX):
        for ty in (99, 8):
            out.append(api('api:unknown_flags', [1, fl, ty, [0, 0, 0, 1]]))
    for ln in (254, 255, 256, 257, 4095, 4096, 4097, 65534, 65535, 65536, 65537):
        out.append(api('api:unknown_len_edge', [1, T | O, 99, rep(7, ln)]))
        out.append(api('api:unknown_len_edge', [1, 0, 26, rep(7, ln)]))
    for ln in (65532, 65535, 65536): out.append(api('api:unknown_len_edge', [1, 0, 8, rep(1, ln)]))
    for ty, good in ((1, [2]), (2, seg(2, 2)), (3, [1, 2, 3, 4]), (4, be32(5)), (5, be32(5)), (6, []), (7, [0, 0, 0, 1, 1, 2, 3, 4]),
                     (8, be32(1)), (9, be32(1)), (10, be32(1)), (14, [0, 1, 1, 4, 1, 2, 3, 4, 0]), (15, [0, 1, 1]), (16, [0, 2, 0, 1, 0, 0, 0, 1]),
                     (17, seg(2, 1)), (18, [0, 0, 0, 1, 1, 2, 3, 4]), (26, [1, 0, 3]), (32, be32(1) * 3)):
        out.append(api('api:unknown_defined_valid', [1, 0, ty, good]))
        out.append(api('api:unknown_defined_short', [1, 0, ty, good[:-1]]))
        out.append(api('api:unknown_defined_long', [1, 0, ty, good + [0]]))
    out.append(api('api:unknown_defined_valid', [1, 0, 3, list(range(16))]))
    for v in (0, 1, 2, 3, 4, 255, 256, 257, 258, U32MAX): out.append(api('api:origin_edge', [2, v]))
    # AS_PATH: every segment type of interest x counts at the one-octet edge; header-like AS numbers
    for t in (-2 ** 31, -1, 0, 1, 2, 3, 4, 5, 255, 256, 257, 258, 260, 261, 2 ** 31 - 1):
        out.append(api('api:aspath_type', [3, [[t, [65001]]]]))
    for n in (0, 1, 2, 63, 64, 65, 127, 128, 129, 254, 255, 256, 257, 511, 512):
        for t in (1, 2, 3, 4):
            nums = [ADV_AS[i % len(ADV_AS)] for i in range(n)]
            out.append(api('api:aspath_count', [3, [[t, nums]]]))
            out.append(api('api:aspath_count', [3, [[t, nums], [2, [65001, 65002, 65003]]]]))
            out.append(api('api:aspath_count', [3, [[2, [65001]], [t, nums]]]))
    out.append(api('api:aspath_empty', [3, []]))
    for k in (63, 64, 65, 66):       # 64 x 1022 = 65408 <= 65535 < 65 x 1022
        out.append(api('api:aspath_total_edge', [3, rep([2, rep(65001, 255)], k)]))
    for s in GOOD4 + BAD4 + GOOD6 + BAD6:
        out.append(api('api:nexthop_text', [4, S(s)]))
        out.append(api('api:originator_text', [10, S(s)]))
        out.append(api('api:aggregator_text', [8, 65001, S(s)]))
    for v in (0, 1, 99, 100, 101, U32MAX):
        out.append(api('api:u32_edge', [5, v])); out.append(api('api:u32_edge', [6, v])); out.append(api('api:u32_edge', [8, v, S('1.2.3.4')]))
    out.append(api('api:atomic', [7]))
    for n in (0, 1, 2, 63, 64, 65, 16382, 16383, 16384, 16385):
        out.append(api('api:communities_count', [9, rep(0xffff0006, n)]))
    out.append(api('api:communities_llgr', [9, [0xfde80001, 0xffff0006]])); out.append(api('api:communities_llgr', [9, [0xffff0007, 1]]))
    for n in (0, 1, 2, 64, 16383, 16384): out.append(api('api:cluster_count', [11, rep(S('1.2.3.4'), n)]))
    for bad in BAD4[:6]:
        out.append(api('api:cluster_bad_position', [11, [S(bad), S('1.1.1.1'), S('2.2.2.2')]]))
        out.append(api('api:cluster_bad_position', [11, [S('1.1.1.1'), S('2.2.2.2'), S(bad)]]))
    for n in (0, 1, 2, 21, 22, 5460, 5461, 5462): out.append(api('api:large_count', [21, rep([1, 2, 3], n)]))
    for v in (0, U32MAX): out.append(api('api:large_value', [21, [[v, U32MAX - v, v]]]))
    # extended communities: every variant with each bounded field on both sides of its bound
    e16 = (0, 65535, 65536, U32MAX); e8 = (0, 255, 256, U32MAX)
    for tr in (0, 1):
        for st in e8:
            out.append(api('api:extcom_bounds', [14, [[1, tr, st, 1, 1]]])); out.append(api('api:extcom_bounds', [14, [[2, tr, st, S('1.2.3.4'), 1]]]))
            out.append(api('api:extcom_bounds', [14, [[3, tr, st, 1, 1]]]))
        for v in e16:
            out.append(api('api:extcom_bounds', [14, [[1, tr, 2, v, U32MAX]]])); out.append(api('api:extcom_bounds', [14, [[2, tr, 2, S('1.2.3.4'), v]]]))
            out.append(api('api:extcom_bounds', [14, [[3, tr, 2, U32MAX, v]]]))
    for st in e8: out.append(api('api:extcom_bounds', [14, [[4, st, 1, U32MAX]]]))
    for v in e16:
        out += [api('api:extcom_bounds', [14, [[4, 1, v, 1]]]), api('api:extcom_bounds', [14, [[6, v, 0x3f800000]]]), api('api:extcom_bounds', [14, [[8, v, U32MAX]]]),
                api('api:extcom_bounds', [14, [[10, S('1.2.3.4'), v]]]), api('api:extcom_bounds', [14, [[11, U32MAX, v]]])]
    for bits in (0, 0x7fc00000, 0x7f800001, 0xffc00001, 0x80000000, U32MAX): out.append(api('api:extcom_float_bits', [14, [[6, 1, bits]]]))
    for a in (0, 1):
        for b in (0, 1): out.append(api('api:extcom_action', [14, [[7, a, b]]]))
    for d in (0, 1, 63, 64, 65, 255, 256, U32MAX): out.append(api('api:extcom_remark', [14, [[9, d]]]))
    for ln in (0, 7, 8, 9, 16): out.append(api('api:extcom_unknown_len', [14, [[5, 3, [1] * ln]]]))
    for ty in (0, 255, 256): out.append(api('api:extcom_unknown_len', [14, [[5, ty, [0x43, 1, 2, 3, 4, 5, 6, 7]]]]))
    out.append(api('api:extcom_oneof', [14, [[0]]])); out.append(api('api:extcom_oneof', [14, [[99]]]))
    for s in BAD4[:8]:
        out.append(api('api:extcom_bad_text', [14, [[2, 1, 2, S(s), 1]]])); out.append(api('api:extcom_bad_text', [14, [[10, S(s), 1]]]))
    good = [1, 1, 2, 65000, 1]
    for badx in ([1, 1, 256, 1, 1], [0], [5, 0, [1, 2]]):
        out.append(api('api:extcom_bad_position', [14, [badx, good, good]])); out.append(api('api:extcom_bad_position', [14, [good, good, badx]]))
    for n in (0, 1, 31, 32, 33, 8191, 8192, 8193): out.append(api('api:extcom_count', [14, rep(good, n)]))
    # MpReach typed message: family truncation, flowspec with / without next hops, next hop forms
    for fam in ([], [1, 1], [2, 1], [1, 133], [2, 133], [1, 134], [2, 134], [65537, 257], [1, 133 + 256], [25, 70], [0, 0]):
        for nhs in ([], [S('192.0.2.1')], [S('2001:db8::1')], [S('bad')], [S('192.0.2.1'), S('bad')], [S(''), S('192.0.2.1')]):
            out.append(api('api:mp_reach', [12, fam, nhs]))
    return out

def enum_api_nlri():
    out = []
    out.append(napi('nlri:oneof_missing', [0]))
    for s in ('10.0.0.0', '10.1.2.3', '0.0.0.0'):
        for ln in (0, 1, 31, 32, 33, 64, 128, 129, 255, 256, 257, 288, U32MAX): out.append(napi('nlri:prefix_len_v4', [1, S(s), ln]))
    for s in ('2001:db8::', '::', '::ffff:1.2.3.4'):
        for ln in (0, 1, 32, 33, 127, 128, 129, 255, 256, 384, U32MAX): out.append(napi('nlri:prefix_len_v6', [1, S(s), ln]))
    for s in BAD4 + BAD6 + ['10.0.0.0/8', '/', '1.2.3.4/', '/8']: out.append(napi('nlri:prefix_text', [1, S(s), 8]))
    for m in (0, 1, 7, 8, 9, 16, 17, 24, 25, 31, 32):
        for s in ('10.0.0.0', '10.0.0.1', '10.0.1.0', '10.1.0.0', '10.128.0.0', '0.0.0.1'):
            out.append(napi('nlri:host_octets', [1, S(s), m])); out.append(napi('nlri:host_octets', [2, [100], S(s), m])); out.append(napi('nlri:host_octets', [3, [100], [1, 1, 1], S(s), m]))
    for m in (0, 8, 9, 64, 120, 121, 128):
        for s in ('2001:db8::', '2001:db8::1', '2001::', '::1', '2001:db8:0:1::'):
            out.append(napi('nlri:host_octets', [1, S(s), m])); out.append(napi('nlri:host_octets', [2, [100], S(s), m]))
    for s in GOOD4 + GOOD6: out.append(napi('nlri:prefix_text', [1, S(s), 0]))
    # labeled: 24 * labels + prefix bits against the one-octet length, label values at 20 bits
    for v6, s, w in ((False, '10.0.0.0', 32), (True, 'ff00::', 128)):
        for nl in (0, 1, 2, 3, 4, 5, 6, 9, 10, 11):
            for ln in sorted(set([0, w - 1, w, w + 1, 255 - 24 * nl - 1, 255 - 24 * nl, 255 - 24 * nl + 1, 256, 300])):
                if ln < 0: continue
                s = s if ln >= 8 else ('::' if v6 else '0.0.0.0')
                out.append(napi('nlri:labeled_bits', [2, [100 + k for k in range(nl)], S(s), ln]))
                for rdv in ([1, 65000, 1],):
                    for ln2 in sorted(set([ln, max(0, ln - 64)])):
                        out.append(napi('nlri:vpn_bits', [3, [100 + k for k in range(nl)], rdv, S(s), ln2]))
    for lab in (0, 3, 2 ** 20 - 1, 2 ** 20, 2 ** 20 + 5, U32MAX):
        out.append(napi('nlri:label_value', [2, [lab], S('10.0.0.0'), 8])); out.append(napi('nlri:label_value', [3, [lab, 7], [1, 1, 1], S('10.0.0.0'), 8]))
    for s in BAD4[:6] + BAD6[:4]:
        out.append(napi('nlri:labeled_text', [2, [100], S(s), 8])); out.append(napi('nlri:labeled_text', [3, [100], [1, 1, 1], S(s), 8]))
    # route distinguisher: every form, each bounded field on both sides
    for rdv in ([0], [1, 0, 0], [1, 65535, U32MAX], [1, 65536, 1], [1, U32MAX, 1], [2, S('1.2.3.4'), 0], [2, S('1.2.3.4'), 65535], [2, S('1.2.3.4'), 65536],
                [2, S('bad'), 1], [2, S(''), 1], [2, S('::1'), 1], [3, 0, 0], [3, U32MAX, 65535], [3, 1, 65536], [3, 1, U32MAX]):
        out.append(napi('nlri:rd_bounds', [3, [100], rdv, S('10.0.0.0'), 8]))
    return out

def enum_nlri():
    out = []
    def clean(a, m, w): return a >> (8 * (w - (m + 7) // 8)) << (8 * (w - (m + 7) // 8))
    for m in (0, 1, 7, 8, 9, 15, 16, 17, 23, 24, 25, 31, 32):
        out.append(nlri('nlri_in:v4_mask', [4, clean(0x0a81ff03, m, 4), m]))
        out.append(nlri('nlri_in:host_octets', [4, 0x0a81ff03, m]))
    for m in (0, 1, 64, 127, 128):
        for a in (0, 1, 0xffff01020304, (0x20010db8 << 96) | 1, 2 ** 128 - 1): out.append(nlri('nlri_in:v6_mask', [6, clean(a, m, 16), m]))
    for nl in (1, 2, 9): out.append(nlri('nlri_in:labeled', [14, [100 + k for k in range(nl)], 0x0a000000, 8]))
    out.append(nlri('nlri_in:labeled', [14, [100] * 9, 0x0a000000, 32])); out.append(nlri('nlri_in:labeled', [14, [100] * 10, 0x0a00, 15]))
    for nl in (1, 5): out.append(nlri('nlri_in:labeled', [16, [2 ** 20 - 1] * nl, clean(0x20010db8 << 96, 255 - 24 * nl if 255 - 24 * nl <= 128 else 128, 16), 255 - 24 * nl if 255 - 24 * nl <= 128 else 128]))
    for rd in ([0, 0, 0], [0, 65535, U32MAX], [1, U32MAX, 65535], [1, 0, 0], [2, U32MAX, 65535], [2, 0, 0]):
        out.append(nlri('nlri_in:vpn_rd', [24, [100], rd, 0x0a000000, 24])); out.append(nlri('nlri_in:vpn_rd', [26, [100, 3], rd, 1, 128]))
    for nl in (1, 6, 7): out.append(nlri('nlri_in:vpn_bits', [24, [5] * nl, [0, 1, 1], 0x0a000000, min(32, 255 - 64 - 24 * nl)]))
    return out

GOODMAC = ['00:00:5e:00:01:01', 'ff:ff:ff:ff:ff:ff', '0:1:2:3:4:5', 'AA:bb:Cc:dd:EE:0f', '+a:00:00:00:00:01', '000a:0:0:0:0:0', '00ff:0:0:0:0:0']
BADMAC = ['', '00:00:5e:00:01', '00:00:5e:00:01:01:02', '00:00:5e:00:01:1g', '100:0:0:0:0:0', '00-00-5e-00-01-01', '0:1:2:3:4:', ':1:2:3:4:5',
          '-1:0:0:0:0:0', '+:0:0:0:0:0', '0x1:0:0:0:0:0', ' 0:1:2:3:4:5', '0:1:2:3:4:5 ', '0100:0:0:0:0:0']

def enum_evpn():
    out = []
    rd, esi = [1, 65000, 1], [0, [0] * 9]
    lab = (0, 2 ** 24 - 1, 2 ** 24, 2 ** 24 + 1, U32MAX)
    for l in lab:
        out.append(evapi('evpn:label_edge', [1, rd, esi, 0, l]))
        out.append(evapi('evpn:label_edge', [2, rd, esi, 0, S('0:1:2:3:4:5'), [], [l]]))
        out.append(evapi('evpn:label_edge', [2, rd, esi, 0, S('0:1:2:3:4:5'), [], [1, l]]))
        out.append(evapi('evpn:label_edge', [5, rd, esi, 0, S('10.0.0.0'), 8, [], l]))
    for n in (0, 1, 2, 3, 4): out.append(evapi('evpn:label_count', [2, rd, esi, 0, S('0:1:2:3:4:5'), S('1.2.3.4'), [7] * n]))
    for e in ([], [0, [0] * 8], [0, [0] * 9], [0, [0] * 10], [255, [1] * 9], [256, [1] * 9], [U32MAX, [1] * 9], [5, []]):
        for t in (1, 4): out.append(evapi('evpn:esi_edge', [t, rd, e, 0, 5] if t == 1 else [4, rd, e, S('1.2.3.4')]))
        out.append(evapi('evpn:esi_edge', [2, rd, e, 0, S('0:1:2:3:4:5'), [], [5]])); out.append(evapi('evpn:esi_edge', [5, rd, e, 0, S('10.0.0.0'), 8, [], 5]))
    for rdv in ([0], [1, 65535, 1], [1, 65536, 1], [2, S('1.2.3.4'), 65536], [2, S('x'), 1], [3, 1, 65536]):
        for x in ([1, rdv, esi, 0, 5], [2, rdv, esi, 0, S('0:1:2:3:4:5'), [], [5]], [3, rdv, 0, S('1.2.3.4')], [4, rdv, esi, S('1.2.3.4')], [5, rdv, esi, 0, S('10.0.0.0'), 8, [], 5]):
            out.append(evapi('evpn:rd_edge', x))
    for m in GOODMAC + BADMAC: out.append(evapi('evpn:mac_text', [2, rd, esi, 0, S(m), [], [100]]))
    for s in [''] + GOOD4[:3] + GOOD6[:4] + BAD4[:5] + BAD6[:4]:
        out.append(evapi('evpn:ip_text', [2, rd, esi, 0, S('0:1:2:3:4:5'), S(s), [100]]))
        out.append(evapi('evpn:ip_text', [3, rd, 7, S(s)])); out.append(evapi('evpn:ip_text', [4, rd, esi, S(s)]))
    for pfx, w in (('10.0.0.1', 32), ('2001:db8::1', 128)):
        for ln in (0, w - 1, w, w + 1, 128, 129, 255, 256, U32MAX):
            out.append(evapi('evpn:pfx_len_edge', [5, rd, esi, 0, S(pfx), ln, [], 5]))
        for gw in ('', '0.0.0.0', '::', '192.0.2.1', '2001:db8::2', 'bad'):
            out.append(evapi('evpn:gw_family', [5, rd, esi, 0, S(pfx), 8, S(gw), 5]))
    for etag in (0, U32MAX): out.append(evapi('evpn:etag', [3, rd, etag, S('1.2.3.4')]))
    # internal routes: every type, both address families, optional fields present / absent, extreme values
    rdi = [0, 65535, U32MAX]; e10 = [255] + [0] * 8 + [1]
    for ip in ((4, 0), (4, U32MAX), (6, 0), (6, 1), (6, 0xffff01020304), (6, 2 ** 128 - 1)):
        out.append(ev('evpn_in:types', [3, rdi, U32MAX, ip])); out.append(ev('evpn_in:types', [4, rdi, e10, ip]))
        out.append(ev('evpn_in:types', [2, rdi, e10, 0, [0, 0, 0x5e, 0, 1, 255], ip, 2 ** 24 - 1, None]))
        out.append(ev('evpn_in:types', [2, rdi, e10, 0, [255] * 6, ip, 0, 2 ** 24 - 1]))
        w = 32 if ip[0] == 4 else 128
        for ln in (0, w): out.append(ev('evpn_in:types', [5, rdi, e10, 1, ip, ln, (ip[0], 0), 2 ** 24 - 1]))
        out.append(ev('evpn_in:types', [5, rdi, e10, 1, ip, 8, ip, 0]))
    out.append(ev('evpn_in:types', [2, rdi, [0] * 10, 0, [0] * 6, None, 0, None])); out.append(ev('evpn_in:types', [1, rdi, e10, U32MAX, 2 ** 24 - 1]))
    out.append(ev('evpn_in:types', [1, [1, U32MAX, 65535], [0] * 10, 0, 0])); out.append(ev('evpn_in:types', [1, [2, U32MAX, 65535], [0] * 10, 0, 0]))
    return out

def enum_local_path():
    out = []
    pfx = [1, S('10.0.0.0'), 8]
    fams = (-1, (1 << 16) | 1, (2 << 16) | 1, (1 << 16) | 133, (2 << 16) | 133, (1 << 16) | 134, (2 << 16) | 134, (25 << 16) | 70)
    v6nh = [0x20, 1] + [0] * 13 + [1]
    ll = [0xfe, 0x80] + [0] * 13 + [2]
    # MP_REACH given as raw bytes: every length of the header, every next-hop length the code distinguishes, with / without the reserved octet
    raws = [[], [0], [0, 1], [0, 1, 1], [0, 1, 1, 0], [0, 1, 1, 0, 0], [0, 1, 1, 4], [0, 1, 1, 4, 192, 0, 2], [0, 1, 1, 4, 192, 0, 2, 1],
            [0, 1, 1, 4, 192, 0, 2, 1, 0], [0, 2, 1, 16] + v6nh, [0, 2, 1, 16] + v6nh + [0], [0, 2, 1, 32] + v6nh + [0] * 16 + [0],
            [0, 2, 1, 32] + v6nh + ll + [0], [0, 2, 1, 31] + v6nh + ll, [0, 1, 128, 12] + [0] * 8 + [192, 0, 2, 1] + [0], [0, 1, 1, 3, 1, 2, 3, 0],
            [0, 1, 1, 5, 1, 2, 3, 4, 5, 0], [0, 1, 1, 255] + [1] * 255 + [0], [0, 1, 133, 0, 0], [0, 1, 133, 0]]
    for fam in fams:
        for b in raws: out.append(lp('lp:mp_reach_raw', fam, pfx, [[1, 0, 14, b]]))
        for nhs in ([], [S('192.0.2.1')], [S('2001:db8::1')]):
            out.append(lp('lp:mp_reach_typed', fam, pfx, [[12, [1, 133], nhs]])); out.append(lp('lp:mp_reach_typed', fam, pfx, [[12, [2, 1], nhs]]))
    # ordering of the two next-hop carriers, the dropped types, the defaults
    nh4, nh6 = [4, S('192.0.2.9')], [4, S('2001:db8::9')]
    mp = [1, 0, 14, [0, 1, 1, 4, 192, 0, 2, 1, 0]]
    for attrs in ([nh4, mp], [mp, nh4], [nh4, nh6], [nh6, nh4], [mp, mp], [nh4], [nh6], [mp]):
        out.append(lp('lp:nexthop_order', -1, pfx, attrs))
    for drop in ([10, S('1.1.1.1')], [11, [S('1.1.1.1')]], [1, 0, 15, [0, 1, 1]], [1, 0, 9, [1, 1, 1, 1]], [1, 0, 10, [1, 1, 1, 1]]):
        out.append(lp('lp:dropped_types', -1, pfx, [drop])); out.append(lp('lp:dropped_types', -1, pfx, [[6, 200], drop, [5, 1]]))
    for attrs in ([], [[2, 2]], [[3, []]], [[3, [[2, [65001]]]]], [[2, 1], [3, [[1, [1, 2]]]]], [[2, 0], [2, 2]], [[3, []], [3, [[2, [7]]]]], [[6, 100]], [[6, 99]], [[6, 101]]):
        out.append(lp('lp:defaults_and_duplicates', -1, pfx, attrs))
    for bad in ([2, 3], [3, [[5, [1]]]], [9, []], [4, S('bad')], [0], [13], [1, 0, 5, [1]], [1, 0, 99, [1]]):
        out.append(lp('lp:error_position', -1, pfx, [bad, [6, 100]])); out.append(lp('lp:error_position', -1, pfx, [[6, 100], [5, 5], bad]))
    for n in ([0], [1, S('bad'), 8], [1, S('10.0.0.0'), 33], [2, [], S('10.0.0.0'), 8], [2, [100], S('10.0.0.0'), 8], [3, [100], [1, 1, 1], S('2001:db8::'), 64], [1, S('2001:db8::'), 128]):
        for fam in (-1, (2 << 16) | 1, (1 << 16) | 128): out.append(lp('lp:nlri_forms', fam, n, [[6, 100]]))
    for ident in (0, 1, U32MAX): out.append(lp('lp:identifier', -1, pfx, [], ident))
    for fam in ((1 << 16) | 2, (65535 << 16) | 255, (65536 << 16) | 1, (65537 << 16) | 1, (1 << 16) | 256, (1 << 16) | 257, (1 << 16) | 65535, 0):
        out.append(lp('lp:family_edge', fam, pfx, [[6, 100]]))
    # a path that must tie / win / lose each comparator step against the competitor [ORIGIN igp, empty AS_PATH]
    for attrs in ([[6, 100]], [[6, 101]], [[6, 99]], [[3, [[2, [1]]]]], [[3, [[1, [1, 2, 3]]]]], [[3, [[3, [1, 2]]]]], [[2, 1]], [[2, 2]],
                  [[9, [0xffff0006]]], [[9, [1, 0xffff0006]]], [[9, [0xffff0007]]], [[5, 0]], [[5, U32MAX]]):
        out.append(lp('lp:comparator_steps', -1, pfx, attrs))
    return out

def enum_all():
    return enum_wire() + enum_api_attr() + enum_api_nlri() + enum_nlri() + enum_evpn() + enum_local_path()

# ---------------------------------------------------------------- kind 8: API NLRI messages of the other families
FS4, FS6, FSV4, FSV6 = (1 << 16) | 133, (2 << 16) | 133, (1 << 16) | 134, (2 << 16) | 134
SR4, SR6, RTCF, MUP4, MUP6, V4U = (1 << 16) | 73, (2 << 16) | 73, (1 << 16) | 132, (1 << 16) | 85, (2 << 16) | 85, (1 << 16) | 1
END = 0x80

def xn(cls, fam, x): return {'k': 8, 'fam': fam, 'x': x, 'cls': cls}

def fs_ops_body(n, wide_last=False):
    """n operators of two octets each (the last one three octets when wide_last), END on the last"""
    ops = [[0x01, 6] for _ in range(n)]
    if wide_last: ops[-1] = [0x01, 0x1234]
    ops[-1] = [ops[-1][0] | END, ops[-1][1]]
    return ops

def fs_rules_of_len(target):
    """rules whose encoded body is exactly `target` octets (one component type 3: 1 + 2n, or 2n + 2 with a wide last operator)"""
    if target % 2: return [[2, 3, fs_ops_body((target - 1) // 2)]]
    return [[2, 3, fs_ops_body((target - 2) // 2, True)]]

def enum_xnlri():
    out = []
    rdv = [1, 65000, 1]
    ok = [[2, 3, [[0x81, 6]]]]
    # flowspec: the rule oneof, prefix / component types on both sides of the valid ranges, per family
    for fam in (FS4, FS6):
        v6 = fam == FS6
        p = S('ff00::') if v6 else S('10.0.0.0')
        z = S('::') if v6 else S('0.0.0.0')
        for r in ([0], [3]): out.append(xn('fs:rule_oneof', fam, [10, [r]])); out.append(xn('fs:rule_oneof', fam, [10, ok + [r]]))
        for t in (0, 1, 2, 3, 255, 256, 257, 258): out.append(xn('fs:prefix_type', fam, [10, [[1, t, 8, p, 0]]]))
        for t in (0, 1, 2, 3, 4, 11, 12, 13, 14, 255, 256, 259, U32MAX): out.append(xn('fs:component_type', fam, [10, [[2, t, [[0x81, 1]]]]]))
        w = 128 if v6 else 32
        for ln in (0, 1, 7, 8, 9, w - 1, w, w + 1, 255, 256, 256 + 8, U32MAX):
            out.append(xn('fs:prefix_len_edge', fam, [10, [[1, 1, ln, p if 8 <= ln else z, 0]]])); out.append(xn('fs:prefix_len_edge', fam, [10, [[1, 2, ln, z, 0]]]))
        for off in (0, 1, 8, 255, 256, U32MAX): out.append(xn('fs:prefix_offset', fam, [10, [[1, 2, 8, p, off]]]))
        for s in ('', 'bad', '10.0.0.0', '2001:db8::', '10.0.0.0/8', '::ffff:1.2.3.4'): out.append(xn('fs:prefix_text', fam, [10, [[1, 1, 8, S(s), 0]]]))
        # operators: none, END missing / in the middle / on each, length bits set, op beyond u8, value at every width switch
        for ops in ([], [[0x01, 6]], [[0x81, 6]], [[0x81, 6], [0x01, 7]], [[0x01, 6], [0x81, 7]], [[0x81, 6], [0x81, 7]], [[0x01, 6], [0x01, 7]],
                    [[0x91, 6]], [[0xb1, 6]], [[0x181, 6]], [[0x100, 6], [0x81, 1]], [[U32MAX, 6]], [[0xc5, 6]], [[0x80, 0]]):
            out.append(xn('fs:operator_list', fam, [10, [[2, 5, ops]]]))
        for v in (0, 0xff, 0x100, 0xffff, 0x10000, 0xffffffff, 0x100000000, 2 ** 64 - 1): out.append(xn('fs:value_width', fam, [10, [[2, 10, [[0x81, v]]]]]))
        out.append(xn('fs:no_rules', fam, [10, []]))
        out.append(xn('fs:duplicate_and_order', fam, [10, [[2, 5, [[0x81, 1]]], [2, 5, [[0x81, 2]]]]])); out.append(xn('fs:duplicate_and_order', fam, [10, [[2, 6, [[0x81, 1]]], [2, 3, [[0x81, 2]]]]]))
        # encoded length on both sides of the one / two octet length prefix and of its 12-bit limit
        for target in (237, 238, 239, 240, 241, 242, 4093, 4094, 4095, 4096, 4097, 4098, 8191):
            out.append(xn('fs:body_length_edge', fam, [10, fs_rules_of_len(target)]))
        for k in (1, 2, 3, 4, 12): out.append(xn('fs:many_components', fam, [10, [[2, 3 + i, [[0x81, i]]] for i in range(k)]]))
    for fam, x in ((V4U, [10, ok]), (FSV4, [10, ok]), (FS4, [11, rdv, ok]), (V4U, [11, rdv, ok]), (FSV4, [11, rdv, ok]), (FSV6, [11, rdv, ok]), (FSV6, [11, rdv, [[1, 1, 64, S('2001:db8::'), 0]]]),
                   (FSV4, [11, [0], ok]), (FSV4, [11, [1, 65536, 1], ok]), (FSV4, [11, [2, S('1.2.3.4'), 65536], ok]), (FSV4, [11, [3, 1, 65535], ok])):
        out.append(xn('fs:family_and_rd', fam, x))
    for target in (229, 230, 231, 232, 233, 4087, 4088, 4089): out.append(xn('fs:vpn_body_length_edge', FSV4, [11, rdv, fs_rules_of_len(target)]))
    # SR policy
    for fam in (SR4, SR6, V4U):
        for ln in (0, 3, 4, 5, 15, 16, 17, 32): out.append(xn('srpolicy:endpoint_len', fam, [12, 96, 1, 2, [1] * ln]))
    for length in (0, 96, 192, 255, 256, U32MAX): out.append(xn('srpolicy:length_field', SR4, [12, length, U32MAX, 0, [192, 0, 2, 1]]))
    # RTC
    for asn in (0, 1, 65535, 65536, U32MAX):
        out.append(xn('rtc:wildcards', RTCF, [13, asn, []])); out.append(xn('rtc:wildcards', RTCF, [13, asn, [0]]))
        out.append(xn('rtc:exact', RTCF, [13, asn, [1, 1, 2, 65000, 100]]))
    for rt in ([1, 1, 2, 65535, U32MAX], [1, 1, 2, 65536, 1], [1, 0, 2, 1, 1], [1, 1, 3, 1, 1], [1, 1, 0, 1, 1], [1, 1, 258, 1, 1], [2, 1, 2, S('1.2.3.4'), 65535], [2, 1, 2, S('1.2.3.4'), 65536],
               [2, 1, 2, S('bad'), 1], [2, 1, 3, S('1.2.3.4'), 1], [3, 1, 2, U32MAX, 65535], [3, 1, 2, 1, 65536], [3, 1, 9, 1, 1]):
        out.append(xn('rtc:route_target_forms', RTCF, [13, 65001, rt]))
    # MUP
    for fam, p, a in ((MUP4, '10.0.0.0', '192.0.2.1'), (MUP6, 'ff00::', '2001:db8::1')):
        w = 32 if fam == MUP4 else 128
        z = '0.0.0.0' if fam == MUP4 else '::'
        for ln in (0, 1, 7, 8, 9, w - 1, w, w + 1, 128, 129, 255, 256):
            q = p if ln >= 8 else z
            out.append(xn('mup:prefix_len_edge', fam, [14, rdv, S('%s/%d' % (q, ln))])); out.append(xn('mup:prefix_len_edge', fam, [16, rdv, S('%s/%d' % (q, ln)), 0, 9, w, S(a), 0, []]))
            out.append(xn('mup:prefix_host_octets', fam, [14, rdv, S('%s/%d' % (a, ln))]))
        for s in ('', p, '/8', p + '/', p + '/x', 'bad/8', p + '/8/8', p + '/-1', p + '/+8', p + '/08'): out.append(xn('mup:prefix_text', fam, [14, rdv, S(s)]))
        for s in ('', a, 'bad', '10.0.0.1', '::1'): out.append(xn('mup:address_text', fam, [15, rdv, S(s)])); out.append(xn('mup:address_text', fam, [17, rdv, w, S(s), 5]))
        for q in (0, 255, 256, U32MAX): out.append(xn('mup:qfi_edge', fam, [16, rdv, S(p + '/8'), U32MAX, q, w, S(a), 0, []]))
        for sl, src in ((0, ''), (0, a), (w, a), (w, ''), (w, 'bad'), (5, a)): out.append(xn('mup:source_address', fam, [16, rdv, S(p + '/8'), 1, 9, w, S(a), sl, S(src)]))
        for el in (0, 1, 31, 32, 33, 64, 128, 129, 160, 161, 255, 256, U32MAX): out.append(xn('mup:endpoint_len_edge', fam, [17, rdv, el, S(a), 0x01020304]))
        for rdx in ([0], [1, 65536, 1], [2, S('x'), 1]):
            for x in ([14, rdx, S(p + '/8')], [15, rdx, S(a)], [16, rdx, S(p + '/8'), 1, 9, w, S(a), 0, []], [17, rdx, w, S(a), 1]): out.append(xn('mup:rd_edge', fam, x))
    out.append(xn('mup:wrong_family', V4U, [14, rdv, S('10.0.0.0/8')])); out.append(xn('mup:wrong_family', MUP4, [14, rdv, S('2001:db8::/32')])); out.append(xn('mup:wrong_family', MUP6, [15, rdv, S('192.0.2.1')]))
    return out

_enum_all_core = enum_all
LSF = (16388 << 16) | 71

def enum_ls_nlri():
    """LsAddrPrefix messages (kind 8, tag 18): BGP-LS NLRI from the API side"""
    out = []
    N0 = [65001, 0, 0, 0, S('10.0.0.1'), S(''), 0]
    def A(cls, inner, typ=1, proto=2, ident=0, fam=LSF): out.append(xn('lsnlri:' + cls, fam, [18, typ, proto, ident, inner]))
    for t in (-1, 0, 1, 6, 65535, 65536, 65536 + 1): A('route_oneof', [0], typ=t)
    for p in (-1, 0, 1, 7, 255, 256, 257, 2 ** 31 - 1, -2 ** 31): A('protocol_id', [1, N0], proto=p)
    for i in (0, 1, 2 ** 32, 2 ** 64 - 1): A('identifier', [1, N0], ident=i)
    for inner in ([1, []], [2, [], N0, []], [2, N0, [], []], [3, [], []], [4, [], []], [5, [], [], []]): A('node_missing', inner)
    for t in ('', '10.0.0.1', '0000.0000.0001', '0000.0000.0001.02', 'ABCD.ef01.2345', '0000.0000.001', '0000.0000.00001', 'gggg.0000.0001', '0000.0000.0001.2', '0000.0000.0001.002',
              '0000.0000.0001.02.03', 'x', '+000.0000.0001', '0000.0000.0001.+2', '1.2.3', '256.1.1.1', '2001:db8::1', '0000.0000'):
        n = list(N0); n[4] = S(t)
        A('igp_router_id', [1, n]); A('igp_router_id', [2, N0, n, []])
    for t in ('', '10.0.0.1', 'bad', '2001:db8::1', '10.0.0.256'):
        n = list(N0); n[5] = S(t)
        A('bgp_router_id', [1, n])
    for pos in (0, 1, 2, 6):
        for v in (0, 1, U32MAX):
            n = list(N0); n[pos] = v
            A('node_numbers', [1, n])
    for t in ('0000.0000.0001', '0000.0000.0001.02', '10.0.0.1'):
        n = list(N0); n[4] = S(t); n[3] = 1
        A('pseudonode', [1, n])
    for l, r in ((0, 0), (1, 0), (0, 1), (U32MAX, U32MAX)): A('link_ids', [2, N0, N0, [l, r, S(''), S(''), S(''), S('')]])
    A('link_ids', [2, N0, N0, []])
    for pos in (2, 3, 4, 5):
        for t in ('', '10.0.0.1', '2001:db8::1', 'bad', '10.0.0.1/24', '::'):
            d = [0, 0, S(''), S(''), S(''), S('')]; d[pos] = S(t)
            A('link_addresses', [2, N0, N0, d])
    for t in ('10.0.0.0/8', '0.0.0.0/0', '10.0.0.0/0', '10.1.2.3/32', '10.1.2.3/24', '10.1.2.0/23', '10.0.0.0/33', '10.0.0.0/255', '10.0.0.0/256', '10.0.0.0', '/8', 'x/8', '2001:db8::/32', '10.0.0.0/+8', '10.0.0.0/08', '10.0.0.0/8/8', ''):
        A('reachability_v4', [3, N0, [[S(t)], 0]])
    for t in ('2001:db8::/32', '::/0', 'ff00::/8', '2001:db8::1/128', '2001:db8::1/64', '2001:db8::/129', '2001:db8::/255', '2001:db8::/256', '2001:db8::', '10.0.0.0/8', '::ffff:1.2.3.4/128', 'x/8'):
        A('reachability_v6', [4, N0, [[S(t)], 0]])
    A('reachability_count', [3, N0, []]); A('reachability_count', [3, N0, [[], 0]]); A('reachability_count', [3, N0, [[S('10.0.0.0/8'), S('10.1.0.0/16')], 0]]); A('reachability_count', [3, N0, [[S('10.0.0.0/8'), S('bad')], 0]])
    for o in (-1, 0, 1, 6, 255, 256, 2 ** 31 - 1):
        A('ospf_route_type', [3, N0, [[S('10.0.0.0/8')], o]]); A('ospf_route_type', [4, N0, [[S('ff00::/8')], o]])
    for s_ in ([], [[]], [[S('2001:db8::1')]], [[S('2001:db8::1'), S('2001:db8::2')]], [[S('bad')]], [[S('2001:db8::1'), S('')]], [[S('10.0.0.1')]]): A('srv6_sids', [5, N0, s_, []])
    for m in ([], [[]], [[0]], [[2]], [[65535]], [[65536]], [[U32MAX]], [[1, 2]]): A('srv6_multi_topology', [5, N0, [[S('2001:db8::1')]], m]); A('srv6_multi_topology', [5, N0, [], m])
    A('wrong_family', [1, N0], fam=V4U); A('wrong_family', [3, N0, [[S('10.0.0.0/8')], 0]], fam=MUP4)
    return out

def gen_ls_nlri_case(rng):
    """a random LsAddrPrefix message (kind 8, tag 18)"""
    def node():
        if rng.random() < 0.04: return []
        igp = rng.choice(('', '10.0.0.1', '0000.0000.0001', '0000.0000.0001.02', 'abcd.EF01.2345', 'bad', '0000.0000.001'))
        return [rng.choice((0, 65001, U32MAX)), rng.choice((0, 0, 7)), rng.choice((0, 0, 1)), rng.randrange(2), S(igp), S(rng.choice(('', '', '10.0.0.2', 'bad'))), rng.choice((0, 0, 5))]
    def reach(v6):
        if v6: return S(rng.choice(('2001:db8::/32', '::/0', 'ff00::/8', '2001:db8::1/128', '2001:db8::1/64', '2001:db8::/129', '10.0.0.0/8', 'x')))
        return S(rng.choice(('10.0.0.0/8', '0.0.0.0/0', '10.1.2.3/32', '10.1.2.3/24', '10.0.0.0/33', '10.0.0.0', '2001:db8::/32', '10.0.0.0/256', '192.0.2.0/24')))
    k = rng.choice((0, 1, 1, 2, 2, 3, 3, 4, 4, 5, 5))
    if k == 0: inner = [0]
    elif k == 1: inner = [1, node()]
    elif k == 2:
        a4 = lambda: S(rng.choice(('', '', '10.0.0.1', 'bad', '2001:db8::1')))
        a6 = lambda: S(rng.choice(('', '', '2001:db8::1', 'bad', '10.0.0.1')))
        inner = [2, node(), node(), [rng.choice((0, 1, U32MAX)), rng.choice((0, 2)), a4(), a4(), a6(), a6()] if rng.random() < 0.8 else []]
    elif k in (3, 4):
        inner = [k, node(), [[reach(k == 4) for _ in range(rng.randrange(3))], rng.choice((0, 0, 1, 6, 255, 256, -1))] if rng.random() < 0.9 else []]
    else:
        sids = [S(rng.choice(('2001:db8::1', '2001:db8::2', 'bad'))) if rng.random() < 0.9 else S('') for _ in range(rng.randrange(3))]
        mts = [rng.choice((0, 2, 65535, 65536)) for _ in range(rng.choice((0, len(sids), len(sids), 1)))]
        inner = [5, node(), [sids] if rng.random() < 0.85 else [], [mts] if rng.random() < 0.6 else []]
    fam = LSF if rng.random() < 0.95 else V4U
    return {'k': 8, 'fam': fam, 'x': [18, rng.choice((0, 1, 6, 65535, 65536, -1)), rng.choice((1, 2, 3, 7, 255, 256, -1)) if rng.random() < 0.3 else rng.randrange(1, 8), rng.choice((0, 1, 2 ** 64 - 1)), inner]}

def enum_all():
    return _enum_all_core() + enum_xnlri() + enum_ls_nlri()
