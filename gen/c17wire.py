"""C17 wide differential part: python encoders of UPDATE messages for every address family and
attribute kind the repository decodes (mostly well-formed, with mutations), independent of the
Rust encoders.  Only the framing the decoders need is produced; what decodes is round-tripped
through the API form by the harness (kind 4)."""

def be16(v): return [(v >> 8) & 255, v & 255]
def be24(v): return [(v >> 16) & 255, (v >> 8) & 255, v & 255]
def be32(v): return [(v >> 24) & 255, (v >> 16) & 255, (v >> 8) & 255, v & 255]
def be64(v): return be32(v >> 32) + be32(v & 0xffffffff)
def rbytes(rng, n): return [rng.randrange(256) for _ in range(n)]

T, O, PARTIAL, EXT = 0x40, 0x80, 0x20, 0x10

def attr(flags, code, data):
    if len(data) > 255: flags |= EXT
    if flags & EXT: return [flags, code] + be16(len(data)) + data
    return [flags, code, len(data)] + data

def u32r(rng): return rng.choice([0, 1, 100, 65535, 65536, 0xffffffff, rng.randrange(2 ** 32)])
def ip4r(rng): return rng.choice([[0, 0, 0, 0], [10, 0, 0, 1], [192, 0, 2, 1], [255, 255, 255, 255], rbytes(rng, 4)])
def ip6r(rng):
    return rng.choice([[0] * 16, [0] * 15 + [1], [0x20, 1, 0xd, 0xb8] + [0] * 11 + [1], [0] * 10 + [255, 255, 1, 2, 3, 4],
                       [0xfe, 0x80] + [0] * 13 + [1], rbytes(rng, 16)])

def rd(rng):
    t = rng.choice([0, 0, 1, 2]) if rng.random() < 0.95 else rng.choice([3, 255])
    if t == 0: return [0, 0] + be16(rng.choice([0, 1, 65000, 65535])) + be32(u32r(rng))
    if t == 1: return [0, 1] + ip4r(rng) + be16(rng.choice([0, 1, 65535]))
    return [0, t] + be32(u32r(rng)) + be16(rng.choice([0, 1, 65535]))

def prefix(rng, v6, clean=None):
    width = 128 if v6 else 32
    m = rng.choice([0, 1, 7, 8, 9, 16, 24, 31, 32] + ([48, 64, 127, 128] if v6 else []))
    m = min(m, width)
    n = (m + 7) // 8
    b = (ip6r(rng) if v6 else ip4r(rng))[:n]
    if n and (clean if clean is not None else rng.random() < 0.7) and m % 8:
        b[-1] &= (0xff << (8 - m % 8)) & 0xff
    return m, b

def label_stack(rng, n=None):
    n = n if n is not None else rng.choice([1, 1, 1, 2, 3])
    out = []
    for k in range(n):
        l = rng.choice([0, 3, 16, 100, 2 ** 20 - 1, rng.randrange(2 ** 20)])
        out += be24((l << 4) | (1 if k == n - 1 else 0))
    return out

def nlri_plain(rng, v6):
    m, b = prefix(rng, v6)
    return [m] + b

def nlri_labeled(rng, v6):
    ls = label_stack(rng)
    m, b = prefix(rng, v6)
    return [len(ls) * 8 + m] + ls + b

def nlri_vpn(rng, v6):
    ls = label_stack(rng)
    m, b = prefix(rng, v6)
    return [len(ls) * 8 + 64 + m] + ls + rd(rng) + b

def esi(rng): return rng.choice([[0] * 10, [0] + rbytes(rng, 9), rbytes(rng, 10)])
def mac(rng): return rng.choice([[0, 0, 0x5e, 0, 1, 1], rbytes(rng, 6)])
def etag(rng): return be32(rng.choice([0, 1, 100, 0xffffffff, rng.randrange(2 ** 32)]))
def evlabel(rng): return be24(rng.choice([0, 100, 5000, 2 ** 24 - 1, rng.randrange(2 ** 24)]))

def nlri_evpn(rng):
    t = rng.choice([1, 2, 2, 3, 4, 5, 5]) if rng.random() < 0.95 else rng.choice([0, 6, 11])
    if t == 1: d = rd(rng) + esi(rng) + etag(rng) + evlabel(rng)
    elif t == 2:
        ipk = rng.choice([0, 32, 128])
        ip = [] if ipk == 0 else ip4r(rng) if ipk == 32 else ip6r(rng)
        d = rd(rng) + esi(rng) + etag(rng) + [48] + mac(rng) + [ipk] + ip + evlabel(rng)
        if rng.random() < 0.4: d += evlabel(rng)
    elif t == 3:
        v6 = rng.random() < 0.4
        d = rd(rng) + etag(rng) + ([128] + ip6r(rng) if v6 else [32] + ip4r(rng))
    elif t == 4:
        v6 = rng.random() < 0.4
        d = rd(rng) + esi(rng) + ([128] + ip6r(rng) if v6 else [32] + ip4r(rng))
    elif t == 5:
        v6 = rng.random() < 0.4
        plen = rng.choice([0, 8, 24, 32] + ([64, 128] if v6 else []))
        if rng.random() < 0.05: plen = rng.choice([33, 129, 200, 255])
        a = ip6r(rng) if v6 else ip4r(rng)
        gw = rng.choice([[0] * len(a), ip6r(rng) if v6 else ip4r(rng)])
        d = rd(rng) + esi(rng) + etag(rng) + [plen] + a + gw + evlabel(rng)
    else:
        d = rbytes(rng, rng.choice([0, 4, 23]))
    return [t, len(d) & 255] + d

def rt8(rng):
    t = rng.choice([0, 1, 2]) if rng.random() < 0.8 else rng.choice([0x40, 0x41, 3, 0x80, 255])
    st = 2 if rng.random() < 0.8 else rng.choice([0, 3, 9, 255])
    return [t, st] + rbytes(rng, 6)

def nlri_rtc(rng):
    k = rng.choice([0, 32, 96, 96, 96]) if rng.random() < 0.95 else rng.choice([8, 64, 97])
    if k == 0: return [0]
    if k == 32: return [32] + be32(rng.choice([0, 0, 65001, 0xffffffff]))
    return [k] + be32(rng.choice([0, 65001, 0xffffffff])) + rt8(rng)

def nlri_srpolicy(rng, v6):
    ep = ip6r(rng) if v6 else ip4r(rng)
    ln = 192 if v6 else 96
    if rng.random() < 0.05: ln = rng.choice([0, 64, 96, 192, 255])
    return [ln] + be32(u32r(rng)) + be32(u32r(rng)) + ep

def fs_ops(rng):
    n = rng.choice([1, 1, 2, 3])
    out = []
    for k in range(n):
        order = rng.choice([0, 0, 1, 2, 3])
        bits = rng.choice([0x01, 0x02, 0x03, 0x04, 0x05, 0x06, 0x40 | 1, 0x45, 0x08, 0x0f]) & 0x4f
        if k == n - 1: bits |= 0x80
        v = rng.randrange(1 << (8 * (1 << order)))
        if rng.random() < 0.3: v = rng.choice([0, 1, 6, 17, 80, 255])
        out += [bits | (order << 4)] + [(v >> (8 * j)) & 255 for j in reversed(range(1 << order))]
    return out

def nlri_flowspec(rng, v6, vpn):
    comps = []
    types = sorted(rng.sample(range(1, 14 if v6 else 13), rng.choice([1, 1, 2, 3, 4])))
    if rng.random() < 0.05: types.append(rng.choice([0, 14, 200]))
    for t in types:
        if t in (1, 2):
            m, b = prefix(rng, v6, clean=rng.random() < 0.5)
            comps += [t, m] + ([rng.choice([0, 0, 0, 8, min(m, 16)])] if v6 else []) + b
        else:
            comps += [t] + fs_ops(rng)
    body = (rd(rng) if vpn else []) + comps
    n = len(body)
    hdr = [n] if n < 0xf0 else [0xf0 | (n >> 8), n & 255]
    return hdr + body

def nlri_mup(rng, v6):
    """draft-mpmz-bess-mup-safi: arch type(1)=1, route type(2), length(1), value"""
    rt = rng.choice([1, 2, 3, 4]) if rng.random() < 0.95 else rng.choice([0, 5])
    if rt == 1:
        m, b = prefix(rng, v6, clean=rng.random() < 0.5)
        d = rd(rng) + [m] + b
    elif rt == 2:
        d = rd(rng) + (ip6r(rng) if v6 else ip4r(rng))
    elif rt == 3:
        m, b = prefix(rng, v6, clean=rng.random() < 0.5)
        ep = ip6r(rng) if v6 else ip4r(rng)
        d = rd(rng) + [m] + b + be32(u32r(rng)) + [rng.choice([0, 9, 255])] + [len(ep) * 8] + ep
        if rng.random() < 0.4:
            src = ip6r(rng) if v6 else ip4r(rng)
            d += [len(src) * 8] + src
    elif rt == 4:
        ep = ip6r(rng) if v6 else ip4r(rng)
        tl = rng.choice([0, 8, 32]) if rng.random() < 0.4 else rng.randrange(33)     # also lengths that are not whole octets, spare bits as they come
        teid = be32(u32r(rng))[: (tl + 7) // 8]
        d = rd(rng) + [len(ep) * 8 + tl] + ep + teid
    else:
        d = rbytes(rng, 5)
    return [1] + be16(rt) + [len(d) & 255] + d

def tlv16(t, v): return be16(t) + be16(len(v)) + v

def ls_node_desc(rng, t=256):
    subs = []
    for st in sorted(rng.sample([512, 513, 514, 515], rng.choice([1, 2, 3]))):
        if st == 512: subs += tlv16(512, be32(u32r(rng)))
        elif st == 513: subs += tlv16(513, be32(u32r(rng)))
        elif st == 514: subs += tlv16(514, ip4r(rng))
        else: subs += tlv16(515, rbytes(rng, rng.choice([4, 6, 7, 8])))
    return tlv16(t, subs)

def nlri_ls(rng):
    t = rng.choice([1, 2, 3, 4]) if rng.random() < 0.95 else rng.choice([0, 5, 6])
    proto = rng.choice([1, 2, 3, 4, 5, 6, 7])
    body = [proto] + be64(rng.choice([0, 1, 2 ** 64 - 1]))
    body += ls_node_desc(rng, 256)
    if t == 2:
        body += ls_node_desc(rng, 257)
        for st in rng.sample([258, 259, 260, 261, 262, 263], rng.choice([0, 1, 2])):
            if st == 258: body += tlv16(258, be32(u32r(rng)) + be32(u32r(rng)))
            elif st in (259, 260): body += tlv16(st, ip4r(rng))
            elif st in (261, 262): body += tlv16(st, ip6r(rng))
            else: body += tlv16(263, be16(rng.choice([0, 2, 4095])))
    if t in (3, 4):
        if rng.random() < 0.4: body += tlv16(263, be16(rng.choice([0, 2])))
        if rng.random() < 0.4: body += tlv16(264, [rng.choice([1, 2, 3, 4, 5, 6])])
        m, b = prefix(rng, t == 4, clean=True)
        body += tlv16(265, [m] + b)
    return be16(t) + be16(len(body)) + body

FAMILIES = {
    'v4': (1, 1), 'v6': (2, 1), 'v4mc': (1, 2), 'v6mc': (2, 2), 'lab4': (1, 4), 'lab6': (2, 4), 'vpn4': (1, 128), 'vpn6': (2, 128),
    'evpn': (25, 70), 'rtc': (1, 132), 'srp4': (1, 73), 'srp6': (2, 73), 'fs4': (1, 133), 'fs6': (2, 133), 'fsvpn4': (1, 134),
    'fsvpn6': (2, 134), 'mup4': (1, 85), 'mup6': (2, 85), 'ls': (16388, 71),
}

def gen_nlri(rng, fam):
    if fam in ('v4', 'v4mc'): return nlri_plain(rng, False)
    if fam in ('v6', 'v6mc'): return nlri_plain(rng, True)
    if fam == 'lab4': return nlri_labeled(rng, False)
    if fam == 'lab6': return nlri_labeled(rng, True)
    if fam == 'vpn4': return nlri_vpn(rng, False)
    if fam == 'vpn6': return nlri_vpn(rng, True)
    if fam == 'evpn': return nlri_evpn(rng)
    if fam == 'rtc': return nlri_rtc(rng)
    if fam == 'srp4': return nlri_srpolicy(rng, False)
    if fam == 'srp6': return nlri_srpolicy(rng, True)
    if fam == 'fs4': return nlri_flowspec(rng, False, False)
    if fam == 'fs6': return nlri_flowspec(rng, True, False)
    if fam == 'fsvpn4': return nlri_flowspec(rng, False, True)
    if fam == 'fsvpn6': return nlri_flowspec(rng, True, True)
    if fam == 'mup4': return nlri_mup(rng, False)
    if fam == 'mup6': return nlri_mup(rng, True)
    if fam == 'ls': return nlri_ls(rng)
    raise ValueError(fam)

def nexthop_for(rng, fam):
    afi = FAMILIES[fam][0]
    if fam.startswith('fs'): return rng.choice([[], [], ip4r(rng)])
    if fam in ('vpn4',): return [0] * 8 + ip4r(rng)
    if fam in ('vpn6',): return [0] * 8 + ip6r(rng)
    if afi == 2: return rng.choice([ip6r(rng), ip6r(rng) + [0xfe, 0x80] + [0] * 13 + [1]])
    if fam == 'evpn': return rng.choice([ip4r(rng), ip6r(rng)])
    return ip4r(rng)

# ---- attribute soups for the kinds outside the core model
def tunnel_encap(rng):
    out = []
    for _ in range(rng.choice([1, 1, 2])):
        tt = rng.choice([15, 15, 8, 7, 11, 13, 1, 2, 100])
        subs = []
        for _ in range(rng.choice([0, 1, 2, 3, 4])):
            st = rng.choice([1, 2, 3, 4, 6, 7, 8, 12, 13, 14, 15, 20, 128, 129, 130, 200])
            if st == 1: v = rng.choice([be32(u32r(rng)), be32(u32r(rng)) + rbytes(rng, 4), rbytes(rng, 3)])
            elif st == 2: v = be16(rng.choice([0x0800, 0x86dd, 0x8847]))
            elif st == 4: v = [0x03, 0x0b] + [0, 0] + be32(u32r(rng))
            elif st == 6: v = rng.choice([[0, 0, 0, 0] + ip4r(rng), [0, 0, 0, 0] + ip6r(rng), be32(u32r(rng)) + be16(1) + ip4r(rng), be32(u32r(rng)) + be16(2) + ip6r(rng)])
            elif st == 8: v = be16(rng.choice([0, 4789, 65535]))
            elif st == 12: v = [rng.choice([0, 1, 255]), 0] + be32(u32r(rng))
            elif st == 13: v = rng.choice([[0, 0], [rng.choice([0, 0x80, 0x40]), 0] + be32(rng.randrange(2 ** 20) << 12), [0, 0] + ip6r(rng)])
            elif st == 14: v = [rng.choice([0, 1, 2, 3, 4]), 0, 0]
            elif st == 15: v = [rng.choice([0, 7, 255]), 0]
            elif st == 20: v = [rng.choice([0, 0x80, 0x40, 0x20]), 0] + ip6r(rng) + be16(rng.choice([0, 17, 0xffff])) + [40, 24, 16, 0]
            elif st == 128:
                v = [0]
                for _ in range(rng.choice([0, 1, 2, 3])):
                    sst = rng.choice([9, 1, 1, 13, 2, 3, 50])
                    if sst == 9: sv = [rng.choice([0, 1]), 0] + be32(u32r(rng))
                    elif sst == 1: sv = [rng.choice([0, 0x80]), 0] + be32((rng.randrange(2 ** 20) << 12) | rng.choice([0, 0x100 | 255]))
                    elif sst == 13: sv = [rng.choice([0, 0x80]), 0] + ip6r(rng) + rng.choice([[], be16(17) + [0, 0] + [40, 24, 16, 0]])
                    elif sst == 2: sv = [0, 0] + ip6r(rng)
                    else: sv = rbytes(rng, rng.choice([0, 2, 6]))
                    v += [sst, len(sv)] + sv
            elif st == 129: v = [0] + [ord(c) for c in rng.choice(['p1', 'policy-a', ''])]
            elif st == 130: v = [0] + [ord(c) for c in rng.choice(['cp', 'candidate'])]
            else: v = rbytes(rng, rng.choice([0, 1, 4, 8]))
            subs += ([st] + be16(len(v)) if st >= 128 else [st, len(v) & 255]) + v
        out += be16(tt) + be16(len(subs)) + subs
    if rng.random() < 0.05: out = out[:max(0, len(out) - rng.randrange(1, 4))]
    return out

def prefix_sid(rng):
    out = []
    for _ in range(rng.choice([1, 1, 2])):
        t = rng.choice([1, 3, 5, 6, 4, 9])
        if t == 1: v = [0] + be16(rng.choice([0, 0x8000])) + be32(u32r(rng))
        elif t == 3:
            v = be16(rng.choice([0, 0x8000]))
            for _ in range(rng.choice([1, 2])): v += be24(rng.randrange(2 ** 24)) + be24(rng.randrange(2 ** 24))
        elif t in (5, 6):
            sub = [0] + ip6r(rng) + [rng.choice([0, 0x80])] + be16(rng.choice([17, 18, 19, 0xffff])) + [0]
            if rng.random() < 0.6: sub += [1] + be16(6) + [40, 24, 16, 0, rng.choice([0, 16]), rng.choice([0, 64])]
            v = [0] + [1] + be16(len(sub)) + sub
            if rng.random() < 0.1: v += [7] + be16(2) + [1, 2]
        else: v = rbytes(rng, rng.choice([0, 3, 8]))
        out += [t] + be16(len(v)) + v
    if rng.random() < 0.05: out = out[:max(0, len(out) - rng.randrange(1, 4))]
    return out

LS_ATTR_TLVS = {1024: 1, 1026: -1, 1027: -2, 1028: 4, 1029: 16, 1030: 4, 1031: 16, 1088: 4, 1089: 4, 1090: 4, 1091: 32, 1092: 4, 1093: 2,
                1094: 1, 1095: -3, 1096: -4, 1098: -1, 1152: 1, 1155: 4, 1156: 4, 1034: -5, 1035: -6, 1036: -5, 1099: -7, 1158: -8,
                1161: -9, 1170: 1, 1173: -10, 1114: 4, 1115: 8, 1116: 4, 1117: 4, 1118: 4, 1119: 4, 1120: 4, 1101: -7, 1102: -7, 1103: -7, 1200: -11, 2000: -11}

def ls_attr(rng):
    out = []
    for t in rng.sample(sorted(LS_ATTR_TLVS), rng.choice([1, 2, 3, 5])):
        k = LS_ATTR_TLVS[t]
        if k > 0: v = rbytes(rng, k) if rng.random() < 0.9 else rbytes(rng, max(0, k + rng.choice([-1, 1])))
        elif k == -1: v = [ord(c) for c in rng.choice(['r1', 'router-one', ''])]
        elif k == -2: v = rbytes(rng, rng.choice([1, 3, 13]))
        elif k == -3: v = rbytes(rng, rng.choice([1, 2, 3]))
        elif k == -4: v = [x for _ in range(rng.choice([1, 2])) for x in be32(u32r(rng))]
        elif k == -5: v = [rng.choice([0, 0x80, 0xc0]), 0] + be24(rng.randrange(2 ** 24)) + rng.choice([[4, 137] + be16(3) + be24(16000), [4, 137] + be16(4) + be32(16000)])
        elif k == -6: v = rbytes(rng, rng.choice([1, 2]))
        elif k == -7: v = [rng.choice([0, 0x30, 0xb0]), rng.choice([0, 1]), 0, 0] + rng.choice([be24(rng.randrange(2 ** 20)), be32(u32r(rng))])
        elif k == -8: v = [rng.choice([0, 0x40, 0x0c]), rng.choice([0, 1]), 0, 0] + rng.choice([be24(rng.randrange(2 ** 20)), be32(u32r(rng))])
        elif k == -9: v = rng.choice([be24(rng.randrange(2 ** 20)), be32(u32r(rng))])
        elif k == -10: v = [rng.choice([0, 0x80]), 0, 0, 0] + be32(u32r(rng))
        else: v = rbytes(rng, rng.choice([0, 2, 9]))
        out += tlv16(t, v)
    if rng.random() < 0.05: out = out[:max(0, len(out) - rng.randrange(1, 4))]
    return out

def aigp(rng):
    return rng.choice([[1] + be16(11) + be64(rng.randrange(2 ** 64)), [1] + be16(11) + be64(5) + [2] + be16(4) + [9], [3] + be16(3), rbytes(rng, 5)])

def as_path_bytes(rng, two_byte):
    out = []
    for _ in range(rng.choice([0, 1, 1, 2])):
        n = rng.choice([0, 1, 2, 3])
        t = rng.choice([1, 2, 2, 3, 4])
        out += [t, n]
        for _ in range(n):
            a = rng.choice([65001, 23456, 64512, 4200000000, 1])
            out += be16(a & 0xffff) if two_byte else be32(a)
    return out

def other_attrs(rng, two_byte):
    out = []
    picks = rng.sample(['med', 'lp', 'atomic', 'agg', 'comm', 'orig', 'clist', 'ext', 'large', 'tunnel', 'psid', 'ls', 'aigp', 'unk', 'as4path', 'as4agg', 'unk_nt'],
                       rng.choice([0, 1, 2, 3, 4, 6]))
    for p in picks:
        pf = rng.choice([0, 0, 0, PARTIAL, EXT])
        if p == 'med': out += attr(O | pf, 4, be32(u32r(rng)))
        elif p == 'lp': out += attr(T | pf, 5, be32(u32r(rng)))
        elif p == 'atomic': out += attr(T, 6, [])
        elif p == 'agg': out += attr(T | O | pf, 7, (be16(65001) if two_byte else be32(rng.choice([65001, 4200000000]))) + ip4r(rng))
        elif p == 'comm': out += attr(T | O | pf, 8, [x for _ in range(rng.choice([1, 2, 70])) for x in be32(rng.choice([0xffff0006, 0xffff0007, 0xfde80001, rng.randrange(2 ** 32)]))])
        elif p == 'orig': out += attr(O, 9, ip4r(rng))
        elif p == 'clist': out += attr(O, 10, [x for _ in range(rng.choice([1, 2, 3])) for x in ip4r(rng)])
        elif p == 'ext':
            from gen.c17 import gen_extcom_chunk
            out += attr(T | O | pf, 16, [x for _ in range(rng.choice([1, 2, 4])) for x in gen_extcom_chunk(rng)])
        elif p == 'large': out += attr(T | O | pf, 32, [x for _ in range(3 * rng.choice([1, 2])) for x in be32(u32r(rng))])
        elif p == 'tunnel': out += attr(T | O | pf, 23, tunnel_encap(rng))
        elif p == 'psid': out += attr(T | O | pf, 40, prefix_sid(rng))
        elif p == 'ls': out += attr(O | pf, 29, ls_attr(rng))
        elif p == 'aigp': out += attr(O, 26, aigp(rng))
        elif p == 'unk': out += attr(T | O | pf, rng.choice([11, 12, 13, 19, 20, 21, 22, 24, 25, 27, 28, 30, 31, 33, 39, 41, 128, 255]), rbytes(rng, rng.choice([0, 1, 4, 9, 300])))
        elif p == 'unk_nt': out += attr(O, rng.choice([11, 21, 128]), rbytes(rng, 3))
        elif p == 'as4path': out += attr(T | O, 17, as_path_bytes(rng, False))
        elif p == 'as4agg': out += attr(T | O, 18, be32(4200000000) + ip4r(rng))
    return out

def gen_update(rng):
    """-> (opts, message bytes, family tag)"""
    fam = rng.choice(sorted(FAMILIES))
    two_byte = rng.random() < 0.12
    addpath = rng.random() < 0.15
    opts = (1 if two_byte else 0) | (2 if addpath else 0)
    nlris = []
    for _ in range(rng.choice([1, 1, 2, 3])):
        n = gen_nlri(rng, fam)
        if rng.random() < 0.04 and n:
            k = rng.randrange(len(n)); n = n[:k] + [n[k] ^ (1 << rng.randrange(8))] + n[k + 1:]
        if rng.random() < 0.02 and len(n) > 1:
            n = n[:rng.randrange(1, len(n))]
        nlris += (be32(rng.choice([0, 1, 7, 0xffffffff])) if addpath else []) + n
    attrs = attr(T, 1, [rng.choice([0, 1, 2])]) + attr(T, 2, as_path_bytes(rng, two_byte))
    attrs += other_attrs(rng, two_byte)
    classic = []
    withdraw = rng.random() < 0.15
    afi, safi = FAMILIES[fam]
    if fam == 'v4' and rng.random() < 0.7:
        if withdraw:
            wd = nlris
            body = be16(len(wd)) + wd + be16(0)
            total = 19 + len(body)
            return opts, [0xff] * 16 + be16(total) + [2] + body, fam
        attrs += attr(T, 3, ip4r(rng))
        classic = nlris
    elif withdraw:
        attrs = attr(O, 15, be16(afi) + [safi] + nlris)
    else:
        nh = nexthop_for(rng, fam)
        attrs += attr(O, 14, be16(afi) + [safi, len(nh)] + nh + [0] + nlris)
    body = be16(0) + be16(len(attrs)) + attrs + classic
    total = 19 + len(body)
    return opts, [0xff] * 16 + be16(total) + [2] + body, fam
