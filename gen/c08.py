"""C08: generators, renderers and Spec oracle for the timer-driver correspondence
(Model/Timers.v vs PeerSession::{apply_outputs, run_select, rx_msg, flush_tx})."""
import itertools, json, os
from vp import val, coqrun, rustrun
from vp.val import cN, cbool, clist, cpair
from gen.common import *
from gen.c07 import input_to_val, input_to_coq, CAPSETS, REMOTE_CAPSETS

A, Pv = 0, 1

LASN = 65000
RASN = 65001

def OPEN(hold, rid=100, asn=RASN, caps=()): return ('open', asn, rid, hold, list(caps))
KA = ('ka',)
UPD = ('update',)
def NOTIF(c, s): return ('notif', c, s)

def msg_to_val(m): return input_to_val(('recv', m))[1]
def msg_to_coq(m): return input_to_coq(('recv', m))[len('(Recv '):-1]

def item_to_val(it):
    if it[0] == 'msg': return [0, msg_to_val(it[1])]
    if it[0] == 'loop': return [1]
    return [2, it[1], it[2], it[3]]          # ('bad', code, sub, hold): a message the codec rejects
def item_to_coq(it):
    if it[0] == 'msg': return '(IMsg %s)' % msg_to_coq(it[1])
    if it[0] == 'loop': return 'ILoop'
    return '(IParseErr %s %s)' % (cN(it[1]), cN(it[2]))

def cr_to_val(cr):
    return {'admin': [0], 'silent': [2]}.get(cr[0]) or [1, cr[1], cr[2]]
def cr_to_coq(cr):
    return {'admin': 'CRAdmin', 'silent': 'CRSilent'}.get(cr[0]) or '(CRSend %s %s)' % (cN(cr[1]), cN(cr[2]))

def ev_to_val(e):
    t = e[0]
    if t == 'tick': return [0, e[1]]
    if t == 'arrive': return [1, [item_to_val(i) for i in e[1]]]
    if t == 'fin': return [2]
    if t == 'close': return [3, cr_to_val(e[1])]
    if t == 'pending': return [4]
    if t == 'select': return [5]
    if t == 'other': return [6, input_to_val(e[1])]
    raise ValueError(e)

def ev_to_coq(e):
    t = e[0]
    if t == 'tick': return '(ETick %s)' % cN(e[1])
    if t == 'arrive': return '(EArrive %s)' % clist([item_to_coq(i) for i in e[1]])
    if t == 'fin': return 'EFin'
    if t == 'close': return '(ECloseReq %s)' % cr_to_coq(e[1])
    if t == 'pending': return 'EPending'
    if t == 'select': return 'ESelect'
    if t == 'other': return '(EOther %s)' % input_to_coq(e[1])
    raise ValueError(e)

SEL = ('select',)
def ARR(*ms): return ('arrive', [('msg', m) for m in ms])
def TICK(n): return ('tick', n)

def tup(x):
    return tuple(tup(y) for y in x) if isinstance(x, list) else x

class Prop:
    pid = 'C08'
    props_file = 'Props/C08.v'
    required_theorems = ['negotiated_is_min', 'zero_hold_disables_timers', 'zero_never_expires',
                         'hold_deadline_follows_reception', 'expiry_only_after_silence', 'expiry_when_silent',
                         'keepalive_every_third', 'sleep0_driver_refuted', 'as_loop_drop_refuted', 'raw_local_hold_refuted']
    correspondence_name = ('Model/Timers.v run_case vs daemon/src/event/mod.rs PeerSession::{apply_outputs, run_select, rx_msg, '
                           'flush_tx} + ConnArbiter::process (harness/daemon/event_hx.rs verif_timer_cases)')
    rule = ('cases = (local id/AS/hold/capabilities, expected AS, role, timed event sequence: ticks, message arrivals, FIN, close requests, '
            'pending updates, select iterations, steps of the other connection); a case is non-trivial when a timer is armed or fires; '
            'distinct = distinct (local hold, trajectory of (hold slot, keepalive slot, step result, states))')
    exhaustive = {'quick': False, 'thorough': False}
    trusted_base = [
        'virtual time: the harness moves the deadlines of the stored tokio sleeps back instead of waiting; tokio timers are deadlines that may fire any time after expiry, wall-clock accuracy is not modelled',
        'the prologue of session_loop (Connected through the arbiter, apply_outputs, Step dropped) is repeated in the harness; session_loop/run themselves (NOTIFICATION write, unregister, apply_disconnect) are not driven',
        'messages are abstracted to what fsm.rs inspects; UPDATE is End-of-RIB except the AS-loop announcement; rx_update (prefix limit Cease), the peer-event arm of run_select, write errors in flush_tx and a dropped close sender are not modelled',
    ]
    assumptions = ['the remote hold time is 0 or 3..65535 (OPEN parsing rejects 1 and 2 with NOTIFICATION 2/6: exercised as IParseErr); the local one is any number the configuration can hold, negotiated as advertised (16 bits, 1 and 2 as 0)',
                   'one connection task per role at a time (accept_connection rejects a second connection of the same direction)']

    # ---- rendering
    def case_to_val(self, c):
        return [c['lid'], c['lasn'], caps_to_val(c['lcap']), c['lhold'], c['exp'], c['role'], 1 if c['restarting'] else 0,
                [ev_to_val(e) for e in c['evs']]]

    def case_to_coq(self, c):
        return 'run_case %s %s %s %s %s %s %s %s' % (
            cN(c['lid']), cN(c['lasn']), caps_to_coq(c['lcap']), cN(c['lhold']), cN(c['exp']),
            'RActive' if c['role'] == A else 'RPassive', cbool(c['restarting']), clist([ev_to_coq(e) for e in c['evs']]))

    def case_to_json(self, c):
        return json.loads(json.dumps(c))

    def case_from_json(self, j):
        def fixcap(c):
            c = list(c)
            return tuple(c)
        def fixmsg(m):
            m = list(m)
            if m[0] == 'open':
                m[4] = [self._cap(x) for x in m[4]]
            return tuple(m)
        def fixin(i):
            i = list(i)
            if i[0] == 'recv':
                return ('recv', fixmsg(i[1]))
            return tuple(i)
        def fixev(e):
            e = list(e)
            if e[0] == 'arrive':
                return ('arrive', [('msg', fixmsg(it[1])) if it[0] == 'msg' else tuple(it) for it in e[1]])
            if e[0] == 'close':
                return ('close', tuple(e[1]))
            if e[0] == 'other':
                return ('other', fixin(e[1]))
            return tuple(e)
        c = dict(j)
        c['lcap'] = [self._cap(x) for x in j['lcap']]
        c['evs'] = [fixev(e) for e in j['evs']]
        return c

    @staticmethod
    def _cap(c):
        c = list(c)
        for k in range(1, len(c)):
            if isinstance(c[k], list):
                c[k] = [tuple(x) if isinstance(x, list) else x for x in c[k]]
        return tuple(c)

    def corpus_cases(self):
        d = os.path.join(os.path.dirname(os.path.dirname(os.path.abspath(__file__))), 'corpus', 'C08')
        res = []
        if os.path.isdir(d):
            for fn in sorted(os.listdir(d)):
                if fn.endswith('.json'):
                    res.append(self.case_from_json(json.load(open(os.path.join(d, fn)))['case']))
        return res

    # ---- generation
    def base(self, lhold, role=A, lcap=(), exp=RASN, lid=200):
        return dict(lid=lid, lasn=LASN, lcap=list(lcap), lhold=lhold, exp=exp, role=role, restarting=False)

    def gen_cases(self, rng, tier):
        cases = []
        def add(cls, cfg, evs):
            c = dict(cfg); c['evs'] = list(evs); c['cls'] = cls; cases.append(c)
        base_holds = [0, 3, 9, 90, 65535]
        pairs = [(a, b) for a in base_holds for b in base_holds]
        # keepalive = hold / 3 rounding: 3,4,5 -> 1; 6,7,8 -> 2; 65534/65535 -> 21844/21845
        for x in (4, 5, 6, 7, 8, 65534):
            pairs += [(x, 65535), (65535, x)]
        # 1. the OPEN exchange for every pair of hold times, then silence / traffic
        for lh, rh in pairs:
            for role in (A, Pv):
                cfg = self.base(lh, role)
                h = min(lh, rh)
                ka = h // 3
                add('pair_open_then_ka', cfg, [ARR(OPEN(rh)), SEL, ARR(KA), SEL, SEL, TICK(1), SEL])
                add('pair_silence_to_deadline', cfg, [ARR(OPEN(rh), KA), SEL, TICK(max(h, 1) - 1), SEL, TICK(1), SEL, SEL])
                add('pair_update_rearms', cfg, [ARR(OPEN(rh), KA), SEL, TICK(ka), SEL, SEL, ARR(UPD), TICK(ka), SEL, SEL, TICK(h), SEL, SEL])
                add('pair_openconfirm_silence', cfg, [ARR(OPEN(rh)), SEL, TICK(max(h, 1) - 1), SEL, TICK(1), SEL, SEL])
                add('pair_update_sent', cfg, [ARR(OPEN(rh), KA), SEL, TICK(1), ('pending',), SEL, TICK(max(ka, 1) - 1), SEL, TICK(1), SEL, SEL])
                add('pair_update_sent_openconfirm', cfg, [ARR(OPEN(rh)), SEL, TICK(1), ('pending',), SEL, ARR(KA), TICK(1), SEL, TICK(1), ('pending',), SEL])
                # the keepalive timer fires three times in a row, each time a third of the hold time later,
                # with a KEEPALIVE from the peer in between so that the hold timer stays ahead
                if ka >= 1:
                    add('keepalive_period', cfg, [ARR(OPEN(rh), KA), SEL, SEL, TICK(ka - 1), SEL, TICK(1), SEL, SEL, ARR(KA), SEL,
                                                  TICK(ka - 1), SEL, TICK(1), SEL, ARR(KA), SEL, TICK(ka), SEL, SEL])
        # 1b. the large hold timer of OpenSent: 239 / 240 / 241 s, with and without an OPEN waiting in the socket
        for lh in (0, 3, 90):
            for role in (A, Pv):
                cfg = self.base(lh, role)
                add('opensent_240', cfg, [TICK(239), SEL, TICK(1), SEL, SEL, TICK(1), SEL])
                add('opensent_240', cfg, [TICK(239), ARR(OPEN(30)), SEL, TICK(1), SEL, SEL])
                add('opensent_240', cfg, [TICK(240), ARR(OPEN(30)), SEL, SEL, SEL])
                add('opensent_240', cfg, [TICK(241), ARR(OPEN(30), KA), SEL, SEL])
                add('opensent_240', cfg, [TICK(239), ARR(OPEN(0)), SEL, TICK(2), SEL, ARR(KA), SEL, TICK(1000), SEL, SEL])
        # 2. "... and by nothing else" (kept from the lead's round): ROUTE-REFRESH, sends, events of the other connection
        REFRESH = ('refresh', IPV4)
        for lh in (3, 9, 90, 65535):
            for rh in (3, 9, 90):
                h = min(lh, rh)
                for role in (A, Pv):
                    for lcap in CAPSETS[:2]:
                        cfg = self.base(lh, role, lcap=lcap)
                        for d1 in sorted({1, h // 3, h - 1}):
                            rest = h - d1
                            for mid in ([ARR(REFRESH)], [ARR(REFRESH, REFRESH)], [('pending',)], [('other', ('recv', KA))],
                                        [ARR(REFRESH), SEL, ('pending',)]):
                                add('nothing_else_rearms_hold', cfg,
                                    [ARR(OPEN(rh), KA), SEL, TICK(d1)] + mid + [SEL, SEL, TICK(max(rest, 1) - 1), SEL, SEL, TICK(1), SEL, SEL])
        # 3. every message type in every state of the connection, part-way through the hold interval, for its
        # effect on BOTH timers; then silence to the deadline that must be in force afterwards
        MP4 = [('mp', IPV4)]
        msgs = [('open', ('msg', OPEN(30, caps=MP4))), ('ka', ('msg', KA)), ('update', ('msg', UPD)), ('notif', ('msg', NOTIF(6, 2))),
                ('refresh', ('msg', REFRESH)), ('loop', ('loop',)), ('badhold1', ('bad', 2, 6, 1)), ('badhold2', ('bad', 2, 6, 2)),
                ('badtype', ('bad', 1, 3, 0))]
        for lh, rh in ((90, 30), (30, 90), (90, 0), (0, 30), (4, 90)):
            h = min(lh, rh)
            for role in (A, Pv):
                cfg = self.base(lh, role, lcap=MP4)
                pre = {'opensent': [],
                       'openconfirm': [ARR(OPEN(rh, caps=MP4)), SEL, SEL],
                       'established': [ARR(OPEN(rh, caps=MP4), KA), SEL, SEL, SEL],
                       'down': [ARR(OPEN(rh, caps=MP4), KA, NOTIF(6, 4)), SEL, SEL]}
                for sname, prefix in pre.items():
                    for mname, item in msgs:
                        if mname == 'loop' and sname in ('opensent',):
                            continue          # an announcement parses only with the negotiated codec
                        for d in sorted({1, max(h // 3, 1), max(h, 2) - 1}):
                            add('msg_%s_in_%s' % (mname, sname), cfg,
                                prefix + [TICK(d), ('arrive', [item]), SEL, SEL, TICK(max(h - d, 1) - 1), SEL, TICK(1), SEL, SEL,
                                          TICK(h), SEL, SEL])
        # 4. hold times that cannot be advertised: 1 and 2 (the OPEN says 0), and values beyond 16 bits
        for lh in (1, 2, 65536, 65537, 65538, 65536 + 90):
            for rh in (0, 3, 30):
                for role in (A, Pv):
                    cfg = self.base(lh, role)
                    add('local_hold_unadvertisable', cfg, [ARR(OPEN(rh), KA), SEL, SEL, TICK(1), SEL, TICK(1), SEL, ARR(KA), SEL, TICK(1), SEL,
                                                           TICK(30), SEL, SEL])
        # 5. after the session went down (NOTIFICATION, expiry, close request, FIN): timers and arrivals have no effect
        enders = {'notif': [ARR(NOTIF(6, 2)), SEL], 'expiry': [TICK(30), SEL], 'fin': [('fin',), SEL],
                  'close_admin': [('close', ('admin',)), SEL], 'close_silent': [('close', ('silent',)), SEL],
                  'close_send': [('close', ('send', 6, 3)), SEL], 'fsm_error': [ARR(OPEN(30)), SEL]}
        for ename, end in enders.items():
            for role in (A, Pv):
                cfg = self.base(90, role)
                for prefix in ([ARR(OPEN(30), KA), SEL, SEL], [ARR(OPEN(30)), SEL], []):
                    add('after_down_%s' % ename, cfg, prefix + end + [TICK(10), SEL, TICK(30), SEL, ARR(KA), SEL, TICK(240), SEL, ('pending',), SEL,
                                                                      ('close', ('admin',)), SEL])
        # 6. close requests and FIN against due timers (biased order: close, hold, keepalive, socket)
        for role in (A, Pv):
            cfg = self.base(90, role)
            est = [ARR(OPEN(30), KA), SEL, SEL]
            for cr in (('admin',), ('silent',), ('send', 6, 7)):
                add('select_order', cfg, est + [TICK(30), ('close', cr), ARR(KA), SEL, SEL])
            add('select_order', cfg, est + [TICK(30), ARR(KA), SEL, SEL])            # hold before socket
            add('select_order', cfg, est + [TICK(10), ARR(KA), SEL, SEL, SEL])        # keepalive before socket
            add('select_order', cfg, est + [TICK(30), ('fin',), SEL, SEL])
            add('select_order', cfg, est + [TICK(29), ('fin',), SEL, SEL])
            add('select_order', cfg, est + [TICK(10), ('pending',), SEL, SEL, SEL])
        # 7. the other connection of the same peer: collision resolution takes this connection's slot away
        for role in (A, Pv):
            for lid, rid in ((100, 300), (300, 100)):
                cfg = self.base(90, role, lid=lid)
                oth = [('other', ('connected', False)), ('other', ('recv', OPEN(30, rid=rid)))]
                add('collision', cfg, [ARR(OPEN(30, rid=rid)), SEL] + oth + [SEL, TICK(30), SEL, SEL])
                add('collision', cfg, oth + [ARR(OPEN(30, rid=rid)), SEL, SEL, TICK(30), SEL, SEL])
                add('collision', cfg, [ARR(OPEN(30, rid=rid), KA), SEL] + oth + [SEL, TICK(29), SEL, TICK(1), SEL, SEL])
        nrand = 2000 if tier == 'quick' else 30000
        for _ in range(nrand):
            c = self.random_case(rng); c['cls'] = 'random'; cases.append(c)
        return cases

    def random_case(self, rng):
        lh = rng.choice([0, 3, 9, 90, 65535, 4, 5, 7, 1, 2])
        rh = rng.choice([0, 3, 9, 30, 65535, 4, 5, 8])
        cfg = self.base(lh, rng.choice((A, Pv)), lcap=rng.choice(CAPSETS), exp=rng.choice([0, RASN, RASN]),
                        lid=rng.choice([100, 200, 300]))
        cfg['restarting'] = rng.random() < 0.1
        h = min(lh, rh)
        ka = h // 3
        evs = []
        n = rng.randint(3, 30)
        opened = False
        rcaps = rng.choice(REMOTE_CAPSETS)
        # an IPv4 announcement parses only on a session that negotiated IPv4 unicast
        loop_ok = ('mp', IPV4) in cfg['lcap'] and ('mp', IPV4) in rcaps
        for _ in range(n):
            x = rng.random()
            if x < 0.30:
                evs.append(SEL)
            elif x < 0.50:
                dts = [0, 1, ka, max(ka, 1) - 1, h, max(h, 1) - 1, h + 1, 239, 240, 2 * ka, 65535]
                evs.append(TICK(rng.choice(dts)))
            elif x < 0.80:
                k = rng.choice([1, 1, 1, 2, 3])
                ms = []
                for _ in range(k):
                    y = rng.random()
                    if not opened and y < 0.7:
                        ms.append(('msg', OPEN(rh, rid=rng.choice([100, 300]), asn=rng.choice([RASN, RASN, RASN, 65009]),
                                               caps=rcaps)))
                        opened = True
                    elif y < 0.55: ms.append(('msg', KA))
                    elif y < 0.80: ms.append(('msg', UPD))
                    elif y < 0.88 and loop_ok and opened: ms.append(('loop',))
                    elif y < 0.92: ms.append(('msg', NOTIF(6, 2)))
                    elif y < 0.95: ms.append(('msg', ('refresh', IPV4)))
                    elif y < 0.97: ms.append(rng.choice([('bad', 2, 6, 1), ('bad', 2, 6, 2), ('bad', 1, 3, 0)]))
                    else: ms.append(('msg', OPEN(rh)))
                evs.append(('arrive', ms))
                if rng.random() < 0.7: evs.append(SEL)
            elif x < 0.86:
                evs.append(('pending',))
                if rng.random() < 0.6: evs.append(SEL)
            elif x < 0.89:
                evs.append(('fin',))
            elif x < 0.92:
                evs.append(('close', rng.choice([('admin',), ('silent',), ('send', 6, 3)])))
            else:
                o = rng.choice([('connected', False), ('recv', OPEN(rh, rid=rng.choice([100, 300]))), ('recv', KA),
                                ('disc',), ('holdexp',), ('recv', UPD)])
                evs.append(('other', o))
        c = dict(cfg); c['evs'] = evs
        return c

    # ---- running
    def run_impl(self, cases, tier):
        return rustrun.daemon_test('C08', 'event::verif_hx::verif_timer_cases', [self.case_to_val(c) for c in cases])

    def run_model(self, cases, tier):
        pre = 'From RB Require Import Base.Val Model.Caps Model.Fsm Model.Timers.\nOpen Scope N_scope.'
        return coqrun.eval_terms('C08', pre, [self.case_to_coq(c) for c in cases])

    def canon(self, case, obs):
        return obs

    # ---- Spec oracle: the property text applied to the implementation's
    # observations (python mirror of Spec/TimersSpec.v).  It follows virtual
    # time and what is waiting in the socket, nothing of the FSM.
    def oracle(self, c, obs):
        if obs == [-1]:
            return 'panic in the connection task'
        # the hold time this side advertised in its OPEN, then one row per event
        adv = obs[0][0]
        obs = obs[1:]
        if adv < 0:
            return 'no OPEN was queued when the connection came up'
        me = 4 if c['role'] == A else 5
        due = lambda s: s == [2] or s == [1, 0] or s == [3]
        absd = lambda s, t: (t + s[1]) if s[0] == 1 else (t if s[0] == 2 else None)
        t = 0
        queue = []
        eof = False
        close_tx, close_pending, close_maybe = True, False, False
        h = None                # hold time in force, known once an OPEN has been accepted
        send_outstanding = False  # an UPDATE is (or may be) waiting to be sent: sending it restarts the keepalive interval
        prev = obs[0]
        if c['lhold'] != 0 and prev[me] == 3 and prev[0] != [1, 240]:
            return 'start: no large hold timer while waiting for the OPEN'
        for k, (e, o) in enumerate(zip(c['evs'], obs[1:])):
            live_before = prev[3] == 1
            st_before, st_after = prev[me], o[me]
            hold_b, ka_b, hold_a, ka_a, res = prev[0], prev[1], o[0], o[1], o[2]
            kind = e[0]
            reading = False
            ka_fired = False
            if not live_before:
                # the connection task has ended: nothing may happen any more
                if (o[0], o[1], o[3]) != (prev[0], prev[1], prev[3]) and kind != 'tick':
                    return 'step %d: the ended connection task still reacts to %s' % (k, kind)
                if res:
                    return 'step %d: a second Terminate from an ended connection task' % k
                prev = o
                continue
            if kind == 'tick':
                t += e[1]
            elif kind == 'arrive':
                if not eof: queue += e[1]
            elif kind == 'fin':
                eof = True
            elif kind == 'close':
                if close_tx: close_tx, close_pending = False, True
            elif kind == 'pending':
                send_outstanding = True
            elif kind == 'other':
                if st_before != 0 and st_after == 0: close_maybe = True
            elif kind == 'select':
                timer_res = bool(res) and res[0] == [0]
                if close_pending or close_maybe:
                    close_pending = False
                    if timer_res and h == 0:
                        return 'step %d: hold-timer SessionDown with negotiated hold time 0' % k
                elif due(hold_b):
                    # (E2) once nothing was received for the hold time the session is torn down
                    if st_before in (3, 4, 5) and not timer_res:
                        return 'step %d: hold timer due but the session was not torn down for hold-timer expiry' % k
                    if timer_res and res[1] != [[4, 0]]:
                        return 'step %d: hold-timer expiry without NOTIFICATION 4/0' % k
                else:
                    # (E1) ... and only then
                    if timer_res:
                        return 'step %d: hold-timer SessionDown although the hold deadline had not been reached' % k
                    if due(ka_b):
                        ka_fired = True
                        # (K) a keepalive timer that fires is re-armed with a third of the hold time
                        if st_before in (4, 5) and h and o[3] == 1 and ka_a != [1, h // 3]:
                            return 'step %d: keepalive timer fired and was not re-armed with hold/3 = %d: %s' % (k, h // 3, ka_a)
                        if st_before in (4, 5) and o[3] != 1:
                            return 'step %d: the keepalive timer ended the session' % k
                    else:
                        reading = True
            # what a reading select must have done
            rearm = False
            opened_now = False
            if reading and queue:
                its, queue = queue, []
                if st_before == 3 and its[0][0] == 'msg' and its[0][1][0] == 'open' and st_after in (4, 5):
                    h = min(adv, its[0][1][3])
                    opened_now = True
                rearm_kinds = [i for i in its if i[0] == 'loop' or (i[0] == 'msg' and i[1][0] in ('ka', 'update', 'open'))]
                killers = [i for i in its if i[0] == 'bad' or (i[0] == 'msg' and i[1][0] in ('notif', 'refresh'))]
                if its[0][0] == 'bad' and not (res and res[0][0] == 2 and res[0][1:] == [its[0][1], its[0][2]]):
                    return 'step %d: a message the codec must reject (%d/%d) did not end the session with that NOTIFICATION' % (
                        k, its[0][1], its[0][2])
                if o[3] == 1 and st_after in (4, 5) and h is not None:
                    rearm = bool(rearm_kinds)
                    if h > 0 and rearm_kinds and not killers:
                        # (N)/(R1) every KEEPALIVE or UPDATE received re-arms the hold timer with the negotiated value
                        if hold_a != [1, h]:
                            return 'step %d: KEEPALIVE/UPDATE/OPEN received but hold timer is %s, not re-armed to %d' % (k, hold_a, h)
                    if opened_now and h > 0 and ka_a != [1, h // 3] and not (st_after == 5 and ka_a[0] == 1 and ka_a[1] <= h // 3):
                        return 'step %d: hold time %d negotiated but the keepalive timer is %s, not %d' % (k, h, ka_a, h // 3)
            became_established = st_before != 5 and st_after == 5
            if became_established:
                send_outstanding = True       # End-of-RIB markers are queued when the session comes up
            # (R2) ... and nothing else does
            if o[3] == 1 and st_before in (4, 5) and st_after in (4, 5) and h:
                # an overdue timer's deadline is only known to lie in the past
                db = absd(hold_b, t - (e[1] if kind == 'tick' else 0))
                da = absd(hold_a, t) if hold_a[0] == 1 else None
                if db is not None and da is not None and da > db and not rearm:
                    return 'step %d: hold deadline moved from %d to %d by %s, not by a received KEEPALIVE/UPDATE' % (k, db, da, kind)
                # (R3) the keepalive deadline: set by the OPEN exchange, restarted when the timer fires or an UPDATE is sent
                kb = absd(ka_b, t - (e[1] if kind == 'tick' else 0))
                kaa = absd(ka_a, t) if ka_a[0] == 1 else None
                if kb is not None and kaa is not None and kaa > kb and not ka_fired and not opened_now:
                    if kind == 'select' and st_after == 5 and send_outstanding and ka_a == [1, h // 3]:
                        send_outstanding = False
                    else:
                        return 'step %d: keepalive deadline moved from %d to %d by %s (not the timer firing, not an UPDATE sent)' % (k, kb, kaa, kind)
            # what was waiting to be sent goes out in the first iteration that reaches the socket
            if kind == 'select' and (reading or (not ka_fired and not due(hold_b) and not close_pending and not close_maybe)) \
                    and not became_established:
                send_outstanding = False
            # timers that must (not) be running
            if o[3] == 1 and st_after in (4, 5) and h is not None:
                if h == 0:
                    # (Z) zero disables both timers after the OPEN exchange
                    if hold_a != [0] or ka_a != [0]:
                        return 'step %d: negotiated hold time 0 but a timer is armed (hold %s, keepalive %s)' % (k, hold_a, ka_a)
                else:
                    if hold_a[0] not in (1, 2) or (hold_a[0] == 1 and hold_a[1] > h):
                        return 'step %d: hold time %d in force but hold timer is %s' % (k, h, hold_a)
                    if ka_a[0] not in (1, 2) or (ka_a[0] == 1 and ka_a[1] > h // 3):
                        return 'step %d: keepalive interval %d in force but keepalive timer is %s' % (k, h // 3, ka_a)
            if o[3] == 1 and st_after == 3 and (ka_a != [0] or (kind != 'tick' and hold_a != hold_b)):
                return 'step %d: a timer changed while still waiting for the OPEN (hold %s, keepalive %s)' % (k, hold_a, ka_a)
            if bool(res) and res[0] == [0] and h == 0 and st_before in (4, 5):
                return 'step %d: hold-timer SessionDown with negotiated hold time 0' % k
            prev = o
        return None

    def in_known_class(self, kf, c, obs, why):
        return False

    def nontrivial_key(self, c, obs):
        if obs == [-1]:
            return ('panic',)
        obs = obs[1:]
        traj = tuple((tuple(o[0]), tuple(o[1]), json.dumps(o[2]), o[4], o[5]) for o in obs)
        if any(o[0][0] in (1, 2, 3) or o[1][0] in (1, 2, 3) for o in obs):
            return (c['lhold'], c['role'], traj)
        return None

    def classify(self, c, obs):
        tags = ['lhold_%d' % c['lhold'], 'class_%s' % c.get('cls', 'corpus')]
        if obs != [-1]:
            obs = obs[1:]
            if any(o[2] and o[2][0] == [0] for o in obs): tags.append('hold_timer_session_down')
            if any(o[4] == 5 or o[5] == 5 for o in obs): tags.append('reaches_established')
            if any(o[0] == [3] or o[0] == [4] or o[1] == [3] or o[1] == [4] for o in obs): tags.append('timer_fired_into_empty_slot')
        return tags
