"""Runner for harness/hx-packet (C03, C05): debug and release builds of the crate
against VERIF_REPO's working tree."""
from vp import rustrun

CRATE = 'hx-packet'

def run(name, cases, release=False, timeout=1500):
    return rustrun.crate_bin(name + ('_rel' if release else '_dbg'), CRATE, '', cases, release=release, timeout=timeout)

def run_both(name, cases, timeout=1500):
    """The observation of a case is [debug_obs, release_obs]."""
    d, err = run(name, cases, release=False, timeout=timeout)
    if d is None:
        return None, 'debug build/run: ' + err
    r, err = run(name, cases, release=True, timeout=timeout)
    if r is None:
        return None, 'release build/run: ' + err
    return [[a, b] for a, b in zip(d, r)], ''
