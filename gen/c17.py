"""C17: generators, renderers and Spec oracle for the gRPC API conversion boundary
(daemon/src/convert.rs attr_to_api / attr_from_api / nlri_to_api / net_from_api)."""
import json, os
from vp import val, coqrun, rustrun
from vp.val import cN, cZ, cbool, clist, cpair, cbytes
from gen import c17wire, c17enum, c17typed, c17held

# ---------------------------------------------------------------- constants
ORIGIN, AS_PATH, NEXTHOP, MED, LOCAL_PREF, ATOMIC, AGGREGATOR, COMMUNITY, ORIGINATOR_ID, CLUSTER_LIST = range(1, 11)
MP_REACH, MP_UNREACH, EXT_COMMUNITY, AS4_PATH, AS4_AGGREGATOR = 14, 15, 16, 17, 18
TUNNEL_ENCAP, AIGP, LS, LARGE_COMMUNITY, PREFIX_SID = 23, 26, 29, 32, 40
T, O, PARTIAL, EXT = 0x40, 0x80, 0x20, 0x10
CANON = {1: T, 2: T, 3: T, 4: O, 5: T, 6: T, 7: T | O, 8: T | O, 9: O, 10: O, 14: O, 15: O, 16: T | O,
         17: T | O, 18: T | O, 26: O, 32: T | O, 40: T | O, 29: O, 23: T | O}
NONCORE = (TUNNEL_ENCAP, LS, PREFIX_SID)
VALCODES = (ORIGIN, MED, LOCAL_PREF, ORIGINATOR_ID)

def be16(v): return [(v >> 8) & 255, v & 255]
def be32(v): return [(v >> 24) & 255, (v >> 16) & 255, (v >> 8) & 255, v & 255]
def S(s): return [ord(c) for c in s]
def ip4s(a): return S('%d.%d.%d.%d' % tuple(be32(a)))

# ---------------------------------------------------------------- Spec mirror (coq/Spec/ApiSpec.v)
def wf_as_path(b, zero_ok=True):
    pos = 0
    while pos < len(b):
        if pos + 2 > len(b): return False
        t, n = b[pos], b[pos + 1]
        if not (1 <= t <= 4): return False
        if n == 0 and not zero_ok: return False
        pos += 2 + 4 * n
        if pos > len(b): return False
    return True

def wf_attr(a):
    """a = [code, flags, kind, payload] as printed by the harness. The invariants the
    wire decoder guarantees of every attribute it stores (RFC 4271/1997/4360/4456/8092)."""
    code, flags, kind, p = a
    if not (0 <= code < 256 and 0 <= flags < 256): return 'code/flags outside u8'
    if code in CANON:
        if (flags ^ CANON[code]) & 0xC0: return 'optional/transitive bits differ from the attribute definition'
        if code in VALCODES:
            if kind != 0: return 'value attribute %d held as bytes' % code
            if not (0 <= p[0] < 2 ** 32): return 'value outside u32'
            if code == ORIGIN and p[0] > 2: return 'ORIGIN %d > 2' % p[0]
            return None
        if kind != 1: return 'attribute %d not held as Bin' % code
        digest = bool(p) and p[0] == -7       # long values are printed as a digest: only the length is judged here
        if not digest and any(not (0 <= x < 256) for x in p): return 'byte outside u8'
        n = p[1] if digest else len(p)
        if n > 65535: return 'value of %d bytes is longer than an attribute can carry' % n
        if code == AS_PATH and not digest and not wf_as_path(p, False): return 'AS_PATH segments malformed'
        if code == NEXTHOP and n not in (4, 16): return 'NEXT_HOP length %d' % n
        if code == ATOMIC and n != 0: return 'ATOMIC_AGGREGATE with a value'
        if code == AGGREGATOR and n != 8: return 'AGGREGATOR length %d' % n
        if code in (COMMUNITY, CLUSTER_LIST, EXT_COMMUNITY, LARGE_COMMUNITY) and n == 0: return 'empty list (RFC 7606: zero length is malformed)'
        if code in (COMMUNITY, CLUSTER_LIST) and n % 4: return 'length %d not a multiple of 4' % n
        if code == EXT_COMMUNITY and n % 8: return 'length %d not a multiple of 8' % n
        if code == LARGE_COMMUNITY and n % 12: return 'length %d not a multiple of 12' % n
        if code == AS4_PATH and (n % 2 or n < 6 or (not digest and not wf_as_path(p, False))): return 'AS4_PATH malformed'
        if code == AS4_AGGREGATOR and n != 8: return 'AS4_AGGREGATOR length %d' % n
        return None
    if kind != 2: return 'unknown attribute %d not held opaque' % code
    if flags & 0xC0 != 0xC0: return 'unknown attribute %d stored without optional+transitive' % code
    if p and p[0] == -7:
        return 'value longer than an attribute can carry' if p[1] > 65535 else None
    if any(not (0 <= x < 256) for x in p): return 'byte outside u8'
    if len(p) > 65535: return 'value longer than an attribute can carry'
    return None

def host_octets(addr_bytes, m):
    """address octets after the ceil(m / 8) that travel on the wire"""
    return addr_bytes[(m + 7) // 8:]

def nlri_addr_bytes(n):
    a = n[1] if n[0] in (4, 6) else n[2] if n[0] in (14, 16) else n[3]
    return be32(a) if isinstance(a, int) else a

def wf_nlri(n):
    """n as printed by the harness: what the NLRI decoders guarantee"""
    t = n[0]
    if t in (4, 6, 14, 16, 24, 26):
        m = n[-1]
        if m <= (32 if t in (4, 14, 24) else 128) and any(host_octets(nlri_addr_bytes(n), m)):
            return 'address octets set beyond the %d-bit prefix (no decoder produces them)' % m
    if t == 4: return None if n[2] <= 32 and 0 <= n[1] < 2 ** 32 else 'IPv4 prefix length %d' % n[2]
    if t == 6: return None if n[2] <= 128 else 'IPv6 prefix length %d' % n[2]
    if t in (14, 16):
        ls, m = n[1], n[3]
        w = 32 if t == 14 else 128
        if m > w: return 'labeled prefix length %d > %d' % (m, w)
        if len(ls) == 0: return 'empty label stack'
        if any(not (0 <= l < 2 ** 20) for l in ls): return 'label outside 20 bits'
        if 24 * len(ls) + m > 255: return 'label stack of %d labels does not fit the one-octet NLRI length' % len(ls)
        return None
    if t in (24, 26):
        ls, rdb, m = n[1], n[2], n[4]
        w = 32 if t == 24 else 128
        if m > w: return 'VPN prefix length %d > %d' % (m, w)
        if len(ls) == 0: return 'empty label stack'
        if any(not (0 <= l < 2 ** 20) for l in ls): return 'label outside 20 bits'
        if 24 * len(ls) + 64 + m > 255: return 'label stack of %d labels does not fit the one-octet NLRI length' % len(ls)
        if len(rdb) != 8 or rdb[0] != 0 or rdb[1] > 2: return 'route distinguisher type'
        return None
    return 'unmodelled NLRI'

def rd_bytes(rd):
    t, a, b = rd
    if t == 0: return [0, 0] + be16(a) + be32(b)
    return [0, t] + be32(a) + be16(b)

# ---- "stored faithfully": the fields of an accepted message are the fields of the stored value
def api_rd_bytes(d):
    """the 8 octets an API route distinguisher denotes, or None when a field is out of range / the text is not an address"""
    if d[0] == 1: return [0, 0] + be16(d[1]) + be32(d[2]) if d[1] < 65536 else None
    if d[0] == 2:
        a = py_ip4(d[1])
        return [0, 1] + be32(a) + be16(d[2]) if a is not None and d[2] < 65536 else None
    if d[0] == 3: return [0, 2] + be32(d[1]) + be16(d[2]) if d[2] < 65536 else None
    return None

def py_ip4(bs):
    try:
        t = bytes(bs).decode('ascii')
    except Exception:
        return None
    parts = t.split('.')
    if len(parts) != 4: return None
    v = 0
    for q in parts:
        if not q.isdigit() or len(q) > 3 or (len(q) > 1 and q[0] == '0') or int(q) > 255 or not q.isascii(): return None
        v = v * 256 + int(q)
    return v

def unfaithful_attr(x, a):
    """x: the API message (expanded), a: the stored attribute as printed; why the stored value is not what the message says, or None"""
    t = x[0]
    p = a[3]
    if p and p[0] == -7: return None
    if t in (2, 5, 6): return None if p == [x[1]] else 'value %d stored as %d' % (x[1], p[0])
    if t == 8:
        ip = py_ip4(x[2])
        return None if ip is not None and p == be32(x[1]) + be32(ip) else 'AGGREGATOR fields differ from the message'
    if t == 9: return None if p == [b for v in x[1] for b in be32(v)] else 'COMMUNITIES differ from the message'
    if t == 21: return None if p == [b for tr in x[1] for v in tr for b in be32(v)] else 'LARGE_COMMUNITIES differ from the message'
    if t == 3:
        exp = []
        for ty, nums in x[1]: exp += [ty & 255, len(nums) & 255] + [b for v in nums for b in be32(v)]
        return None if p == exp and all(0 <= ty < 256 for ty, _ in x[1]) else 'AS_PATH differs from the message'
    if t == 10:
        ip = py_ip4(x[1]); return None if ip is not None and p == [ip] else 'ORIGINATOR_ID differs from the message'
    if t == 11:
        ips = [py_ip4(sx) for sx in x[1]]
        return None if None not in ips and p == [b for v in ips for b in be32(v)] else 'CLUSTER_LIST differs from the message'
    if t == 12:
        # MP_REACH built from the typed message: [afi:2][safi:1][nh_len:1][next hop][reserved], nh_len 0 only for flowspec
        if len(p) < 5 or len(p) != 5 + p[3]: return 'MP_REACH header: next-hop length %s does not match the value' % (p[3] if len(p) > 3 else '?')
        fam = (p[0] << 24) | (p[1] << 16) | p[2]
        if p[3] == 0 and fam not in (0x10085, 0x20085, 0x10086, 0x20086): return 'MP_REACH without a next hop for a family that needs one'
        if p[3] not in (0, 4, 16): return 'MP_REACH next-hop length %d' % p[3]
        if x[1] and (p[0] * 256 + p[1] != x[1][0] or p[2] != x[1][1]): return 'MP_REACH family %d/%d stored as %d/%d' % (x[1][0], x[1][1], p[0] * 256 + p[1], p[2])
        return None
    return None

def unfaithful_nlri(x, n):
    t = x[0]
    if t == 1: return None if n[2] == x[2] else 'prefix length %d stored as %d' % (x[2], n[2])
    if t in (2, 3):
        labels, m = n[1], n[-1]
        xl, xm = x[1], x[-1]
        if m != xm: return 'prefix length %d stored as %d' % (xm, m)
        if labels != xl: return 'labels %s stored as %s' % (xl[:4], labels[:4])
        if t == 3 and api_rd_bytes(x[2]) != n[2]: return 'route distinguisher of the message stored as other octets'
    return None

# ---- kind 8: API NLRI of flowspec / SR policy / RTC / MUP
def xnlri_modelled(c):
    return c['x'][0] in (10, 11, 12, 13, 14, 15, 16, 17)

def fs_rule_to_coq(r):
    if r[0] == 0: return 'FRMissing'
    if r[0] == 1: return '(FRPrefix %s %s %s %s)' % (cN(r[1]), cN(r[2]), cstr(r[3]), cN(r[4]))
    if r[0] == 2: return '(FRComp %s %s)' % (cN(r[1]), rlist(r[2], lambda o: '(%s, %s)' % (cN(o[0]), cN(o[1]))))
    return 'FRMac'

def api_rt_to_coq(rt):
    if not rt: return 'None'
    if rt[0] == 0: return '(Some RtMissing)'
    if rt[0] == 1: return '(Some (Rt2 %s %s %s %s))' % (cbool(rt[1]), cN(rt[2]), cN(rt[3]), cN(rt[4]))
    if rt[0] == 2: return '(Some (RtIp %s %s %s %s))' % (cbool(rt[1]), cN(rt[2]), cstr(rt[3]), cN(rt[4]))
    return '(Some (Rt4 %s %s %s %s))' % (cbool(rt[1]), cN(rt[2]), cN(rt[3]), cN(rt[4]))

def xnlri_to_coq(c):
    x, fam = c['x'], c['fam']
    if x[0] == 10: return 'run_api_fs_case %s (AFs %s)' % (cN(fam), rlist(x[1], fs_rule_to_coq))
    if x[0] == 11: return 'run_api_fs_case %s (AFsVpn %s %s)' % (cN(fam), api_rd_to_coq(x[1]), rlist(x[2], fs_rule_to_coq))
    if x[0] == 12: return 'run_api_srp_case %s (ASrP %s %s %s %s)' % (cN(fam), cN(x[1]), cN(x[2]), cN(x[3]), cbytes(x[4]))
    if x[0] == 13: return 'run_api_rtc_case %s (ARtc %s %s)' % (cN(fam), cN(x[1]), api_rt_to_coq(x[2]))
    if x[0] == 14: return 'run_api_mup_case %s (AMupIsd %s %s)' % (cN(fam), api_rd_to_coq(x[1]), cstr(x[2]))
    if x[0] == 15: return 'run_api_mup_case %s (AMupDsd %s %s)' % (cN(fam), api_rd_to_coq(x[1]), cstr(x[2]))
    if x[0] == 16: return 'run_api_mup_case %s (AMupT1 %s %s %s %s %s %s %s %s)' % (cN(fam), api_rd_to_coq(x[1]), cstr(x[2]), cN(x[3]), cN(x[4]), cN(x[5]), cstr(x[6]), cN(x[7]), cstr(x[8]))
    if x[0] == 17: return 'run_api_mup_case %s (AMupT2 %s %s %s %s)' % (cN(fam), api_rd_to_coq(x[1]), cN(x[2]), cstr(x[3]), cN(x[4]))
    raise ValueError(x)


# ---- kind 8, tag 18: LsAddrPrefix messages (BGP-LS NLRI from the API side; no model: oracle only)
LSF = (16388 << 16) | 71
def _lsn_ip4(b): return c17typed._ip4_ok(b)
def _lsn_ip6(b): return c17typed._ip6_ok(b)

def _igp_id_ok(b):
    if _lsn_ip4(b): return True
    try: t = bytes(b).decode('ascii')
    except UnicodeDecodeError: return False
    p = t.split('.')
    hexok = lambda s, n: len(s) == n and all(ch in '0123456789abcdefABCDEF' for ch in s)     # from_str_radix also takes a leading '+', which len() == n leaves no room for... except "+abc"
    if len(p) == 3: return all(hexok(q, 4) or (len(q) == 4 and q[0] == '+' and hexok(q[1:], 3)) for q in p)
    if len(p) == 4: return all(hexok(q, 4) or (len(q) == 4 and q[0] == '+' and hexok(q[1:], 3)) for q in p[:3]) and (hexok(p[3], 2) or (len(p[3]) == 2 and p[3][0] == '+' and hexok(p[3][1:], 1)))
    return False

def lsn_must_refuse(x):
    """why an LsAddrPrefix message cannot be stored faithfully (None when it can)"""
    _, typ, proto, ident, inner = x
    if not 0 <= proto <= 255: return 'protocol id %d' % proto
    if inner[0] == 0:
        return None if 0 <= typ <= 65535 else 'route type %d' % typ
    nodes = [inner[1]] + ([inner[2]] if inner[0] == 2 else [])
    for n in nodes:
        if not n: return None       # refused anyway (missing node)
        if n[4] and not _igp_id_ok(n[4]): return None      # refused by parse_igp_router_id
        if n[5] and not _lsn_ip4(n[5]): return None
    if inner[0] == 2 and inner[3]:
        d = inner[3]
        if (d[2] and not _lsn_ip4(d[2])) or (d[3] and not _lsn_ip4(d[3])): return 'link descriptor address that is not an IPv4 address'
        if (d[4] and not _lsn_ip6(d[4])) or (d[5] and not _lsn_ip6(d[5])): return 'link descriptor address that is not an IPv6 address'
    if inner[0] in (3, 4) and inner[2]:
        reach, ort = inner[2]
        if not 0 <= ort <= 255: return 'OSPF route type %d' % ort
        w = 32 if inner[0] == 3 else 128
        for r in reach:
            try: t = bytes(r).decode('ascii')
            except UnicodeDecodeError: return 'reachability text'
            if '/' not in t: return 'reachability entry without a length'
            a, ln = t.rsplit('/', 1)
            if not (_lsn_ip4(a.encode()) if w == 32 else _lsn_ip6(a.encode())): return 'reachability address of the wrong family / not an address'
            if not (ln.lstrip('+').isdigit() and ln.count('+') <= (1 if ln.startswith('+') else 0) and int(ln) <= 255): return 'reachability length text'
            if int(ln) > w: return 'reachability prefix length %s beyond %d' % (ln, w)
            import ipaddress
            v = int(ipaddress.ip_address(a))
            if v & ((1 << (w - 8 * ((int(ln) + 7) // 8))) - 1): return 'reachability address with octets beyond the prefix length'
    if inner[0] == 5:
        if inner[2] and any(not _lsn_ip6(s) for s in inner[2][0]): return 'SRv6 SID that is not an IPv6 address'
        if inner[3] and any(m > 0xffff for m in inner[3][0]): return 'multi-topology id beyond 16 bits'
        sids = inner[2][0] if inner[2] else []
        if inner[3] and inner[3][0] and len(inner[3][0]) != len(sids): return '%d multi-topology ids for %d SIDs' % (len(inner[3][0]), len(sids))
    return None

def xnlri_known_class(c, obs):
    """RTC values of the open class C17-rtc (as printed in the wire bytes of the accepted NLRI)"""
    b = obs[2]
    if c['x'][0] == 13 and isinstance(b, list) and b and b[0] != -1:
        if len(b) == 5 and b[0] == 32 and b[1:5] == [0, 0, 0, 0]: return 'C17-rtc'
        if len(b) == 13 and b[0] == 96 and (b[5] not in (0, 1, 2) or b[6] != 2): return 'C17-rtc'
    return None

FAM_OF_NLRI = {4: ((1 << 16) | 1, (1 << 16) | 2), 6: ((2 << 16) | 1, (2 << 16) | 2), 14: ((1 << 16) | 4,), 16: ((2 << 16) | 4,),
               24: ((1 << 16) | 128,), 26: ((2 << 16) | 128,)}

def xnlri_family_wrong(c):
    """an accepted message of kind 8 whose NLRI cannot belong to the family it was given with"""
    x, fam = c['x'], c['fam']
    E = c17enum
    if x[0] == 10: return fam not in (E.FS4, E.FS6)
    if x[0] == 11: return fam not in (E.FSV4, E.FSV6)
    if x[0] == 12: return fam != (E.SR4 if len(x[4]) == 4 else E.SR6)
    if x[0] == 13: return fam != E.RTCF
    if x[0] == 18: return fam != E.LSF
    return fam not in (E.MUP4, E.MUP6)

def xnlri_unfaithful(c, listed):
    """numeric fields of an accepted flowspec message against the API form listed for the stored value"""
    x = c['x']
    if x[0] not in (10, 11) or not isinstance(listed, list) or listed[0] != x[0]: return None
    mr, lr = x[-1], listed[-1]
    if len(mr) != len(lr): return 'flowspec: %d rules in the message, %d stored' % (len(mr), len(lr))
    for a, b in zip(mr, lr):
        if a[0] != b[0]: return 'flowspec rule kind changed'
        if a[0] == 1 and (a[1], a[2], a[4] if c['fam'] in (c17enum.FS6, c17enum.FSV6) else 0) != (b[1], b[2], b[4]):
            return 'flowspec prefix rule (type %d, len %d, offset %d) stored as (%d, %d, %d)' % (a[1], a[2], a[4], b[1], b[2], b[4])
        if a[0] == 2:
            if a[1] != b[1] or len(a[2]) != len(b[2]): return 'flowspec component type / operator count changed'
            for (o1, v1), (o2, v2) in zip(a[2], b[2]):
                if v1 != v2 or (o1 & 0x4f) != (o2 & 0x4f): return 'flowspec operator (%#x, %d) stored as (%#x, %d)' % (o1, v1, o2, v2)
    return None

def oracle_xnlri(c, obs):
    if obs[0] == 0:
        return None
    if xnlri_family_wrong(c):
        return 'an NLRI message was accepted for a family it cannot belong to (afi %d safi %d)' % (c['fam'] >> 16, c['fam'] & 0xffff)
    why = xnlri_unfaithful(c, obs[5])
    if why:
        return 'not stored faithfully: ' + why
    if c['x'][0] == 17 and isinstance(obs[2], list) and obs[2] and obs[2][0] != -1:
        x = expand(c['x'])
        w = 32 if c['fam'] == c17enum.MUP4 else 128
        want = 4 + 8 + 1 + w // 8 + (x[2] - w + 7) // 8
        if len(obs[2]) != want:
            return 'an accepted MUP Type 2 route with endpoint length %d is encoded in %d octets, not %d' % (x[2], len(obs[2]), want)
    if c['x'][0] == 16 and isinstance(obs[5], list) and obs[5] and obs[5][0] == 16:
        x = expand(c['x'])
        if (x[7] == 0 or not x[8]) and (obs[5][7] != 0 or obs[5][8]):
            return 'not stored faithfully: a MUP Type 1 route given without a source address is listed with one'
    why = c17held.mup_t1_listing_wrong(obs[5])
    if why:
        return 'an accepted MUP Type 1 route is not shown as it is: ' + why
    if c['x'][0] == 18:
        why = lsn_must_refuse(expand(c['x']))
        if why:
            return 'an LsAddrPrefix message that cannot be stored faithfully was accepted: ' + why
    text = bytes(obs[1]).decode('latin1')[:80]
    if obs[2] == [-1]: return 'an accepted NLRI panics its encoder: ' + text
    if obs[3] == [-1]: return 'an accepted NLRI panics the decoder when read back: ' + text
    if obs[5] == [-1]: return 'an accepted NLRI panics nlri_to_api: ' + text
    if obs[4] == [-1]: return 'an accepted NLRI panics net_from_api when listed and added again: ' + text
    cls = xnlri_known_class(c, obs)
    tag = 'xnlri[%s]: ' % cls if cls else 'xnlri: '
    if obs[3] != 1: return tag + 'an accepted NLRI does not decode back from its own wire encoding to the same value (not one a decoder can produce): ' + text
    if obs[4] != 0 and c['x'][0] == 18: tag = 'xnlri[C17-ls-nlri]: '      # the open class: a held BGP-LS NLRI (0 / "" mean absent in the API form)
    if obs[4] != 0: return tag + 'an accepted NLRI is %s when listed and added again: %s' % ('refused' if obs[4] == 2 else 'changed', text)
    return None

# ---- EVPN (kinds 6, 7)
def wf_evpn(e):
    """e as printed by the harness: what packet/src/evpn.rs decodes (24-bit labels, prefix length within
    the prefix's address width, gateway of the prefix's family)"""
    t = e[0]
    labels = [e[4]] if t == 1 else [e[6]] + e[7] if t == 2 else [e[7]] if t == 5 else []
    for l in labels:
        if l >= 2 ** 24: return 'EVPN label %d outside 24 bits' % l
    if t == 5:
        w = 32 if e[4][0] == 4 else 128
        if e[5] > w: return 'IP-prefix route: prefix length %d > %d' % (e[5], w)
        if e[4][0] != e[6][0]: return 'IP-prefix route: gateway of the other address family'
    return None

def ipx_to_val(i): return [4, i[1]] if i[0] == 4 else [6, v6bytes(i[1])]
def ipx_to_coq(i): return '(IP4 %s)' % cN(i[1]) if i[0] == 4 else '(IP6 %s)' % cN(i[1])

def evpn_to_valx(e, out=True):
    rd = (lambda r: rd_bytes(r) if out else list(r))
    t = e[0]
    if t == 1: return [1, rd(e[1]), e[2], e[3], e[4]]
    if t == 2: return [2, rd(e[1]), e[2], e[3], e[4], [ipx_to_val(e[5])] if e[5] else [], e[6], [e[7]] if e[7] is not None else []]
    if t == 3: return [3, rd(e[1]), e[2], ipx_to_val(e[3])]
    if t == 4: return [4, rd(e[1]), e[2], ipx_to_val(e[3])]
    return [5, rd(e[1]), e[2], e[3], ipx_to_val(e[4]), e[5], ipx_to_val(e[6]), e[7]]

def evpn_to_coq(e):
    t = e[0]
    if t == 1: return '(EvAd %s %s %s %s)' % (rd_to_coq(e[1]), cbytes(e[2]), cN(e[3]), cN(e[4]))
    if t == 2: return '(EvMac %s %s %s %s %s %s %s)' % (rd_to_coq(e[1]), cbytes(e[2]), cN(e[3]), cbytes(e[4]),
                                                       '(Some %s)' % ipx_to_coq(e[5]) if e[5] else 'None', cN(e[6]),
                                                       '(Some %s)' % cN(e[7]) if e[7] is not None else 'None')
    if t == 3: return '(EvImet %s %s %s)' % (rd_to_coq(e[1]), cN(e[2]), ipx_to_coq(e[3]))
    if t == 4: return '(EvEs %s %s %s)' % (rd_to_coq(e[1]), cbytes(e[2]), ipx_to_coq(e[3]))
    return '(EvPfx %s %s %s %s %s %s %s)' % (rd_to_coq(e[1]), cbytes(e[2]), cN(e[3]), ipx_to_coq(e[4]), cN(e[5]), ipx_to_coq(e[6]), cN(e[7]))

def api_esi_to_coq(e): return 'None' if not e else '(Some (%s, %s))' % (cN(e[0]), cbytes(e[1]))

def api_evpn_to_coq(x):
    t = x[0]
    if t == 1: return '(AEvAd %s %s %s %s)' % (api_rd_to_coq(x[1]), api_esi_to_coq(x[2]), cN(x[3]), cN(x[4]))
    if t == 2: return '(AEvMac %s %s %s %s %s %s)' % (api_rd_to_coq(x[1]), api_esi_to_coq(x[2]), cN(x[3]), cstr(x[4]), cstr(x[5]), clist([cN(l) for l in x[6]]))
    if t == 3: return '(AEvImet %s %s %s)' % (api_rd_to_coq(x[1]), cN(x[2]), cstr(x[3]))
    if t == 4: return '(AEvEs %s %s %s)' % (api_rd_to_coq(x[1]), api_esi_to_coq(x[2]), cstr(x[3]))
    return '(AEvPfx %s %s %s %s %s %s %s)' % (api_rd_to_coq(x[1]), api_esi_to_coq(x[2]), cN(x[3]), cstr(x[4]), cN(x[5]), cstr(x[6]), cN(x[7]))

GOOD_MAC = ['00:00:5e:00:01:01', 'ff:ff:ff:ff:ff:ff', '0:1:2:3:4:5', 'AA:bb:Cc:dd:EE:0f', '+a:00:00:00:00:01', '000a:0:0:0:0:0']
BAD_MAC = ['', '00:00:5e:00:01', '00:00:5e:00:01:01:02', '00:00:5e:00:01:1g', '100:0:0:0:0:0', '00-00-5e-00-01-01', '0:1:2:3:4:', ':1:2:3:4:5',
           '-1:0:0:0:0:0', '+:0:0:0:0:0', '0x1:0:0:0:0:0', ' 0:1:2:3:4:5', '0:1:2:3:4:5 ']

def gen_api_esi(rng):
    x = rng.random()
    if x < 0.08: return []
    n = 9 if rng.random() < 0.85 else rng.choice([0, 8, 10])
    return [rng.choice([0, 0, 1, 3, 5, 255]) if rng.random() < 0.9 else rng.choice([256, 257, 2 ** 32 - 1]), [rng.choice([0, 0, 1, 255, rng.randrange(256)]) for _ in range(n)]]

def evlabel(rng):
    return rng.choice([0, 100, 5000, 2 ** 24 - 1]) if rng.random() < 0.85 else rng.choice([2 ** 24, 2 ** 24 + 100, 2 ** 32 - 1])

def gen_api_evpn_case(rng):
    t = rng.choice([1, 2, 2, 3, 4, 5, 5])
    rd = gen_api_rd(rng) if rng.random() < 0.5 else [1, 65000, 1]
    esi = gen_api_esi(rng) if rng.random() < 0.5 else [0, [0] * 9]
    etag = rng.choice([0, 1, 100, 2 ** 32 - 1])
    if t == 1: x = [1, rd, esi, etag, evlabel(rng)]
    elif t == 2:
        mac = S(rng.choice(GOOD_MAC)) if rng.random() < 0.75 else S(rng.choice(BAD_MAC))
        ip = [] if rng.random() < 0.3 else ipstr(rng, 0.1)
        labels = [evlabel(rng) for _ in range(rng.choice([1, 1, 2, 2, 0, 3]))]
        x = [2, rd, esi, etag, mac, ip, labels]
    elif t == 3: x = [3, rd, etag, ipstr(rng, 0.15)]
    elif t == 4: x = [4, rd, esi, ipstr(rng, 0.15)]
    else:
        pfx = ipstr(rng, 0.1)
        gw = rng.choice([[], [], ipstr(rng, 0.1), S('0.0.0.0'), S('::')])
        x = [5, rd, esi, etag, pfx, rng.choice([0, 8, 24, 32, 33, 64, 128, 129, 255, 256, 300]), gw, evlabel(rng)]
    return {'k': 6, 'api': x}

def gen_ipx(rng, v6=None):
    v6 = rng.random() < 0.4 if v6 is None else v6
    return (6, v6_rand(rng)) if v6 else (4, u32(rng))

def gen_evpn_case(rng):
    t = rng.choice([1, 2, 2, 3, 4, 5, 5])
    rt = rng.choice([0, 1, 2])
    rd = [rt, rng.choice([0, 1, 65535]) if rt == 0 else u32(rng), u32(rng) if rt == 0 else rng.choice([0, 7, 65535])]
    esi = rng.choice([[0] * 10, [rng.choice([0, 1, 5, 255])] + [rng.randrange(256) for _ in range(9)]])
    etag = rng.choice([0, 1, 100, 2 ** 32 - 1])
    lab = lambda: rng.choice([0, 100, 5000, 2 ** 24 - 1, rng.randrange(2 ** 24)])
    if t == 1: e = [1, rd, esi, etag, lab()]
    elif t == 2:
        e = [2, rd, esi, etag, [rng.choice([0, 1, 0x5e, 255, rng.randrange(256)]) for _ in range(6)],
             None if rng.random() < 0.3 else gen_ipx(rng), lab(), lab() if rng.random() < 0.4 else None]
    elif t == 3: e = [3, rd, etag, gen_ipx(rng)]
    elif t == 4: e = [4, rd, esi, gen_ipx(rng)]
    else:
        pfx = gen_ipx(rng)
        w = 32 if pfx[0] == 4 else 128
        gw = rng.choice([(pfx[0], 0), gen_ipx(rng, pfx[0] == 6)])
        e = [5, rd, esi, etag, pfx, rng.choice([0, 8, 24, 32, w]), gw, lab()]
    return {'k': 7, 'e': e}

# ---- failing-input classes of the wide part (decidable on what the harness prints of the failing item)
RTC_FAM, LS_FAM, EVPN_FAM = (1 << 16) | 132, (16388 << 16) | 71, (25 << 16) | 70

def wide_attr_class(a):
    """a = [code, flags, kind, status, attr...]"""
    if a[3] == 3 and a[0] in CANON and a[1] != CANON[a[0]]:
        return 'C17-flags'
    return None

def wide_nlri_class(n):
    """n = [family, status, text, wire bytes, ...]"""
    fam, b = n[0], n[3]
    if fam == RTC_FAM:
        if len(b) == 5 and b[0] == 32 and b[1:5] == [0, 0, 0, 0]:
            return 'C17-rtc'                      # origin AS 0 with any route target
        if len(b) == 13 and b[0] == 96 and (b[5] not in (0, 1, 2) or b[6] != 2):
            return 'C17-rtc'                      # a route target the API's three typed forms cannot express
    if fam == LS_FAM:
        return 'C17-ls-nlri'
    if fam == EVPN_FAM and len(b) > 24 and b[0] == 5 and b[1] in (34, 58):
        if b[24] > (32 if b[1] == 34 else 128):
            return 'C17-evpn5-len'                # IP-prefix route longer than its address (accepted by the decoder)
    return None

# ---------------------------------------------------------------- rendering API values as Gallina
def cstr(bs): return cbytes(bs)

def extcom_to_coq(x):
    t = x[0]
    if t == 0: return 'XMissing'
    if t == 1: return '(XTwoOctet %s %s %s %s)' % (cbool(x[1]), cN(x[2]), cN(x[3]), cN(x[4]))
    if t == 2: return '(XIpv4 %s %s %s %s)' % (cbool(x[1]), cN(x[2]), cstr(x[3]), cN(x[4]))
    if t == 3: return '(XFourOctet %s %s %s %s)' % (cbool(x[1]), cN(x[2]), cN(x[3]), cN(x[4]))
    if t == 4: return '(XMup %s %s %s)' % (cN(x[1]), cN(x[2]), cN(x[3]))
    if t == 5: return '(XUnknown %s %s)' % (cN(x[1]), cbytes(x[2]))
    if t == 6: return '(XTrafficRate %s %s)' % (cN(x[1]), cN(x[2]))
    if t == 7: return '(XTrafficAction %s %s)' % (cbool(x[1]), cbool(x[2]))
    if t == 8: return '(XRedirect2 %s %s)' % (cN(x[1]), cN(x[2]))
    if t == 9: return '(XTrafficRemark %s)' % cN(x[1])
    if t == 10: return '(XRedirectIp4 %s %s)' % (cstr(x[1]), cN(x[2]))
    if t == 11: return '(XRedirect4 %s %s)' % (cN(x[1]), cN(x[2]))
    return 'XUnsupported'

def is_rep(l): return isinstance(l, list) and len(l) == 3 and l[0] == 'rep'

def expand(x):
    """['rep', item, n] -> n copies of item, recursively"""
    if isinstance(x, list):
        if is_rep(x): return [expand(x[1])] * x[2]
        return [expand(y) for y in x]
    return x

def rlist(l, render):
    if is_rep(l): return '(N.iter %d%%N (cons %s) [])' % (l[2], render(l[1]))
    return clist([render(y) for y in l])

def api_to_coq(x):
    t = x[0]
    if t == 0: return 'AMissing'
    if t == 1: return '(AUnknown %s %s %s)' % (cN(x[1]), cN(x[2]), rlist(x[3], cN))
    if t == 2: return '(AOrigin %s)' % cN(x[1])
    if t == 3: return '(AAsPath %s)' % rlist(x[1], lambda s: '(%s, %s)' % (cZ(s[0]), rlist(s[1], cN)))
    if t == 4: return '(ANextHop %s)' % cstr(x[1])
    if t == 5: return '(AMed %s)' % cN(x[1])
    if t == 6: return '(ALocalPref %s)' % cN(x[1])
    if t == 7: return 'AAtomicAggregate'
    if t == 8: return '(AAggregator %s %s)' % (cN(x[1]), cstr(x[2]))
    if t == 9: return '(ACommunities %s)' % rlist(x[1], cN)
    if t == 10: return '(AOriginatorId %s)' % cstr(x[1])
    if t == 11: return '(AClusterList %s)' % rlist(x[1], cstr)
    if t == 14: return '(AExtCommunities %s)' % rlist(x[1], extcom_to_coq)
    if t == 21: return '(ALargeCommunities %s)' % rlist(x[1], lambda t3: '(%s, %s, %s)' % (cN(t3[0]), cN(t3[1]), cN(t3[2])))
    if t == 12: return '(AMpReach %s %s)' % ('(Some (%s, %s))' % (cN(x[1][0]), cN(x[1][1])) if x[1] else 'None', clist([cstr(n) for n in x[2]]))
    return 'AOther'

def v6bytes(a): return [(a >> (8 * (15 - k))) & 255 for k in range(16)]

def nlri_to_valx(n, out=True):
    """the harness value of an internal NLRI: as printed (out, RD as its 8 bytes) or as given (RD as [type, admin, assigned])"""
    if n[0] == 6: return [6, v6bytes(n[1]), n[2]]
    if n[0] == 16: return [16, n[1], v6bytes(n[2]), n[3]]
    if n[0] in (24, 26):
        rd = rd_bytes(n[2]) if out else list(n[2])
        return [n[0], n[1], rd, n[3] if n[0] == 24 else v6bytes(n[3]), n[4]]
    return n

def rd_to_coq(rd):
    return '(%s %s %s)' % (['RD2', 'RDIp', 'RD4'][rd[0]], cN(rd[1]), cN(rd[2]))

def api_rd_to_coq(d):
    if d[0] == 0: return 'ARdMissing'
    if d[0] == 1: return '(ARd2 %s %s)' % (cN(d[1]), cN(d[2]))
    if d[0] == 2: return '(ARdIp %s %s)' % (cstr(d[1]), cN(d[2]))
    return '(ARd4 %s %s)' % (cN(d[1]), cN(d[2]))

def nlri_to_coq(n):
    if n[0] == 4: return '(NV4 %s %s)' % (cN(n[1]), cN(n[2]))
    if n[0] == 6: return '(NV6 %s %s)' % (cN(n[1]), cN(n[2]))
    if n[0] == 14: return '(NLab4 %s %s %s)' % (clist([cN(l) for l in n[1]]), cN(n[2]), cN(n[3]))
    if n[0] == 16: return '(NLab6 %s %s %s)' % (clist([cN(l) for l in n[1]]), cN(n[2]), cN(n[3]))
    if n[0] in (24, 26): return '(%s %s %s %s %s)' % ('NVpn4' if n[0] == 24 else 'NVpn6', clist([cN(l) for l in n[1]]), rd_to_coq(n[2]), cN(n[3]), cN(n[4]))
    raise ValueError(n)

def api_nlri_to_coq(x):
    if x[0] == 0: return 'PMissing'
    if x[0] == 1: return '(PPrefix %s %s)' % (cstr(x[1]), cN(x[2]))
    if x[0] == 2: return '(PLabeled %s %s %s)' % (clist([cN(l) for l in x[1]]), cstr(x[2]), cN(x[3]))
    if x[0] == 3: return '(PVpn %s %s %s %s)' % (clist([cN(l) for l in x[1]]), api_rd_to_coq(x[2]), cstr(x[3]), cN(x[4]))
    return 'POther'

API_NAMES = {12: 'mp_reach', 0: 'missing', 1: 'unknown', 2: 'origin', 3: 'as_path', 4: 'next_hop', 5: 'med', 6: 'local_pref',
             7: 'atomic_aggregate', 8: 'aggregator', 9: 'communities', 10: 'originator_id', 11: 'cluster_list',
             14: 'ext_communities', 21: 'large_communities', 99: 'other'}

# ---------------------------------------------------------------- generators
U32_EDGE = [0, 1, 2, 3, 100, 255, 256, 65535, 65536, 0xFFFF0006, 0xFFFF0007, 2 ** 31, 2 ** 32 - 1]
GOOD_IP4 = ['0.0.0.0', '10.0.0.1', '192.0.2.1', '255.255.255.255', '1.2.3.4', '100.20.3.0', '9.99.199.249']
BAD_IP4 = ['', '1.2.3', '1.2.3.4.5', '01.2.3.4', '1.2.3.04', '256.1.1.1', '1.2.3.256', '1.2.3.4 ', ' 1.2.3.4',
           'a.b.c.d', '1..2.3', '.1.2.3', '1.2.3.', '1.2.3.4.', '1234.1.1.1', '1.2.3.-4', '+1.2.3.4', '1.2.3.4/8',
           '00.0.0.0', '0.0.0.00', '1,2,3,4', '999.999.999.999', 'localhost', '1.2.3.4\n', '0x1.2.3.4', '1.2.3.1e1']

def u32(rng):
    return rng.choice(U32_EDGE) if rng.random() < 0.5 else rng.randrange(2 ** 32)

def ip4str(rng, p_bad=0.25):
    if rng.random() < p_bad:
        return S(rng.choice(BAD_IP4))
    if rng.random() < 0.5:
        return S(rng.choice(GOOD_IP4))
    return ip4s(rng.randrange(2 ** 32))

def seg_bytes(t, nums):
    b = [t & 255, len(nums) & 255]
    for n in nums: b += be32(n)
    return b

def gen_as_path_bytes(rng):
    b = []
    for _ in range(rng.choice([0, 1, 1, 2, 3])):
        t = rng.choice([1, 2, 2, 2, 3, 4]) if rng.random() < 0.9 else rng.choice([0, 5, 6, 255])
        n = rng.choice([0, 1, 1, 2, 3, 5, 255]) if rng.random() < 0.9 else rng.randrange(256)
        b += seg_bytes(t, [rng.choice([64512, 65001, 23456, 4200000000, 1]) for _ in range(n)])
    x = rng.random()
    if x < 0.10 and b: b = b[:rng.randrange(len(b))]
    elif x < 0.15: b = b + [rng.randrange(256) for _ in range(rng.randrange(1, 4))]
    return b

EXTCOM_TYPES = [0x00, 0x40, 0x01, 0x41, 0x02, 0x42, 0x0c, 0x4c, 0x80, 0xc0, 0x81, 0xc1, 0x82, 0xc2, 0x03, 0x06, 0x43, 0x90, 0xff]
def gen_extcom_chunk(rng):
    t = rng.choice(EXTCOM_TYPES) if rng.random() < 0.9 else rng.randrange(256)
    s = rng.choice([0, 2, 3, 6, 7, 8, 9, 10, 255]) if rng.random() < 0.9 else rng.randrange(256)
    body = [rng.choice([0, 0, 1, 63, 64, 255, rng.randrange(256)]) for _ in range(6)]
    return [t, s] + body

def gen_wire_value(rng, code):
    """value bytes for a wire attribute of this code: mostly valid, boundaries, some malformed"""
    bad = rng.random() < 0.2
    if code == ORIGIN:
        return rng.choice([[0], [1], [2]]) if not bad else rng.choice([[3], [255], [], [0, 0], [2, 0]])
    if code in (MED, LOCAL_PREF, ORIGINATOR_ID):
        return be32(u32(rng)) if not bad else rng.choice([[], [1, 2, 3], [1, 2, 3, 4, 5]])
    if code in (AS_PATH, AS4_PATH):
        return gen_as_path_bytes(rng)
    if code == ATOMIC:
        return [] if not bad else [0]
    if code in (AGGREGATOR, AS4_AGGREGATOR):
        n = rng.choice([6, 8, 8]) if not bad else rng.choice([0, 4, 5, 7, 9, 12])
        return [rng.randrange(256) for _ in range(n)]
    if code in (COMMUNITY, CLUSTER_LIST):
        k = rng.choice([0, 1, 1, 2, 3, 5, 64, 70])
        b = []
        for _ in range(k): b += be32(u32(rng))
        if bad: b += [1] * rng.randrange(1, 4)
        return b
    if code == LARGE_COMMUNITY:
        k = rng.choice([0, 1, 2, 3, 22])
        b = []
        for _ in range(3 * k): b += be32(u32(rng))
        if bad: b += [1] * rng.randrange(1, 12)
        return b
    if code == EXT_COMMUNITY:
        k = rng.choice([0, 1, 1, 2, 3, 4, 33])
        b = []
        for _ in range(k): b += gen_extcom_chunk(rng)
        if bad: b += [1] * rng.randrange(1, 8)
        return b
    if code == NEXTHOP:
        return be32(u32(rng)) if not bad else [1] * rng.choice([0, 3, 5, 16, 32])
    return [rng.randrange(256) for _ in range(rng.choice([0, 1, 2, 5, 17, 40]))]

WIRE_CODES = [ORIGIN, AS_PATH, MED, LOCAL_PREF, ATOMIC, AGGREGATOR, COMMUNITY, ORIGINATOR_ID, CLUSTER_LIST,
              EXT_COMMUNITY, LARGE_COMMUNITY, AIGP]
WIRE_SPECIAL = [NEXTHOP, MP_REACH, MP_UNREACH, AS4_PATH, AS4_AGGREGATOR]
UNKNOWN_CODES = [0, 11, 12, 13, 19, 20, 21, 22, 24, 25, 27, 28, 30, 31, 33, 39, 41, 100, 128, 254, 255]

def gen_wire_case(rng, code=None):
    if code is None:
        x = rng.random()
        code = rng.choice(WIRE_CODES) if x < 0.75 else rng.choice(UNKNOWN_CODES) if x < 0.92 else rng.choice(WIRE_SPECIAL)
    data = gen_wire_value(rng, code)
    x = rng.random()
    if code in CANON:
        flags = CANON[code]
        if x < 0.12: flags |= PARTIAL
        elif x < 0.20: flags |= rng.randrange(1, 16)
        elif x < 0.26: flags ^= rng.choice([T, O, T | O])
    else:
        flags = rng.choice([T | O, T | O, T | O | PARTIAL, O, T, 0, T | O | 5])
    if len(data) > 255 or rng.random() < 0.08:
        flags |= EXT
    return {'k': 0, 'flags': flags, 'code': code, 'data': data}

GOOD_IP6 = ['::', '::1', '2001:db8::1', 'fe80::1', '2001:db8:0:0:1:0:0:1', '1:2:3:4:5:6:7:8', '::ffff:1.2.3.4', '::1.2.3.4',
            '1:2:3:4:5:6:1.2.3.4', 'FFFF::', '2001:DB8::A', '1::', '1:2:3:4:5:6:7::', '::2:3:4:5:6:7:8', '0:0:0:0:0:0:0:0',
            '00a:0:0:0:0:0:0:1', '::ffff:102:304', '1::8', '1:0:0:4::8', 'ffff:ffff:ffff:ffff:ffff:ffff:ffff:ffff']
BAD_IP6 = [':', ':::', '1:::2', '1:2:3:4:5:6:7', '1:2:3:4:5:6:7:8:9', '12345::', 'g::', '::1::', ':1', '1:', '1::2::3', '::1.2.3',
           '1.2.3.4::', '1:2:3:4:5:6:7:1.2.3.4', '::ffff:1.2.3.4.5', '1:2:3:4:5:6:7:8::', '::1:2:3:4:5:6:7:8', '2001:db8::1/64',
           '::%eth0', ' ::1', '1:2:3:4:5:1.2.3.4:7', '::01.2.3.4', '::256.1.1.1', '1:2:3:4:5:6:7:', '::1 ', '[::1]']

def v6_rand(rng):
    x = rng.random()
    if x < 0.3: return rng.choice([0, 1, 0xffff01020304, 0x20010db8 << 96, (0x20010db8 << 96) | 1, 2 ** 128 - 1, 0xfe80 << 112 | 0x1])
    groups = [rng.choice([0, 0, 0, 1, 0xa, 0xdb8, 0x2001, 0xffff, rng.randrange(65536)]) for _ in range(8)]
    a = 0
    for g in groups: a = (a << 16) | g
    return a

def ipstr(rng, p_bad=0.2):
    x = rng.random()
    if x < p_bad: return S(rng.choice(BAD_IP4 + BAD_IP6))
    if x < p_bad + 0.4 * (1 - p_bad): return ip4str(rng, 0)
    return S(rng.choice(GOOD_IP6))

def gen_api_rd(rng):
    t = rng.choice([1, 1, 2, 3, 0])
    v16 = lambda: rng.choice([0, 1, 65000, 65535]) if rng.random() < 0.85 else rng.choice([65536, 2 ** 32 - 1])
    if t == 0: return [0]
    if t == 1: return [1, v16(), u32(rng)]
    if t == 2: return [2, ip4str(rng, 0.15), v16()]
    return [3, u32(rng), v16()]

def gen_api_nlri_case(rng):
    v = rng.choice([1, 1, 1, 2, 2, 2, 3, 3, 3, 0])
    if v == 0: return {'k': 2, 'api': [0]}
    s = ipstr(rng)
    if rng.random() < 0.05: s = s + S('/8')
    ln = rng.choice([0, 1, 8, 24, 31, 32, 33, 64, 127, 128, 129, 255, 256, 257, 288, 300, 2 ** 32 - 1])
    if v == 1: return {'k': 2, 'api': [1, s, ln]}
    nl = rng.choice([0, 1, 1, 1, 2, 3, 5, 6, 7, 8, 9, 10, 11, 40])
    labels = [rng.choice([0, 3, 100, 2 ** 20 - 1, 2 ** 20, 2 ** 32 - 1, rng.randrange(2 ** 20)]) for _ in range(nl)]
    if v == 3: return {'k': 2, 'api': [3, labels, gen_api_rd(rng), s, ln]}
    return {'k': 2, 'api': [2, labels, s, ln]}

def gen_nlri_case(rng):
    t = rng.choice([4, 4, 6, 6, 14, 16, 24, 26])
    bad = rng.random() < 0.08
    if t in (4, 14, 24):
        m = rng.choice([0, 1, 8, 9, 24, 31, 32]) if not bad else rng.choice([33, 40, 255])
        a = u32(rng)
    else:
        m = rng.choice([0, 1, 32, 48, 64, 127, 128]) if not bad else rng.choice([129, 200, 255])
        a = v6_rand(rng)
    if rng.random() < 0.9 and m <= (32 if t in (4, 14, 24) else 128):
        w = 4 if t in (4, 14, 24) else 16
        a = a >> (8 * (w - (m + 7) // 8)) << (8 * (w - (m + 7) // 8))
    if t in (4, 6): return {'k': 3, 'n': [t, a, m]}
    nl = rng.choice([1, 1, 2, 3, 5]) if not bad else rng.choice([0, 11])
    if t in (24, 26) and not bad: nl = rng.choice([1, 1, 2]) if m > 100 else nl
    labels = [rng.choice([0, 3, 100, 2 ** 20 - 1, rng.randrange(2 ** 20)]) for _ in range(nl)]
    if t in (24, 26):
        rt = rng.choice([0, 1, 2])
        rd = (rt, rng.choice([0, 1, 65535]) if rt == 0 else u32(rng), u32(rng) if rt == 0 else rng.choice([0, 7, 65535]))
        return {'k': 3, 'n': [t, labels, list(rd), a, m]}
    return {'k': 3, 'n': [t, labels, a, m]}

def gen_local_path_case(rng):
    fam = rng.choice([-1, -1, (1 << 16) | 1, (2 << 16) | 1, (1 << 16) | 4, (1 << 16) | 133, (2 << 16) | 133, (25 << 16) | 70])
    n = gen_api_nlri_case(rng)['api'] if rng.random() < 0.4 else [1, S(rng.choice(['10.0.0.0', '192.0.2.0', '2001:db8::'])), rng.choice([8, 24, 32])]
    attrs = []
    for _ in range(rng.choice([0, 1, 2, 3, 4, 6])):
        x = rng.random()
        if x < 0.55:
            a = gen_api_case(rng, rng.choice([2, 3, 4, 5, 6, 7, 8, 9, 10, 11, 14, 21]))['api']
            # mostly acceptable messages, so that whole paths get through
            if rng.random() < 0.7:
                if a[0] == 2: a = [2, rng.choice([0, 1, 2])]
                elif a[0] == 4: a = [4, S(rng.choice(GOOD_IP4 + ['2001:db8::1', '::1']))]
                elif a[0] in (8, 10): a = a[:-1] + [S(rng.choice(GOOD_IP4))]
                elif a[0] == 3: a = [3, [[rng.choice([1, 2, 3, 4]), [65001] * rng.choice([0, 1, 3])] for _ in range(rng.choice([0, 1, 2]))]]
        elif x < 0.75:
            # MP_REACH given as raw bytes: [afi:2][safi:1][nh_len:1][nexthop][reserved]
            nh = rng.choice([[], [192, 0, 2, 1], [0x20, 1] + [0] * 13 + [1], [0x20, 1] + [0] * 13 + [1] + [0] * 16,
                             [0x20, 1] + [0] * 13 + [1] + [0xfe, 0x80] + [0] * 13 + [2], [1, 2, 3], [0] * 12])
            ln = len(nh) if rng.random() < 0.85 else rng.choice([0, 4, 16, 33, 255])
            b = [0, 1, rng.choice([1, 133]), ln] + nh + ([0] if rng.random() < 0.9 else [])
            if rng.random() < 0.1: b = b[:rng.choice([0, 2, 3, 4])]
            a = [1, 0, 14, b]
        else:
            a = gen_api_case(rng)['api']
            if a[0] == 9 and a[1] and a[1][0] == 'rep': a = [9, [1, 2]]
        attrs.append(a)
    return {'k': 5, 'fam': fam, 'nlri': n, 'attrs': attrs, 'id': rng.choice([0, 1, 7, 2 ** 32 - 1])}

def gen_xnlri_case(rng):
    """random API NLRI messages of the flowspec / SR policy / RTC / MUP families (kind 8, oracle only)"""
    E = c17enum
    t = rng.choice([10, 10, 10, 11, 12, 13, 14, 15, 16, 17])
    rdv = gen_api_rd(rng) if rng.random() < 0.3 else [1, 65000, 1]
    def rules(v6):
        out = []
        for ty in sorted(rng.sample(range(1, 14 if v6 else 13), rng.choice([1, 1, 2, 3, 5]))):
            if ty in (1, 2):
                w = 128 if v6 else 32
                m = rng.choice([0, 8, 16, 24, w]) if rng.random() < 0.85 else rng.choice([w + 1, 255, 256, 300])
                base = rng.choice(['2001:db8::', '::', 'ff00::']) if v6 else rng.choice(['10.0.0.0', '0.0.0.0', '192.168.0.0', '10.1.2.3'])
                out.append([1, ty, m, S(base), rng.choice([0, 0, 8, 255, 256]) if v6 else 0])
            else:
                n = rng.choice([1, 1, 2, 3, 0])
                ops = [[rng.choice([0x01, 0x02, 0x03, 0x05, 0x41, 0x45, 0x11, 0x100]), rng.choice([0, 6, 17, 255, 256, 65535, 65536, 2 ** 32, 2 ** 64 - 1])] for _ in range(n)]
                x = rng.random()
                if ops and x < 0.6: ops[-1][0] |= 0x80
                elif ops and x < 0.7: ops[0][0] |= 0x80
                out.append([2, ty, ops])
        if rng.random() < 0.05: out.append(rng.choice([[0], [3], [2, 99, [[0x81, 1]]]]))
        return out
    if t in (10, 11):
        fam = rng.choice([E.FS4, E.FS6] if t == 10 else [E.FSV4, E.FSV6])
        if rng.random() < 0.08: fam = rng.choice([E.V4U, E.FS4, E.FS6, E.FSV4, E.FSV6])
        v6 = fam in (E.FS6, E.FSV6)
        x = [10, rules(v6)] if t == 10 else [11, rdv, rules(v6)]
    elif t == 12:
        v6 = rng.random() < 0.5
        fam = E.SR6 if v6 else E.SR4
        if rng.random() < 0.1: fam = rng.choice([E.SR4, E.SR6, E.V4U])
        x = [12, rng.choice([96, 192, 0]), u32(rng), u32(rng), [rng.randrange(256) for _ in range(rng.choice([4, 16] if rng.random() < 0.9 else [0, 5, 32]))]]
    elif t == 13:
        fam = E.RTCF
        rt = rng.choice([[], [], [1, 1, 2, rng.choice([0, 65000, 65535, 65536]), u32(rng)], [2, 1, 2, ip4str(rng, 0.1), rng.choice([0, 65535, 65536])],
                         [3, 1, 2, u32(rng), rng.choice([0, 65535, 65536])], [1, 0, 2, 1, 1], [1, 1, 3, 1, 1], [0]])
        x = [13, rng.choice([0, 1, 65001, 2 ** 32 - 1]), rt]
    else:
        v6 = rng.random() < 0.5
        fam = E.MUP6 if v6 else E.MUP4
        if rng.random() < 0.1: fam = rng.choice([E.MUP4, E.MUP6, E.V4U])
        w = 128 if v6 else 32
        p = rng.choice(['2001:db8::', '::', '2001:db8::1']) if v6 else rng.choice(['10.0.0.0', '0.0.0.0', '10.0.0.1'])
        a = rng.choice(['2001:db8::1', '::1']) if v6 else rng.choice(['192.0.2.1', '10.0.0.1'])
        pl = rng.choice([0, 8, 24, w]) if rng.random() < 0.85 else rng.choice([w + 1, 255, 256])
        if t == 14: x = [14, rdv, S('%s/%d' % (p, pl))]
        elif t == 15: x = [15, rdv, S(a)]
        elif t == 16: x = [16, rdv, S('%s/%d' % (p, pl)), u32(rng), rng.choice([0, 9, 255, 256]), w, S(a), rng.choice([0, w]), S(rng.choice(['', a]))]
        else:
            el = rng.choice([w, w + 8, w + 16, w + 32]) if rng.random() < 0.8 else rng.choice([0, w - 1, w + 33, 255, 256])
            teid = u32(rng) if rng.random() < 0.4 else (u32(rng) >> (32 - min(32, max(0, el - w)))) << (32 - min(32, max(0, el - w))) if el > w else 0
            x = [17, rdv, el, S(a), teid & 0xffffffff]
    return {'k': 8, 'fam': fam, 'x': x}

def gen_extcom_api(rng):
    t = rng.choice([1, 1, 2, 2, 3, 3, 4, 5, 6, 7, 8, 9, 10, 11, 0, 99])
    b = lambda: rng.random() < 0.5
    sub = lambda: rng.choice([0, 2, 3, 255]) if rng.random() < 0.85 else rng.choice([256, 2 ** 32 - 1])
    v16 = lambda: rng.choice([0, 1, 65000, 65535]) if rng.random() < 0.85 else rng.choice([65536, 2 ** 32 - 1])
    if t == 1: return [1, int(b()), sub(), v16(), u32(rng)]
    if t == 2: return [2, int(b()), sub(), ip4str(rng, 0.15), v16()]
    if t == 3: return [3, int(b()), sub(), u32(rng), v16()]
    if t == 4: return [4, sub(), v16(), u32(rng)]
    if t == 5:
        n = 8 if rng.random() < 0.8 else rng.choice([0, 7, 9, 16])
        return [5, rng.choice([0, 3, 128, 255, 300]), [rng.randrange(256) for _ in range(n)]]
    if t == 6: return [6, v16(), rng.choice([0, 0x3f800000, 0x7fc00000, 0x7f800001, 0xffc00001, 0x80000000, u32(rng)])]
    if t == 7: return [7, int(b()), int(b())]
    if t == 8: return [8, v16(), u32(rng)]
    if t == 9: return [9, rng.choice([0, 1, 63, 64, 255, 256, 2 ** 32 - 1])]
    if t == 10: return [10, ip4str(rng, 0.15), v16()]
    if t == 11: return [11, u32(rng), v16()]
    return [t]

UNKNOWN_API_TYPES = [0, 1, 2, 3, 4, 5, 6, 7, 8, 9, 10, 14, 15, 16, 17, 18, 26, 32, 11, 22, 99, 200, 255, 256, 257, 258, 263, 511, 65537]

def gen_api_case(rng, variant=None):
    v = variant if variant is not None else rng.choice([1, 1, 1, 2, 3, 3, 3, 4, 5, 6, 7, 8, 9, 10, 11, 14, 14, 21, 0, 99])
    if v == 1:
        ty = rng.choice(UNKNOWN_API_TYPES)
        code = ty & 255
        if code in CANON and code not in NONCORE and rng.random() < 0.7:
            data = gen_wire_value(rng, code)
        else:
            data = [rng.randrange(256) for _ in range(rng.choice([0, 1, 2, 3, 4, 6, 8, 12]))]
        flags = rng.choice([0, T | O, T | O | PARTIAL, O, T, 0xff, 0x1c0, 2 ** 32 - 1])
        x = [1, flags, ty, data]
    elif v == 2:
        x = [2, rng.choice([0, 1, 2, 2, 3, 4, 255, 256, 2 ** 32 - 1])]
    elif v == 3:
        segs = []
        for _ in range(rng.choice([0, 1, 1, 2, 3])):
            t = rng.choice([1, 2, 2, 2, 3, 4]) if rng.random() < 0.8 else rng.choice([0, 5, -1, 257, 258, 2 ** 31 - 1, -2 ** 31, 255])
            n = rng.choice([0, 1, 2, 3, 10, 255]) if rng.random() < 0.85 else rng.choice([256, 257, 258, 300, 512])
            segs.append([t, [rng.choice([1, 2, 3, 4, 65001, 4200000000, 0x01000000, 0x02010000, 0x05000000, 0xFFFFFFFF]) for _ in range(n)]])
        x = [3, segs]
    elif v == 4:
        x = [4, ip4str(rng, 0.4)]
    elif v == 5:
        x = [5, u32(rng)]
    elif v == 6:
        x = [6, u32(rng)]
    elif v == 7:
        x = [7]
    elif v == 8:
        x = [8, u32(rng), ip4str(rng)]
    elif v == 9:
        k = rng.choice([0, 1, 2, 3, 63, 64, 70, 300])
        x = [9, [u32(rng) for _ in range(k)]]
    elif v == 10:
        x = [10, ip4str(rng)]
    elif v == 11:
        k = rng.choice([0, 1, 2, 3, 64])
        x = [11, [ip4str(rng, 0.08) for _ in range(k)]]
    elif v == 14:
        k = rng.choice([0, 1, 1, 2, 3, 33])
        x = [14, [gen_extcom_api(rng) for _ in range(k)]]
    elif v == 21:
        k = rng.choice([0, 1, 2, 22])
        x = [21, [[u32(rng), u32(rng), u32(rng)] for _ in range(k)]]
    else:
        x = [v]
    return {'k': 1, 'api': x}

# ---------------------------------------------------------------- the property
class Prop:
    pid = 'C17'
    props_file = 'Props/C17.v'
    required_theorems = ['attr_roundtrip_up_to_flags', 'attr_roundtrip_core_outside_known', 'attr_roundtrip_core_refuted', 'from_api_total', 'from_api_preserves_wf', 'wire_values_are_wf', 'wf_is_safe_downstream', 'api_accepted_is_safe', 'nlri_roundtrip_core', 'net_from_api_preserves_wf', 'nlri_encode_safe', 'local_path_accepts_wf', 'evpn_roundtrip', 'evpn_from_api_preserves_wf', 'noncore_roundtrip_guarded', 'noncore_typed_from_api_wf', 'flowspec_roundtrip', 'flowspec_from_api_preserves_wf', 'srpolicy_roundtrip_and_wf', 'rtc_roundtrip_outside_known', 'rtc_roundtrip_refuted', 'rtc_from_api_preserves_wf',
                         'typed_from_api_total', 'prefix_sid_accepted_wf', 'prefix_sid_roundtrip', 'tunnel_encap_accepted_wf', 'tunnel_encap_roundtrip',
                         'mup_roundtrip', 'mup_from_api_preserves_wf', 'mup_decoded_is_wf', 'mup_held_roundtrip']
    correspondence_name = ('Model/Api.v (wire_accept, to_api, from_api, net_from_api, nlri_to_api, local_path, as_path_length, encode_attr, rib_cmp, encode_nlri) vs '
                           'daemon/src/convert.rs attr_to_api / attr_from_api / nlri_to_api / net_from_api, event/grpc.rs GrpcService::local_path, '
                           'packet Attribute::{decode via PeerCodec::parse_message, as_path_length, encode_to_bytes}, Nlri::encode_to_bytes, '
                           'table RibEntry::cmp via Table::insert (harness/daemon/convert_hx.rs, grpc_hx.rs)')
    rule = ('case kinds: (0) one wire attribute (flags, code, value) decoded by PeerCodec::parse_message, then attr_to_api / attr_from_api; '
            '(1) one API attribute message through attr_from_api, then as_path_length / encode / attr_to_api / Table::insert next to a competitor path; '
            '(2) one API NLRI message through net_from_api, then Nlri::encode; (3) one internal IPv4/IPv6/labeled NLRI through nlri_to_api / net_from_api; '
            '(5) a whole api::Path through GrpcService::local_path, then Table::insert; (6) one API EVPN message through net_from_api, checked to decode back from its own wire encoding; '
            '(7) one internal EVPN route through nlri_to_api / net_from_api; (8) one API NLRI message of the flowspec (plain / VPN), SR Policy, RTC and MUP families through net_from_api and the family check of local_path, '
            'then Nlri::encode, the repository decoder on those bytes (must give the accepted value back), nlri_to_api and net_from_api again; flowspec / SR Policy / RTC / MUP are modelled (accepted?, wire bytes, listed form compared); LsAddrPrefix (BGP-LS) messages go the same way and are judged by the oracle only (every field within its wire width or refused, decodes back; relisting is inside the open class C17-ls-nlri); '
            '(9) one typed PrefixSid, TunnelEncap or LsAttribute message through attr_from_api, then the packet decoder on the stored value, attr_to_api and attr_from_api again: PrefixSid and TunnelEncap are modelled (accepted?, value octets, listing compared; '
            'a PrefixSid message whose prost maps hold several keys is compared on accepted? only, their iteration order is not fixed) and judged by a normal-form oracle (refused, or listed as given); the LsAttribute message is NOT modelled and judged by the oracle only (every field within its wire width or refused, decoder reads the value back, relists unchanged); '
            'gen/c17typed.py ENUMERATES 74 further classes (696 cases: every oneof unset, every bounded field at bound and bound + 1, SID lengths 0/4/15/16/17, every flag alone, each one-per-path sub-TLV twice, '
            'names around the two-octet length, values around 65535 octets, tunnel types around u16; LS attribute: SR ranges around the 20-bit label / 24-bit size / u32 wrap, delays and IGP metric around 24 bits, labels around 20 bits, weights / flags / algorithms around 255, every address spelling, 0/1/7/8/9 unreserved-bandwidth values); '
            '(10) NLRI octets as a peer sends them in an MP_REACH of a family, decoded by the repository decoder (the values the RIB can hold), each listed by nlri_to_api and given back to net_from_api + the family check (must be the identical value); '
            'MUP is compared with the decoder model (mup_decode_all: decoded?, Nlri::encode octets, listing, given back), the other families are judged by the oracle; gen/c17held.py ENUMERATES 26 classes (1704 cases) on the boundary '
            '"the decoder keeps whole octets, the API side checks bits": MUP Type 2 endpoint lengths 32..64 / 128..160 with the spare bits of the last TEID octet set and clear, prefix lengths not a multiple of 8 with spare bits set / clear / all ones for '
            'IP, labeled, VPN, EVPN type 5, flowspec prefix components (and IPv6 offsets), MUP ISD / Type 1, BGP-LS reachability, every RTC length 0..96 and the SR Policy length field; '
            'these kinds are modelled and compared with the model value for value. '
            'gen/c17enum.py ENUMERATES 137 classes (about 4400 cases) on every run, one per clause / branch / comparison of the anchored functions with values on both sides of each boundary '
            '(every flags octet; value lengths around each type rule; segment counts 0/1/63/64/65/127/128/129/254/255/256/257 with AS numbers whose octets look like segment headers; 255/256 and 65535/65536-octet values; '
            'every extended-community type octet x sub-type x reserved-bit pattern; every bounded API field at bound and bound+1; every IPv4/IPv6/MAC spelling; label stacks and prefix lengths around the one-octet NLRI length; '
            'flowspec rule bodies of 239/240/241 and 4095/4096/4097 octets; MP_REACH header lengths; address-family edges); they are tagged enum:<class> in input_distribution. '
            '(4) the wide part: a whole UPDATE of any of 19 address families with any attribute kinds (tunnel-encap, prefix-SID, BGP-LS, AIGP, AS4_*, unknown), '
            'every decoded attribute and NLRI round-tripped through the API form; NOT modelled, judged by the Spec oracle only (canon maps its observation to []), '
            'so it adds to "evaluations" and "traces_validated_against_impl" without being a model comparison: see input_distribution tags wide:*. '
            'A case is non-trivial when the value is held / accepted (kinds 0,1,2,5,6), decodable (kinds 3,7), or the UPDATE decodes to at least one attribute or NLRI (kind 4); '
            'distinct = distinct case contents. Generators: per attribute type mostly-valid values plus boundary lengths (0, 255, 256 numbers; 4k+1 bytes), '
            'a grid Unknown{type 0..41 and beyond u8} x lengths 0..32, flags with PARTIAL / EXTENDED / reserved bits and wrong class bits, '
            'valid and malformed IPv4/IPv6 address strings (every listed spelling through NextHop and Prefix), out-of-range enums and u32 fields, '
            'label stacks of 0..40 labels, prefix lengths around 32/128/255/256.')
    exhaustive = {'quick': False, 'thorough': False}
    trusted_base = [
        'the Ipv6Addr textual form (Display / FromStr) is not proved: the theorems assume v6_contract / v6_noslash / v6_range (Proofs/ApiRt.v, Proofs/ApiNlri.v: '
        'print-then-parse gives the address back, a printed address is not an IPv4 string and holds no slash, a parsed address is below 2^128); a toy instance shows the '
        'assumptions are satisfiable, and the run uses the instance v6_print / v6_parse of Model/Api.v, compared with the real std::net code on every generated spelling',
        'Ipv4Addr Display / FromStr, format!("{}/{}") + split + u8::from_str of the Prefix arm, f32::from_bits/to_bits (bit-preserving), prost message types '
        '(uint32 fields below 2^32: api_in_range) are modelled by hand from their documentation; bit tests on u8 values are written arithmetically in the model',
        'what is modelled of attr_to_api / attr_from_api is the core: ORIGIN, AS_PATH, NEXT_HOP, MED, LOCAL_PREF, ATOMIC_AGGREGATE, AGGREGATOR, COMMUNITIES, ORIGINATOR_ID, '
        'CLUSTER_LIST, EXTENDED_COMMUNITIES (all twelve variants of read_extcom/write_extcom), LARGE_COMMUNITIES, Unknown (incl. MP_REACH/MP_UNREACH/AS4_PATH/AS4_AGGREGATOR/AIGP '
        'opaque and the typed MpReach message); NLRI: Prefix, LabeledPrefix, LabeledVPNIPPrefix arms, the five EVPN route types (RD, ESI, MAC and IP address text), flowspec (plain and VPN, both IP versions: '
        'prefix and operator components, operator framing bits, 12-bit length), SR Policy and Route Target Constraint, each with its wire encoding. '
        'For TUNNEL_ENCAP and PREFIX_SID the typed messages are modelled from the API side (prefix_sid_from_api / tunnel_encap_tlv_from_api, the encoders of packet/src/prefix_sid.rs and packet/src/tunnel_encap.rs, '
        'and the typed listing on the stored tree: theorems typed_from_api_total, prefix_sid_*, tunnel_encap_*); their wire DECODERS are not modelled: that the decoder reads the stored value back is an observation of the harness judged by the oracle, '
        'and the one place where the listing depends on the decoder (a type B segment structure is read only under flag 0x40) enters the model as a stated rule of seg_to_api; std::str::from_utf8 is the Gallina function utf8_valid (compared, not proved). '
        'For these two and the BGP-LS attribute the lossless-or-raw wrapper of attr_to_api is modelled with the typed converters as uninterpreted functions (theorems noncore_*); the typed BGP-LS attribute message (ls_tlvs_from_api) is NOT modelled: it is exercised from the API side by kind 9 with the oracle alone, and from the wire side by the wide differential part; '
        'MUP NLRI (four route types, prefix text with rsplit_once / u8::from_str, Type 2 endpoint-length rule, encoding) is modelled from the API side AND from the wire side (MupNlri::decode and the four route decoders: theorems mup_decoded_is_wf, mup_held_roundtrip); '
        'for the other families the held direction (decoded value -> API -> back) is exercised by kind 10 with the oracle alone: their decoders are not modelled. '
        'The BGP-LS NLRI family is not modelled; it is reached from the wire side by the wide differential part only (sampling, no proof): the property is claimed partial for it',
        'the wire decoder is modelled only as far as C17 needs it (Attribute::decode in four-octet-AS form and the per-attribute admission of the UPDATE arm); '
        'two-octet-AS sessions, treat-as-withdraw and NLRI decoding are exercised by the wide part only',
        'the comparator is modelled for one comparison between paths of two sources of equal role that are not stale (what Table::insert does against a destination holding one path); '
        'policy evaluation (apply_import) on API-built values is not run here (property C14)',
    ]
    assumptions = [
        'API messages arrive as prost decoded them (uint32 below 2^32, bytes below 256, strings are the byte strings the generators use: ASCII)',
        'internal values are those a four-octet-AS session can decode (wf_attr / wf_nlri, proved of the decoder model: wire_values_are_wf)',
    ]

    # ---- json
    def case_to_json(self, c): return json.loads(json.dumps(c))
    def case_from_json(self, j): return j

    def corpus_cases(self):
        d = os.path.join(os.path.dirname(os.path.dirname(os.path.abspath(__file__))), 'corpus', 'C17')
        out = []
        if os.path.isdir(d):
            for fn in sorted(os.listdir(d)):
                if fn.endswith('.json'):
                    out.append(self.case_from_json(json.load(open(os.path.join(d, fn)))['case']))
        return out

    # ---- rendering
    def case_to_val(self, c):
        if c['k'] == 0: return [0, c['flags'], c['code'], c['data']]
        if c['k'] == 1: return [1, expand(c['api'])]
        if c['k'] == 2: return [2, c['api']]
        if c['k'] == 3: return [3, nlri_to_valx(c['n'], out=False)]
        if c['k'] == 4: return [4, c['opts'], c['msg']]
        if c['k'] == 5: return [5, c['fam'], c['nlri'], expand(c['attrs']), c['id']]
        if c['k'] == 8: return [8, c['fam'], expand(c['x'])]
        if c['k'] == 9: return [9, c['w'], expand(c['msg'])]
        if c['k'] == 10: return [10, c['fam'], c['b']]
        if c['k'] == 6: return [6, c['api']]
        if c['k'] == 7: return [7, evpn_to_valx(c['e'], out=False)]
        raise ValueError(c)

    def case_to_coq(self, c):
        if c['k'] == 0: return 'run_wire_case %s %s %s' % (cN(c['flags']), cN(c['code']), cbytes(c['data']))
        if c['k'] == 1: return 'run_api_case %s' % api_to_coq(c['api'])
        if c['k'] == 2: return 'run_api_nlri_case Debug %s' % api_nlri_to_coq(c['api'])
        if c['k'] == 3: return 'run_nlri_case %s' % nlri_to_coq(c['n'])
        if c['k'] == 4: return '(VL [])'     # the wide part has no model: judged by the oracle only
        if c['k'] == 8: return xnlri_to_coq(c) if xnlri_modelled(c) else '(VL [])'
        if c['k'] == 9: return c17typed.typed_to_coq(c)
        if c['k'] == 10:
            if c['fam'] in (c17held.MUP4, c17held.MUP6): return 'run_held_mup_case %s %s' % (cbool(c['fam'] == c17held.MUP6), cbytes(c['b']))
            return '(VL [])'
        if c['k'] == 6: return 'run_api_evpn_case %s' % api_evpn_to_coq(c['api'])
        if c['k'] == 7: return 'run_evpn_case %s' % evpn_to_coq(c['e'])
        if c['k'] == 5:
            return 'run_local_path_case %s %s %s %s' % ('None' if c['fam'] < 0 else '(Some %s)' % cN(c['fam']), api_nlri_to_coq(c['nlri']),
                                                      clist([api_to_coq(x) for x in c['attrs']]), cN(c['id']))
        raise ValueError(c)

    # ---- generation
    def gen_cases(self, rng, tier):
        cases = c17enum.enum_all() + c17typed.enum_typed() + c17held.enum_held()      # the classes enumerated on every run come first
        nw, na = (900, 1300) if tier == 'quick' else (9000, 13000)
        for code in WIRE_CODES + WIRE_SPECIAL + UNKNOWN_CODES[:6]:
            for _ in range(6):
                cases.append(gen_wire_case(rng, code))
        for _ in range(nw):
            cases.append(gen_wire_case(rng))
        # Unknown{type, value}: every type 0..41 (and a few beyond) against every small length
        for ty in list(range(0, 42)) + [99, 128, 255, 256, 257, 258, 261, 511]:
            if (ty & 255) in NONCORE and ty < 256:
                continue
            for ln in (0, 1, 2, 3, 4, 5, 6, 7, 8, 9, 12, 16, 24, 32):
                cases.append({'k': 1, 'api': [1, T | O, ty, [(7 * k + ln) & 3 if k % 6 < 2 else 0 for k in range(ln)]]})
        for v in (0, 1, 2, 3, 4, 5, 6, 7, 8, 9, 10, 11, 14, 21, 99):
            for _ in range(6):
                cases.append(gen_api_case(rng, v))
        for _ in range(na):
            cases.append(gen_api_case(rng))
        for _ in range(400 if tier == 'quick' else 4000):
            cases.append(c17typed.gen_typed_case(rng))
        for _ in range(150 if tier == 'quick' else 1500):
            cases.append(c17enum.gen_ls_nlri_case(rng))
        # NLRIs as a peer sends them, held, listed and given back: MUP against the decoder model, the other families by the oracle
        for _ in range(400 if tier == 'quick' else 4000):
            fam = rng.choice(list(c17wire.FAMILIES))
            if rng.random() < 0.35: fam = rng.choice(('mup4', 'mup6')) if 'mup4' in c17wire.FAMILIES else fam
            afi, safi = c17wire.FAMILIES[fam]
            b = []
            for _ in range(rng.choice((1, 1, 1, 2))): b += c17wire.gen_nlri(rng, fam)
            cases.append({'k': 10, 'fam': (afi << 16) | safi, 'b': b})
        nn = 500 if tier == 'quick' else 5000
        for _ in range(nn):
            cases.append(gen_api_nlri_case(rng))
            cases.append(gen_nlri_case(rng))
        # Ipv6 textual form: every listed spelling through NextHop and Prefix
        for t in GOOD_IP6 + BAD_IP6:
            cases.append({'k': 1, 'api': [4, S(t)]})
            cases.append({'k': 2, 'api': [1, S(t), 64]})
        for _ in range(nn // 2):
            cases.append({'k': 0, 'flags': T, 'code': NEXTHOP, 'data': v6bytes(v6_rand(rng))})
        for _ in range(nn):
            cases.append(gen_local_path_case(rng))
        for _ in range(nn):
            cases.append(gen_api_evpn_case(rng))
            cases.append(gen_evpn_case(rng))
        for _ in range(nn):
            cases.append(gen_xnlri_case(rng))
        for m in GOOD_MAC + BAD_MAC:
            cases.append({'k': 6, 'api': [2, [1, 65000, 1], [0, [0] * 9], 0, S(m), [], [100]]})
        # wide differential part: whole UPDATEs of every family / attribute kind (oracle only)
        for _ in range(1500 if tier == 'quick' else 30000):
            opts, msg, fam = c17wire.gen_update(rng)
            cases.append({'k': 4, 'opts': opts, 'msg': msg, 'fam': fam})
        return cases

    # ---- running
    def run_impl(self, cases, tier):
        # kinds 0..4 run inside daemon/src/convert.rs, kind 5 (GrpcService::local_path) inside event/grpc.rs
        conv = [(k, c) for k, c in enumerate(cases) if c['k'] != 5]
        grpc = [(k, c) for k, c in enumerate(cases) if c['k'] == 5]
        out = [None] * len(cases)
        for name, test, part in (('C17-impl', 'convert::verif_hx::verif_convert_cases', conv),
                                 ('C17-impl-grpc', 'event::grpc::verif_hx::verif_grpc_cases', grpc)):
            if not part:
                continue
            obs, err = rustrun.daemon_test(name, test, [self.case_to_val(c) for _, c in part])
            if obs is None:
                return None, err
            for (k, _), o in zip(part, obs):
                out[k] = o
        return out, ''

    def run_model(self, cases, tier):
        pre = 'From RB Require Import Base.Val Model.Api.\nOpen Scope N_scope.'
        return coqrun.eval_terms('C17', pre, [self.case_to_coq(c) for c in cases])

    def canon(self, case, obs):
        if case['k'] == 9:
            return c17typed.typed_canon(case, obs)
        if case['k'] == 10:
            if case['fam'] not in (c17held.MUP4, c17held.MUP6): return []      # the other decoders are not modelled
            if obs and obs[0] == 1: return [1, [e[-3:] for e in obs[1]]]       # encode octets, listed form, given back
            return obs
        if case['k'] == 4 or (case['k'] == 8 and not xnlri_modelled(case)):
            return []       # not modelled (differential testing of the real round trip only)
        if case['k'] == 8 and len(obs) == 6:
            return [obs[0], obs[2], obs[3], obs[4], obs[5]]     # accepted, wire bytes, decodes back, relisted, API form listed
        return obs

    # ---- Spec oracle on the implementation's observations
    def oracle(self, c, obs):
        if obs == [-1]:
            return 'panic in the conversion of %s' % ('a wire attribute' if c['k'] == 0 else 'an API message')
        if c['k'] == 0:
            if obs[0] == 0:
                return None
            a, apiv, rt = obs[1], obs[2], obs[3]
            why = wf_attr(a)
            if why:
                return 'value stored from the wire breaks the invariant the Spec assumes: ' + why
            if apiv == [-1]:
                return 'attr_to_api panics on a value held from the wire (code %d)' % a[0]
            if rt == [-1]:
                return 'attr_from_api panics on the API form of a held value (code %d)' % a[0]
            if rt[0] == 0:
                return 'round trip: the API form of a held value (code %d, kind %d) is rejected by attr_from_api' % (a[0], a[2])
            if rt[1] != a:
                if rt[1][1] != a[1] and rt[1][0] == a[0] and rt[1][2:] == a[2:]:
                    return 'round trip changes the attribute flags of code %d: %#x -> %#x' % (a[0], a[1], rt[1][1])
                return 'round trip changes the value of code %d' % a[0]
            return None
        if c['k'] == 1:
            if obs[0] == 0:
                return None
            a, ds = obs[1], obs[2]
            why = wf_attr(a)
            if why:
                return 'attr_from_api accepted a value outside the wire invariants: code %d: %s' % (a[0], why)
            names = ['as_path_length', 'encode', 'attr_to_api (listing)', 'Table::insert / comparison', 'attr_to_api / attr_from_api of the accepted value']
            for k, d in enumerate(ds):
                if d == [-1]:
                    return 'accepted value (code %d) panics %s' % (a[0], names[k])
            if len(ds) > 4 and ds[4] != 0:
                return 'a value accepted through the API (code %d) is %s when listed and added again' % (a[0], 'refused' if ds[4] == 2 else 'changed')
            why = unfaithful_attr(expand(c['api']), a)
            if why:
                return 'not stored faithfully: ' + why
            return None
        if c['k'] == 2:
            if obs[0] == 0:
                return None
            why = wf_nlri(obs[1])
            if why:
                return 'net_from_api accepted an NLRI outside the wire invariants: ' + why
            if obs[2] == [-1]:
                return 'accepted NLRI panics the encoder'
            if len(obs) > 3 and obs[3] != [1, obs[1]]:
                return 'an NLRI accepted through the API is %s when listed and added again' % ('refused' if obs[3] == [0] else 'changed')
            why = unfaithful_nlri(c['api'], obs[1])
            if why:
                return 'not stored faithfully: ' + why
            return None
        if c['k'] == 4:
            if obs[0] == 0:
                return None
            fails = []
            for a in obs[1]:
                st = a[3]
                if st != 0:
                    what = {1: 'changes the value', 2: 'is rejected by attr_from_api', 3: 'changes the attribute flags',
                            -1: 'panics attr_to_api', -2: 'panics attr_from_api'}[st]
                    fails.append((wide_attr_class(a), 'round trip of a decoded attribute (code %d) %s' % (a[0], what)))
            for n in obs[2]:
                st = n[1]
                if st != 0:
                    what = {1: 'changes the value', 2: 'is rejected by net_from_api', -1: 'panics nlri_to_api', -2: 'panics net_from_api'}[st]
                    fails.append((wide_nlri_class(n), 'round trip of a decoded NLRI (afi %d safi %d) %s' % (n[0] >> 16, n[0] & 0xffff, what)))
            # a failure outside every listed class is reported first
            for cls, txt in fails:
                if cls is None:
                    return 'wide: ' + txt
            for cls, txt in fails:
                return 'wide[%s]: %s' % (cls, txt)
            return None
        if c['k'] == 8:
            return oracle_xnlri(c, obs)
        if c['k'] == 9:
            return c17typed.oracle_typed(c, obs)
        if c['k'] == 10:
            return c17held.oracle_held(c, obs)
        if c['k'] == 6:
            if obs[0] == 0:
                return None
            why = wf_evpn(obs[1])
            if why:
                return 'net_from_api accepted an EVPN route outside the wire invariants: ' + why
            if obs[2] != 1:
                return 'an accepted EVPN route does not decode back from its own wire encoding to the same route'
            # stored faithfully: numeric fields of the message are the fields of the route
            x, e = c['api'], obs[1]
            if x[2] and e[0] in (1, 2, 4, 5) and e[2][0] != x[2][0]:
                return 'ESI type %d of the message stored as %d' % (x[2][0], e[2][0])
            if api_rd_bytes(x[1]) != e[1]:
                return 'not stored faithfully: route distinguisher of the message stored as other octets'
            if e[0] == 2 and len(x[6]) != 1 + len(e[7]):
                return 'MAC/IP route: %d labels in the message, %d stored' % (len(x[6]), 1 + len(e[7]))
            return None
        if c['k'] == 7:
            e = evpn_to_valx(c['e'])
            if wf_evpn(e):
                return None
            if obs[1] != [1, e]:
                return 'EVPN round trip: net_from_api(nlri_to_api(n)) %s' % ('rejected' if obs[1] == [0] else 'differs from n')
            return None
        if c['k'] == 5:
            if obs[0] == 0:
                return None
            why = wf_nlri(obs[2])
            if why:
                return 'local_path accepted an NLRI outside the wire invariants: ' + why
            if obs[2][0] in FAM_OF_NLRI and obs[1] not in FAM_OF_NLRI[obs[2][0]]:
                return 'local_path accepted an NLRI that does not belong to the path family (afi %d safi %d)' % (obs[1] >> 16, obs[1] & 0xffff)
            for a in obs[4]:
                why = wf_attr(a)
                if why:
                    return 'local_path accepted an attribute outside the wire invariants: code %d: %s' % (a[0], why)
                if a[0] in (NEXTHOP, MP_REACH, ORIGINATOR_ID, CLUSTER_LIST, MP_UNREACH):
                    return 'local_path kept attribute %d in the list handed to the table' % a[0]
            codes = [a[0] for a in obs[4]]
            if ORIGIN not in codes or AS_PATH not in codes:
                return 'local_path produced a path without ORIGIN / AS_PATH'
            if obs[6] == [-1]:
                return 'a path assembled by local_path panics Table::insert / the comparator'
            return None
        if c['k'] == 3:
            if wf_nlri(nlri_to_valx(c['n'])):
                return None     # not a value a decoder can produce: outside the quantifier
            if obs[1] != [1, nlri_to_valx(c['n'])]:
                return 'NLRI round trip: net_from_api(nlri_to_api(n)) %s' % ('rejected' if obs[1] == [0] else 'differs from n')
            return None
        return None

    def in_known_class(self, kf, c, obs, why):
        if c['k'] == 4:
            return why.startswith('wide[%s]:' % kf['id'])
        if c['k'] == 8:
            return why.startswith('xnlri[%s]:' % kf['id'])
        if c['k'] == 10:
            return why.startswith('held[%s]:' % kf['id'])
        if kf['id'] == 'C17-flags':
            # a held attribute of a defined type whose stored flags are not the canonical ones
            return c['k'] == 0 and obs[0] == 1 and obs[1][0] in CANON and obs[1][1] != CANON[obs[1][0]] \
                and why.startswith('round trip changes the attribute flags')
        return False

    def nontrivial_key(self, c, obs):
        if obs == [-1] or not obs:
            return None
        if c['k'] in (0, 1, 2, 5, 6, 8, 9, 10) and obs[0] == 1:
            return json.dumps(self.case_to_val(c))
        if c['k'] == 7 and not wf_evpn(evpn_to_valx(c['e'])):
            return json.dumps(self.case_to_val(c))
        if c['k'] == 3 and not wf_nlri(nlri_to_valx(c['n'])):
            return json.dumps(self.case_to_val(c))
        if c['k'] == 4 and obs[0] == 1 and (obs[1] or obs[2]):
            return json.dumps(self.case_to_val(c))
        return None

    def classify(self, c, obs):
        return (['enum:' + c['cls']] if 'cls' in c else []) + self._classify(c, obs)

    def _classify(self, c, obs):
        if c['k'] == 0:
            kind = 'known' if c['code'] in CANON else 'unknown'
            return ['wire', 'wire:%s:%s' % (kind, 'held' if obs and obs[0] == 1 else 'not_held'),
                    'wire:flags_%s' % ('canonical' if CANON.get(c['code']) == c['flags'] else 'other')]
        if c['k'] == 1:
            st = 'panic' if obs == [-1] else 'accepted' if obs[0] == 1 else 'rejected'
            return ['api', 'api:%s:%s' % (API_NAMES.get(c['api'][0], 'other'), st)]
        if c['k'] == 2:
            st = 'panic' if obs == [-1] else 'accepted' if obs[0] == 1 else 'rejected'
            return ['api_nlri', 'api_nlri:%s:%s' % ({0: 'missing', 1: 'prefix', 2: 'labeled', 3: 'vpn'}.get(c['api'][0]), st)]
        if c['k'] == 3:
            return ['nlri', 'nlri:%d:%s' % (c['n'][0], 'wf' if not wf_nlri(nlri_to_valx(c['n'])) else 'not_decodable')]
        if c['k'] == 6:
            st = 'panic' if obs == [-1] else 'accepted' if obs[0] == 1 else 'rejected'
            return ['api_evpn', 'api_evpn:type%d:%s' % (c['api'][0], st)]
        if c['k'] == 7:
            return ['evpn', 'evpn:type%d' % c['e'][0]]
        if c['k'] == 8:
            return ['xnlri', 'xnlri:%s:%s' % ({10: 'flowspec', 11: 'flowspec_vpn', 12: 'srpolicy', 13: 'rtc', 14: 'mup_isd', 15: 'mup_dsd', 16: 'mup_t1st', 17: 'mup_t2st', 18: 'ls_nlri'}.get(c['x'][0]), 'accepted' if obs and obs[0] == 1 else 'refused')]
        if c['k'] == 9:
            return ['typed', 'typed:%s:%s' % ({0: 'prefix_sid', 1: 'tunnel_encap', 2: 'ls_attribute'}[c['w']], 'accepted' if obs and obs[0] == 1 else 'refused')]
        if c['k'] == 10:
            return ['held', 'held:afi%d_safi%d:%s' % (c['fam'] >> 16, c['fam'] & 0xffff, 'decoded_%d' % min(len(obs[1]), 2) if obs and obs[0] == 1 else 'not_decoded')]
        if c['k'] == 5:
            return ['local_path', 'local_path:%s:attrs_%d' % ('accepted' if obs and obs[0] == 1 else 'rejected', min(len(c['attrs']), 4))]
        if c['k'] == 4:
            tags = ['wide', 'wide:%s:%s' % (c.get('fam', '?'), 'decoded' if obs and obs[0] == 1 else 'rejected')]
            if obs and obs[0] == 1:
                tags += ['wide:attr_code_%d' % a[0] for a in obs[1] if a[0] in (17, 18, 23, 26, 29, 40) or a[0] not in CANON]
                tags.append('wide:nlris_%d' % min(len(obs[2]), 3))
            return tags
        return []
