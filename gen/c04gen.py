"""C04 case generators: biased to the branch structure of Model/WireEnc.v (frame boundaries,
attribute-block sizes around the frame limit, add-path / extended-message / two-octet-AS sessions,
per-family next-hop rules, capability length sums around 255)."""
from gen import c04wire as W
from gen.c04wire import fam

ALL_FAMILIES = [W.IPV4, W.IPV6, W.IPV4_MC, W.IPV6_MC, W.IPV4_MPLS, W.IPV6_MPLS, W.LS, W.IPV4_MUP, W.IPV6_MUP,
                W.IPV4_VPN, W.IPV6_VPN, W.IPV4_FS, W.IPV6_FS, W.IPV4_FSVPN, W.IPV6_FSVPN, W.IPV4_SRP, W.IPV6_SRP,
                W.EVPN, W.RTC, fam(2, 132)]   # the 19 named families and one the code does not know (IPv6 RTC)

NH4 = [192, 0, 2, 1]
NH6 = [32, 1, 13, 184, 0, 0, 0, 0, 0, 0, 0, 0, 0, 0, 0, 1]
NH6LL = NH6 + [254, 128, 0, 0, 0, 0, 0, 0, 0, 0, 0, 0, 0, 0, 0, 9]

def caps_pair(fams, lmode=0, rmode=0, ext=(True, True), as4=(True, True), extnh=False, extra_l=(), extra_r=()):
    def side(mode, e, a, asn, extra):
        c = [('mp', f) for f in fams]
        if mode:
            c.append(('addpath', [(f, mode) for f in fams]))
        if extnh:
            c.append(('enh', [(f, 2) for f in fams if (f >> 16) == 1]))
        if a:
            c.append(('as4', asn))
        if e:
            c.append(('extmsg',))
        return c + list(extra)
    return side(lmode, ext[0], as4[0], 65001, extra_l), side(rmode, ext[1], as4[1], 65002, extra_r)

def seg(t, asns):
    out = [t, len(asns)]
    for a in asns:
        out += W.be32(a)
    return out

def base_attrs(rng, wide=False, confed=False, pad=None, agg=None):
    """ORIGIN, AS_PATH, (MED), (LOCAL_PREF), (AGGREGATOR), (COMMUNITY pad), (unknown transitive)."""
    asns = [rng.choice([65001, 64512, 1, 65535] + ([70000, 4200000000, 65536] if wide else [])) for _ in range(rng.randint(0, 4))]
    path = []
    if confed:
        path += seg(3, [rng.choice([65100, 65101] + ([100000] if wide else []))])
    if asns:
        path += seg(2, asns)
    if rng.random() < 0.2:
        path += seg(1, [rng.choice([64600, 64601] + ([131072] if wide else [])) for _ in range(rng.randint(1, 3))])
    attrs = [[0, 1, 0, rng.randint(0, 2), ['b', []]], [1, 2, 0, 0, ['b', path]]]
    if rng.random() < 0.5:
        attrs.append([0, 4, 0, rng.choice([0, 1, 4294967295]), ['b', []]])
    if rng.random() < 0.5:
        attrs.append([0, 5, 0, rng.choice([100, 0, 4294967295]), ['b', []]])
    if agg is not None:
        attrs.append([1, 7, 0, 0, ['b', W.be32(agg) + [192, 0, 2, 9]]])
    # an empty COMMUNITIES attribute is malformed on the wire (RFC 7606; repo commit 36a2dde)
    # and nothing the daemon holds can carry one: the padding attribute is never empty
    if pad is not None and pad > 0:
        attrs.append([1, 8, 0, 0, ['pat', pad, rng.randint(0, 255)]])
    if rng.random() < 0.3:
        attrs.append([2, rng.choice([200, 201, 250]), rng.choice([0xC0, 0xE0, 0xD0]), 0, ['pat', rng.choice([0, 1, 7, 255, 256, 300]), 5]])
    return attrs

def mk(l, r, m, tags=()):
    return dict(l=l, r=r, m=m, tags=list(tags))

def explicit_v4(rng, n):
    out = []
    for _ in range(n):
        m = rng.choice([0, 1, 7, 8, 9, 16, 24, 25, 31, 32])
        a = [rng.choice([10, 172, 192, 255]), rng.choice([0, 1, 255]), rng.choice([0, 2, 128]), rng.choice([0, 1, 255])]
        if rng.random() < 0.8:      # canonical: no bits beyond the mask
            full = (a[0] << 24 | a[1] << 16 | a[2] << 8 | a[3]) & (0xffffffff << (32 - m) if m else 0) & 0xffffffff
            a = W.be32(full)
        out.append([rng.choice([0, 1, 2, 4294967295]), ['v4', m, a]])
    return out

def explicit_v6(rng, n):
    out = []
    for _ in range(n):
        m = rng.choice([0, 1, 8, 32, 48, 63, 64, 65, 127, 128])
        a = [32, 1, 13, 184] + [rng.choice([0, 1, 255]) for _ in range(12)]
        if rng.random() < 0.8:
            nb = (m + 7) // 8
            a = a[:nb] + [0] * (16 - nb)
            if m % 8 and nb:
                a[nb - 1] &= (0xff << (8 - m % 8)) & 0xff
        out.append([rng.choice([0, 1, 7]), ['v6', m, a]])
    return out

def labels(rng, n):
    return [rng.choice([0, 3, 16, 100, 1048575]) for _ in range(n)]

def explicit_kind(rng, kind, n):
    out = []
    for k in range(n):
        v4 = explicit_v4(rng, 1)[0][1]
        v6 = explicit_v6(rng, 1)[0][1]
        nl = rng.choice([1, 1, 2, 3, 4])
        rd = rng.choice([[0, 0, 253, 232, 0, 0, 0, 100], [0, 1, 192, 0, 2, 1, 0, 7], [0, 2, 0, 1, 0, 0, 0, 9]])
        pid = rng.choice([0, 1, 9])
        if kind == 'vpn4': out.append([pid, ['vpn4', labels(rng, nl), rd, v4[1], v4[2]]])
        elif kind == 'vpn6': out.append([pid, ['vpn6', labels(rng, nl), rd, v6[1], v6[2]]])
        elif kind == 'lab4': out.append([pid, ['lab4', labels(rng, nl), v4[1], v4[2]]])
        elif kind == 'lab6': out.append([pid, ['lab6', labels(rng, nl), v6[1], v6[2]]])
    return out

FAM_KIND = {W.IPV4: ('v4', 0, 6), W.IPV4_MC: ('v4', 0, 6), W.IPV6: ('v6', 1, 7), W.IPV6_MC: ('v6', 1, 7),
            W.IPV4_VPN: ('vpn4', 2, 2), W.IPV6_VPN: ('vpn6', 3, 8), W.IPV4_MPLS: ('lab4', 4, 4), W.IPV6_MPLS: ('lab6', 5, 5)}

def entries_for(rng, f, n, explicit=4):
    """n entries of family f: a few explicit ones followed by a procedural bulk."""
    if f in FAM_KIND:
        kind, bk, bk_big = FAM_KIND[f]
        k = min(n, rng.randint(0, explicit))
        if kind == 'v4': x = explicit_v4(rng, k)
        elif kind == 'v6': x = explicit_v6(rng, k)
        else: x = explicit_kind(rng, kind, k)
        segs = [['x', x]] if x else []
        if n - k > 0:
            segs.append(['bulk', rng.choice([bk, bk_big]), n - k, rng.randint(0, 50000)])
        return segs
    if f in STRUCT_FAMILIES:
        return struct_entries(rng, f, n)
    if f in W.RAW_FAMILIES:
        if not n:
            return []
        kind, start = rng.randint(0, (W.FS_KINDS if f in W.FS_FAMILIES else 10 if f == W.LS else 5) - 1), rng.randint(0, 50000)
        # these entries are spelled out in the Coq case: keep the literal below ~25 kB
        size = max(1, len(W.raw_nlri(f, kind, start)))
        return [['rawbulk', f, kind, max(1, min(n, 25000 // size)), start]]
    return []

def nexthop_for(rng, f, natural=True):
    a = f >> 16
    if f in (W.IPV4_FS, W.IPV6_FS, W.IPV4_FSVPN, W.IPV6_FSVPN):
        return None if natural or rng.random() < 0.7 else NH4
    if natural:
        if a == 1 and f != W.RTC and f != W.IPV4_MUP:
            return NH4
        if a == 1:
            return rng.choice([NH4, NH6])
        return rng.choice([NH6, NH6, NH6LL])
    return rng.choice([NH4, NH6, NH6LL, None])

def per_frame(f, addpath, big):
    """rough number of entries of the bulk kinds that fill a 4096-byte frame"""
    size = {W.IPV4: 5, W.IPV4_MC: 5, W.IPV6: 17, W.IPV6_MC: 17, W.IPV4_VPN: 14, W.IPV6_VPN: 27, W.IPV4_MPLS: 7, W.IPV6_MPLS: 14}.get(f, 20)
    return 4000 // (size + (4 if addpath else 0))

def gen_cases(rng, tier):
    quick = tier == 'quick'
    cases = []
    std_l, std_r = caps_pair([W.IPV4, W.IPV6])

    # ---- A. messages without entries
    cases.append(mk(std_l, std_r, ['ka'], ['ka']))
    for code, sub, data in [(1, 2, [0, 18]), (2, 0, [1]), (2, 2, []), (2, 4, [9, 9]), (3, 1, [1, 2, 3]), (3, 5, [64, 1, 2]), (4, 0, []),
                            (4, 7, [1]), (5, 3, [9]), (6, 2, [3, 65, 66, 67]), (6, 9, []), (6, 0, [1]), (6, 12, [1, 2]), (7, 1, [0, 1]),
                            (9, 9, [1] * 50), (2, 6, [0, 2]), (3, 7, [5])]:
        cases.append(mk(std_l, std_r, ['notif', code, sub, ['b', data]], ['notif']))
    for n in ([4074, 4075, 4076, 5000] if quick else [4000, 4074, 4075, 4076, 4077, 5000, 65514, 65515, 70000]):
        cases.append(mk(std_l, std_r, ['notif', 9, 9, ['pat', n, 7]], ['notif', 'notif_big']))
    for f in ALL_FAMILIES:
        l, r = caps_pair([f], lmode=rng.choice([0, 3]), rmode=3)
        cases.append(mk(l, r, ['eor', f], ['eor']))
        cases.append(mk(l, r, ['refresh', f], ['refresh']))
        cases.append(mk(l, r, ['unreach', f, []], ['unreach', 'empty']))
        cases.append(mk(l, r, ['reach', f, nexthop_for(rng, f), base_attrs(rng), []], ['reach', 'empty']))

    # ---- B. OPEN
    capsets = []
    capsets.append([])
    capsets.append([('mp', W.IPV4)])
    capsets.append(std_l)
    capsets.append([('mp', f) for f in ALL_FAMILIES[:8]] + [('rr',), ('err',), ('as4', 4200000001), ('extmsg',)])
    capsets.append([('mp', W.IPV4), ('gr', 4, 120, [(W.IPV4, 128), (W.IPV6, 0)]), ('llgr', [(W.IPV4, 128, 3600), (W.IPV6, 0, 16777215)]),
                    ('fqdn', [82, 49], [101, 120, 46, 99, 111, 109]), ('unknown', 99, [1, 2, 3]), ('enh', [(W.IPV4, 2), (W.IPV4_VPN, 2)]),
                    ('addpath', [(W.IPV4, 3), (W.IPV6, 1)])])
    capsets.append([('gr', 15, 4095, []), ('gr', 0, 0, [(W.IPV4, 0)])])
    # capability bytes summing to around and past 255 (each mp capability is 6 bytes)
    for n in ([40, 41, 42, 43, 44, 60] if quick else list(range(38, 48)) + [60, 85, 86, 100]):
        capsets.append([('mp', ALL_FAMILIES[k % 20]) for k in range(n)])
    allf = ALL_FAMILIES[:19]
    capsets.append([('mp', f) for f in allf] + [('addpath', [(f, 3) for f in allf]), ('gr', 4, 120, [(f, 0) for f in allf]),
                                                ('llgr', [(f, 0, 86400) for f in allf]), ('as4', 65001), ('extmsg',)])
    # single capabilities whose one-byte length arithmetic is at its edge
    for n in [42, 43] + ([] if quick else [85, 86]):
        capsets.append([('enh', [(W.IPV4, 2)] * n)])
    for n in [63, 64]:
        capsets.append([('addpath', [(W.IPV4, 1)] * n)])
        capsets.append([('gr', 0, 1, [(W.IPV4, 0)] * n)])
    for n in [36, 37]:
        capsets.append([('llgr', [(W.IPV4, 0, 5)] * n)])
    for n in [100, 250, 253, 254, 255, 256, 300]:
        capsets.append([('unknown', 77, [n % 256] * n)])
    capsets.append([('fqdn', [65 + k % 26 for k in range(120)], [97 + k % 26 for k in range(140)])])
    capsets.append([('mp', W.IPV4)] * 41 + [('unknown', 77, [1] * 5)])
    capsets.append([('mp', W.IPV4)] * 41 + [('unknown', 77, [1] * 7)])
    for cs in capsets:
        for asn, hold, rid in [(65001, 90, 0x0a000001)] + ([(4200000001, 0, 1), (65535, 65535, 0xfffffffe)] if len(cs) < 8 else []):
            capl = list(cs)
            if asn > 65535 and not any(c[0] == 'as4' for c in capl):
                capl.append(('as4', asn))
            cases.append(mk(std_l, std_r, ['open', asn, hold, rid, capl], ['open']))

    # ---- C. IPv4 legacy: counts around the frame boundary, add-path, extended message
    def v4_split(n_lo, n_hi, reps, ext, modes):
        for _ in range(reps):
            lm, rm = rng.choice(modes)
            l, r = caps_pair([W.IPV4, W.IPV6], lmode=lm, rmode=rm, ext=ext)
            n = rng.randint(n_lo, n_hi)
            attrs = base_attrs(rng, pad=4 * rng.randint(0, 6))
            es = [['bulk', rng.choice([0, 6, 6]), n, rng.randint(0, 60000)]]
            if rng.random() < 0.6:
                cases.append(mk(l, r, ['reach', W.IPV4, NH4, attrs, es], ['reach', 'v4', 'boundary']))
            else:
                cases.append(mk(l, r, ['unreach', W.IPV4, es], ['unreach', 'v4', 'boundary']))
    modes = [(0, 0), (3, 3), (2, 1), (1, 2), (3, 0)]
    v4_split(1, 12, 30 if quick else 200, (False, False), modes)
    v4_split(770, 830, 40 if quick else 600, (False, False), [(0, 0)])       # one frame of /32s, no add-path
    v4_split(430, 460, 40 if quick else 600, (False, False), [(3, 3), (2, 1)])  # one frame with path ids
    v4_split(1500, 2600, 10 if quick else 100, (True, False), modes)          # 2-3 frames
    v4_split(13000, 13200, 2 if quick else 30, (True, True), [(0, 0)])        # extended message: one frame
    if not quick:
        v4_split(26000, 40000, 10, (True, True), modes)

    # ---- D. attribute block sizes up to and past the frame limit
    def attr_sizes(ext, sizes, f, n_entries):
        for s in sizes:
            l, r = caps_pair([W.IPV4, W.IPV6], ext=ext, lmode=rng.choice([0, 3]), rmode=3)
            attrs = base_attrs(rng) + [[2, 222, 0xC0, 0, ['pat', s, rng.randint(0, 255)]]]
            nh = NH4 if f == W.IPV4 else NH6
            cases.append(mk(l, r, ['reach', f, nh, attrs, entries_for(rng, f, n_entries)], ['reach', 'attrsize']))
    small = [0, 1, 254, 255, 256, 257, 1000, 3000]
    edge = list(range(4020, 4075)) if not quick else list(range(4036, 4070, 3))
    attr_sizes((False, False), small + edge + [4100, 5000, 9000], W.IPV4, 3)
    attr_sizes((False, False), small[:3] + (list(range(3990, 4060)) if not quick else list(range(3995, 4055, 4))) + [4100, 9000], W.IPV6, 3)
    attr_sizes((True, True), [4100, 9000, 60000] + (list(range(65440, 65520)) if not quick else [65470, 65480, 65490, 65500, 65510]) + [65536, 70000],
               rng.choice([W.IPV4, W.IPV6]), 2)
    attr_sizes((False, False), [100, 2000, 3900], W.IPV4, 900)
    attr_sizes((False, False), [100, 2000, 3900], W.IPV6, 300)

    # ---- E. every family through MP_REACH / MP_UNREACH: sizes 0 .. 3 frames
    for f in ALL_FAMILIES[:19]:
        pf = per_frame(f, False, False)
        counts = [1, 2, 7] + [rng.randint(int(pf * 0.9), int(pf * 1.3)) for _ in range(4 if quick else 24)] + [rng.randint(2 * pf, 3 * pf)]
        if f in (W.IPV4_FS, W.IPV6_FS, W.IPV4_FSVPN, W.IPV6_FSVPN, W.LS):
            counts = [1, 2, 3, 5, 20, 60] + ([] if quick else [100, 200, 300])
        for n in counts:
            lm, rm = rng.choice(modes)
            extnh = (f >> 16) == 1 and rng.random() < 0.2
            l, r = caps_pair([f, W.IPV4] if f != W.IPV4 else [f], lmode=lm, rmode=rm, ext=(False, rng.random() < 0.3), extnh=extnh)
            es = entries_for(rng, f, n)
            if f == W.IPV4 and not extnh:
                continue
            if rng.random() < 0.6:
                nh = nexthop_for(rng, f)
                if extnh:
                    nh = rng.choice([NH6, NH6LL])
                cases.append(mk(l, r, ['reach', f, nh, base_attrs(rng, pad=4 * rng.randint(0, 4)), es], ['reach', 'mp']))
            else:
                cases.append(mk(l, r, ['unreach', f, es], ['unreach', 'mp']))
    # next-hop shapes per family (natural and unnatural)
    for f in ALL_FAMILIES[:19]:
        for nh in [NH4, NH6, NH6LL, None]:
            l, r = caps_pair([f, W.IPV4])
            cases.append(mk(l, r, ['reach', f, nh, base_attrs(rng), entries_for(rng, f, 2)], ['reach', 'nexthop']))
    # VPN / labeled with 1-4 labels, explicit
    for f in (W.IPV4_VPN, W.IPV6_VPN, W.IPV4_MPLS, W.IPV6_MPLS):
        for _ in range(6 if quick else 60):
            lm, rm = rng.choice(modes)
            l, r = caps_pair([f], lmode=lm, rmode=rm)
            es = [['x', explicit_kind(rng, FAM_KIND[f][0], rng.randint(1, 12))]]
            if rng.random() < 0.7:
                cases.append(mk(l, r, ['reach', f, nexthop_for(rng, f), base_attrs(rng), es], ['reach', 'labels']))
            else:
                cases.append(mk(l, r, ['unreach', f, es], ['unreach', 'labels']))

    # ---- E2. Flowspec rules around the length-prefix switch (one octet below 240, two from 240 on),
    # complete on every run: family x body size 238..242 x (announce, withdraw)
    for f in W.FS_FAMILIES:
        for kind in range(5, W.FS_KINDS):
            l, r = caps_pair([f, W.IPV4])
            es = [['rawbulk', f, kind, rng.choice([1, 2, 3]), rng.randint(0, 50000)]]
            cases.append(mk(l, r, ['reach', f, None, base_attrs(rng), es], ['reach', 'mp', 'fs_len_switch']))
            cases.append(mk(l, r, ['unreach', f, es], ['unreach', 'mp', 'fs_len_switch']))

    # ---- F. two-octet AS sessions with wide AS numbers
    for _ in range(40 if quick else 500):
        as4 = rng.choice([(True, False), (False, True), (False, False), (True, True)])
        l, r = caps_pair([W.IPV4, W.IPV6], as4=as4)
        f = rng.choice([W.IPV4, W.IPV6])
        attrs = base_attrs(rng, wide=rng.random() < 0.7, confed=rng.random() < 0.2,
                           agg=rng.choice([None, 65001, 70000, 23456, 4294967295]))
        cases.append(mk(l, r, ['reach', f, NH4 if f == W.IPV4 else NH6, attrs, entries_for(rng, f, rng.randint(1, 5))], ['reach', 'as2']))

    # ---- F2. the RFC 6793 4.2.3 corner matrix, complete on every run: AS capability pair x
    # AS_PATH with / without wide AS numbers x AGGREGATOR absent / two-octet / wide / AS_TRANS
    for as4 in [(True, False), (False, True), (False, False), (True, True)]:
        for path in ([65000, 400000, 300000], [65000, 64512], [4200000000]):
            for agg in (None, 65001, 70000, 23456):
                for f in (W.IPV4, W.IPV6):
                    l, r = caps_pair([W.IPV4, W.IPV6], as4=as4)
                    attrs = [[0, 1, 0, 0, ['b', []]], [1, 2, 0, 0, ['b', seg(2, path)]]]
                    if agg is not None:
                        attrs.append([1, 7, 0, 0, ['b', W.be32(agg) + [192, 0, 2, 9]]])
                    cases.append(mk(l, r, ['reach', f, NH4 if f == W.IPV4 else NH6, attrs, entries_for(rng, f, 2)], ['reach', 'as2', 'as4matrix']))

    # ---- G. small random mix and a malformed stream
    for _ in range(60 if quick else 1500):
        f = rng.choice([W.IPV4, W.IPV6])
        lm, rm = rng.choice(modes)
        l, r = caps_pair([W.IPV4, W.IPV6], lmode=lm, rmode=rm, ext=(rng.random() < 0.5, rng.random() < 0.5))
        es = [['x', explicit_v4(rng, rng.randint(1, 9)) if f == W.IPV4 else explicit_v6(rng, rng.randint(1, 9))]]
        if rng.random() < 0.7:
            cases.append(mk(l, r, ['reach', f, NH4 if f == W.IPV4 else rng.choice([NH6, NH6LL]), base_attrs(rng), es], ['reach', 'small']))
        else:
            cases.append(mk(l, r, ['unreach', f, es], ['unreach', 'small']))
    bad = [
        ['reach', W.IPV4, NH4, base_attrs(rng), [['x', [[0, ['v4', 33, [1, 2, 3, 4]]]]]]],
        ['reach', W.IPV6, NH6, base_attrs(rng), [['x', [[0, ['v6', 129, [0] * 16]]]]]],
        ['reach', W.IPV4, NH4, [[1, 2, 0, 0, ['b', [2, 1, 0, 0]]]], [['x', [[0, ['v4', 8, [10, 0, 0, 0]]]]]]],
        ['reach', W.IPV4, NH4, [[0, 8, 0, 5, ['b', []]]], [['x', [[0, ['v4', 8, [10, 0, 0, 0]]]]]]],
        ['reach', W.IPV4, NH4, [[1, 1, 0, 0, ['b', [0]]]], [['x', [[0, ['v4', 8, [10, 0, 0, 0]]]]]]],
        ['reach', W.IPV4, NH4, [[1, 99, 0, 0, ['b', [0]]]], [['x', [[0, ['v4', 8, [10, 0, 0, 0]]]]]]],
        ['reach', W.IPV6_VPN, NH6, base_attrs(rng), [['x', [[0, ['vpn6', [1, 2, 3], [0, 0, 0, 1, 0, 0, 0, 1], 128, NH6]]]]]],
        ['reach', W.IPV6_VPN, NH6, base_attrs(rng), [['x', [[0, ['vpn6', [1, 2, 3, 4], [0, 0, 0, 1, 0, 0, 0, 1], 96, NH6]]]]]],
        ['reach', W.IPV6_MPLS, NH6, base_attrs(rng), [['x', [[0, ['lab6', [1] * 6, 128, NH6]]]]]],
        ['reach', W.IPV4_MPLS, NH4, base_attrs(rng), [['x', [[0, ['lab4', [], 24, [10, 1, 2, 0]]]]]]],
    ]
    # ---- H. (thorough) every combination of ADD-PATH modes, extended message, AS width on small messages
    if not quick:
        import itertools
        for lm, rm, e1, e2, a1, a2 in itertools.product(range(4), range(4), (False, True), (False, True), (False, True), (False, True)):
            for f in (W.IPV4, W.IPV6):
                for n in (0, 1, 3):
                    l, r = caps_pair([W.IPV4, W.IPV6], lmode=lm, rmode=rm, ext=(e1, e2), as4=(a1, a2))
                    es = entries_for(rng, f, n, explicit=3)
                    if (lm + rm + n) % 2:
                        cases.append(mk(l, r, ['reach', f, NH4 if f == W.IPV4 else NH6, base_attrs(rng, wide=True, agg=70000), es], ['reach', 'sweep']))
                    else:
                        cases.append(mk(l, r, ['unreach', f, es], ['unreach', 'sweep']))
    two_l, two_r = caps_pair([W.IPV4, W.IPV6, W.IPV6_VPN, W.IPV6_MPLS, W.IPV4_MPLS, W.IPV4_VPN], as4=(False, True))
    cases += audit_cases(rng)
    cases += struct_audit_cases(rng)
    for m in bad:
        cases.append(mk(two_l, two_r, m, ['malformed']))
        cases.append(mk(*caps_pair([W.IPV4, W.IPV6, W.IPV6_VPN, W.IPV6_MPLS, W.IPV4_MPLS, W.IPV4_VPN]), m, ['malformed']))
    return cases


# ======================================================================================
# Audit classes: ENUMERATED ON EVERY RUN (both tiers), one class per clause of the property
# text / branch of the anchored code, with the values on both sides of every comparison.
# ======================================================================================
A0 = [[0, 1, 0, 0, ['b', []]], [1, 2, 0, 0, ['b', seg(2, [65001])]]]

def _opaque(n, code=222, flags=0xC0, seed=3):
    return [2, code, flags, 0, ['pat', n, seed]]

def _v4_32(i): return [0, ['v4', 32, [10] + W.be32(i)[1:]]]
def _v6_128(i): return [0, ['v6', 128, [32, 1, 13, 184] + [0] * 8 + W.be32(i)]]

def audit_cases(rng):
    cs = []
    def add(l, r, m, *tags):
        cs.append(mk(l, r, m, ['audit'] + list(tags)))

    # ---- a1. exact-fit sweep: for each wire form, the attribute pad runs through one whole entry size, so
    # the last entry of the first frame ends exactly at max-1, max, and would end at max+1
    forms = [('v4leg', W.IPV4, NH4, 6, 5), ('v6mp', W.IPV6, NH6, 7, 17), ('vpn6', W.IPV6_VPN, NH6, 8, 25), ('lab4', W.IPV4_MPLS, NH4, 4, 8)]
    for name, f, nh, kind, esize in forms:
        for ap in (0, 3):
            for pad in range(0, esize + (4 if ap else 0) + 1):
                l, r = caps_pair([f, W.IPV4], lmode=ap, rmode=ap, ext=(False, False))
                n = 2 * (4096 // (esize + (4 if ap else 0))) // 1 // 2 + 40
                attrs = A0 + [_opaque(300 + pad)]
                add(l, r, ['reach', f, nh, attrs, [['bulk', kind, n, 100]]], 'fit_sweep', 'fit_' + name)
    # withdrawals have no attributes: a first explicit entry of 1..5 octets shifts the rest
    for ap in (0, 3):
        for m in (0, 8, 16, 24, 32):
            l, r = caps_pair([W.IPV4, W.IPV6], lmode=ap, rmode=ap, ext=(False, False))
            add(l, r, ['unreach', W.IPV4, [['x', [[7, ['v4', m, [10, 1, 2, 3][:(m + 7) // 8] + [0] * (4 - (m + 7) // 8)]]]], ['bulk', 6, 900, 5]]], 'fit_sweep', 'fit_v4leg_unreach')
        for m in range(0, 129, 8):
            l, r = caps_pair([W.IPV4, W.IPV6], lmode=ap, rmode=ap, ext=(False, False))
            a = ([32, 1, 13, 184] + [1] * 12)[:(m + 7) // 8] + [0] * (16 - (m + 7) // 8)
            add(l, r, ['unreach', W.IPV6, [['x', [[7, ['v6', m, a]]]], ['bulk', 7, 300, 5]]], 'fit_sweep', 'fit_v6mp_unreach')
    # extended message: the same at 65535 (legacy reach and MP unreach)
    for pad in range(0, 6):
        l, r = caps_pair([W.IPV4, W.IPV6], ext=(True, True))
        add(l, r, ['reach', W.IPV4, NH4, A0 + [_opaque(60000 + pad)], [['bulk', 6, 1200, 9]]], 'fit_sweep', 'fit_ext65535')
    # ---- a2. attributes: a frame that holds the attributes and exactly one / zero entries (4096 and 65535)
    for f, nh, base in ((W.IPV4, NH4, 4096 - 23 - 7 - 5 - 14), (W.IPV6, NH6, 4096 - 23 - 25 - 17 - 14)):
        for d in range(-3, 4):
            l, r = caps_pair([W.IPV4, W.IPV6], ext=(False, False))
            add(l, r, ['reach', f, nh, A0 + [_opaque(base - 4 + d)], [['x', [_v4_32(1) if f == W.IPV4 else _v6_128(1)]]]], 'attr_room_boundary')
    # ---- a3. attribute length forms: value sizes around the extended-length switch, stored flags with / without
    # the extended bit, every attribute code the code knows with a legal value
    for n in (0, 1, 254, 255, 256, 257):
        for fl in (0xC0, 0xD0, 0xE0, 0x80, 0x90):
            l, r = caps_pair([W.IPV4])
            add(l, r, ['reach', W.IPV4, NH4, A0 + [_opaque(n, flags=fl)], [['x', [_v4_32(2)]]]], 'attr_len_switch')
        if n % 4 == 0 and n:
            l, r = caps_pair([W.IPV4])
            add(l, r, ['reach', W.IPV4, NH4, A0 + [[1, 8, 0, 0, ['pat', n, 1]]], [['x', [_v4_32(2)]]]], 'attr_len_switch')
    known = [[0, 4, 0, 7, ['b', []]], [0, 5, 0, 100, ['b', []]], [1, 6, 0, 0, ['b', []]], [1, 7, 0, 0, ['b', W.be32(65001) + [192, 0, 2, 9]]],
             [1, 8, 0, 0, ['b', [255, 255, 255, 1]]], [0, 9, 0, 167772161, ['b', []]], [1, 10, 0, 0, ['b', [10, 0, 0, 1, 10, 0, 0, 2]]],
             [1, 16, 0, 0, ['b', [0, 2, 253, 232, 0, 0, 0, 100]]], [1, 23, 0, 0, ['b', [0, 8, 0, 4, 1, 0, 0, 0]]], [1, 26, 0, 0, ['b', [1, 0, 11, 0, 0, 0, 0, 0, 0, 0, 5]]],
             [1, 29, 0, 0, ['b', [4, 2, 0, 1, 9]]], [1, 32, 0, 0, ['b', W.be32(65001) + W.be32(1) + W.be32(2)]], [1, 40, 0, 0, ['b', [1, 0, 7, 0, 0, 0, 0, 0, 0, 5]]]]
    for a in known:
        for two in (True, False):
            l, r = caps_pair([W.IPV4], as4=(two, True))
            add(l, r, ['reach', W.IPV4, NH4, A0 + [a], [['x', [_v4_32(3)]]]], 'attr_each_code')
    l, r = caps_pair([W.IPV4])
    add(l, r, ['reach', W.IPV4, NH4, A0 + known, [['x', [_v4_32(3)]]]], 'attr_each_code')
    # ---- a4. AS_PATH shapes on both AS widths: segment sizes 1/63/64/127/128/254/255 (the 4-octet value
    # crosses 255 octets at 64 ASes, the 2-octet one at 127), several segments, AS numbers at the
    # two-octet boundary in first / last position, AS_TRANS itself, sets and confederation segments
    for as4 in ((True, True), (False, True)):
        for n in (1, 63, 64, 126, 127, 128, 254, 255):
            for asn in (65001, 70000):
                l, r = caps_pair([W.IPV4], as4=as4)
                path = seg(2, [asn] + [64512 + k % 100 for k in range(n - 1)])
                add(l, r, ['reach', W.IPV4, NH4, [A0[0], [1, 2, 0, 0, ['b', path]]], [['x', [_v4_32(4)]]]], 'aspath_segment_size')
        for asns in ([65534], [65535], [65536], [23456], [65535, 65536], [65536, 65535], [1, 65536, 2], [4294967295], [0]):
            l, r = caps_pair([W.IPV4], as4=as4)
            add(l, r, ['reach', W.IPV4, NH4, [A0[0], [1, 2, 0, 0, ['b', seg(2, asns)]]], [['x', [_v4_32(4)]]]], 'aspath_as2_boundary')
        shapes = [[], seg(1, [65001, 65002]), seg(1, [70000]), seg(2, [65001]) + seg(1, [70000, 65002]) + seg(2, [65003]),
                  seg(3, [65100]) + seg(2, [65001]), seg(3, [65100]), seg(4, [65100, 65101]) + seg(2, [65001, 65002]),
                  seg(2, [65001] * 255) + seg(2, [65002] * 255) + seg(2, [70000])]
        for p in shapes:
            l, r = caps_pair([W.IPV4], as4=as4)
            add(l, r, ['reach', W.IPV4, NH4, [A0[0], [1, 2, 0, 0, ['b', p]]], [['x', [_v4_32(4)]]]], 'aspath_shapes')
        for agg in (0, 65535, 65536, 23456, 4294967295):
            for path in ([65001], [70000]):
                l, r = caps_pair([W.IPV4], as4=as4)
                add(l, r, ['reach', W.IPV4, NH4, [A0[0], [1, 2, 0, 0, ['b', seg(2, path)]], [1, 7, 0, 0, ['b', W.be32(agg) + [192, 0, 2, 9]]]],
                           [['x', [_v4_32(4)]]]], 'aggregator_boundary')
    # ---- a5. every prefix length of both address sizes, canonical and with host bits, path ids at the edges
    for ap in (0, 3):
        l, r = caps_pair([W.IPV4, W.IPV6], lmode=ap, rmode=ap)
        v4 = [[[0, 1, 4294967295][m % 3], ['v4', m, W.be32((0xffffffff << (32 - m)) & 0xffffffff if m else 0)]] for m in range(33)]
        add(l, r, ['reach', W.IPV4, NH4, A0, [['x', v4]]], 'every_mask')
        add(l, r, ['unreach', W.IPV4, [['x', v4]]], 'every_mask')
        add(l, r, ['reach', W.IPV4, NH4, A0, [['x', [[1, ['v4', m, [255, 255, 255, 255]]] for m in range(33)]]]], 'every_mask', 'host_bits')
        for lo in (0, 43, 86):
            v6 = []
            for m in range(lo, min(lo + 43, 129)):
                full = ((1 << 128) - 1) ^ ((1 << (128 - m)) - 1)
                v6.append([[0, 1, 4294967295][m % 3], ['v6', m, list(full.to_bytes(16, 'big'))]])
            add(l, r, ['reach', W.IPV6, NH6, A0, [['x', v6]]], 'every_mask')
            add(l, r, ['unreach', W.IPV6, [['x', v6]]], 'every_mask')
    # ---- a6. ADD-PATH modes 0..3 on both sides, extended message and AS width on one / both sides: every run
    import itertools
    for lm, rm in itertools.product(range(4), range(4)):
        for f in (W.IPV4, W.IPV6):
            l, r = caps_pair([W.IPV4, W.IPV6], lmode=lm, rmode=rm)
            es = [['x', [[5, ['v4', 24, [10, 9, 8, 0]]], [6, ['v4', 8, [11, 0, 0, 0]]]] if f == W.IPV4 else [[5, ['v6', 64, [32, 1, 13, 184] + [0] * 12]]]]]
            add(l, r, ['reach', f, NH4 if f == W.IPV4 else NH6, A0, es], 'addpath_matrix')
            add(l, r, ['unreach', f, es], 'addpath_matrix')
    for e1, e2, a1, a2 in itertools.product((False, True), repeat=4):
        l, r = caps_pair([W.IPV4, W.IPV6], ext=(e1, e2), as4=(a1, a2))
        add(l, r, ['reach', W.IPV4, NH4, [A0[0], [1, 2, 0, 0, ['b', seg(2, [70000, 65001])]], _opaque(4080)], [['x', [_v4_32(5)]]]], 'session_matrix')
    # negotiation corner cases: duplicate / conflicting capabilities, ADD-PATH for a family without MP, one-sided RFC 8950
    mp4, mp6 = ('mp', W.IPV4), ('mp', W.IPV6)
    odd = [
        ([mp4, mp4, ('addpath', [(W.IPV4, 1)]), ('addpath', [(W.IPV4, 3)])], [mp4, ('addpath', [(W.IPV4, 3), (W.IPV4, 1)])]),
        ([mp4, ('addpath', [(W.IPV6, 3)])], [mp4, ('addpath', [(W.IPV4, 3), (W.IPV6, 3)])]),
        ([mp4, ('addpath', [(W.IPV4, 3)]), mp4], [mp4, ('addpath', [(W.IPV4, 3)])]),
        ([mp4, ('enh', [(W.IPV4, 2)])], [mp4]),
        ([mp4, ('enh', [(W.IPV4, 2)])], [mp4, ('enh', [(W.IPV4, 2)])]),
        ([mp4, ('enh', [(W.IPV4, 1)])], [mp4, ('enh', [(W.IPV4, 1)])]),
        ([mp4, mp6, ('enh', [(W.IPV6, 2)])], [mp4, mp6, ('enh', [(W.IPV6, 2)])]),
        ([mp4, mp6, ('enh', [(W.IPV4_VPN, 2)]), ('mp', W.IPV4_VPN)], [mp4, mp6, ('mp', W.IPV4_VPN), ('enh', [(W.IPV4_VPN, 2)])]),
        ([mp4, ('as4', 1), ('as4', 2), ('extmsg',), ('extmsg',)], [mp4, ('as4', 3), ('extmsg',)]),
        ([mp6, mp4], [mp4, mp6]),
    ]
    for lc, rc in odd:
        for nh in (NH4, NH6, NH6LL):
            add(lc, rc, ['reach', W.IPV4, nh, A0, [['x', [[9, ['v4', 24, [10, 9, 8, 0]]]]]]], 'negotiate_corner')
        add(lc, rc, ['unreach', W.IPV4, [['x', [[9, ['v4', 24, [10, 9, 8, 0]]]]]]], 'negotiate_corner')
        add(lc, rc, ['eor', W.IPV4], 'negotiate_corner')
    # ---- a7. NOTIFICATION: every (code, subcode) the constructor distinguishes, with and without data; data at the frame limit
    for code in range(0, 9):
        for sub in range(0, 13):
            add(std_caps()[0], std_caps()[1], ['notif', code, sub, ['b', []]], 'notif_matrix')
            add(std_caps()[0], std_caps()[1], ['notif', code, sub, ['b', [code, sub, 7]]], 'notif_matrix')
    for ext, lim in (((False, False), 4096), ((True, True), 65535)):
        for d in (-2, -1, 0, 1, 2):
            l, r = caps_pair([W.IPV4], ext=ext)
            add(l, r, ['notif', 9, 9, ['pat', lim - 21 + d, 1]], 'notif_limit')
    # ---- a8. OPEN: AS number / hold time / identifier edges; capability sums 250..256; each capability kind at
    # its one-octet edge; empty lists; flag / timer edges
    for asn in (1, 23455, 23456, 23457, 65534, 65535, 65536, 4294967295):
        for hold in (0, 3, 65535):
            caps = [('mp', W.IPV4), ('as4', asn)]
            add(std_caps()[0], std_caps()[1], ['open', asn, hold, 0x0a000001, caps], 'open_fields')
            if asn <= 65535:     # a speaker without the four-octet capability: the AS travels in the fixed field only
                add(std_caps()[0], std_caps()[1], ['open', asn, hold, 0x0a000001, [('mp', W.IPV4)]], 'open_fields', 'open_no_as4')
                add(std_caps()[0], std_caps()[1], ['open', asn, hold, 0x0a000001, []], 'open_fields', 'open_no_as4')
    for rid in (1, 0x7fffffff, 0xdfffffff):
        add(std_caps()[0], std_caps()[1], ['open', 65001, 90, rid, [('mp', W.IPV4)]], 'open_fields')
    for total in range(248, 259):
        # total capability octets = 6 * k + (2 + n)
        k = 20
        n = total - 6 * k - 2
        caps = [('mp', ALL_FAMILIES[j % 19]) for j in range(k)] + [('unknown', 77, [j % 256 for j in range(n)])]
        add(std_caps()[0], std_caps()[1], ['open', 65001, 90, 0x0a000001, caps], 'open_cap_sum')
    for n in (0, 1, 250, 251, 252, 253, 254, 255, 256, 257):
        add(std_caps()[0], std_caps()[1], ['open', 65001, 90, 0x0a000001, [('unknown', 200, [j % 256 for j in range(n)])]], 'open_cap_value_len')
    for n in (0, 1, 41, 42, 43):
        add(std_caps()[0], std_caps()[1], ['open', 65001, 90, 0x0a000001, [('enh', [(W.IPV4, 2)] * n)]], 'open_cap_counts')
    for n in (0, 1, 62, 63, 64):
        add(std_caps()[0], std_caps()[1], ['open', 65001, 90, 0x0a000001, [('addpath', [(W.IPV4, 1 + j % 3) for j in range(n)])]], 'open_cap_counts')
        add(std_caps()[0], std_caps()[1], ['open', 65001, 90, 0x0a000001, [('gr', 15, 4095, [(W.IPV6, 128 * (j % 2)) for j in range(n)])]], 'open_cap_counts')
    for n in (0, 1, 35, 36, 37):
        add(std_caps()[0], std_caps()[1], ['open', 65001, 90, 0x0a000001, [('llgr', [(W.IPV4, 128 * (j % 2), [0, 1, 255, 256, 65535, 65536, 16777215][j % 7]) for j in range(n)])]], 'open_cap_counts')
    for h, d in ((0, 0), (1, 0), (0, 1), (126, 127), (127, 127), (253, 0), (0, 253), (254, 0), (255, 0), (200, 100)):
        add(std_caps()[0], std_caps()[1], ['open', 65001, 90, 0x0a000001, [('fqdn', [97 + j % 26 for j in range(h)], [65 + j % 26 for j in range(d)])]], 'open_cap_counts')
    for fl in (0, 1, 8, 15):
        for t in (0, 1, 4095):
            add(std_caps()[0], std_caps()[1], ['open', 65001, 90, 0x0a000001, [('gr', fl, t, [(W.IPV4, 0), (W.EVPN, 128)])]], 'open_gr_fields')
    allcaps = [('mp', W.EVPN), ('rr',), ('enh', [(W.IPV4, 2)]), ('extmsg',), ('gr', 4, 120, []), ('as4', 65001), ('addpath', [(W.LS, 3)]), ('err',),
               ('llgr', [(W.RTC, 0, 1)]), ('fqdn', [114], [100]), ('unknown', 0, []), ('unknown', 255, [1]), ('unknown', 3, [1, 2])]
    add(std_caps()[0], std_caps()[1], ['open', 65001, 90, 0x0a000001, allcaps], 'open_every_kind')
    for c in allcaps:
        add(std_caps()[0], std_caps()[1], ['open', 65001, 90, 0x0a000001, [c]], 'open_every_kind')
    # ---- a9. label stacks: every depth up to the one-octet NLRI length (24 * labels (+ 64) + bits <= 255), label
    # values at both ends, every RD type; announce and withdraw
    for f, kind, vpn, v6 in ((W.IPV4_MPLS, 'lab4', 0, False), (W.IPV6_MPLS, 'lab6', 0, True), (W.IPV4_VPN, 'vpn4', 64, False), (W.IPV6_VPN, 'vpn6', 64, True)):
        maxb = 128 if v6 else 32
        addr = ([32, 1, 13, 184] + [255] * 12) if v6 else [10, 255, 255, 255]
        for L in range(1, 10):
            for bits in (255, 254):      # NLRI length exactly 255 / 254 bits
                m = bits - 24 * L - vpn
                if 0 <= m <= maxb:
                    nb = (m + 7) // 8
                    a = addr[:nb] + [0] * (len(addr) - nb)
                    if m % 8 and nb: a[nb - 1] &= (0xff << (8 - m % 8)) & 0xff
                    n = [kind, [[0, 1048575, 16][j % 3] for j in range(L)]] + ([[0, [0, 1, 2][L % 3], 0, 1, 0, 0, 0, L]] if vpn else []) + [m, a]
                    l, r = caps_pair([f])
                    add(l, r, ['reach', f, NH6 if v6 else NH4, A0, [['x', [[0, n]]]]], 'label_depth')
                    add(l, r, ['unreach', f, [['x', [[0, n]]]]], 'label_depth')
            for m in (0, maxb):
                if 24 * L + vpn + m <= 255:
                    nb = (m + 7) // 8
                    n = [kind, [1048575] * L] + ([[0, L % 3, 0, 1, 0, 0, 0, L]] if vpn else []) + [m, addr[:nb] + [0] * (len(addr) - nb)]
                    l, r = caps_pair([f], lmode=3, rmode=3)
                    add(l, r, ['reach', f, NH6 if v6 else NH4, A0, [['x', [[4294967295, n]]]]], 'label_depth')
                    add(l, r, ['unreach', f, [['x', [[4294967295, n]]]]], 'label_depth')
    # ---- a10. End-of-RIB / ROUTE-REFRESH / empty updates for every family with RFC 8950 on and off
    for f in ALL_FAMILIES[:19]:
        for enh in (False, True):
            l, r = caps_pair([f, W.IPV4], extnh=enh)
            add(l, r, ['eor', f], 'eor_every_family')
            add(l, r, ['eor', W.IPV4], 'eor_every_family')
    # next hop forms for IPv4 over MP_REACH (RFC 8950 negotiated)
    for nh in (NH4, NH6, NH6LL):
        l, r = caps_pair([W.IPV4], extnh=True)
        add(l, r, ['reach', W.IPV4, nh, A0, [['x', [_v4_32(6)]]]], 'ipv4_over_mp')
        add(l, r, ['unreach', W.IPV4, [['x', [_v4_32(6)]]]], 'ipv4_over_mp')
    return cs

def std_caps():
    return caps_pair([W.IPV4, W.IPV6])


# ---- structured NLRI of the families whose encoders the model covers (Flowspec x4, RTC, EVPN, SR Policy x2)
STRUCT_FAMILIES = (W.IPV4_FS, W.IPV6_FS, W.IPV4_FSVPN, W.IPV6_FSVPN, W.RTC, W.EVPN, W.IPV4_SRP, W.IPV6_SRP, W.IPV4_MUP, W.IPV6_MUP, W.LS)
RDS = [[0, 0, 253, 232, 0, 0, 0, 100], [0, 1, 192, 0, 2, 1, 0, 7], [0, 2, 0, 1, 0, 0, 0, 9]]
V6A = [32, 1, 13, 184, 0, 1, 0, 2, 0, 3, 0, 4, 0, 5, 0, 6]
OPVALS = [0, 1, 255, 256, 65535, 65536, 4294967295, 4294967296, 2 ** 64 - 1]

def ops_list(vals, bits=(0x01, 0x03, 0x45, 0x06)):
    return [[(bits[k % len(bits)] & 0x4f) | (0x80 if k == len(vals) - 1 else 0), v] for k, v in enumerate(vals)]

def fs_rule(rng, f, i, ncomp=None):
    v6 = 1 if f in (W.IPV6_FS, W.IPV6_FSVPN) else 0
    rd = RDS[i % 3] if f in (W.IPV4_FSVPN, W.IPV6_FSVPN) else None
    comps = []
    if i % 2 == 0:
        comps.append(['p', 1, [0, 8, 24, 32][i % 4] if not v6 else [0, 48, 64, 128][i % 4], 0, ([10] + W.be32(i)[1:]) if not v6 else V6A[:13] + W.be32(i)[1:]])
    types = list(range(3, 14 if v6 else 13))
    for k in range(ncomp if ncomp is not None else 1 + i % 3):
        ty = types[(i + 5 * k) % len(types)]
        comps.append(['o', ty, ops_list([OPVALS[(i + k + j) % len(OPVALS)] for j in range(1 + (i + k) % 3)])])
    return ['fs', v6, rd, comps]

def fs_sized(f, i, target):
    """a rule whose body (RD + components) is exactly [target] octets: one port component of 2-octet operators"""
    v6 = 1 if f in (W.IPV6_FS, W.IPV6_FSVPN) else 0
    rd = RDS[i % 3] if f in (W.IPV4_FSVPN, W.IPV6_FSVPN) else None
    rest = target - (8 if rd else 0)
    comps = []
    if rest % 2 == 0:       # 1 + 2k is odd: an extra 3-octet operator makes the sum even
        nops = (rest - 1 - 3) // 2
        comps.append(['o', 4, ops_list([7] * nops + [300])])
    else:
        comps.append(['o', 4, ops_list([(i + k) % 256 for k in range((rest - 1) // 2)])])
    return ['fs', v6, rd, comps]

def evpn_route(i, k):
    rd, esi = RDS[i % 3], [(i + j) % 256 for j in range(10)]
    ip = [[], [10] + W.be32(i)[1:], V6A[:12] + W.be32(i)][i % 3]
    if k == 1: return ['evpn', 1, rd, esi, [0, i, 4294967295][i % 3], [0, 100 + i, 16777215][i % 3]]
    if k == 2: return ['evpn', 2, rd, esi, i, [2, 0, 0] + W.be32(i)[1:], ip, (100 + i) % 16777216, None if i % 2 else [0, 16777215, 200][i % 3]]
    if k == 3: return ['evpn', 3, rd, i, ip or [192, 0, 2, 1]]
    if k == 4: return ['evpn', 4, rd, esi, ip or V6A]
    ipp = ip or [10, 1, 0, 0]
    return ['evpn', 5, rd, esi, i, [0, 8 * len(ipp), 24][i % 3], ipp, [0] * len(ipp) if i % 2 else (ipp[:-1] + [1]), [0, 16777215, 5000][i % 3]]

def mup_route(f, i, k):
    v6 = f == W.IPV6_MUP
    w = 16 if v6 else 4
    addr = (V6A[:12] + W.be32(i)) if v6 else [10] + W.be32(i)[1:]
    ep = V6A if v6 else [192, 0, 2, 1]
    rd = RDS[i % 3]
    pl = [0, 1, 8 * w - 1, 8 * w, 24][i % 5]
    nb = (pl + 7) // 8
    pa = addr[:nb] + [0] * (w - nb)
    if k == 1: return ['mup', 1, rd, pl, pa]
    if k == 2: return ['mup', 2, rd, addr]
    if k == 3: return ['mup', 3, rd, pl, pa, [0, i, 4294967295][i % 3], [0, 9, 63, 255][i % 4], ep, None if i % 2 else addr]
    tb = i % 5
    teid = (0x01020304 + i) & 0xffffffff
    teid -= teid % (256 ** (4 - tb))
    return ['mup', 4, rd, 8 * w + [0, 8, 16, 24, 32][tb] - ([0, 3, 0, 7, 0][i % 5] if tb else 0), ep, teid]

def ls_node_desc(i, shape):
    b = []
    if shape & 1: b.append([512, W.be32(65000 + i)])
    if shape & 2: b.append([513, W.be32(i)])
    if shape & 4: b.append([514, W.be32(i % 7)])
    if shape & 8: b.append([515, [(i + k) % 256 for k in range([4, 6, 7, 8][i % 4])]])
    if shape & 16: b.append([516, [10, 0, (i >> 8) & 255, i & 255]])
    if shape & 32: b.append([517, W.be32(64512 + i % 100)])
    return b

def ls_struct(kind, i):
    """a BGP-LS NLRI value: kind 0 node, 1 link, 2 IPv4 prefix, 3 IPv6 prefix, 4 SRv6 SID, 5 unknown type; [i] varies the
    descriptors present and the TLV value lengths (0 / 1 / 255 / 256 for unknown TLVs)"""
    proto, ident = 1 + i % 7, [i, 2 ** 32 + i, 2 ** 64 - 1][i % 3]
    local = ls_node_desc(i, [1, 9, 15, 63, 8, 0][i % 6])
    if kind == 0: return ['ls', 1, proto, ident, local]
    if kind == 1:
        sel = [1, 2 | 4, 8 | 16, 1 | 32, 63, 0, 64, 128][i % 8]
        link = []
        if sel & 1: link.append([258, W.be32(i) + W.be32(i + 1)])
        if sel & 2: link.append([259, [10, 0, 0, i % 256]])
        if sel & 4: link.append([260, [10, 0, 1, i % 256]])
        if sel & 8: link.append([261, [32, 1] + [0] * 13 + [i % 256]])
        if sel & 16: link.append([262, [32, 1] + [0] * 13 + [(i + 1) % 256]])
        if sel & 32: link.append([263, sum([W.be16((i + k) % 4096) for k in range(i % 3)], [])])
        if sel & 64: link.append([9000 + i % 50, [(i + k) % 256 for k in range([0, 1, 255, 256][i % 4])]])
        if sel & 128: link.append([258, [1, 2, 3]])      # a known type with an unusual length stays opaque
        return ['ls', 2, proto, ident, local, ls_node_desc(i + 1, [9, 63, 1][i % 3]), link]
    if kind in (2, 3):
        sel = [4, 1 | 4, 2 | 4, 7, 4 | 8][i % 5]
        pfx = []
        if sel & 1: pfx.append([263, W.be16(i % 4096)])
        if sel & 2: pfx.append([264, [1 + i % 6]])
        if sel & 4:
            maxb = 32 if kind == 2 else 128
            pl = [0, 1, 8, 24, maxb - 1, maxb][i % 6]
            addr = ([10, 1, 2, 3] if kind == 2 else [32, 1, 13, 184] + [(i + k) % 256 for k in range(12)])[:(pl + 7) // 8]
            pfx.append([265, [pl] + addr])
        if sel & 8: pfx.append([9100, [i % 256]])
        return ['ls', 3 if kind == 2 else 4, proto, ident, local, pfx]
    if kind == 4:
        return ['ls', 6, proto, ident, local, [[(i + k) % 4096, [32, 1, 13, 184] + [(i + k + j) % 256 for j in range(12)]] for k in range(1 + i % 2)]]
    return ['ls', 0, [0, 5, 7, 900, 65535, 1][i % 6], [(i + 3 * k) % 256 for k in range([0, 5, 8, 30, 300, 4][i % 6])]]

def struct_entry(rng, f, i):
    if f == W.LS: return ls_struct(i % 6, i)
    if f in (W.IPV4_MUP, W.IPV6_MUP): return mup_route(f, i, 1 + i % 4)
    if f in (W.IPV4_FS, W.IPV6_FS, W.IPV4_FSVPN, W.IPV6_FSVPN): return fs_rule(rng, f, i)
    if f == W.RTC: return ['rtc', i % 3, [0, 65000 + i, 4294967295][i % 3] if i % 3 else 0, (RDS[i % 3][:2] + W.be16(65000) + W.be32(i)) if i % 3 == 2 else []]
    if f == W.EVPN: return evpn_route(i, 1 + i % 5)
    if f == W.IPV4_SRP: return ['srp', i, 100 + i % 3, [10] + W.be32(i)[1:]]
    return ['srp', i, [0, 4294967295][i % 2], V6A[:12] + W.be32(i)]

STRUCT_BULK = {W.EVPN: (9, 13), W.IPV4_FS: (10,), W.IPV6_FSVPN: (14,), W.RTC: (11,), W.IPV4_SRP: (12,), W.IPV4_MUP: (15,), W.LS: (16,)}

def struct_entries(rng, f, n):
    if not n:
        return []
    k = min(n, rng.randint(1, 6) if f in STRUCT_BULK else min(n, 120))
    start = rng.randint(0, 50000)
    segs = [['x', [[(start + j) % 7, struct_entry(rng, f, start + j)] for j in range(k)]]]
    if n - k > 0 and f in STRUCT_BULK:
        segs.append(['bulk', rng.choice(STRUCT_BULK[f]), n - k, start])
    return segs

def struct_audit_cases(rng):
    cs = []
    def add(l, r, m, *tags):
        cs.append(mk(l, r, m, ['audit'] + list(tags)))
    def both(f, entries, *tags, ext=(True, True), ap=0, wd=True):
        l, r = caps_pair([f, W.IPV4], lmode=ap, rmode=ap, ext=ext)
        nh = None if f in (W.IPV4_FS, W.IPV6_FS, W.IPV4_FSVPN, W.IPV6_FSVPN) else (NH4 if (f >> 16) == 1 else NH6)
        if f == W.EVPN: nh = NH4
        add(l, r, ['reach', f, nh, A0, [['x', entries]]], *tags)
        if wd: add(l, r, ['unreach', f, [['x', entries]]], *tags)
    FS = (W.IPV4_FS, W.IPV6_FS, W.IPV4_FSVPN, W.IPV6_FSVPN)
    for f in FS:
        v6 = 1 if f in (W.IPV6_FS, W.IPV6_FSVPN) else 0
        rd = RDS[1] if f in (W.IPV4_FSVPN, W.IPV6_FSVPN) else None
        # every component type, alone; every operator value width on both sides of its switch; flag bits
        for ty in range(3, 14 if v6 else 13):
            both(f, [[0, ['fs', v6, rd, [['o', ty, ops_list(OPVALS)]]]]], 'fs_every_component')
        for v in OPVALS:
            both(f, [[0, ['fs', v6, rd, [['o', 5, ops_list([v])]]]]], 'fs_op_value_width')
        for b in (0x00, 0x01, 0x02, 0x04, 0x07, 0x40, 0x47, 0x0f):
            both(f, [[0, ['fs', v6, rd, [['o', 9, [[b, 1], [b | 0x80, 2]]]]]]], 'fs_op_bits')
        # prefix components: both types, every octet boundary of the length
        for ty in (1, 2):
            for m in ((0, 1, 7, 8, 9, 16, 24, 25, 31, 32) if not v6 else (0, 1, 8, 63, 64, 65, 120, 121, 127, 128)):
                a = ([203, 0, 113, 255] if not v6 else [32, 1, 13, 184] + [255] * 12)
                nb = (m + 7) // 8
                a = a[:nb] + [0] * (len(a) - nb)
                both(f, [[0, ['fs', v6, rd, [['p', ty, m, 0, a], ['o', 3, ops_list([6])]]]]], 'fs_prefix_lengths')
        both(f, [[0, ['fs', v6, rd, []]]], 'fs_empty_rule')
        both(f, [[0, ['fs', v6, rd, [['p', 1, 0, 0, [0] * (16 if v6 else 4)], ['p', 2, 8, 0, [10] + [0] * (15 if v6 else 3)]] +
                              [['o', ty, ops_list([ty])] for ty in range(3, 14 if v6 else 13)]]]], 'fs_all_components')
        # rule body sizes on both sides of the one/two octet length prefix and of its 12-bit limit
        for target in (237, 238, 239, 240, 241, 242, 243, 255, 256, 257, 4094, 4095):
            both(f, [[0, fs_sized(f, target, target)], [0, fs_sized(f, target + 1, 12)]], 'fs_len_switch_struct')
        for ap in (0, 3):
            both(f, [[j + 1, fs_rule(rng, f, j)] for j in range(12)], 'fs_mixed', ap=ap, ext=(False, False))
    if True:
        v6rule = lambda off: ['fs', 1, None, [['p', 1, 64, off, V6A[:8] + [0] * 8]]]
        for off in (1, 8, 63):
            both(W.IPV6_FS, [[0, v6rule(off)]], 'fs_v6_offset')
        # RFC 8956 3.1: the pattern is the length - offset bits after the offset (its example: ::1234:5678:9a00:0/104
        # offset 64 is 01 68 40 12 34 56 78 9a); offset < length unless both are 0; a component follows the prefix so
        # that a reader that sizes the pattern differently loses step
        EX = [0] * 8 + [0x12, 0x34, 0x56, 0x78, 0x9a, 0, 0, 0]
        for ln, off, addr in ((104, 64, EX), (128, 64, EX[:15] + [1]), (128, 127, [0] * 15 + [1]), (128, 120, [0] * 15 + [0xa5]), (65, 64, [0] * 8 + [0x80] + [0] * 7),
                              (72, 7, [1, 0x23] + [0] * 14), (64, 64, EX), (0, 0, [0] * 16), (0, 1, [0] * 16), (104, 0, EX)):
            for ty in (1, 2):
                both(W.IPV6_FS, [[0, ['fs', 1, None, [['p', ty, ln, off, addr], ['o', 3, [[0x81, 6]]]]]]], 'fs_v6_offset', 'fs_v6_offset_%d_%d' % (ln, off))
        both(W.IPV6_FSVPN, [[0, ['fs', 1, RDS[0], [['p', 1, 104, 64, EX], ['o', 3, [[0x81, 6]]]]]]], 'fs_v6_offset')
    # RTC: the three forms, AS numbers at the edges
    for kind in (0, 1, 2):
        for asn in (0, 65535, 65536, 4294967295):
            both(W.RTC, [[0, ['rtc', kind, asn if kind else 0, [0, 2, 253, 232, 0, 0, 0, 1] if kind == 2 else []]]], 'rtc_forms')
    both(W.RTC, [[j, struct_entry(rng, W.RTC, j)] for j in range(9)], 'rtc_forms', ap=3)
    # EVPN: every route type x address form x optional label, field edges
    for k in range(1, 6):
        for i in range(6):
            both(W.EVPN, [[0, evpn_route(i, k)]], 'evpn_every_type')
        both(W.EVPN, [[j + 1, evpn_route(j, k)] for j in range(6)], 'evpn_every_type', ap=3, ext=(False, False))
    for rd in RDS:
        both(W.EVPN, [[0, ['evpn', 3, rd, 0, [192, 0, 2, 1]]]], 'evpn_rd_types')
    for plen4, plen6 in ((0, 0), (1, 1), (31, 127), (32, 128)):
        both(W.EVPN, [[0, ['evpn', 5, RDS[0], [0] * 10, 0, plen4, [10, 0, 0, 0], [0, 0, 0, 0], 0]],
                      [0, ['evpn', 5, RDS[0], [255] * 10, 4294967295, plen6, V6A, V6A, 16777215]]], 'evpn_type5_prefix_len')
    # SR Policy
    for d, c in ((0, 0), (4294967295, 4294967295), (1, 100)):
        both(W.IPV4_SRP, [[0, ['srp', d, c, [192, 0, 2, 1]]]], 'srp_forms')
        both(W.IPV6_SRP, [[0, ['srp', d, c, V6A]]], 'srp_forms')
    # BGP-LS (still opaque in the model: framing proved, inner octets differential): every NLRI type with every
    # descriptor TLV, TLV value lengths 0 / 1 / 255 / 256, prefix lengths at the octet boundaries
    for kind in range(5, 10):
        for i in range(0, 42):
            l, r = caps_pair([W.LS, W.IPV4])
            es = [['rawbulk', W.LS, kind, 1, i]]
            # (LS NLRI are modelled as values now -- ls_struct_every_type below; the octets-in path keeps every
            # shape once, alternating announce / withdraw)
            if i % 2 == 0: add(l, r, ['reach', W.LS, NH4, A0, es], 'ls_every_nlri_type')
            else: add(l, r, ['unreach', W.LS, es], 'ls_every_nlri_type')
        l, r = caps_pair([W.LS, W.IPV4], lmode=3, rmode=3, ext=(False, False))
        add(l, r, ['reach', W.LS, NH6, A0, [['rawbulk', W.LS, kind, 60, 100]]], 'ls_every_nlri_type')
    # BGP-LS as values: every NLRI type x every descriptor, unknown TLV lengths 0 / 1 / 255 / 256, identifiers past 32 bits
    for kind in range(6):
        for i in range(0, 48):
            both(W.LS, [[0, ls_struct(kind, i)]], 'ls_struct_every_type', wd=(i % 3 == 0))
        both(W.LS, [[j + 1, ls_struct(kind, j)] for j in range(24)], 'ls_struct_every_type', ap=3, ext=(False, False))
    # MUP: every route type x address family, prefix length / TEID length edges, optional source address
    for f in (W.IPV4_MUP, W.IPV6_MUP):
        for k in range(1, 5):
            for i in range(10):
                both(f, [[0, mup_route(f, i, k)]], 'mup_every_type')
            both(f, [[j + 1, mup_route(f, j, k)] for j in range(10)], 'mup_every_type', ap=3, ext=(False, False))
    # splitting: several frames of structured entries at 4096
    for f, kind in ((W.EVPN, 9), (W.EVPN, 13), (W.IPV4_FS, 10), (W.IPV6_FSVPN, 14), (W.RTC, 11), (W.IPV4_SRP, 12), (W.IPV4_MUP, 15), (W.LS, 16)):
        for ap in (0, 3):
            l, r = caps_pair([f, W.IPV4], lmode=ap, rmode=ap, ext=(False, False))
            nh = None if f in FS else NH4
            for n in (400, 401):
                add(l, r, ['reach', f, nh, A0 + [_opaque(ap + n % 2)], [['bulk', kind, n, 7]]], 'struct_split')
                add(l, r, ['unreach', f, [['bulk', kind, n, 7]]], 'struct_split')
    return cs
