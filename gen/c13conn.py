"""C13, connection layer: cases, renderers and Spec oracle for the RTR connection task and the RPKI API
(add / delete / enable / disable / reset) -- model coq/Model/RtrConn.v, harness harness/daemon/grpc_hx.rs
(verif_rpki_conn_cases: the real API functions, the real try_connect task, a loopback TCP cache).

A case is {'kind': 'conn', 'ops': [...]}; op = ('add',) ('delete',) ('enable',) ('disable',) ('hard',) ('soft',)
('feed', [bytes]) ('close',).  `Sim` below follows the property text (what is registered, whether a session is
live, what the cache has announced in the live session); it supplies the waits the harness needs to observe a
quiescent state and is the oracle that judges the implementation."""
from vp import val
from vp.val import cN, clist

KNOWN_TYPES = {0, 1, 2, 3, 4, 6, 7, 8, 10}
RESET_QUERY = [1, 2, 0, 0, 0, 0, 0, 8]

def be(n, k): return list(n.to_bytes(k, 'big'))
def serial_query(sid, serial): return [1, 1] + be(sid, 2) + be(12, 4) + be(serial, 4)

def parse_complete(bs):
    """complete PDUs of a conforming stream: list of dicts, bytes used"""
    out, i = [], 0
    while i + 8 <= len(bs):
        v, ty = bs[i], bs[i + 1]
        sid = int.from_bytes(bytes(bs[i + 2:i + 4]), 'big')
        ln = int.from_bytes(bytes(bs[i + 4:i + 8]), 'big')
        if ln < 8 or i + ln > len(bs): break
        body = bs[i + 8:i + ln]
        p = {'type': ty, 'sid': sid}
        if ty == 4: p.update(flags=body[0], key=(4, tuple(body[4:8]), body[1], body[2], int.from_bytes(bytes(body[8:12]), 'big')))
        elif ty == 6: p.update(flags=body[0], key=(6, tuple(body[4:20]), body[1], body[2], int.from_bytes(bytes(body[20:24]), 'big')))
        elif ty == 7: p['serial'] = int.from_bytes(bytes(body[:4]), 'big')
        out.append(p)
        i += ln
    return out, i

class Sim:
    """what the property text says about a history of the connection layer"""
    def __init__(self):
        self.reg = False; self.disabled = False; self.live = False
        self.permit = False
        self.total = 0            # PDUs of used types received by this registration's RpkiState
        self.stream = []          # bytes of the live session
        self.done = 0             # complete PDUs of the live session already accounted for
        self.cur = set(); self.eod = False; self.sid = 0; self.serial = 0
        self.after_eod = False    # the last complete PDU of the live session is an End of Data
    def _new_session(self):
        self.live = True; self.stream = []; self.done = 0; self.cur = set(); self.eod = False; self.after_eod = False
    def _end_session(self):
        self.live = False
    def step(self, op):
        """returns dict(waits=[eof, accept, query], total=..)"""
        k = op[0]
        w = [0, 0, 0]
        if k == 'add':
            if not self.reg:
                self.reg = True; self.disabled = False; self.permit = False; self.total = 0; self.serial = 0; self.sid = 0
                self._new_session(); w[1] = 1
        elif k == 'delete':
            if self.reg:
                if self.live: w[0] = 1
                self._end_session(); self.reg = False; self.disabled = False
        elif k == 'enable':
            if self.reg and self.disabled:
                self.disabled = False; self._new_session(); w[1] = 1
        elif k == 'disable':
            if self.reg and not self.disabled:
                if self.live: w[0] = 1
                self._end_session(); self.disabled = True
        elif k == 'hard':
            if self.reg:
                if self.live: w[0] = 1
                self._end_session()
                if not self.disabled:
                    self._new_session(); w[1] = 1
        elif k == 'soft':
            if self.reg and not self.disabled:
                if self.live and self.eod: w[2] = 1
                else: self.permit = True
        elif k == 'feed':
            if self.live:
                self.stream = self.stream + list(op[1])
                pdus, _ = parse_complete(self.stream)
                for p in pdus[self.done:]:
                    if p['type'] in KNOWN_TYPES: self.total += 1
                    self.after_eod = False
                    if p['type'] == 3: self.sid = p['sid']
                    elif p['type'] in (4, 6):
                        if p['flags'] & 1: self.cur.add(p['key'])
                        else: self.cur.discard(p['key'])
                    elif p['type'] == 7:
                        self.eod = True; self.serial = p['serial']; self.after_eod = True
                self.done = len(pdus)
                if self.eod and self.permit:
                    w[2] = 1; self.permit = False
        elif k == 'close':
            if self.live: self._end_session()
        else:
            raise ValueError(op)
        return {'waits': w, 'total': self.total}

OPK = {'add': 0, 'delete': 1, 'enable': 2, 'disable': 3, 'hard': 4, 'soft': 5, 'feed': 6, 'close': 7}

def case_to_val(c):
    sim = Sim()
    out = []
    for op in c['ops']:
        r = sim.step(op)
        if op[0] == 'feed': out.append([6, list(op[1]), r['total'], r['waits'][2], r['waits']])
        else: out.append([OPK[op[0]], r['waits']])
    return [out]

def case_to_coq(c):
    terms = []
    for op in c['ops']:
        k = op[0]
        if k == 'add': terms.append('OAdd')
        elif k == 'delete': terms.append('(ODelete false)')
        elif k == 'enable': terms.append('OEnable')
        elif k == 'disable': terms.append('(ODisable false)')
        elif k == 'hard': terms.append('(OResetHard false)')
        elif k == 'soft': terms.append('OResetSoft')
        elif k == 'feed': terms.append('(OFeed %s)' % val.cbytes(op[1]))
        elif k == 'close': terms.append('OClose')
    return 'run_conn_case [] %s' % clist(terms)

def case_from_json(j):
    c = dict(j)
    c['ops'] = [tuple(o) for o in j['ops']]
    return c

def canon(c, obs):
    if obs == [-1]: return obs
    out = []
    for o in obs:
        if o == [-1]: out.append(o); continue
        out.append([o[0], o[1], sorted(r[:5] + [0] for r in o[2]), o[3]])
    return out

def failures(c, obs):
    """the property text on the implementation's observations"""
    if obs == [-1]: return [(-1, 'panic', 'panic in the RPKI connection layer')]
    fails = []
    sim = Sim()
    for k, (op, ob) in enumerate(zip(c['ops'], obs)):
        sim.step(op)
        if ob == [-1]:
            fails.append((k, 'panic', 'op %d: panic' % k)); break
        status, wrote, tab, st = ob
        tab = sorted(tuple([r[0], tuple(r[1]), r[2], r[3], r[4]]) for r in tab)
        if status == -3:
            fails.append((k, 'conn-progress', 'op %d (%s): the client did not reach the state a working connection task reaches (no connection, no end of session, or PDUs left unconsumed) within the time limit' % (k, op[0])))
            break
        if len(set(tab)) != len(tab):
            fails.append((k, 'set', 'op %d (%s): a VRP is installed twice' % (k, op[0])))
        if not sim.live and tab:
            fails.append((k, 'session-end', 'op %d (%s): no session of the cache is live but %d of its VRPs remain installed' % (k, op[0], len(tab))))
        if sim.live and sim.eod and sim.after_eod and sorted(set(tab)) != sorted(sim.cur):
            fails.append((k, 'fold', 'op %d (%s): after an End of Data the installed VRPs (%d) differ from the fold of the live session\'s responses (%d)' % (k, op[0], len(tab), len(sim.cur))))
        if sim.live and not sim.eod and tab:
            fails.append((k, 'session-end', 'op %d (%s): the live session has not completed its first response but %d VRPs (of an earlier session) are installed' % (k, op[0], len(tab))))
        if sim.reg and st and bool(st[2]) != sim.live:
            fails.append((k, 'session-end', 'op %d (%s): the client reports up = %d while a session is %s' % (k, op[0], st[2], 'live' if sim.live else 'not live')))
    return fails

# ------------------------------------------------------------------ generation
def pdu_cache_response(sid): return [1, 3] + be(sid, 2) + be(8, 4)
def pdu_eod(sid, serial): return [1, 7] + be(sid, 2) + be(24, 4) + be(serial, 4) + be(3600, 4) + be(600, 4) + be(7200, 4)
def pdu_prefix(flags, net, mx, asn):
    fam, addr, mask = net
    if fam == 4: return [1, 4, 0, 0] + be(20, 4) + [flags, mask, mx, 0] + list(addr) + be(asn, 4)
    return [1, 6, 0, 0] + be(32, 4) + [flags, mask, mx, 0] + list(addr) + be(asn, 4)
def pdu_router_key(): return [1, 9, 1, 0] + be(8 + 20 + 4 + 5, 4) + list(range(20)) + be(65001, 4) + [1, 2, 3, 4, 5]
def pdu_cache_reset(): return [1, 8, 0, 0] + be(8, 4)

V4 = [(4, (10, 0, 0, 0), 8), (4, (10, 1, 0, 0), 16), (4, (192, 0, 2, 0), 24), (4, (0, 0, 0, 0), 0), (4, (203, 0, 113, 77), 32)]
V6 = [(6, tuple([0x20, 1, 0xd, 0xb8] + [0] * 12), 32), (6, tuple([0] * 16), 0)]
ASNS = [0, 65001, 65002, 4200000000]

def rand_vrp(rng):
    n = rng.choice(V4 + V4 + V6)
    top = 32 if n[0] == 4 else 128
    return (n, rng.choice([n[2], top, min(top, n[2] + 8)]), rng.choice(ASNS))

def response(rng, sid, serial, held, incremental, cut=None):
    """a conforming response as a list of feed ops; `held` = the set announced so far in this session (updated)"""
    bs = pdu_cache_response(sid)
    for _ in range(rng.randrange(0, 4)):
        if incremental and held and rng.random() < 0.4:
            v = rng.choice(sorted(held)); held.discard(v)
            bs += pdu_prefix(0, v[0], v[1], v[2])
        else:
            v = rand_vrp(rng); held.add(v)
            bs += pdu_prefix(1, v[0], v[1], v[2])
        if rng.random() < 0.1: bs += pdu_router_key()
    bs += pdu_eod(sid, serial)
    mode = rng.choice(['whole', 'whole', 'two', 'rand'])
    if mode == 'whole' or len(bs) < 2: segs = [bs]
    elif mode == 'two':
        i = rng.randrange(1, len(bs)); segs = [bs[:i], bs[i:]]
    else:
        segs, i = [], 0
        while i < len(bs):
            j = min(len(bs), i + rng.choice([1, 3, 8, 20, 40])); segs.append(bs[i:j]); i = j
    return [('feed', s) for s in segs]

def snap(vrps, sid=7, serial=1):
    bs = pdu_cache_response(sid)
    for n, mx, a in vrps: bs += pdu_prefix(1, n, mx, a)
    return ('feed', bs + pdu_eod(sid, serial))

def enumerated_cases(tier):
    cases = []
    def add(cls, ops): cases.append({'kind': 'conn', 'cls': cls, 'ops': ops})
    A = (V4[0], 24, 65001); B = (V4[1], 16, 65002); C = (V6[0], 48, 65003)
    half = ('feed', pdu_cache_response(7) + pdu_prefix(1, A[0], A[1], A[2]))            # a response without its End of Data
    incr = ('feed', pdu_cache_response(7) + pdu_prefix(1, C[0], C[1], C[2]) + pdu_prefix(0, A[0], A[1], A[2]) + pdu_eod(7, 2))
    phases = {'fresh': [], 'mid_snapshot': [half], 'synced': [snap([A, B])], 'after_increment': [snap([A, B]), incr],
              'cache_closed': [snap([A, B]), ('close',)]}
    # every way a session can be ended by the API, in every phase of the session, several times over (which select!
    # branch sees the cancellation first is the scheduler's choice), each followed by a new session with other VRPs
    for pname, pre in phases.items():
        for reps in (1, 4):
            ops = [('add',)]
            for r in range(reps):
                ops += pre + [('disable',), ('enable',)]
            add('disable_enable_%s_x%d' % (pname, reps), ops + [snap([C], 9, 5), ('disable',)])
            ops = [('add',)]
            for r in range(reps):
                ops += pre + [('hard',)]
            add('hard_reset_%s_x%d' % (pname, reps), ops + [snap([C], 9, 5), ('delete',)])
            ops = []
            for r in range(reps):
                ops += [('add',)] + pre + [('delete',)]
            add('delete_add_%s_x%d' % (pname, reps), ops + [('add',), snap([C], 9, 5), ('delete',)])
    # API calls in states where they must be refused or do nothing
    add('api_refusals', [('delete',), ('enable',), ('disable',), ('hard',), ('soft',), ('add',), ('add',), ('enable',), snap([A]),
                         ('disable',), ('disable',), ('soft',), ('hard',), ('enable',), snap([B]), ('delete',), ('delete',)])
    # soft reset: served at once when synced, kept as a permit otherwise (also across sessions)
    add('soft_reset_phases', [('add',), ('soft',), snap([A]), ('soft',), incr, ('close',), ('soft',), ('hard',), snap([B], 7, 9), ('soft',), ('delete',)])
    add('soft_permit_across_disable', [('add',), ('soft',), ('disable',), ('enable',), snap([A]), ('disable',)])
    # a session lost to the cache, then the API
    add('close_then_disable_enable', [('add',), snap([A, B]), ('close',), ('disable',), ('enable',), snap([C]), ('close',), ('delete',)])
    return cases

def gen_case(rng, tier):
    sim = Sim()
    ops = []
    held = set()
    serial = rng.randrange(1, 1000)
    sid = rng.randrange(0, 65536)
    for _ in range(rng.randrange(4, 14 if tier == 'quick' else 24)):
        if not sim.reg: cand = ['add'] * 6 + ['delete', 'hard', 'soft', 'enable']
        elif sim.disabled: cand = ['enable'] * 5 + ['delete', 'hard', 'disable', 'soft']
        elif not sim.live: cand = ['hard'] * 4 + ['disable', 'delete', 'soft', 'add']
        else: cand = ['resp'] * 6 + ['disable'] * 2 + ['hard'] * 2 + ['delete', 'soft', 'soft', 'close', 'add']
        k = rng.choice(cand)
        if k == 'resp':
            if not sim.eod: held = set()
            serial += 1
            new = response(rng, sid, serial, held, sim.eod)
        else:
            new = [(k,)]
        for o in new:
            sim.step(o); ops.append(o)
    return {'kind': 'conn', 'ops': ops}

def gen_cases(rng, tier):
    cases = enumerated_cases(tier)
    for _ in range(60 if tier == 'quick' else 400): cases.append(gen_case(rng, tier))
    return cases

def classify(c, obs):
    tags = ['kind_conn']
    if c.get('cls'): tags.append('enum_conn_' + c['cls'].rsplit('_x', 1)[0])
    sim = Sim()
    for op in c['ops']:
        before_live, before_eod = sim.live, sim.eod
        r = sim.step(op)
        if r['waits'][0]: tags.append('conn_%s_ends_%s_session' % (op[0], 'synced' if before_eod else 'unsynced'))
        if r['waits'][1]: tags.append('conn_%s_new_session' % op[0])
        if op[0] == 'close' and before_live: tags.append('conn_cache_close')
        if r['waits'][2]: tags.append('conn_serial_query')
    return tags

def nontrivial_key(c, obs):
    if obs == [-1]: return ('panic',)
    sim = Sim(); sig = []; ok = False
    for op, ob in zip(c['ops'], obs):
        had = sim.live and bool(sim.cur) and sim.eod
        r = sim.step(op)
        if r['waits'][0] and had: ok = True       # a session holding VRPs was ended through the API
        sig.append((op[0], tuple(r['waits'])))
    return ('conn', tuple(sig)) if ok else None
