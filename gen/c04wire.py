"""C04: python side of the wire format, written from the RFCs (4271, 4760, 7911, 4364, 8277, 7432,
8955, 9552, 4684, 9830, draft-mup) -- the python mirror of coq/Spec/WireRead.v plus builders of
single NLRI of the families whose inner encoding the Coq model does not cover."""

def be16(n): return [(n >> 8) & 255, n & 255]
def be32(n): return [(n >> 24) & 255, (n >> 16) & 255, (n >> 8) & 255, n & 255]
def rd16(b, i): return (b[i] << 8) | b[i + 1]
def rd32(b, i): return (b[i] << 24) | (b[i + 1] << 16) | (b[i + 2] << 8) | b[i + 3]

def fam(a, s): return (a << 16) | s
IPV4, IPV6 = fam(1, 1), fam(2, 1)
IPV4_MC, IPV6_MC = fam(1, 2), fam(2, 2)
IPV4_MPLS, IPV6_MPLS = fam(1, 4), fam(2, 4)
IPV4_VPN, IPV6_VPN = fam(1, 128), fam(2, 128)
IPV4_FS, IPV6_FS, IPV4_FSVPN, IPV6_FSVPN = fam(1, 133), fam(2, 133), fam(1, 134), fam(2, 134)
IPV4_SRP, IPV6_SRP = fam(1, 73), fam(2, 73)
IPV4_MUP, IPV6_MUP = fam(1, 85), fam(2, 85)
EVPN, RTC, LS = fam(25, 70), fam(1, 132), fam(16388, 71)
RAW_FAMILIES = [IPV4_FS, IPV6_FS, IPV4_FSVPN, IPV6_FSVPN, IPV4_SRP, IPV6_SRP, IPV4_MUP, IPV6_MUP, EVPN, RTC, LS]

def _rd(i):          # a type-0 route distinguisher 65000:i
    return [0, 0, 253, 232] + be32(i & 0xffffffff)

def _fs_len(n):
    return [n] if n < 0xF0 else [0xF0 | (n >> 8), n & 255]

def _fs_ports(i, nops):
    # component type 4 (port): nops operators "== value", the last carries the END bit
    out = [4]
    for k in range(nops):
        out += [(0x81 if k == nops - 1 else 0x01), (i + k) % 256]
    return out

FS_FAMILIES = (IPV4_FS, IPV6_FS, IPV4_FSVPN, IPV6_FSVPN)
FS_KINDS = 10

def fs_exact(family, i, target):
    """A Flowspec NLRI whose rule body is exactly [target] octets: RD (VPN), an optional destination
    prefix component and a port component of the right number of operators."""
    body = _rd(i) if family in (IPV4_FSVPN, IPV6_FSVPN) else []
    rest = target - len(body)
    if rest % 2 == 0:
        if family in (IPV4_FS, IPV4_FSVPN):
            body += [1, 24, 10, (i >> 8) & 255, i & 255]
        else:
            body += [1, 32, 0, 32, 1, (i >> 8) & 255, i & 255]
    rest = target - len(body)
    body += _fs_ports(i, (rest - 1) // 2)
    assert len(body) == target, (family, target, len(body))
    return _fs_len(len(body)) + body

def raw_nlri(family, kind, i):
    """Wire bytes of one NLRI of [family]; [kind] selects a size class, [i] makes it distinct."""
    v4 = [10] + [(i >> 16) & 255, (i >> 8) & 255, i & 255]
    v6 = [32, 1, 13, 184] + [(i >> 16) & 255, (i >> 8) & 255, i & 255] + [(i + 7 * k) % 256 for k in range(9)]
    if family == EVPN:
        esi = [0] * 9 + [i % 256]
        if kind == 0:    # type 2, no IP, one label: 2 + 33
            body = _rd(i) + esi + be32(i) + [48] + [2, 0, 0] + v4[1:] + [0] + [0, 0, 100]
            return [2, len(body)] + body
        if kind == 1:    # type 2, IPv6, two labels: 2 + 52
            body = _rd(i) + esi + be32(i) + [48] + [2, 0, 0] + v4[1:] + [128] + v6 + [0, 0, 100] + [0, 0, 200]
            return [2, len(body)] + body
        if kind == 2:    # type 5, IPv6 prefix: 2 + 58
            body = _rd(i) + esi + be32(i) + [64] + v6 + [0] * 16 + [0, 1, 0]
            return [5, len(body)] + body
        body = _rd(i) + be32(i) + [32] + v4     # type 3
        return [3, len(body)] + body
    if family == RTC:
        if kind == 0: return [0]
        if kind == 1: return [32] + be32(65000 + i)
        return [96] + be32(65000 + i % 100) + [0, 2] + be16(65000) + be32(i)
    if family in (IPV4_SRP, IPV6_SRP):
        return ([96] + be32(i) + be32(100 + i % 3) + v4) if family == IPV4_SRP else ([192] + be32(i) + be32(100 + i % 3) + v6)
    if family in FS_FAMILIES and kind >= 5:
        # rule bodies around the switch of the length prefix from one octet to two (RFC 8955 4.1: < 240)
        return fs_exact(family, i, [239, 240, 241, 238, 242][kind % 5])
    if family in (IPV4_FS, IPV6_FS):
        nops = [1, 3, 40, 130, 1000][kind % 5]
        body = _fs_ports(i, nops)
        if family == IPV4_FS and kind % 2 == 0:
            body = [1, 24] + v4[:3] + body
        return _fs_len(len(body)) + body
    if family in (IPV4_FSVPN, IPV6_FSVPN):
        nops = [1, 3, 40, 130, 1000][kind % 5]
        body = _rd(i) + _fs_ports(i, nops)
        return _fs_len(len(body)) + body
    if family in (IPV4_MUP, IPV6_MUP):
        # interwork segment discovery route: arch 1, type 1, RD + prefix
        if family == IPV4_MUP:
            body = _rd(i) + [24] + v4[:3]
        else:
            body = _rd(i) + [64] + v6[:8]
        return [1] + be16(1) + [len(body)] + body
    if family == LS:
        n = [0, 5, 30, 300, 5000][kind % 5]
        body = [(i + 3 * k) % 256 for k in range(n)]
        if n >= 9:
            body[0] = 250    # unknown protocol id: keeps the NLRI opaque
        return be16(900 + kind) + be16(len(body)) + body
    raise ValueError(family)

# ------------------------------------------------------------------ structural reader (Spec)
class Bad(Exception):
    pass

def split_frames(buf, max_len):
    """Cuts a byte buffer into frames by their header length fields.  Raises Bad when a header is
    not a BGP header (marker, 19 <= length <= max) or the buffer ends inside a frame."""
    frames = []
    pos = 0
    while pos < len(buf):
        if len(buf) - pos < 19:
            raise Bad('trailing %d bytes are shorter than a header' % (len(buf) - pos))
        if any(b != 255 for b in buf[pos:pos + 16]):
            raise Bad('frame at offset %d: marker is not all ones' % pos)
        n = rd16(buf, pos + 16)
        if n < 19:
            raise Bad('frame at offset %d: header length %d < 19' % (pos, n))
        if n > max_len:
            raise Bad('frame at offset %d: header length %d exceeds the negotiated maximum %d' % (pos, n, max_len))
        if pos + n > len(buf):
            raise Bad('frame at offset %d: header length %d runs past the %d bytes written' % (pos, n, len(buf)))
        frames.append(buf[pos:pos + n])
        pos += n
    return frames

def read_attrs(b):
    """Attribute TLV walk (RFC 4271 4.3): list of (flags, code, value); must tile [b] exactly."""
    out = []
    pos = 0
    while pos < len(b):
        if pos + 3 > len(b):
            raise Bad('attribute header cut short')
        flags, code = b[pos], b[pos + 1]
        if flags & 0x10:
            if pos + 4 > len(b):
                raise Bad('attribute header cut short')
            n = rd16(b, pos + 2)
            pos += 4
        else:
            n = b[pos + 2]
            pos += 3
        if pos + n > len(b):
            raise Bad('attribute %d: length %d runs past the attribute block' % (code, n))
        out.append((flags, code, b[pos:pos + n]))
        pos += n
    return out

def read_prefixes(b, addpath, maxbits):
    """RFC 4271 / 7911 prefix list: (path_id, mask, significant octets)."""
    out = []
    pos = 0
    while pos < len(b):
        pid = 0
        if addpath:
            if pos + 4 > len(b):
                raise Bad('path identifier cut short')
            pid = rd32(b, pos)
            pos += 4
        if pos >= len(b):
            raise Bad('prefix length missing')
        m = b[pos]
        pos += 1
        if m > maxbits:
            raise Bad('prefix length %d > %d' % (m, maxbits))
        n = (m + 7) // 8
        if pos + n > len(b):
            raise Bad('prefix cut short')
        out.append((pid, m, tuple(b[pos:pos + n])))
        pos += n
    return out

def read_update(frame):
    """(withdrawn bytes, [(flags, code, value)], nlri bytes) of an UPDATE frame with consistent lengths."""
    n = len(frame)
    if n < 23:
        raise Bad('UPDATE shorter than 23 bytes')
    wl = rd16(frame, 19)
    if 23 + wl > n:
        raise Bad('withdrawn routes length %d runs past the frame (%d bytes)' % (wl, n))
    al = rd16(frame, 21 + wl)
    if 23 + wl + al > n:
        raise Bad('total path attribute length %d (+ withdrawn %d) runs past the frame (%d bytes)' % (al, wl, n))
    return frame[21:21 + wl], read_attrs(frame[23 + wl:23 + wl + al]), frame[23 + wl + al:]

def read_mp_reach(v):
    if len(v) < 5:
        raise Bad('MP_REACH_NLRI shorter than 5 bytes')
    f = fam(rd16(v, 0), v[2])
    nl = v[3]
    if 4 + nl + 1 > len(v):
        raise Bad('MP_REACH_NLRI next hop length %d runs past the attribute' % nl)
    return f, v[4:4 + nl], v[4 + nl], v[5 + nl:]

def read_mp_unreach(v):
    if len(v) < 3:
        raise Bad('MP_UNREACH_NLRI shorter than 3 bytes')
    return fam(rd16(v, 0), v[2]), v[3:]
