"""C04: python side of the wire format, written from the RFCs (4271, 4760, 7911, 4364, 8277, 7432,
8955, 9552, 4684, 9830, draft-mup) -- the python mirror of coq/Spec/WireRead.v plus builders of
single NLRI of the families whose inner encoding the Coq model does not cover."""

def be16(n): return [(n >> 8) & 255, n & 255]
def be32(n): return [(n >> 24) & 255, (n >> 16) & 255, (n >> 8) & 255, n & 255]
def rd16(b, i): return (b[i] << 8) | b[i + 1]
def rd32(b, i): return (b[i] << 24) | (b[i + 1] << 16) | (b[i + 2] << 8) | b[i + 3]

def fam(a, s): return (a << 16) | s
IPV4, IPV6 = fam(1, 1), fam(2, 1)
IPV4_MC, IPV6_MC = fam(1, 2), fam(2, 2)
IPV4_MPLS, IPV6_MPLS = fam(1, 4), fam(2, 4)
IPV4_VPN, IPV6_VPN = fam(1, 128), fam(2, 128)
IPV4_FS, IPV6_FS, IPV4_FSVPN, IPV6_FSVPN = fam(1, 133), fam(2, 133), fam(1, 134), fam(2, 134)
IPV4_SRP, IPV6_SRP = fam(1, 73), fam(2, 73)
IPV4_MUP, IPV6_MUP = fam(1, 85), fam(2, 85)
EVPN, RTC, LS = fam(25, 70), fam(1, 132), fam(16388, 71)
RAW_FAMILIES = [IPV4_FS, IPV6_FS, IPV4_FSVPN, IPV6_FSVPN, IPV4_SRP, IPV6_SRP, IPV4_MUP, IPV6_MUP, EVPN, RTC, LS]

def _rd(i):          # a type-0 route distinguisher 65000:i
    return [0, 0, 253, 232] + be32(i & 0xffffffff)

def _fs_len(n):
    return [n] if n < 0xF0 else [0xF0 | (n >> 8), n & 255]

def _fs_ports(i, nops):
    # component type 4 (port): nops operators "== value", the last carries the END bit
    out = [4]
    for k in range(nops):
        out += [(0x81 if k == nops - 1 else 0x01), (i + k) % 256]
    return out

FS_FAMILIES = (IPV4_FS, IPV6_FS, IPV4_FSVPN, IPV6_FSVPN)
FS_KINDS = 10

def fs_exact(family, i, target):
    """A Flowspec NLRI whose rule body is exactly [target] octets: RD (VPN), an optional destination
    prefix component and a port component of the right number of operators."""
    body = _rd(i) if family in (IPV4_FSVPN, IPV6_FSVPN) else []
    rest = target - len(body)
    if rest % 2 == 0:
        if family in (IPV4_FS, IPV4_FSVPN):
            body += [1, 24, 10, (i >> 8) & 255, i & 255]
        else:
            body += [1, 32, 0, 32, 1, (i >> 8) & 255, i & 255]
    rest = target - len(body)
    body += _fs_ports(i, (rest - 1) // 2)
    assert len(body) == target, (family, target, len(body))
    return _fs_len(len(body)) + body

def raw_nlri(family, kind, i):
    """Wire bytes of one NLRI of [family]; [kind] selects a size class, [i] makes it distinct."""
    v4 = [10] + [(i >> 16) & 255, (i >> 8) & 255, i & 255]
    v6 = [32, 1, 13, 184] + [(i >> 16) & 255, (i >> 8) & 255, i & 255] + [(i + 7 * k) % 256 for k in range(9)]
    if family == EVPN:
        esi = [0] * 9 + [i % 256]
        if kind == 0:    # type 2, no IP, one label: 2 + 33
            body = _rd(i) + esi + be32(i) + [48] + [2, 0, 0] + v4[1:] + [0] + [0, 0, 100]
            return [2, len(body)] + body
        if kind == 1:    # type 2, IPv6, two labels: 2 + 52
            body = _rd(i) + esi + be32(i) + [48] + [2, 0, 0] + v4[1:] + [128] + v6 + [0, 0, 100] + [0, 0, 200]
            return [2, len(body)] + body
        if kind == 2:    # type 5, IPv6 prefix: 2 + 58
            body = _rd(i) + esi + be32(i) + [64] + v6 + [0] * 16 + [0, 1, 0]
            return [5, len(body)] + body
        body = _rd(i) + be32(i) + [32] + v4     # type 3
        return [3, len(body)] + body
    if family == RTC:
        if kind == 0: return [0]
        if kind == 1: return [32] + be32(65000 + i)
        return [96] + be32(65000 + i % 100) + [0, 2] + be16(65000) + be32(i)
    if family in (IPV4_SRP, IPV6_SRP):
        return ([96] + be32(i) + be32(100 + i % 3) + v4) if family == IPV4_SRP else ([192] + be32(i) + be32(100 + i % 3) + v6)
    if family in FS_FAMILIES and kind >= 5:
        # rule bodies around the switch of the length prefix from one octet to two (RFC 8955 4.1: < 240)
        return fs_exact(family, i, [239, 240, 241, 238, 242][kind % 5])
    if family in (IPV4_FS, IPV6_FS):
        nops = [1, 3, 40, 130, 1000][kind % 5]
        body = _fs_ports(i, nops)
        if family == IPV4_FS and kind % 2 == 0:
            body = [1, 24] + v4[:3] + body
        return _fs_len(len(body)) + body
    if family in (IPV4_FSVPN, IPV6_FSVPN):
        nops = [1, 3, 40, 130, 1000][kind % 5]
        body = _rd(i) + _fs_ports(i, nops)
        return _fs_len(len(body)) + body
    if family in (IPV4_MUP, IPV6_MUP):
        # interwork segment discovery route: arch 1, type 1, RD + prefix
        if family == IPV4_MUP:
            body = _rd(i) + [24] + v4[:3]
        else:
            body = _rd(i) + [64] + v6[:8]
        return [1] + be16(1) + [len(body)] + body
    if family == LS and kind >= 5:
        return ls_nlri(kind - 5, i)
    if family == LS:
        n = [0, 5, 30, 300, 5000][kind % 5]
        body = [(i + 3 * k) % 256 for k in range(n)]
        if n >= 9:
            body[0] = 250    # unknown protocol id: keeps the NLRI opaque
        return be16(900 + kind) + be16(len(body)) + body
    raise ValueError(family)

# ------------------------------------------------------------------ BGP-LS NLRI (RFC 9552 5.2, RFC 9086, RFC 9514 6)
def _tlv(t, v): return be16(t) + be16(len(v)) + list(v)

def ls_node_desc(container, i, shape):
    """node descriptor container (256 local / 257 remote) with the sub-TLVs in the order the RFC lists them"""
    b = []
    if shape & 1: b += _tlv(512, be32(65000 + i))
    if shape & 2: b += _tlv(513, be32(i))
    if shape & 4: b += _tlv(514, be32(i % 7))
    if shape & 8: b += _tlv(515, [(i + k) % 256 for k in range([4, 6, 7, 8][i % 4])])
    if shape & 16: b += _tlv(516, [10, 0, (i >> 8) & 255, i & 255])
    if shape & 32: b += _tlv(517, be32(64512 + i % 100))
    return _tlv(container, b)

def ls_nlri(kind, i):
    """one BGP-LS NLRI in canonical form: kind 0 node, 1 link, 2 IPv4 prefix, 3 IPv6 prefix, 4 SRv6 SID; [i] varies the
    descriptor TLVs present and their lengths"""
    head = [1 + i % 7] + be32(0) + be32(i)
    local = ls_node_desc(256, i, [1, 9, 15, 63, 8, 0][i % 6])
    if kind == 0:
        return be16(1) + be16(len(head + local)) + head + local
    if kind == 1:
        body = head + local + ls_node_desc(257, i + 1, [9, 63, 1][i % 3])
        sel = [1, 2 | 4, 8 | 16, 1 | 32, 63, 0, 64][i % 7]
        if sel & 1: body += _tlv(258, be32(i) + be32(i + 1))
        if sel & 2: body += _tlv(259, [10, 0, 0, i % 256])
        if sel & 4: body += _tlv(260, [10, 0, 1, i % 256])
        if sel & 8: body += _tlv(261, [32, 1] + [0] * 13 + [i % 256])
        if sel & 16: body += _tlv(262, [32, 1] + [0] * 13 + [(i + 1) % 256])
        if sel & 32: body += _tlv(263, sum([be16((i + k) % 4096) for k in range(i % 3)], []))
        if sel & 64: body += _tlv(9000 + i % 50, [(i + k) % 256 for k in range([0, 1, 255, 256][i % 4])])
        return be16(2) + be16(len(body)) + body
    if kind in (2, 3):
        body = head + local
        sel = [4, 1 | 4, 2 | 4, 7, 4 | 8][i % 5]
        if sel & 1: body += _tlv(263, be16(i % 4096))
        if sel & 2: body += _tlv(264, [1 + i % 6])
        if sel & 4:
            maxb = 32 if kind == 2 else 128
            pl = [0, 1, 8, 24, maxb - 1, maxb][i % 6]
            addr = ([10, 1, 2, 3] if kind == 2 else [32, 1, 13, 184] + [(i + k) % 256 for k in range(12)])[:(pl + 7) // 8]
            body += _tlv(265, [pl] + addr)
        if sel & 8: body += _tlv(9100, [i % 256])
        return be16(3 if kind == 2 else 4) + be16(len(body)) + body
    body = head + local
    for k in range(1 + i % 2):
        body += _tlv(518, be16((i + k) % 4096) + [0, 0] + [32, 1, 13, 184] + [(i + k + j) % 256 for j in range(12)])
    return be16(6) + be16(len(body)) + body

# ------------------------------------------------------------------ structural reader (Spec)
class Bad(Exception):
    pass

def split_frames(buf, max_len):
    """Cuts a byte buffer into frames by their header length fields.  Raises Bad when a header is
    not a BGP header (marker, 19 <= length <= max) or the buffer ends inside a frame."""
    frames = []
    pos = 0
    while pos < len(buf):
        if len(buf) - pos < 19:
            raise Bad('trailing %d bytes are shorter than a header' % (len(buf) - pos))
        if any(b != 255 for b in buf[pos:pos + 16]):
            raise Bad('frame at offset %d: marker is not all ones' % pos)
        n = rd16(buf, pos + 16)
        if n < 19:
            raise Bad('frame at offset %d: header length %d < 19' % (pos, n))
        if n > max_len:
            raise Bad('frame at offset %d: header length %d exceeds the negotiated maximum %d' % (pos, n, max_len))
        if pos + n > len(buf):
            raise Bad('frame at offset %d: header length %d runs past the %d bytes written' % (pos, n, len(buf)))
        frames.append(buf[pos:pos + n])
        pos += n
    return frames

def read_attrs(b):
    """Attribute TLV walk (RFC 4271 4.3): list of (flags, code, value); must tile [b] exactly."""
    out = []
    pos = 0
    while pos < len(b):
        if pos + 3 > len(b):
            raise Bad('attribute header cut short')
        flags, code = b[pos], b[pos + 1]
        if flags & 0x10:
            if pos + 4 > len(b):
                raise Bad('attribute header cut short')
            n = rd16(b, pos + 2)
            pos += 4
        else:
            n = b[pos + 2]
            pos += 3
        if pos + n > len(b):
            raise Bad('attribute %d: length %d runs past the attribute block' % (code, n))
        out.append((flags, code, b[pos:pos + n]))
        pos += n
    return out

def read_prefixes(b, addpath, maxbits):
    """RFC 4271 / 7911 prefix list: (path_id, mask, significant octets)."""
    out = []
    pos = 0
    while pos < len(b):
        pid = 0
        if addpath:
            if pos + 4 > len(b):
                raise Bad('path identifier cut short')
            pid = rd32(b, pos)
            pos += 4
        if pos >= len(b):
            raise Bad('prefix length missing')
        m = b[pos]
        pos += 1
        if m > maxbits:
            raise Bad('prefix length %d > %d' % (m, maxbits))
        n = (m + 7) // 8
        if pos + n > len(b):
            raise Bad('prefix cut short')
        out.append((pid, m, tuple(b[pos:pos + n])))
        pos += n
    return out

def read_update(frame):
    """(withdrawn bytes, [(flags, code, value)], nlri bytes) of an UPDATE frame with consistent lengths."""
    n = len(frame)
    if n < 23:
        raise Bad('UPDATE shorter than 23 bytes')
    wl = rd16(frame, 19)
    if 23 + wl > n:
        raise Bad('withdrawn routes length %d runs past the frame (%d bytes)' % (wl, n))
    al = rd16(frame, 21 + wl)
    if 23 + wl + al > n:
        raise Bad('total path attribute length %d (+ withdrawn %d) runs past the frame (%d bytes)' % (al, wl, n))
    return frame[21:21 + wl], read_attrs(frame[23 + wl:23 + wl + al]), frame[23 + wl + al:]

def read_mp_reach(v):
    if len(v) < 5:
        raise Bad('MP_REACH_NLRI shorter than 5 bytes')
    f = fam(rd16(v, 0), v[2])
    nl = v[3]
    if 4 + nl + 1 > len(v):
        raise Bad('MP_REACH_NLRI next hop length %d runs past the attribute' % nl)
    return f, v[4:4 + nl], v[4 + nl], v[5 + nl:]

def read_mp_unreach(v):
    if len(v) < 3:
        raise Bad('MP_UNREACH_NLRI shorter than 3 bytes')
    return fam(rd16(v, 0), v[2]), v[3:]
