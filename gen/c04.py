"""C04: encoded BGP messages are well-framed and decode to the same routes at the peer.

Correspondence: coq/Model/WireEnc.v (encode_to) vs PeerCodec::negotiate(l, r).encode_to of
rustybgp-packet, byte for byte (harness/hx-enc), in the debug and the release profile.
Spec oracle: python mirror of coq/Spec/WireRead.v + coq/Spec/WireEncSpec.v applied to the
bytes the implementation wrote and to what PeerCodec::negotiate(r, l).try_parse made of them."""
import json, os
from vp import val, coqrun, rustrun
from vp.val import cN, cbool, clist, cpair, copt, cbytes
from gen.common import *
from gen import c04wire as W

def hash_bytes(bs):
    s1 = s2 = 0
    for b in bs:
        s1 += b + 1
        s2 += s1
    return s1, s2

def fam(a, s): return (a << 16) | s
F = dict(IPV4=fam(1, 1), IPV6=fam(2, 1), IPV4_MC=fam(1, 2), IPV6_MC=fam(2, 2), IPV4_MPLS=fam(1, 4), IPV6_MPLS=fam(2, 4),
         LS=fam(16388, 71), IPV4_MUP=fam(1, 85), IPV6_MUP=fam(2, 85), IPV4_VPN=fam(1, 128), IPV6_VPN=fam(2, 128),
         IPV4_FLOWSPEC=fam(1, 133), IPV6_FLOWSPEC=fam(2, 133), IPV4_FLOWSPEC_VPN=fam(1, 134), IPV6_FLOWSPEC_VPN=fam(2, 134),
         IPV4_SRPOLICY=fam(1, 73), IPV6_SRPOLICY=fam(2, 73), EVPN=fam(25, 70), RTC=fam(1, 132))
FNAME = {v: k for k, v in F.items()}
FLOWSPEC = (F['IPV4_FLOWSPEC'], F['IPV6_FLOWSPEC'], F['IPV4_FLOWSPEC_VPN'], F['IPV6_FLOWSPEC_VPN'])
VPN = (F['IPV4_VPN'], F['IPV6_VPN'])
NH_AS_IS = (F['IPV4_SRPOLICY'], F['IPV6_SRPOLICY'], F['IPV4_MC'], F['IPV6_MC'], F['EVPN'])

# ---------------------------------------------------------------- compact builders (mirrored in Model/WireEnc.v)
def pat_bytes(n, seed):
    return [(seed + 7 * k) % 256 for k in range(n)]

def b3(i): return [(i >> 16) & 255, (i >> 8) & 255, i & 255]

def bulk_entry(kind, i):
    v6 = [32, 1, 13, 184] + b3(i) + pat_bytes(9, i)
    if kind == 0: return [i + 1, ['v4', 8 + i % 25, [10] + b3(i)]]
    if kind == 1: return [i + 1, ['v6', i % 129, v6]]
    if kind == 2: return [i + 1, ['vpn4', [100 + i % 7], [0, 0, 253, 232, 0] + b3(i), i % 33, [10] + b3(i)]]
    if kind == 3: return [i + 1, ['vpn6', [100 + i % 7], [0, 2, 0, 1, 0] + b3(i), i % 129, v6]]
    if kind == 4: return [i + 1, ['lab4', [16 + i % 5], i % 33, [10] + b3(i)]]
    if kind == 5: return [i + 1, ['lab6', [16 + i % 5], i % 129, v6]]
    if kind == 6: return [i + 1, ['v4', 32, [10] + b3(i)]]
    if kind == 7: return [i + 1, ['v6', 128, v6]]
    if kind == 8: return [i + 1, ['vpn6', [100, 200], [0, 2, 0, 1, 0] + b3(i), 64 + i % 17, v6]]
    if kind == 9:
        ip = [] if i % 3 == 0 else ([10] + b3(i) if i % 3 == 1 else v6)
        return [i + 1, ['evpn', 2, [0, 0, 253, 232, 0] + b3(i), pat_bytes(10, i), i, [2, 0, 0] + b3(i), ip, i % 16777216, None if i % 2 == 0 else 200]]
    if kind == 10: return [i + 1, ['fs', 0, None, [['p', 1, 24, 0, [10] + b3(i)], ['o', 4, [[1, i % 65536], [129, 443]]]]]]
    if kind == 11: return [i + 1, ['rtc', 2, 65000 + i % 100, [0, 2, 253, 232, 0] + b3(i)]]
    if kind == 12: return [i + 1, ['srp', i, 100 + i % 3, [10] + b3(i)]]
    if kind == 13: return [i + 1, ['evpn', 5, [0, 2, 0, 1, 0] + b3(i), pat_bytes(10, i), i, i % 129, v6, pat_bytes(16, i + 1), 7]]
    if kind == 16:
        return [i + 1, ['ls', 3, 1 + i % 7, i, [[512, [(65000 + i % 9) >> 24 & 255, (65000 + i % 9) >> 16 & 255, (65000 + i % 9) >> 8 & 255, (65000 + i % 9) & 255]],
                                                 [515, pat_bytes(4, i)]],
                        [[263, [(i % 4096) >> 8, (i % 4096) & 255]], [265, [24] + b3(i)]]]]
    if kind == 15: return [i + 1, ['mup', 3, [0, 0, 253, 232, 0] + b3(i), i % 33, [10] + b3(i), i, i % 64, [192, 0, 2, 1], None if i % 2 == 0 else [198, 51, 100, 7]]]
    if kind == 14: return [i + 1, ['fs', 1, [0, 0, 253, 232, 0] + b3(i), [['o', 3, [[129, 6]]], ['o', 5, [[3, 1000 + i % 50000], [197, 70000]]]]]]
    raise ValueError(kind)

def expand_entries(segs, family=None):
    out = []
    for s in segs:
        if s[0] == 'x':
            out += s[1]
        elif s[0] == 'bulk':
            out += [bulk_entry(s[1], s[3] + k) for k in range(s[2])]
        elif s[0] == 'rawbulk':      # ['rawbulk', family, kind, n, start]: generic NLRI built by c04wire
            out += [[s[4] + k + 1, ['raw', s[1], W.raw_nlri(s[1], s[2], s[4] + k)]] for k in range(s[3])]
    return out

def expand_bytes(d):
    return list(d[1]) if d[0] == 'b' else pat_bytes(d[1], d[2])

# ---------------------------------------------------------------- rendering
def nlri_val(n):
    t = n[0]
    if t == 'v4': return [0, n[1], n[2]]
    if t == 'v6': return [1, n[1], n[2]]
    if t == 'vpn4': return [2, n[1], n[2], n[3], n[4]]
    if t == 'vpn6': return [3, n[1], n[2], n[3], n[4]]
    if t == 'lab4': return [4, n[1], n[2], n[3]]
    if t == 'lab6': return [5, n[1], n[2], n[3]]
    if t == 'raw': return [9, n[1], n[2]]
    if t == 'fs':
        comps = [[0, c[1], c[2], c[3], c[4]] if c[0] == 'p' else [1, c[1], [list(o) for o in c[2]]] for c in n[3]]
        return [10, n[1], [] if n[2] is None else [n[2]], comps]
    if t == 'rtc': return [11, n[1], n[2], n[3]]
    if t == 'evpn':
        k = n[1]
        if k == 2: return [12, 2, n[2], n[3], n[4], n[5], n[6], n[7], [] if n[8] is None else [n[8]]]
        return [12] + list(n[1:])
    if t == 'srp': return [13, n[1], n[2], n[3]]
    if t == 'ls':
        tl = lambda l: [[x[0], list(x[1])] for x in l]
        k = n[1]
        if k == 0: return [15, 0, n[2], n[3]]
        if k == 1: return [15, 1, n[2], n[3], tl(n[4])]
        if k == 2: return [15, 2, n[2], n[3], tl(n[4]), tl(n[5]), tl(n[6])]
        if k in (3, 4): return [15, k, n[2], n[3], tl(n[4]), tl(n[5])]
        return [15, 6, n[2], n[3], tl(n[4]), tl(n[5])]
    if t == 'mup':
        if n[1] == 3: return [14, 3, n[2], n[3], n[4], n[5], n[6], n[7], [] if n[8] is None else [n[8]]]
        return [14] + list(n[1:])
    raise ValueError(n)

def nlri_coq(n):
    t = n[0]
    if t == 'v4': return '(NV4 %s %s)' % (cN(n[1]), cbytes(n[2]))
    if t == 'v6': return '(NV6 %s %s)' % (cN(n[1]), cbytes(n[2]))
    if t in ('vpn4', 'vpn6'):
        return '(%s %s %s %s %s)' % ('NVpn4' if t == 'vpn4' else 'NVpn6', cbytes(n[1]), cbytes(n[2]), cN(n[3]), cbytes(n[4]))
    if t in ('lab4', 'lab6'):
        return '(%s %s %s %s)' % ('NLab4' if t == 'lab4' else 'NLab6', cbytes(n[1]), cN(n[2]), cbytes(n[3]))
    if t == 'raw': return '(NRaw %s)' % cbytes(n[2])
    if t == 'fs':
        comps = clist(['(FPrefix %s %s %s %s)' % (cN(c[1]), cN(c[2]), cN(c[3]), cbytes(c[4])) if c[0] == 'p' else
                       '(FOps %s %s)' % (cN(c[1]), clist([cpair(cN(o[0]), cN(o[1])) for o in c[2]])) for c in n[3]])
        return '(NFlow %s %s %s)' % (cbool(n[1]), copt(None if n[2] is None else cbytes(n[2])), comps)
    if t == 'rtc':
        return '(NRtc %s)' % (['RtcAll', '(RtcAs %s)' % cN(n[2]), '(RtcExact %s %s)' % (cN(n[2]), cbytes(n[3]))][n[1]])
    if t == 'evpn':
        k = n[1]
        if k == 1: e = 'Ev1 %s %s %s %s' % (cbytes(n[2]), cbytes(n[3]), cN(n[4]), cN(n[5]))
        elif k == 2: e = 'Ev2 %s %s %s %s %s %s %s' % (cbytes(n[2]), cbytes(n[3]), cN(n[4]), cbytes(n[5]), cbytes(n[6]), cN(n[7]), copt(None if n[8] is None else cN(n[8])))
        elif k == 3: e = 'Ev3 %s %s %s' % (cbytes(n[2]), cN(n[3]), cbytes(n[4]))
        elif k == 4: e = 'Ev4 %s %s %s' % (cbytes(n[2]), cbytes(n[3]), cbytes(n[4]))
        else: e = 'Ev5 %s %s %s %s %s %s %s' % (cbytes(n[2]), cbytes(n[3]), cN(n[4]), cN(n[5]), cbytes(n[6]), cbytes(n[7]), cN(n[8]))
        return '(NEvpn (%s))' % e
    if t == 'srp': return '(NSrp %s %s %s)' % (cN(n[1]), cN(n[2]), cbytes(n[3]))
    if t == 'ls':
        tl = lambda l: clist([cpair(cN(x[0]), cbytes(x[1])) for x in l])
        k = n[1]
        if k == 0: e = 'LsOther %s %s' % (cN(n[2]), cbytes(n[3]))
        elif k == 1: e = 'LsNode %s %s %s' % (cN(n[2]), cN(n[3]), tl(n[4]))
        elif k == 2: e = 'LsLink %s %s %s %s %s' % (cN(n[2]), cN(n[3]), tl(n[4]), tl(n[5]), tl(n[6]))
        elif k in (3, 4): e = 'LsPfx %s %s %s %s %s' % (cbool(k == 4), cN(n[2]), cN(n[3]), tl(n[4]), tl(n[5]))
        else: e = 'LsSrv6 %s %s %s %s' % (cN(n[2]), cN(n[3]), tl(n[4]), tl(n[5]))
        return '(NLs (%s))' % e
    if t == 'mup':
        k = n[1]
        if k == 1: e = 'Mup1 %s %s %s' % (cbytes(n[2]), cN(n[3]), cbytes(n[4]))
        elif k == 2: e = 'Mup2 %s %s' % (cbytes(n[2]), cbytes(n[3]))
        elif k == 3: e = 'Mup3 %s %s %s %s %s %s %s' % (cbytes(n[2]), cN(n[3]), cbytes(n[4]), cN(n[5]), cN(n[6]), cbytes(n[7]), copt(None if n[8] is None else cbytes(n[8])))
        else: e = 'Mup4 %s %s %s %s' % (cbytes(n[2]), cN(n[3]), cbytes(n[4]), cN(n[5]))
        return '(NMup (%s))' % e
    raise ValueError(n)

def entries_coq(segs):
    parts = []
    for s in segs:
        if s[0] == 'x':
            parts.append(clist(['(%s, %s)' % (cN(e[0]), nlri_coq(e[1])) for e in s[1]]))
        elif s[0] == 'bulk':
            parts.append('(bulk %s %d %s)' % (cN(s[1]), s[2], cN(s[3])))
        else:
            parts.append(clist(['(%s, %s)' % (cN(e[0]), nlri_coq(e[1])) for e in expand_entries([s])]))
    return '(' + ' ++ '.join(parts) + ')' if parts else '[]'

def bytes_coq(d):
    return cbytes(d[1]) if d[0] == 'b' else '(pat_bytes %d %s)' % (d[1], cN(d[2]))

CANON = {1: 64, 2: 64, 3: 64, 5: 64, 6: 64, 4: 128, 9: 128, 10: 128, 14: 128, 15: 128, 26: 128, 29: 128,
         7: 192, 8: 192, 16: 192, 17: 192, 18: 192, 32: 192, 40: 192, 23: 192}

def attr_val(a):
    return [a[0], a[1], a[2], a[3], expand_bytes(a[4])]

def attr_coq(a):
    # (kind, code, flags, value, bytes) -> option attr, resolved in the model by mk_attr
    return '(mk_attr %s %s %s %s %s)' % (cN(a[0]), cN(a[1]), cN(a[2]), cN(a[3]), bytes_coq(a[4]))

def msg_val(m):
    t = m[0]
    if t == 'open': return [1, m[1], m[2], m[3], caps_to_val(m[4])]
    if t == 'reach':
        return [2, m[1], [] if m[2] is None else [m[2]], [[a[0], a[1], a[2], a[3] if a[0] == 0 else expand_bytes(a[4])] for a in m[3]],
                [[e[0], nlri_val(e[1])] for e in expand_entries(m[4])]]
    if t == 'unreach': return [3, m[1], [[e[0], nlri_val(e[1])] for e in expand_entries(m[2])]]
    if t == 'eor': return [4, m[1]]
    if t == 'notif': return [5, m[1], m[2], expand_bytes(m[3])]
    if t == 'ka': return [6]
    if t == 'refresh': return [7, m[1]]
    raise ValueError(m)

def msg_coq(m):
    t = m[0]
    if t == 'open': return '(Some (MOpen %s %s %s %s))' % (cN(m[1]), cN(m[2]), cN(m[3]), caps_to_coq(m[4]))
    if t == 'reach':
        return '(mk_reach %s %s %s %s)' % (cN(m[1]), copt(None if m[2] is None else cbytes(m[2])),
                                           clist([attr_coq(a) for a in m[3]]), entries_coq(m[4]))
    if t == 'unreach': return '(Some (MUnreach %s %s))' % (cN(m[1]), entries_coq(m[2]))
    if t == 'eor': return '(Some (MEor %s))' % cN(m[1])
    if t == 'notif': return '(Some (MNotif %s %s %s))' % (cN(m[1]), cN(m[2]), bytes_coq(m[3]))
    if t == 'ka': return '(Some MKeepalive)'
    if t == 'refresh': return '(Some (MRefresh %s))' % cN(m[1])
    raise ValueError(m)

def tup(x):
    return tuple(tup(y) for y in x) if isinstance(x, list) else x

def fixcap(c):
    c = list(c)
    out = [c[0]]
    for x in c[1:]:
        if isinstance(x, list) and x and isinstance(x[0], list):
            out.append([tuple(y) for y in x])
        else:
            out.append(x)
    return tuple(out)


class Prop:
    pid = 'C04'
    props_file = 'Props/C04.v'
    required_theorems = ['frames_within_limit', 'decode_encode_routes', 'split_preserves_multiset', 'reach_frames_all_families',
                         'unreach_frames_all_families', 'open_roundtrip', 'frame_lengths_consistent', 'eor_frame',
                         'peer_codec_agrees', 'as4_path_roundtrip', 'unreach_never_refused', 'reach_never_refused', 'decode_encode_routes_labeled',
                         'decode_encode_routes_structured', 'split_preserves_multiset_structured', 'structured_fixpoint',
                         'decode_encode_decode_fixpoint_nlri']
    extra_targets = ['Model/WireEnc.vo']
    correspondence_name = 'Model/WireEnc.v encode_to vs rustybgp_packet::bgp::PeerCodec::encode_to (harness/hx-enc), debug and release'
    rule = ('case = (local capabilities, remote capabilities, message); messages: OPEN with capability lists whose encoded size runs through 255 '
            'bytes, NOTIFICATION/KEEPALIVE/ROUTE-REFRESH, End-of-RIB / empty and non-empty Reach / Unreach for the 19 families of the code (plus one '
            'unknown), entry counts 0 .. 3 frames (procedural bulk entries of mixed sizes around the frame boundary), attribute blocks 0 .. above the '
            'frame limit (4096 and 65535), ADD-PATH modes, extended message on one/both sides, two-octet-AS sessions with wide AS numbers / '
            'confederation segments / AGGREGATOR, next hops of 4/16/32 octets or none per family, VPN / labeled NLRI with 1-4 labels, a malformed '
            'stream (masks past the address size, truncated AS_PATH, value attributes with binary codes, label stacks past 255 bits); plus the '
            'audit classes enumerated on every run (tag audit): exact-fit sweeps per wire form, attribute / AS_PATH / AGGREGATOR / OPEN / '
            'NOTIFICATION boundaries, every prefix length, label depths up to 255 bits, ADD-PATH / session / negotiation matrices, and per family '
            'every component / route type / descriptor with the values on both sides of every length switch (Flowspec 239/240/241 and 4095, '
            'operator widths 255/256, 65535/65536, 2^32); '
            'non-trivial = a Reach/Unreach with >= 1 entry or an OPEN with capabilities that was encoded; distinct = distinct '
            '(kind, family, frame count, entry count, digest of the bytes written)')
    exhaustive = {'quick': False, 'thorough': False}
    trusted_base = [
        'hidden encoder state: the model\'s encoder is a function of (session codec, message); PeerCodec::encode_to takes &mut self.  The implementation is compared with itself '
        'on every case (a codec that lived through the whole run vs a fresh one, for the current message and for the previous one built again after a drop): sampling, not proof',
        'Model/WireEnc.v covers PeerCodec::negotiate / encode_to / do_encode / put_entries / mp_reach_encode / mp_unreach_encode, Attribute::encode, '
        'the RFC 6793 down-conversion helpers, Capability::encode, Notification::from_notification, and the NLRI encoders of all 19 families of the '
        'code: Ipv4Net / Ipv6Net, VPN, labeled (incl. encode_withdraw), MPLS labels, Flowspec x4 (components, operator widths, length prefix), RTC, '
        'EVPN route types 1-5, SR Policy, MUP route types 1-4, BGP-LS (NLRI types 1-4 and 6 with their descriptors as <type, value> TLVs; the '
        'harness builds the crate\'s structs / enum variants from those pairs); only NLRI of a family the code does not know stay opaque octets',
        'the DECODER (PeerCodec::try_parse / parse_message) is not modelled here (property C03): "decodes to the same routes" is proved against the '
        'structural readers Spec/WireRead.v and Spec/WireReadFam.v written from the RFCs and, for the real decoder, judged on every run by the python '
        'oracle (gen/c04spec.py: RFC encoders of every family compared octet for octet with the NLRI fields of the frames, RFC 6793 wire form of the '
        'attributes, what PeerCodec::negotiate(remote, local).try_parse returns); decode(encode(decode b)) = decode b is proved for the NLRI readers '
        'of the structured families and checked on every decoded value of the real decoder by the harness',
        'harness/hx-enc builds Message values through the public constructors and public fields of rustybgp-packet (Attribute::new_with_value / '
        'new_with_bin / new_opaque, Notification::from_notification, RouteDistinguisher::decode, NLRI structs); long buffers are compared through '
        '(length, Fletcher-style digest), buffers up to 256 bytes byte for byte',
        'IPv6 Flowspec prefix components with a non-zero offset: the code writes (and its decoder and the Coq reader Spec/WireReadFam.v read back) '
        'ceil(length / 8) octets from bit 0, RFC 8956 3.1 lays out the length - offset bits after the offset. The Coq theorems hold for that layout '
        '(identical to the RFC for offset 0 only); the python oracle judges by RFC 8956 and reports the difference on every run as the open finding '
        'C04-fs6-prefix-offset (known_findings.json, corpus/C04/fs6-prefix-offset.json)',
    ]
    assumptions = [
        'the family of a Reach/Unreach is one both sides announced, and the kind of every NLRI is the one of the family (what the export path builds)',
        'value attributes (ORIGIN, MED, LOCAL_PREF, ORIGINATOR_ID) carry their canonical flags (Attribute::new_with_value); the attribute list holds no '
        'NEXT_HOP / MP_REACH_NLRI (they are synthesised by the encoder)',
        'next hops the oracle judges: IPv4 for the legacy IPv4 form; none for Flowspec; 4, 16 or 32 octets otherwise, an IPv4 next hop of an '
        'AFI 2 family being expected as the IPv4-mapped IPv6 address; a Reach of a non-Flowspec family without next hop is unjudged '
        '(the export path always supplies one; the code writes 16 zero octets)',
        'on a two-octet-AS session an AS_PATH holding both confederation segments and AS numbers above 65535 is compared modulo AS_PATH '
        '(RFC 6793 carries no confederation segments in AS4_PATH)',
    ]

    # ---- case rendering
    def case_to_val(self, c):
        return [caps_to_val(c['l']), caps_to_val(c['r']), msg_val(c['m'])]

    def case_to_coq(self, c):
        return 'run_case2o %s %s %s' % (caps_to_coq(c['l']), caps_to_coq(c['r']), msg_coq(c['m']))

    def case_to_json(self, c):
        return json.loads(json.dumps(c))

    def case_from_json(self, j):
        c = dict(j)
        c['l'] = [fixcap(x) for x in j['l']]
        c['r'] = [fixcap(x) for x in j['r']]
        m = list(j['m'])
        if m[0] == 'open':
            m[4] = [fixcap(x) for x in m[4]]
        c['m'] = m
        return c

    # ---- generation
    def gen_cases(self, rng, tier):
        from gen import c04gen
        return c04gen.gen_cases(rng, tier)

    # ---- running
    def run_impl(self, cases, tier):
        vals = [self.case_to_val(c) for c in cases]
        a, err = rustrun.crate_bin('C04', 'hx-enc', 'enc', vals, release=False)
        if a is None:
            return None, err
        b, err = rustrun.crate_bin('C04r', 'hx-enc', 'enc', vals, release=True)
        if b is None:
            return None, err
        return [[x, y] for x, y in zip(a, b)], ''

    def run_model(self, cases, tier):
        pre = 'From RB Require Import Base.Val Model.Caps Model.WireEnc.\nOpen Scope N_scope.'
        return coqrun.eval_terms('C04', pre, [self.case_to_coq(c) for c in cases])

    @staticmethod
    def canon1(o):
        if o == [-1] or o == [-9]:
            return o
        if len(o) in (5, 6):     # implementation: [enc, bytes, decoded, leftover, fixpoint flags, (encoder memory: oracle only)]
            bs = o[1]
            h = hash_bytes(bs)
            return [o[0], [len(bs), h[0], h[1], bs if len(bs) <= 256 else []]]
        return o

    def canon(self, case, obs):
        return [self.canon1(o) for o in obs]

    def oracle(self, c, obs):
        from gen import c04spec
        return c04spec.oracle(c, obs)

    def in_known_class(self, kf, c, obs, why):
        from gen import c04spec
        return c04spec.in_known_class(kf, c, obs, why)

    def nontrivial_key(self, c, obs):
        from gen import c04spec
        return c04spec.nontrivial_key(c, obs)

    def classify(self, c, obs):
        from gen import c04spec
        return c04spec.classify(c, obs)

    def corpus_cases(self):
        d = os.path.join(os.path.dirname(os.path.dirname(os.path.abspath(__file__))), 'corpus', 'C04')
        out = []
        if os.path.isdir(d):
            for fn in sorted(os.listdir(d)):
                if fn.endswith('.json'):
                    out.append(self.case_from_json(json.load(open(os.path.join(d, fn)))['case']))
        return out
