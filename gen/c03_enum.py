"""C03: case classes that are ENUMERATED ON EVERY RUN (no randomness): one class per clause
of the property text and per branch of the anchored decoders, with boundary values on both
sides of every comparison.  Each case carries a 'cls' tag that classify() reports, so the
evidence shows which classes ran and how many cases each had."""
from gen import bgpenc as E
from gen.bgpenc import B, cat, be

def fill(n, seed=3):
    """deterministic filler bytes"""
    return [((i * 37 + seed * 11 + 5) & 0xff) for i in range(n)]

# ------------------------------------------------------------------ BFD
def bfd_classes():
    out = []
    def add(cls, b): out.append({'k': 'bfd', 'bytes': b, 'cls': 'bfd_' + cls})
    base = [0x20, 0xc0, 3, 24] + fill(20)
    # length clause: buffer length and length octet on both sides of 24 and of each other
    for n in (0, 1, 3, 4, 23, 24, 25, 26, 254, 255, 256, 257):
        for l3 in sorted(set([0, 23, 24, 25, n & 0xff, (n - 1) & 0xff, (n + 1) & 0xff, 255])):
            b = (base + fill(300))[:n]
            if n > 3: b[3] = l3
            add('length', b)
    # version field: every value
    for v in range(8):
        b = list(base); b[0] = (v << 5) | 1
        add('version', b)
    # diagnostic: every value; state: every value; every flag bit alone and all together
    for d in range(32):
        b = list(base); b[0] = (1 << 5) | d
        add('diag', b)
    for b1 in [s << 6 for s in range(4)] + [1 << k for k in range(6)] + [0x3f, 0xff, 0]:
        b = list(base); b[1] = b1
        add('state_flags', b)
    for m in (0, 1, 255):
        b = list(base); b[2] = m
        add('mult', b)
    b = list(base); b[4:24] = [0xff] * 20
    add('max_fields', b)
    return out

# ------------------------------------------------------------------ RTR
RTR_NEED = {0: 12, 1: 12, 2: 8, 3: 8, 4: 20, 6: 32, 7: 24, 8: 8, 10: 8}   # v1 sizes from_bytes needs

def rtr_hdr(version, ty, sid, length):
    return [version, ty] + be(sid, 2) + be(length & 0xffffffff, 4)

def rtr_classes():
    out = []
    def add(cls, chunks): out.append({'k': 'rtr', 'chunks': chunks, 'cls': 'rtr_' + cls})
    reset = rtr_hdr(1, 2, 0, 8)
    # every PDU type value (used, skipped, reserved): exact frame; frame + a following PDU; announced length 8
    for ty in range(256):
        need = RTR_NEED.get(ty, 8)
        p = rtr_hdr(1, ty, 7, need) + fill(need - 8, ty)
        add('every_type_exact', [p])
        add('every_type_then_pdu', [p + reset])
        if ty in (0, 1, 4, 6, 7, 9, 11, 255):
            add('every_type_len8', [rtr_hdr(1, ty, 7, 8) + fill(need - 8, ty) + reset])
    # length field on both sides of the header size and of the type's need, for used and skipped types,
    # with exactly that many bytes buffered, one less, and more (the next PDU)
    for ty in (0, 1, 2, 3, 4, 6, 7, 8, 10, 5, 9, 11, 255):
        need = RTR_NEED.get(ty, 8)
        for L in sorted(set(list(range(0, 14)) + [need - 1, need, need + 1, need + 8, 255, 256, 65535, 65536,
                                                   0x7fffffff, 0x80000000, 0xfffffff8, 0xffffffff])):
            body = fill(max(need, 40) - 8, ty)
            for have in sorted(set([8, max(8, min(L, 48) - 1), min(L, 48), min(L, 48) + 1, 48])):
                p = (rtr_hdr(1, ty, 1, L) + body + fill(48))[:max(have, 0)]
                add('length_field_%s' % ('used' if ty in RTR_NEED else 'skipped'), [p])
            add('length_field_then_pdu', [rtr_hdr(1, ty, 1, L) + fill(max(0, min(L, 64) - 8), ty) + reset + reset])
    # End of Data: every version x announced length 12 / 24 x bytes present
    for ver in (0, 1, 2, 255):
        for L in (8, 11, 12, 13, 23, 24, 25):
            add('end_of_data_version', [rtr_hdr(ver, 7, 3, L) + fill(max(0, L - 8)) + reset])
    # skipped PDUs in a row, before and after a used PDU, split at every byte boundary of the second chunk
    rk = rtr_hdr(1, 9, 1, 12) + fill(4)
    stream = rk + rk + rtr_hdr(1, 3, 9, 8) + rk + reset
    add('skip_runs', [stream])
    for cut in range(1, len(stream)):
        add('skip_runs_every_cut', [stream[:cut], stream[cut:]])
    add('skip_runs_bytewise', [[b] for b in stream])
    # header truncated at every offset
    for k in range(0, 9):
        add('header_truncated', [rtr_hdr(1, 4, 0, 20)[:k]])
    # prefix PDUs: every flags octet class, prefix/max lengths at the limits
    for ty, alen, mx in ((4, 4, 32), (6, 16, 128)):
        for flags in (0, 1, 2, 255):
            for pl, ml in ((0, 0), (mx, mx), (mx + 1, mx), (mx, mx + 1), (255, 255), (8, 7)):
                add('prefix_fields', [rtr_hdr(1, ty, 0, 12 + alen + 4) + [flags, pl, ml, 0] + fill(alen) + be(0xffffffff, 4)])
    return out

# ------------------------------------------------------------------ BGP
def codec(fams=((E.IPV4, False),), two=False, ext=False, nh=False):
    return {'ext': ext, 'two': two, 'nh': nh, 'fams': [tuple(x) for x in fams]}

C4 = codec()
BASE_ATTRS = lambda w=4: [E.attr(0x40, 1, [0]), E.attr(0x40, 2, E.aspath_value([(2, [65001])], w)), E.attr(0x40, 3, [192, 0, 2, 1])]
NL = [E.prefix(24, [10, 0, 0])]

def bgp_classes():
    out = []
    def add(cls, cd, chunks): out.append({'k': 'bgp', 'codec': cd, 'chunks': chunks, 'cls': 'bgp_' + cls})
    # ---- header: every message type value x length 19 / 23 / own minimum
    for ty in list(range(0, 9)) + [127, 128, 254, 255]:
        for n in (19, 20, 21, 22, 23, 24, 28, 29, 30):
            add('type_x_length', C4, [[0xff] * 16 + be(n, 2) + [ty] + fill(n - 19)])
    # header length field against both limits, with exactly / fewer / more bytes buffered
    for cd in (C4, codec(ext=True)):
        for L in (0, 1, 18, 19, 20, 4095, 4096, 4097, 65534, 65535):
            for have in sorted(set([19, 20, min(L, 4200) - 1, min(L, 4200), min(L, 4200) + 1])):
                if have < 19: continue
                add('header_length_limits', cd, [([0xff] * 16 + be(L, 2) + [4] + fill(4200))[:have]])
    # marker is not checked: any marker
    add('marker_any', C4, [fill(16) + be(19, 2) + [4]])
    # ---- KEEPALIVE / ROUTE-REFRESH / NOTIFICATION lengths
    for n in (19, 20):
        add('keepalive_length', C4, [[0xff] * 16 + be(n, 2) + [4] + fill(n - 19)])
    for n in (19, 22, 23, 24, 4096):
        add('refresh_length', C4, [[0xff] * 16 + be(n, 2) + [5] + [0, 1, 0, 1] [: max(0, min(4, n - 19))] + fill(max(0, n - 23))])
    for fam in (0x00010001, 0x00010101, 0xffffffff, 0):
        add('refresh_family', C4, [E.frame(5, be(fam, 4)).d])
    for code in range(0, 9):
        for sub in range(0, 13):
            for data in ([], [1, 2]):
                add('notification_table', C4, [E.notification(code, sub, data).d])
    for n in (19, 20, 21, 22):
        add('notification_length', C4, [[0xff] * 16 + be(n, 2) + [3] + fill(n - 19)])
    # ---- OPEN fixed fields
    def open_(ver=4, asn=65001, hold=90, rid=0x0a000001, params=(), plen=None, tail=()):
        ps = cat(list(params))
        body = [ver] + be(asn, 2) + be(hold, 2) + be(rid, 4) + [(len(ps) if plen is None else plen) & 0xff] + ps.d + list(tail)
        return E.frame(1, body).d
    for ver in (0, 1, 3, 4, 5, 255):
        add('open_version', C4, [open_(ver=ver)])
    for hold in (0, 1, 2, 3, 4, 65535):
        add('open_holdtime', C4, [open_(hold=hold)])
    for rid in (0, 1, 0x7fffffff, 0xdfffffff, 0xe0000000, 0xe0000001, 0xefffffff, 0xf0000000, 0xfffffffe, 0xffffffff):
        add('open_router_id', C4, [open_(rid=rid)])
    for n in (19, 28, 29, 30):
        add('open_length', C4, [[0xff] * 16 + be(n, 2) + [1] + ([4, 0xfd, 0xe9, 0, 90, 10, 0, 0, 1, 0] + fill(4))[:n - 19]])
    caps2 = cat([E.cap_mp(E.IPV4), E.cap_as4(70000)])
    par = E.opt_param(2, caps2)
    # optional parameter length against the frame: exact, +-1, trailing bytes after the parameters
    for d in (-2, -1, 0, 1, 2, 200):
        add('open_optlen_vs_frame', C4, [open_(params=[par], plen=(len(par) + d) & 0xff)])
    add('open_trailing_bytes', C4, [open_(params=[par], tail=[1, 2, 3])])
    # the frame is 1 / 2 octets shorter than the optional parameter length announces, for every kind of last element
    for tailp in ([E.opt_param(2, E.cap_rr())], [E.opt_param(2, cat([E.cap_mp(E.IPV4), E.cap_rr()]))], [par, E.opt_param(2, [])], [par, E.opt_param(3, [])],
                  [E.opt_param(2, E.cap(99, []))], [E.opt_param(2, E.cap_as4(7))], [E.opt_param(2, E.cap_fqdn(b'ab', b''))]):
        full = open_(params=tailp)
        for cut in (1, 2, 3):
            d = full[:-cut]; d[16:18] = be(len(d), 2)
            add('open_frame_short_of_optlen', C4, [d])
    # parameter length / capability length against their containers
    for d in (-3, -2, -1, 1, 2, 255):
        q = B(list(par.d)); q.d[1] = (q.d[1] + d) & 0xff
        add('open_param_len', C4, [open_(params=[q])])
        q = B(list(par.d)); q.d[3] = (q.d[3] + d) & 0xff
        add('open_cap_len', C4, [open_(params=[q])])
    for pt in (0, 1, 3, 255):
        add('open_param_type', C4, [open_(params=[E.opt_param(pt, [1, 2, 3])]), open_(params=[par, E.opt_param(pt, [])])])
    add('open_many_params', C4, [open_(params=[E.opt_param(2, E.cap_mp(E.IPV4)), E.opt_param(2, []), E.opt_param(2, E.cap_rr()), E.opt_param(2, E.cap_as4(1))])])
    for asn, with4 in ((23456, True), (23456, False), (65001, True), (0, True)):
        add('open_as_trans', C4, [open_(asn=asn, params=[E.opt_param(2, cat([E.cap_as4(70000), E.cap_as4(80000)]) if with4 else E.cap_rr())])])
    # ---- every capability code x every small length (exact content), and the 63/64-entry limits
    for code in (1, 2, 5, 6, 64, 65, 69, 70, 71, 73, 0, 3, 66, 128, 255):
        for n in list(range(0, 16)) + [250, 251, 252, 253]:
            if n > 200:
                # fits the one-octet parameter length only alone: param len = n + 2 <= 255
                add('capability_x_length', C4, [open_(params=[E.opt_param(2, E.cap(code, fill(n, code)))])])
            else:
                add('capability_x_length', C4, [open_(params=[E.opt_param(2, cat([E.cap(code, fill(n, code)), E.cap_rr()]))])])
    for n in (62, 63):
        add('capability_entry_counts', C4, [open_(params=[E.opt_param(2, E.cap_addpath([(E.IPV4, 1 + (i % 3)) for i in range(n)]))])])
        add('capability_entry_counts', C4, [open_(params=[E.opt_param(2, E.cap_gr(1, 120, [(E.IPV6, 0x80)] * n))])])
    for n in (35, 36):
        add('capability_entry_counts', C4, [open_(params=[E.opt_param(2, E.cap_llgr([(E.IPV4, 0x80, 0xffffff)] * n))])])
    for n in (41, 42):
        add('capability_entry_counts', C4, [open_(params=[E.opt_param(2, E.cap_extnh([(E.IPV4, 2), (E.IPV6, 2), (E.IPV4, 1)] * (n // 3)))])])
    for mode in range(0, 6):
        add('addpath_mode_values', C4, [open_(params=[E.opt_param(2, E.cap_addpath([(E.IPV4, mode), (E.IPV6, 255 - mode)]))])])
    # FQDN: host / domain lengths against the capability length, valid and invalid UTF-8 of each sequence length
    for hl, dl, clen in ((0, 0, 2), (0, 0, 3), (1, 0, 2), (1, 0, 3), (2, 1, 5), (2, 1, 4), (2, 2, 5), (2, 1, 9), (3, 0, 4), (250, 1, 253), (251, 0, 253), (252, 0, 253)):
        v = [hl] + fill(hl, 1) + [dl] + fill(dl, 2)
        v = (v + fill(260))[:clen]
        add('fqdn_lengths', C4, [open_(params=[E.opt_param(2, B([73, clen & 0xff] + v))])])
    for h in (b'a', b'\x7f', b'\x80', b'\xc2\x80', b'\xc1\xbf', b'\xdf\xbf', b'\xe0\xa0\x80', b'\xe0\x9f\xbf', b'\xed\x9f\xbf', b'\xed\xa0\x80',
              b'\xef\xbf\xbf', b'\xf0\x90\x80\x80', b'\xf0\x8f\xbf\xbf', b'\xf4\x8f\xbf\xbf', b'\xf4\x90\x80\x80', b'\xf5\x80\x80\x80', b'\xe2\x82', b'\xf0\x9f\x98'):
        add('fqdn_utf8', C4, [open_(params=[E.opt_param(2, E.cap_fqdn(h, b'd'))]), open_(params=[E.opt_param(2, E.cap_fqdn(b'h', h))])])
    # ---- UPDATE length fields: withdrawn / attribute lengths against the frame, and their 16-bit sum
    for wl, al, tail in ((0, 0, 0), (0, 0, 1), (1, 0, 0), (1, 0, 1), (0, 1, 0), (0, 1, 1), (0, 2, 1), (2, 0, 2), (0, 0xffff, 0), (0xffff, 0, 0),
                         (0xffe8, 0, 0), (0xffe9, 0, 0), (0, 0xffe8, 4), (0, 0xffe9, 4), (0x8000, 0x8000, 8), (0x7fff, 0x8001, 8), (1, 0xffff, 1), (0xffff, 0xffff, 4)):
        add('update_length_fields', C4, [[0xff] * 16 + be(23 + tail, 2) + [2] + be(wl, 2) + be(al, 2) + fill(tail)])
    add('update_too_short', C4, [[0xff] * 16 + be(21, 2) + [2, 0, 0], [0xff] * 16 + be(22, 2) + [2, 0, 0, 0]])
    # ---- attribute header: every high nibble of the flags octet x known / unknown codes; extended length at 255/256
    for code in (1, 2, 3, 4, 5, 6, 7, 8, 9, 10, 14, 15, 16, 17, 18, 23, 26, 29, 32, 40, 0, 11, 99, 255):
        for hi in range(16):
            fl = hi << 4
            val = {1: [0], 2: [], 3: [1, 1, 1, 1], 4: [0, 0, 0, 1], 5: [0, 0, 0, 1], 6: [], 7: fill(8), 8: fill(4), 9: fill(4), 10: fill(4),
                   14: E.mp_reach_value(E.IPV6, fill(16), [E.prefix(32, [0x20, 1, 0xd, 0xb8])]).d, 15: E.mp_unreach_value(E.IPV6, [E.prefix(32, [0x20, 1, 0xd, 0xb8])]).d,
                   16: fill(8), 17: E.aspath_value([(2, [70000])], 4).d, 18: fill(8), 32: fill(12)}.get(code, fill(3))
            others = [a for a, c in zip(BASE_ATTRS(), (1, 2, 3)) if c != code]
            a = cat([B([fl, code]), B(be(len(val), 2) if fl & 0x10 else [len(val)]), B(val)])
            for cd in (codec(((E.IPV4, False), (E.IPV6, False))), codec(((E.IPV4, False), (E.IPV6, False)), two=True)):
                add('attr_flags_x_code', cd, [E.update([], others + [a], NL).d])
    for n in (254, 255, 256, 257):
        for ext in (False, True):
            if n > 255 and not ext: continue
            a = cat([B([0xc0 | (0x10 if ext else 0), 8]), B(be(n - n % 4, 2) if ext else [n - n % 4]), B(fill(n - n % 4))])
            add('attr_extended_length_255_256', C4, [E.update([], BASE_ATTRS() + [a], NL).d])
    # attribute block ends inside an attribute: after flags, after code, after one length octet of two, value short by 1
    # ... with NLRI behind the block, with nothing behind it (the block end is the frame end: a read past
    # the header runs off the frame), and with only withdrawn routes in front
    for tail in ([0x40], [0x40, 4], [0x50, 4], [0x50, 4, 0], [0x50, 4, 0, 4], [0x80, 4, 4], [0x80, 4, 4, 1, 2, 3], [0xc0, 8, 0],
                 [0xd0, 8], [0xd0, 8, 0], [0x90, 14, 0], [0x10, 99, 1]):
        add('attr_block_dangling', C4, [E.update([], BASE_ATTRS() + [B(tail)], NL).d])
        add('attr_block_dangling_at_frame_end', C4, [E.update([], BASE_ATTRS() + [B(tail)], []).d])
        add('attr_block_dangling_at_frame_end', C4, [E.update([], [B(tail)], []).d])
        add('attr_block_dangling_at_frame_end', C4, [E.update(NL, [B(tail)], []).d])
    # duplicates of every known code (first wins; MP twice is a reset)
    for code in (1, 2, 3, 4, 5, 8, 14, 15, 17, 99):
        val = {1: [0], 2: [], 3: [1, 1, 1, 1], 14: E.mp_reach_value(E.IPV6, fill(16), [E.prefix(8, [0x20])]).d,
               15: E.mp_unreach_value(E.IPV6, [E.prefix(8, [0x20])]).d, 17: E.aspath_value([(2, [70000])], 4).d}.get(code, fill(4))
        fl = E.attr(0x40, code, val) if code in (1, 2, 3, 5) else E.attr(0x80 if code in (4, 14, 15) else 0xc0, code, val)
        others = [a for a, c in zip(BASE_ATTRS(), (1, 2, 3)) if c != code]
        add('attr_duplicate', codec(((E.IPV4, False), (E.IPV6, False))), [E.update([], others + [fl, fl], NL).d])
        add('attr_duplicate', codec(((E.IPV4, False), (E.IPV6, False))), [E.update([], [fl] + others + [E.attr(0xc0, 8, fill(4)), fl], NL).d])
    # ---- AS_PATH / AS4_PATH: segment counts at 0/1/63/64/127/128/254/255, every segment type, both widths
    for two in (False, True):
        w = 2 if two else 4
        cd = codec(two=two)
        for cnt in (0, 1, 2, 63, 64, 127, 128, 254, 255):
            for st in (1, 2):
                segs = [(st, [64512 + (i % 100) for i in range(cnt)])]
                add('aspath_segment_counts', cd, [E.update([], [E.attr(0x40, 1, [0]), E.attr(0x40, 2, E.aspath_value(segs, w)), E.attr(0x40, 3, [1, 1, 1, 1])], NL).d])
                add('aspath_segment_counts', cd, [E.update([], [E.attr(0x40, 1, [0]), E.attr(0x40, 2, E.aspath_value(segs + [(2, [1])], w)), E.attr(0x40, 3, [1, 1, 1, 1])], NL).d])
        for st in range(0, 7):
            add('aspath_segment_types', cd, [E.update([], [E.attr(0x40, 1, [0]), E.attr(0x40, 2, E.aspath_value([(st, [1, 2])], w)), E.attr(0x40, 3, [1, 1, 1, 1])], NL).d])
        # segment count octet against the bytes present: exact, one AS short, one octet short, one extra octet
        for d in (-w, -1, 1, w):
            v = E.aspath_value([(2, [1, 2, 3])], w).d
            v = v[:len(v) + d] if d < 0 else v + fill(d)
            add('aspath_overrun_underrun', cd, [E.update([], [E.attr(0x40, 1, [0]), E.attr(0x40, 2, v), E.attr(0x40, 3, [1, 1, 1, 1])], NL).d])
        # AS numbers whose octets look like segment headers
        add('aspath_adversarial_asns', cd, [E.update([], [E.attr(0x40, 1, [0]), E.attr(0x40, 2, E.aspath_value([(2, [0x0201, 0x0102, 0x0200][:3] if two else [0x02010201, 0x01020000])], w)),
                                                          E.attr(0x40, 3, [1, 1, 1, 1])], NL).d])
    for cnt in (0, 1, 63, 64, 255):
        add('as4path_segment_counts', codec(two=True), [E.update([], BASE_ATTRS(2) + [E.attr(0xc0, 17, E.aspath_value([(2, [70000 + i for i in range(cnt)])], 4))], NL).d])
    for n in (0, 2, 4, 5, 6, 7, 8, 10):
        add('as4path_lengths', codec(two=True), [E.update([], BASE_ATTRS(2) + [E.attr(0xc0, 17, ([2, 1] + fill(10))[:n])], NL).d])
    # ---- RFC 6793 reconciliation matrix (two-octet session): AS_PATH shape x AS4_PATH shape x AGGREGATOR x AS4_AGGREGATOR
    paths = {'empty': [], 'seq1': [(2, [23456])], 'seq3': [(2, [23456, 65001, 23456])], 'set': [(1, [1, 2, 3])], 'seq_set': [(2, [23456, 1]), (1, [2, 3])],
             'confed_seq': [(3, [65100]), (2, [23456, 5])], 'confed_set_mid': [(2, [1]), (4, [7, 8]), (2, [23456])], 'long': [(2, [23456] * 70)]}
    as4 = {'none': None, 'seq1': [(2, [70000])], 'seq2': [(2, [70000, 80000])], 'seq4': [(2, [70000, 80000, 90000, 100000])], 'set': [(1, [70000, 70001])],
           'confed': [(3, [70000]), (2, [80000])], 'long': [(2, [70000 + i for i in range(69)])]}
    aggs = {'none': None, 'trans6': be(23456, 2) + [1, 1, 1, 1], 'real6': be(65001, 2) + [1, 1, 1, 1], 'trans8': be(23456, 4) + [1, 1, 1, 1], 'real8': be(70000, 4) + [1, 1, 1, 1]}
    for pn, p in paths.items():
        for an, a4 in as4.items():
            for gn, g in aggs.items():
                for a4g in (False, True):
                    if pn in ('long',) and gn not in ('none', 'trans6'): continue
                    if an == 'long' and pn != 'long': continue
                    attrs = [E.attr(0x40, 1, [0]), E.attr(0x40, 2, E.aspath_value(p, 2)), E.attr(0x40, 3, [1, 1, 1, 1])]
                    if g is not None: attrs.append(E.attr(0xc0, 7, g))
                    if a4 is not None: attrs.append(E.attr(0xc0, 17, E.aspath_value(a4, 4)))
                    if a4g: attrs.append(E.attr(0xc0, 18, be(99999, 4) + [2, 2, 2, 2]))
                    add('as4_reconcile_matrix', codec(two=True), [E.update([], attrs, NL).d])
    add('as4_attrs_on_4byte_session', C4, [E.update([], BASE_ATTRS() + [E.attr(0xc0, 17, E.aspath_value([(2, [70000])], 4)), E.attr(0xc0, 18, fill(8))], NL).d])
    # ---- MP_REACH_NLRI: value lengths 0..6, every next-hop length 0..40, reserved octet, family negotiated or not
    v6 = codec(((E.IPV4, False), (E.IPV6, False), (E.IPV4_VPN, False), (E.IPV6_VPN, False), (E.IPV4_MPLS, False), (E.IPV6_MPLS, False)))
    for n in range(0, 7):
        add('mp_reach_short_value', v6, [E.update([], BASE_ATTRS() + [E.attr(0x80, 14, ([0, 2, 1, 0, 0, 0] + fill(4))[:n])], []).d])
        add('mp_unreach_short_value', v6, [E.update([], [E.attr(0x80, 15, ([0, 2, 1, 0, 0, 0] + fill(4))[:n])], []).d])
    for fam in (E.IPV6, E.IPV4_VPN, E.IPV4_MPLS):
        nl = {E.IPV6: E.prefix(32, [0x20, 1, 0xd, 0xb8]), E.IPV4_VPN: E.vpn([100], [0, 0, 0, 1, 0, 0, 0, 1], 24, [10, 0, 1]), E.IPV4_MPLS: E.labeled([100], 24, [10, 0, 1])}[fam]
        for nhl in range(0, 41):
            for present in (nhl, max(0, nhl - 1)):
                v = B(be(fam >> 16, 2) + [fam & 0xff, nhl] + fill(present) + [0]) + nl
                add('mp_reach_nexthop_lengths', v6, [E.update([], BASE_ATTRS()[:2] + [E.attr(0x80, 14, v)], []).d])
            # value ends right after the next hop (no reserved octet), and right after the reserved octet (no NLRI)
            add('mp_reach_ends_after_nexthop', v6, [E.update([], BASE_ATTRS()[:2] + [E.attr(0x80, 14, B(be(fam >> 16, 2) + [fam & 0xff, nhl] + fill(nhl)))], []).d])
            add('mp_reach_ends_after_nexthop', v6, [E.update([], BASE_ATTRS()[:2] + [E.attr(0x80, 14, B(be(fam >> 16, 2) + [fam & 0xff, nhl] + fill(nhl) + [0]))], []).d])
    for ll in ([0] * 16, [0] * 15 + [1], [0xfe, 0x80] + [0] * 14):
        add('mp_reach_link_local_forms', v6, [E.update([], BASE_ATTRS()[:2] + [E.attr(0x80, 14, E.mp_reach_value(E.IPV6, fill(16) + ll, [E.prefix(8, [0x20])]))], []).d])
    for rsv in (0, 1, 255):
        add('mp_reach_reserved_octet', v6, [E.update([], BASE_ATTRS()[:2] + [E.attr(0x80, 14, E.mp_reach_value(E.IPV6, fill(16), [E.prefix(8, [0x20])], reserved=rsv))], []).d])
    for fam in (E.IPV6, E.IPV6_MC, (3 << 16) | 1, (1 << 16) | 3, (2 << 16) | 128, 0, 0xffff00ff):
        for cd in (C4, v6):
            v = B(be((fam >> 16) & 0xffff, 2) + [fam & 0xff, 4] + [1, 1, 1, 1] + [0]) + E.prefix(8, [0x20])
            add('mp_family_negotiated_or_not', cd, [E.update([], BASE_ATTRS()[:2] + [E.attr(0x80, 14, v)], []).d])
            add('mp_family_negotiated_or_not', cd, [E.update([], [E.attr(0x80, 15, B(be((fam >> 16) & 0xffff, 2) + [fam & 0xff]) + E.prefix(8, [0x20]))], []).d])
    add('legacy_nlri_without_ipv4', codec(((E.IPV6, False),)), [E.update([], BASE_ATTRS(), NL).d, E.update(NL, [], []).d])
    # ---- end-of-RIB forms
    add('eor_ipv4', C4, [E.update([], [], []).d])
    for fam in (E.IPV6, E.IPV4_VPN, E.IPV4):
        add('eor_mp', v6, [E.update([], [E.attr(0x80, 15, E.mp_unreach_value(fam, []))], []).d])
    add('eor_mp_with_other_attr', v6, [E.update([], [E.attr(0x80, 15, E.mp_unreach_value(E.IPV6, [])), E.attr(0x80, 4, [0, 0, 0, 1])], []).d])
    add('eor_mp_with_unknown_optional', v6, [E.update([], [E.attr(0x80, 15, E.mp_unreach_value(E.IPV6, [])), E.attr(0x80, 99, [1])], []).d])
    add('eor_mp_with_empty_reach', v6, [E.update([], [E.attr(0x80, 15, E.mp_unreach_value(E.IPV6, [])), E.attr(0x80, 14, E.mp_reach_value(E.IPV6, fill(16), []))], []).d])
    # ---- NLRI: every prefix-length octet 0..max+9 with exact / one fewer / one more address octets; add-path ids
    for fam, mx in ((E.IPV4, 32), (E.IPV6, 128)):
        for bits in list(range(0, 42)) + list(range(120, 138)) + [254, 255]:
            if fam == E.IPV4 and 42 <= bits < 254: continue
            n = (bits + 7) // 8
            for have in sorted(set([max(0, n - 1), n, n + 1])):
                nl = B([bits] + fill(have))
                for ap in (False, True):
                    x = E.with_path_id(0xfffffffe, nl) if ap else nl
                    cd = codec(((E.IPV4, ap), (E.IPV6, ap)))
                    if fam == E.IPV4:
                        add('prefix_length_x_octets', cd, [E.update([], BASE_ATTRS(), [x]).d])
                        if bits % 5 == 0: add('prefix_length_x_octets', cd, [E.update([x], [], []).d])
                    else:
                        add('prefix_length_x_octets', cd, [E.update([], BASE_ATTRS()[:2] + [E.attr(0x80, 14, E.mp_reach_value(fam, fill(16), [x]))], []).d])
    for n in (0, 1, 2, 3, 4, 5):
        add('addpath_id_truncated', codec(((E.IPV4, True),)), [E.update([], BASE_ATTRS(), [B(fill(n))]).d])
    # labeled / VPN: total-bits octet around 24/88 and around the label stack size; RD types; withdraw label; BoS position
    lv = codec(((E.IPV4, False), (E.IPV4_VPN, False), (E.IPV6_VPN, False), (E.IPV4_MPLS, False), (E.IPV6_MPLS, False)))
    for total in (0, 23, 24, 25, 47, 48, 55, 56, 57, 87, 88, 89, 111, 112, 120, 121, 215, 216, 217, 255):
        for fam in (E.IPV4_MPLS, E.IPV6_MPLS):
            for nlab in (1, 2):
                nl = B([total] + E.labels_bytes(list(range(1, nlab + 1))) + fill(17))
                add('labeled_total_bits', lv, [E.update([], BASE_ATTRS()[:2] + [E.attr(0x80, 14, E.mp_reach_value(fam, [1, 1, 1, 1], [nl]))], []).d])
                add('labeled_total_bits', lv, [E.update([], [E.attr(0x80, 15, E.mp_unreach_value(fam, [B([total, 0x80, 0, 0] + fill(17))]))], []).d])
        for fam in (E.IPV4_VPN, E.IPV6_VPN):
            for nlab in (1, 2):
                nl = B([total] + E.labels_bytes(list(range(1, nlab + 1))) + [0, 0, 0, 1, 0, 0, 0, 1] + fill(17))
                add('vpn_total_bits', lv, [E.update([], BASE_ATTRS()[:2] + [E.attr(0x80, 14, E.mp_reach_value(fam, [0] * 8 + [1, 1, 1, 1], [nl]))], []).d])
    for t in (0, 1, 2, 3, 255, 256, 0xffff):
        nl = E.vpn([100], be(t, 2) + fill(6), 24, [10, 0, 1])
        add('rd_types', lv, [E.update([], BASE_ATTRS()[:2] + [E.attr(0x80, 14, E.mp_reach_value(E.IPV4_VPN, [0] * 8 + [1, 1, 1, 1], [nl]))], []).d])
    for k in range(0, 16):
        nl = E.vpn([100], [0, 0, 0, 1, 0, 0, 0, 1], 24, [10, 0, 1]).d[:k]
        add('vpn_truncated_every_offset', lv, [E.update([], BASE_ATTRS()[:2] + [E.attr(0x80, 14, E.mp_reach_value(E.IPV4_VPN, [0] * 8 + [1, 1, 1, 1], [B(nl)]))], []).d])
    for bos in (-1, 0, 1, 2):
        nl = E.labeled([1, 2, 3], 24, [10, 0, 1], bos_at=bos)
        add('label_bos_position', lv, [E.update([], BASE_ATTRS()[:2] + [E.attr(0x80, 14, E.mp_reach_value(E.IPV4_MPLS, [1, 1, 1, 1], [nl]))], []).d])
    # ---- streams: two messages cut at every position; byte by byte; extended-message frames
    a = E.update([E.prefix(8, [9])], BASE_ATTRS(), NL).d
    k = E.keepalive().d
    stream = k + a + k
    for cut in range(1, len(stream)):
        add('stream_every_cut', C4, [stream[:cut], stream[cut:]])
    add('stream_bytewise', C4, [[b] for b in stream])
    add('stream_error_then_more', C4, [k + [0xff] * 16 + [0, 5, 4], k])
    for L in (4096, 4097):
        n = (L - 19 - 4 - len(cat(BASE_ATTRS()))) // 4
        pad = (L - 19 - 4 - len(cat(BASE_ATTRS()))) - 4 * n
        nl = [E.prefix(24, [10, i & 0xff, (i >> 8) & 0xff]) for i in range(n)] + ([E.prefix(8 * (pad - 1), fill(pad - 1))] if pad else [])
        for cd in (C4, codec(ext=True)):
            add('frame_4096_4097', cd, [E.update([], BASE_ATTRS(), nl).d])
    return out

# ------------------------------------------------------------------ decoder state across calls (round 4)
# The receive loop calls the decoder again and again on ONE decoder object; anything the object remembers
# from an earlier call (a cached frame length, a "header already checked" flag) must not change how later
# bytes are framed.  These classes make a frame whose length is read BEFORE its body has arrived reach the
# decoder in several pieces and then continue the stream with further frames: [big, KEEPALIVE, UPDATE, big,
# KEEPALIVE], cut at every position of the small frames and at a ladder of positions inside the big ones,
# and fed byte-wise / in 7-octet / in 4096-octet reads.
def big_update(L, blob=False):
    """a valid UPDATE of exactly L octets: many /24 prefixes, or (blob) one unknown optional transitive
    attribute with extended length carrying the bulk (cheap to decode: used for the 64K frames)"""
    base = len(cat(BASE_ATTRS()))
    if blob:
        n = L - 19 - 4 - base - 4 - 4
        d = E.update([], BASE_ATTRS() + [E.attr(0xc0, 99, [L & 0xff] * n, force_ext=True)], NL).d
    else:
        room = L - 19 - 4 - base
        n = room // 4
        pad = room - 4 * n
        nl = [E.prefix(24, [10, i & 0xff, (i >> 8) & 0xff]) for i in range(n)] + ([E.prefix(8 * (pad - 1), fill(pad - 1))] if pad else [])
        d = E.update([], BASE_ATTRS(), nl).d
    assert len(d) == L, (len(d), L)
    return d

def chunks_of(data, n):
    return [data[i:i + n] for i in range(0, len(data), n)]

def ladder(L):
    return sorted(set(p for p in (1, 18, 19, 20, 4095, 4096, 4097, L - 1) if 0 < p < L))

def state_classes():
    out = []
    def add(cls, cd, chunks): out.append({'k': 'bgp', 'codec': cd, 'chunks': chunks, 'cls': 'bgp_state_' + cls})
    CX = codec(ext=True)
    k = E.keepalive().d
    a = E.update([E.prefix(8, [9])], BASE_ATTRS(), NL).d
    small = k + a + k
    for cd, sizes in ((CX, ((4097, True), (4097, False), (5000, True), (65535, True), (4096, True))), (C4, ((4096, True), (4096, False)))):
        tag = 'ext' if cd['ext'] else 'plain'
        for L, blob in sizes:
            big = big_update(L, blob)
            stream = big + k + a + big + k if L < 6000 else big + k + a + k
            second = len(big) + len(k) + len(a)
            # the big frame arrives in two pieces (ladder of cut positions), the rest of the stream follows
            for p in (ladder(L) if L < 6000 else (19, 4097, L - 1)):
                add('%s_big_cut_ladder' % tag, cd, [stream[:p], stream[p:]])
                if L > 6000 and p != 4097:
                    continue        # a 64K frame costs the model about 20 s (its value is printed): four cases
                add('%s_big_cut_ladder' % tag, cd, [stream[:p], stream[p:L], stream[L:]])
                if L < 6000:
                    add('%s_second_big_cut_ladder' % tag, cd, [stream[:second + p], stream[second + p:]])
                add('%s_keepalive_then_big_cut_ladder' % tag, cd, [k + big[:p], big[p:] + k])
            # whole stream in fixed-size reads
            if not blob:
                continue        # the frame made of a thousand prefixes: ladder only (the model is slow on long literals)
            for n in ((4096,) if L > 6000 else (7, 4096)):
                add('%s_stream_reads_of_%d' % (tag, n), cd, chunks_of(stream, n))
            if L in (4096, 4097):
                # octet by octet (quadratic in the model: one big frame, then the small ones)
                add('%s_stream_reads_of_1' % tag, cd, chunks_of(big + small, 1))
        # after a big frame that came in two pieces: the small frames cut at every position
        L = 4097 if cd['ext'] else 4096
        big = big_update(L, True)
        for cut in range(0, len(small) + 1):
            add('%s_small_after_big_every_cut' % tag, cd, [big[:20], big[20:] + small[:cut], small[cut:] + big[:19], big[19:] + k])
        # an incomplete big frame is pending when the stream ends / an error frame follows a reassembled big frame
        add('%s_big_never_completes' % tag, cd, [big[:19], big[19:L - 1]])
        bad = [0xff] * 16 + [0, 5, 4]
        add('%s_error_after_big' % tag, cd, [big[:100], big[100:] + bad, k])
        add('%s_error_after_big' % tag, cd, [big[:100], big[100:], k + bad])
    # a length above the session limit in a header that arrives in pieces (must be rejected at once, not cached)
    for cd, L in ((C4, 4097), (C4, 65535), (CX, 65535)):
        h = [0xff] * 16 + be(L, 2) + [2]
        for p in (1, 16, 17, 18):
            add('limit_header_in_pieces', cd, [h[:p], h[p:] + fill(40), k])
        # ... and after a frame that itself came in two pieces (nothing learnt while waiting may relax the check)
        for p in (19, 20, len(a) - 1):
            add('limit_after_partial_frame', cd, [a[:p], a[p:] + h + fill(40), k])
            add('limit_after_partial_frame', cd, [a[:p], a[p:], h[:10], h[10:] + fill(40), k])
    # header length below 19 after a frame that came in pieces
    for cd in (C4, CX):
        for Lb in (0, 18):
            h = [0xff] * 16 + be(Lb, 2) + [4]
            add('short_header_after_partial_frame', cd, [a[:30], a[30:] + h, k])
    return out

def rtr_state_classes():
    """RtrCodec::decode reads the 32-bit length before the PDU is complete: PDUs much longer than one read
    (skipped Router Key / long Error Report), arriving in pieces, followed by ordinary PDUs"""
    out = []
    def add(cls, chunks): out.append({'k': 'rtr', 'chunks': chunks, 'cls': 'rtr_state_' + cls})
    reset = rtr_hdr(1, 2, 0, 8)
    v4 = rtr_hdr(1, 4, 0, 20) + [1, 24, 24, 0, 10, 0, 0, 0] + be(65001, 4)
    eod = rtr_hdr(1, 7, 5, 24) + be(77, 4) + be(3600, 4) + be(600, 4) + be(7200, 4)
    for ty, L in ((9, 5000), (10, 4097), (10, 300), (4, 5000), (9, 65535)):
        bigp = rtr_hdr(1, ty, 1, L) + (fill(L - 8, ty) if L < 1000 else fill(40, ty) + [ty] * (L - 48))
        stream = bigp + v4 + reset + bigp + eod if L < 6000 else bigp + v4 + reset + eod
        for p in sorted(set(q for q in (1, 4, 7, 8, 9, 12, 20, 4095, 4096, 4097, L - 1) if 0 < q < L)):
            add('big_cut_ladder', [stream[:p], stream[p:]])
            add('big_cut_ladder', [stream[:p], stream[p:L], stream[L:]])
            if L < 6000:
                add('second_big_cut_ladder', [stream[:L + 28 + p], stream[L + 28 + p:]])
        for n in ((4096, 1500) if L > 6000 else (7, 4096)):
            add('stream_reads_of_%d' % n, chunks_of(stream, n))
        if L in (300, 4097):
            add('stream_reads_of_1', chunks_of(bigp + v4 + reset + eod, 1))
    bigp = rtr_hdr(1, 9, 1, 300) + fill(292, 9)
    small = v4 + reset + eod
    for cut in range(0, len(small) + 1):
        add('small_after_big_every_cut', [bigp[:9], bigp[9:] + small[:cut], small[cut:] + bigp[:8], bigp[8:] + reset])
    return out

def bfd_state_classes():
    """bfd::Message::decode is an associated function on one datagram (no decoder object): the length octet
    announces more / less than the datagram holds, at every size, and the same datagram is decoded again
    after a longer and after a shorter one (the harness decodes all cases in one process)"""
    out = []
    def add(cls, b): out.append({'k': 'bfd', 'bytes': b, 'cls': 'bfd_state_' + cls})
    for announced in (24, 48, 255):
        for have in range(0, 50):
            b = ([0x20, 0xc0, 3, announced] + fill(60))[:have]
            add('length_announced_vs_datagram', b)
    good = [0x20, 0xc0, 3, 24] + fill(20)
    long_ = [0x20, 0xc0, 3, 255] + fill(251)
    for seq in ((long_[:100], good), (good, long_, good), (good[:10], good)):
        for b in seq:
            add('repeat_after_other_datagram', list(b))
    return out


# ------------------------------------------------------------------ EVPN, RTC, SR policy, flowspec (modelled since round 3)
def mp_update(fam, nlris, reach=True, ap=False):
    nh = [] if (fam & 0xff) in (133, 134) else [10, 0, 0, 1]
    if reach:
        attrs = [E.attr(0x40, 1, [0]), E.attr(0x40, 2, []), E.attr(0x80, 14, E.mp_reach_value(fam, nh, nlris))]
    else:
        attrs = [E.attr(0x80, 15, E.mp_unreach_value(fam, nlris))]
    return E.update([], attrs, []).d

def family_classes():
    out = []
    def add(cls, fam, nlris, reach=True, ap=False):
        cd = codec(((E.IPV4, False), (fam, ap)))
        x = [E.with_path_id(5, n) for n in nlris] if ap else list(nlris)
        out.append({'k': 'bgp', 'codec': cd, 'chunks': [mp_update(fam, x, reach, ap)], 'cls': 'fam_' + cls})
    v6 = fill(16, 9)
    # ---- EVPN: every route type well-formed, reach and unreach, with and without add-path
    good = {1: [E.evpn_t1()], 2: [E.evpn_t2(), E.evpn_t2(ip=[192, 0, 2, 9]), E.evpn_t2(ip=v6), E.evpn_t2(label2=200), E.evpn_t2(ip=[192, 0, 2, 9], label2=200), E.evpn_t2(ip=v6, label2=200)],
            3: [E.evpn_t3(), E.evpn_t3(ip=v6)], 4: [E.evpn_t4(), E.evpn_t4(ip=v6)], 5: [E.evpn_t5(), E.evpn_t5(plen=64, ip=v6, gw=v6), E.evpn_t5(plen=255)]}
    for rt, ds in good.items():
        for d in ds:
            for reach in (True, False):
                for ap in (False, True):
                    add('evpn_wellformed', E.EVPN, [E.evpn(rt, d)], reach, ap)
            add('evpn_two_routes', E.EVPN, [E.evpn(rt, d), E.evpn(1, E.evpn_t1())])
            # every truncation of the route (route length octet kept), and of the whole NLRI
            full = E.evpn(rt, d).d
            for k in range(len(full)):
                add('evpn_truncated_every_offset', E.EVPN, [B(full[:k])])
            # route length octet: 0, minimum-1, exact-1, exact+1, exact+3 (the label2 switch), 255 - with the bytes unchanged and with filler after
            for rl in sorted(set([0, 1, 16, 17, 22, 23, 24, 25, 26, 32, 33, 34, 35, 36, 37, 40, 52, 57, 58, 59, len(d) - 1, len(d) + 1, len(d) + 3, 255])):
                add('evpn_route_length_octet', E.EVPN, [E.evpn(rt, d, rl=rl)])
                add('evpn_route_length_octet', E.EVPN, [E.evpn(rt, d + fill(6), rl=rl)])
    for rt in (0, 6, 7, 127, 255):
        add('evpn_route_type_values', E.EVPN, [E.evpn(rt, E.evpn_t1())])
    for il in (0, 1, 31, 32, 33, 64, 127, 128, 129, 255):
        add('evpn_ip_length_octet', E.EVPN, [E.evpn(2, E.evpn_t2(ip=v6, ip_len=il))])
        add('evpn_ip_length_octet', E.EVPN, [E.evpn(2, E.evpn_t2(ip=[1, 2, 3, 4], ip_len=il))])
        add('evpn_ip_length_octet', E.EVPN, [E.evpn(2, E.evpn_t2(ip_len=il))])
        add('evpn_ip_length_octet', E.EVPN, [E.evpn(3, E.evpn_t3(ip=v6, ip_len=il)), E.evpn(4, E.evpn_t4(ip=[1, 2, 3, 4], ip_len=il))])
    for ml in (0, 47, 48, 49, 255):
        add('evpn_mac_length_octet', E.EVPN, [E.evpn(2, E.evpn_t2(mac_len=ml))])
    for t in (0, 1, 2, 3, 255, 256):
        for rt, mk in ((1, E.evpn_t1), (2, E.evpn_t2), (3, E.evpn_t3), (4, E.evpn_t4), (5, E.evpn_t5)):
            add('evpn_rd_types', E.EVPN, [E.evpn(rt, mk(rd=be(t, 2) + fill(6)))])
    # ---- RTC: prefix length octet x octets present
    for bits in (0, 1, 8, 31, 32, 33, 64, 95, 96, 97, 128, 255):
        for have in sorted(set([0, 3, 4, 5, 11, 12, 13])):
            add('rtc_length_x_octets', E.RTC, [E.rtc(bits, fill(have))])
    add('rtc_several', E.RTC, [E.rtc(0, []), E.rtc(32, fill(4)), E.rtc(96, fill(12)), E.rtc(0, [])])
    add('rtc_several', E.RTC, [E.rtc(96, fill(12))], reach=False)
    add('rtc_several', E.RTC, [E.rtc(32, fill(4))], ap=True)
    # ---- SR policy: length octet x endpoint octets present, both AFIs
    for fam in (E.IPV4_SRP, E.IPV6_SRP):
        for bits in (0, 95, 96, 97, 191, 192, 193, 255):
            for have in (0, 3, 4, 5, 15, 16, 17):
                add('srpolicy_length_x_octets', fam, [E.srp(bits, 1, 2, fill(have))])
        for k in range(0, 10):
            add('srpolicy_truncated', fam, [B(E.srp(96, 1, 2, [1, 2, 3, 4]).d[:k])])
        add('srpolicy_two', fam, [E.srp(96, 1, 2, [1, 2, 3, 4]), E.srp(192, 0xffffffff, 0, fill(16))])
    # ---- BGP-LS: every NLRI type, node descriptor sub-TLVs, link / prefix descriptor TLVs at their length thresholds
    ND = [E.ls_tlv(512, be(65001, 4)), E.ls_tlv(513, be(7, 4)), E.ls_tlv(514, be(0, 4)), E.ls_tlv(515, fill(6)), E.ls_tlv(516, [1, 1, 1, 1]), E.ls_tlv(517, be(64512, 4))]
    nd = E.ls_node_desc(ND)
    nd2 = E.ls_node_desc(ND[:2], container=257)
    H = E.ls_head()
    link_tlvs = [E.ls_tlv(258, be(1, 4) + be(2, 4)), E.ls_tlv(259, [10, 0, 0, 1]), E.ls_tlv(260, [10, 0, 0, 2]), E.ls_tlv(261, fill(16)), E.ls_tlv(262, fill(16, 2)),
                 E.ls_tlv(263, [0x0f, 0xff, 0xf0, 0x01]), E.ls_tlv(999, [1, 2, 3])]
    pfx_tlvs = [E.ls_tlv(263, [0, 2]), E.ls_tlv(264, [1]), E.ls_tlv(265, [24, 10, 0, 1])]
    wf = {1: H + nd, 2: H + nd + nd2 + [b for t in link_tlvs for b in t], 3: H + nd + [b for t in pfx_tlvs for b in t],
          4: H + nd + E.ls_tlv(265, [64] + fill(8)), 6: H + nd + E.ls_tlv(518, [0, 2, 0, 0] + fill(16)) + E.ls_tlv(263, [0, 5, 0, 6]), 5: H + nd, 0: H, 65535: fill(12)}
    for ty, body in wf.items():
        for reach in (True, False):
            add('ls_wellformed', E.LS, [E.ls_nlri(ty, body)], reach)
        add('ls_wellformed', E.LS, [E.ls_nlri(ty, body), E.ls_nlri(1, H + nd)], ap=True)
        full = E.ls_nlri(ty, body).d
        for k in range(len(full)):
            add('ls_truncated_every_offset', E.LS, [B(full[:k])])
        # announced NLRI length against the bytes present, and the 9-octet threshold of the body
        for ln in sorted(set([0, 1, 8, 9, 10, len(body) - 1, len(body) + 1, 0xffff])):
            add('ls_nlri_length_field', E.LS, [E.ls_nlri(ty, body, length=ln)])
    for n in range(0, 12):
        add('ls_body_length_threshold_9', E.LS, [E.ls_nlri(1, (H + nd)[:n])])
    # node descriptor container: type, length against the body, sub-TLV lengths around 4 for every sub-TLV type
    for ct in (255, 256, 257, 258, 0):
        add('ls_container_type', E.LS, [E.ls_nlri(1, H + E.ls_node_desc(ND, container=ct))])
    body_nd = [b for t in ND for b in t]
    for ln in (0, 3, 4, len(body_nd) - 1, len(body_nd), len(body_nd) + 1, 0xffff):
        add('ls_container_length', E.LS, [E.ls_nlri(1, H + E.ls_tlv(256, body_nd, length=ln))])
        add('ls_container_length', E.LS, [E.ls_nlri(3, H + E.ls_tlv(256, body_nd, length=ln) + E.ls_tlv(265, [8, 10]))])
    for st in (511, 512, 513, 514, 515, 516, 517, 518):
        for n in (0, 1, 3, 4, 5, 8):
            add('ls_node_subtlv_length_x_type', E.LS, [E.ls_nlri(1, H + E.ls_node_desc([E.ls_tlv(st, fill(n))]))])
        add('ls_node_subtlv_overrun', E.LS, [E.ls_nlri(1, H + E.ls_node_desc([E.ls_tlv(st, fill(4), length=5)]))])
        add('ls_node_subtlv_duplicate', E.LS, [E.ls_nlri(1, H + E.ls_node_desc([E.ls_tlv(st, fill(4)), E.ls_tlv(st, fill(4, 8))]))])
    # link descriptor TLVs: value lengths around 4 / 8 / 16 for every type; multi-topology ids odd / even
    for t in (257, 258, 259, 260, 261, 262, 263, 264, 265, 266):
        for n in (0, 1, 2, 3, 4, 5, 7, 8, 9, 15, 16, 17):
            add('ls_link_tlv_length_x_type', E.LS, [E.ls_nlri(2, H + nd + nd2 + E.ls_tlv(t, fill(n)))])
        add('ls_link_tlv_overrun', E.LS, [E.ls_nlri(2, H + nd + nd2 + E.ls_tlv(t, fill(4), length=5) + E.ls_tlv(259, [1, 2, 3, 4]))])
    add('ls_link_missing_remote', E.LS, [E.ls_nlri(2, H + nd)])
    add('ls_link_missing_remote', E.LS, [E.ls_nlri(2, H + nd + E.ls_tlv(258, fill(8)))])
    # prefix descriptor TLVs: IP reachability with prefix length x octets present (the seeded off-by-one), other types x lengths
    for plen in (0, 1, 7, 8, 9, 24, 25, 31, 32, 33, 64, 128, 129, 255):
        for have in sorted(set([0, max(0, (plen + 7) // 8 - 1), (plen + 7) // 8, (plen + 7) // 8 + 1])):
            for ty in (3, 4):
                add('ls_ip_reach_prefix_length_x_octets', E.LS, [E.ls_nlri(ty, H + nd + E.ls_tlv(265, [plen] + fill(have)))])
    add('ls_ip_reach_empty', E.LS, [E.ls_nlri(3, H + nd + E.ls_tlv(265, []))])
    for t in (263, 264, 266):
        for n in (0, 1, 2, 3, 4):
            add('ls_prefix_tlv_length_x_type', E.LS, [E.ls_nlri(3, H + nd + E.ls_tlv(t, fill(n)))])
    # SRv6 SID information: value length around 20; multi-topology ids
    for n in (0, 19, 20, 21, 36):
        add('ls_srv6_sid_length', E.LS, [E.ls_nlri(6, H + nd + E.ls_tlv(518, fill(n)))])
    for n in (0, 1, 2, 3, 4):
        add('ls_srv6_sid_length', E.LS, [E.ls_nlri(6, H + nd + E.ls_tlv(263, fill(n)) + E.ls_tlv(518, fill(20)))])
    for ty in (0, 1, 2, 3, 4, 5, 6, 7, 255, 256, 65535):
        add('ls_nlri_type_values', E.LS, [E.ls_nlri(ty, H + nd + nd2)])
    # ---- MUP: route types 1-4 for both address families; every truncation; length octet; the inner length / prefix octets
    for fam, ab in ((E.IPV4_MUP, 4), (E.IPV6_MUP, 16)):
        ip = fill(ab, 4); bits = ab * 8
        goods = [(1, E.mup_isd(24, ip[:3])), (1, E.mup_isd(0, [])), (1, E.mup_isd(bits, ip)), (2, E.mup_dsd(ip)),
                 (3, E.mup_t1st(24, ip[:3], 0x01020304, 9, ip)), (3, E.mup_t1st(bits, ip, 1, 0, ip, sa=fill(ab, 7))),
                 (4, E.mup_t2st(bits, ip, [])), (4, E.mup_t2st(bits + 32, ip, [1, 2, 3, 4])), (4, E.mup_t2st(bits + 9, ip, [1, 2]))]
        for rt, body in goods:
            for reach in (True, False):
                add('mup_wellformed', fam, [E.mup(rt, body)], reach)
            add('mup_wellformed', fam, [E.mup(rt, body), E.mup(2, E.mup_dsd(ip))], ap=True)
            full = E.mup(rt, body).d
            for k in range(len(full)):
                add('mup_truncated_every_offset', fam, [B(full[:k])])
            for bl in sorted(set([0, 7, 8, 9, len(body) - 1, len(body) + 1, 255])):
                add('mup_body_length_octet', fam, [E.mup(rt, body, blen=bl)])
                add('mup_body_length_octet', fam, [E.mup(rt, body + fill(8), blen=bl)])
            add('mup_trailing_octets_in_body', fam, [E.mup(rt, body + fill(3))])
        for arch in (0, 2, 255):
            add('mup_arch_and_type', fam, [E.mup(1, E.mup_isd(0, []), arch=arch)])
        for rt in (0, 5, 255, 256, 0x0100, 0xffff):
            add('mup_arch_and_type', fam, [E.mup(rt, E.mup_isd(0, []))])
        for plen in (0, 1, 8, bits - 1, bits, bits + 1, bits + 8, 255):
            for d in (-1, 0, 1):
                n = max(0, (plen + 7) // 8 + d)
                add('mup_prefix_length_x_octets', fam, [E.mup(1, E.mup_isd(plen, fill(n)))])
                add('mup_prefix_length_x_octets', fam, [E.mup(3, E.mup_t1st(plen, fill(n), 5, 1, ip))])
        for n in range(0, ab + 3):
            add('mup_dsd_address_octets', fam, [E.mup(2, E.mup_dsd(fill(n)))])
        for el in (0, bits - 1, bits, bits + 1, 255):
            add('mup_t1st_length_octets', fam, [E.mup(3, E.mup_t1st(8, [10], 5, 1, ip, ea_len=el))])
            add('mup_t1st_length_octets', fam, [E.mup(3, E.mup_t1st(8, [10], 5, 1, ip, sa=ip, sa_len=el))])
            add('mup_t1st_length_octets', fam, [E.mup(3, E.mup_t1st(8, [10], 5, 1, ip, sa_len=el))])
        for el in (0, bits - 1, bits, bits + 1, bits + 7, bits + 8, bits + 9, bits + 31, bits + 32, bits + 33, 255):
            for tb in range(0, 6):
                add('mup_t2st_endpoint_length', fam, [E.mup(4, E.mup_t2st(el & 0xff, ip, fill(tb)))])
        for t in (0, 1, 2, 3, 255):
            for rt, body in ((1, E.mup_isd(0, [], rd=be(t, 2) + fill(6))), (2, E.mup_dsd(ip, rd=be(t, 2) + fill(6))), (4, E.mup_t2st(bits, ip, [], rd=be(t, 2) + fill(6)))):
                add('mup_rd_types', fam, [E.mup(rt, body)])
    # ---- flowspec: the length prefix switch (one octet below 240, two octets 0xF0|hi, lo from 240 on)
    fs4, fs6, fv4, fv6 = E.IPV4_FS, E.IPV6_FS, E.IPV4_FSVPN, E.IPV6_FSVPN
    def rule_of(n):
        """components totalling exactly n octets (n >= 0): port lists of 1-octet values, 2 octets per operator"""
        comps = []
        rem = n
        ty = 4
        while rem > 0:
            take = min(rem, 41)           # type + 20 operators
            if take % 2 == 0: take -= 1   # type octet + 2k operator octets is odd
            if take < 3:
                comps.append(E.fs_prefix4(1, 0, []) if rem == 2 else [])
                if rem == 1: return None
                rem -= 2
                continue
            k = (take - 1) // 2
            comps.append(E.fs_ops(ty, [(1, i & 0xff) for i in range(k)]))
            ty = ty + 1 if ty < 12 else 4
            rem -= take
        return [c for c in comps if c]
    for n in (0, 2, 3, 5, 238, 239, 240, 241, 242, 255, 256, 257, 4000):
        comps = rule_of(n)
        if comps is None: continue
        for two in (None, False, True):
            if two is False and n > 255: continue
            cd = codec(((E.IPV4, False), (fs4, False)), ext=(n > 3000))
            out.append({'k': 'bgp', 'codec': cd, 'chunks': [mp_update(fs4, [E.flowspec(comps, force_two=two)])], 'cls': 'fam_flowspec_length_prefix_240'})
    # announced length against the bytes present / the enclosing attribute
    one = [E.fs_prefix4(1, 24, [10, 0, 0]), E.fs_ops(3, [(1, 6)])]
    body = [b for c in one for b in c]
    for nl in (0, 1, len(body) - 1, len(body), len(body) + 1, 239, 240, 255):
        for two in (False, True):
            add('flowspec_length_vs_bytes', fs4, [B(E.fs_len(nl, two) + body)])
    for k in range(0, len(body) + 2):
        add('flowspec_truncated_every_offset', fs4, [B((E.fs_len(len(body)) + body)[:k])])
        add('flowspec_truncated_every_offset', fs6, [B((E.fs_len(8) + E.fs_prefix6(1, 32, 0, [0x20, 1, 0xd, 0xb8]))[:k])])
    add('flowspec_empty_rules', fs4, [B([0]), B([0]), E.flowspec(one)])
    add('flowspec_empty_rules', fs4, [B([0xf0, 0])])
    # every component type x address family, operators of every value width, end bit present / absent
    for fam, v6f in ((fs4, False), (fs6, True)):
        for ty in range(0, 16):
            if ty in (1, 2):
                for bits in (0, 1, 8, 24, 31, 32, 33, 64, 127, 128, 129, 255):
                    for off in ((0, 8, 255) if v6f else (0,)):
                        for d in (0, -1, 1):
                            n = max(0, (bits + 7) // 8 + d)
                            c = (E.fs_prefix6(ty, bits, off, fill(40))[:3 + n]) if v6f else (E.fs_prefix4(ty, bits, fill(40))[:2 + n])
                            add('flowspec_prefix_component', fam, [E.flowspec([c])])
            else:
                add('flowspec_component_types', fam, [E.flowspec([E.fs_ops(ty, [(1, 80)])])])
                add('flowspec_component_types', fam, [E.flowspec([E.fs_ops(ty, [(1, 80)]), E.fs_prefix4(1, 0, [])] if not v6f else [E.fs_ops(ty, [(1, 80)]), E.fs_prefix6(1, 0, 0, [])])])
        for order in range(4):
            for v in (0, 0xff, 0x100, 0xffff, 0x10000, 0xffffffff, 0x100000000, 0xffffffffffffffff):
                if v >= (1 << (8 * (1 << order))): continue
                add('flowspec_operator_widths', fam, [E.flowspec([[5] + E.fs_op(0x81, v, order)])])
                add('flowspec_operator_widths', fam, [E.flowspec([[5] + E.fs_op(0x01, v, order) + E.fs_op(0xc5, 1, 0)])])
            full = [5] + E.fs_op(0x81, 0x0102030405060708 & ((1 << (8 * (1 << order))) - 1), order)
            for k in range(1, len(full)):
                add('flowspec_operator_truncated', fam, [E.flowspec([full[:k]])])
        add('flowspec_no_end_bit', fam, [E.flowspec([E.fs_ops(5, [(1, 80), (1, 443)], end=False)])])
        add('flowspec_no_end_bit', fam, [E.flowspec([E.fs_ops(5, [(1, 80)], end=False), E.fs_ops(6, [(1, 1)])])])
        for bits_ in (0x00, 0x40, 0x07, 0x30, 0xb1):
            add('flowspec_operator_bits', fam, [E.flowspec([[9] + E.fs_op(bits_ | 0x80, 0x12)])])
        add('flowspec_many_rules', fam, [E.flowspec(one if not v6f else [E.fs_ops(3, [(1, 6)])]), E.flowspec([E.fs_ops(4, [(3, 1), (0x45, 1023)])])], reach=False)
    # flowspec-VPN: announced length around the 8 RD octets, RD types
    for fam in (fv4, fv6):
        for nl in (0, 1, 7, 8, 9):
            add('flowspec_vpn_length_vs_rd', fam, [B(E.fs_len(nl) + (E.RD0 + [3, 0x81, 6])[:nl])])
        for t in (0, 1, 2, 3, 255):
            add('flowspec_vpn_rd_types', fam, [E.flowspec([E.fs_ops(3, [(1, 6)])], rd=be(t, 2) + fill(6))])
        add('flowspec_vpn_wellformed', fam, [E.flowspec([E.fs_ops(3, [(1, 6)]), E.fs_ops(5, [(1, 80)])], rd=E.RD0)], ap=True)
    # next-hop length 0 is only legal for the flowspec families: every family x next-hop length 0
    for fam in E.ALL_MODELLED:
        if fam == E.IPV4: continue
        cd = codec(((E.IPV4, False), (fam, False)))
        v = B(be(fam >> 16, 2) + [fam & 0xff, 0, 0]) + B([0])
        out.append({'k': 'bgp', 'codec': cd, 'chunks': [E.update([], BASE_ATTRS()[:2] + [E.attr(0x80, 14, v)], []).d], 'cls': 'fam_nexthop_length_zero_x_family'})
        v = B(be(fam >> 16, 2) + [fam & 0xff, 4, 1, 1, 1, 1, 0]) + B([0])
        out.append({'k': 'bgp', 'codec': cd, 'chunks': [E.update([], BASE_ATTRS()[:2] + [E.attr(0x80, 14, v)], []).d], 'cls': 'fam_nexthop_length_zero_x_family'})
    return out

def enum_cases():
    return (bfd_classes() + rtr_classes() + bgp_classes() + family_classes()
            + state_classes() + rtr_state_classes() + bfd_state_classes())
