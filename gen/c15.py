"""C15: counters and prefix limits match the RIB.  Same model and harness as C02;
the oracle recounts from the implementation's own Table::destinations output."""
from gen import ribcommon as R
from gen import ribenum as E
from gen.c02 import Prop as C02

U64 = 1 << 64

class Prop(C02):
    pid = 'C15'
    props_file = 'Props/C15.v'
    required_theorems = ['no_empty_destination', 'stats_eq_recount', 'no_counter_underflow', 'table_totals_eq_recount',
                         'limit_counter_refuted', 'limit_respected_outside_known', 'limit_rejection_installs_nothing',
                         'remove_finds_stats', 'stats_eq_adjin_view', 'known_class_narrowed', 'limit_signalled_only_when_full']
    extra_targets = ['Model/Rib.vo']
    correspondence_name = 'Model/Rib.v step (route_stats, limit counters, Table::state) vs rustybgp_table::Table (harness/hx-rib, debug and release)'
    trusted_base = C02.trusted_base + [
        'a prefix-limit counter (Arc<AtomicU64>) is named by the Source token of the session it belongs to; how daemon/src/event/mod.rs PeerSession.prefix_counters '
        'creates and hands the counters to the table is not modelled (the discipline is a hypothesis of limit_respected_outside_known: every insert, withdrawal and '
        'purge of a session carries that session\'s counter, Table::drop ends the session)',
        'atomic counter operations are sequential (one shard under its mutex); u64 statistics underflow is the model flag t_bad (debug panic / release wrap)']
    assumptions = ['a Source object (allocation token) always denotes the same remote address', 'configured maxima are u32 values']
    rule = ('histories with per-session prefix limits 0..5 over 3 prefixes x 3 path ids, 3 peers sharing prefixes, filtered/unfiltered transitions, '
            'peer drop, stale/LLGR/NO_LLGR purges, limit-exceeded insertions and session restarts; non-trivial = some counter or statistic is > 0 '
            'at some step and some removal happened; distinct = distinct sequence of (statistics, counters, totals)'
            ' Enumerated on every run (gen/ribenum.py, tags enum:*): every operation of a 90-operation alphabet on each of 21 pre-states; two-candidate duels deciding at exactly one step of the decision order with the loser better at every later step, single-step ECMP exclusions, complete ties, EVPN MAC-mobility forms in every extended-community layout, LLGR_STALE / NO_LLGR in every community position; AS_PATH hop counts on both sides of 0/1/63/64/65/127/128/255/256/510 in every segment shape including unknown segment types and hundreds of one-AS segments; 67 (thorough: 131) prefixes crossing the id bitmap words with ids freed and re-used; prefix limits 0/1/2/u32::MAX; u32 ends of path ids, LOCAL_PREF, router ids, CLUSTER_LIST lengths; all role pairs.')

    enum_which = 'c15'

    def gen_cases(self, rng, tier):
        n = 700 if tier == 'quick' else 7000
        cases = E.all_enumerated('c15', tier) + (E.state_x_op(limits=2) + E.state_x_op(limits=3, pairs=True) if tier != 'quick' else [])
        for k in range(n):
            w = dict(ins=10, rem=4, drop=1, dropk=3, restale=2, nhv=1, reconnect=(1 if k % 2 else 0), deferral=0)
            cases.append(R.gen_history(rng, rng.randint(5, 40), limits=(k % 5 != 4), weights=w))
        return cases

    def corpus_cases(self):
        import glob, json, os
        out = []
        for f in sorted(glob.glob(os.path.join(os.path.dirname(os.path.dirname(os.path.abspath(__file__))), 'corpus', 'C15', '*.json'))):
            out.append(R.case_from_json(json.load(open(f))['case']))
        return out

    def run_impl(self, cases, tier):
        a, err = R.run_impl('C15', cases, release=False)
        if a is None:
            return None, err
        b, err = R.run_impl('C15r', cases, release=True)
        if b is None:
            return None, err
        return [x if R.canon_obs(x) == R.canon_obs(y) else [-1, 'debug/release differ'] for x, y in zip(a, b)], ''

    def run_model(self, cases, tier):
        return R.run_model('C15', cases)

    def oracle(self, c, obs):
        if obs and obs[0] == -1:
            return 'panic (statistics underflow) or debug/release divergence in the RIB'
        addr_of_tok = {}
        lim_of = {}
        for o in c['ops']:
            if o[0] in ('ins', 'rem'):
                addr_of_tok[o[1][0]] = o[1][1]
            if o[0] == 'ins' and o[8] is not None:
                lim_of[o[8][1]] = o[8][0]
            if o[0] == 'drop' and o[3] is not None:
                addr_of_tok.setdefault(o[3], o[2])
        ended = set()            # sessions whose peer was dropped (the counter dies with the session)
        # Known finding C15-session-counter, as narrow as the defect: a session c is TAINTED once an
        # operation acting for a session (insert, withdrawal, purge carrying its counter) touches a
        # destination that holds a path of the same peer belonging to ANOTHER session, and c is the
        # acting session or the owner of such a path.  Only failures of tainted sessions' counters
        # are attributed to the finding; everything else is a violation, and a known failure never
        # hides a later one (the scan goes on; the first non-attributed failure wins).
        tainted = set()
        known_fail = None
        diverged = set()
        def foreign(prev_dest_entries, addr, tok):
            return set(e[1] for e in prev_dest_entries if addr_of_tok.get(e[1]) == addr and e[1] != tok)
        for k, (o, step) in enumerate(zip(c['ops'], obs)):
            chs, lim, st = step
            loc, dests, totals, stats, ctrs, bad = st[:6]
            prev = {d[0]: d[1] for d in obs[k - 1][2][1]} if k > 0 else {}
            if o[0] == 'drop' and o[1] == 0:
                ended |= set(t for t, a in addr_of_tok.items() if a == o[2])
            # a peer has one live session: once a newer Source of the peer acts, the
            # older sessions (and their counters) are gone
            cur = o[1][0] if o[0] in ('ins', 'rem') else (o[3] if o[0] == 'drop' and o[3] is not None else None)
            if cur is not None:
                a_cur = addr_of_tok.get(cur, cur % 10)
                ended |= set(t for t, a in addr_of_tok.items() if a == a_cur and t < cur)
            if o[0] == 'ins' and not lim:
                f = foreign(prev.get(o[2], []), o[1][1], o[1][0])
                if f: tainted |= f | {o[1][0]}
            if o[0] == 'rem' and any(addr_of_tok.get(e[1]) == o[1][1] and e[0] == o[3] for e in prev.get(o[2], [])):
                f = foreign(prev.get(o[2], []), o[1][1], o[1][0])
                if f: tainted |= f | {o[1][0]}
            if o[0] == 'drop' and o[1] != 0 and o[3] is not None:
                now = {d[0]: d[1] for d in dests}
                f = set()
                for net, es in prev.items():
                    if len(now.get(net, [])) < len(es):        # the purge removed something here
                        f |= foreign(es, o[2], o[3])
                if f: tainted |= f | {o[3]}
            # table totals
            nd = len(dests); npaths = sum(len(d[1]) for d in dests)
            nacc = sum(1 for d in dests for e in d[1] if not e[3])
            if any(len(d[1]) == 0 for d in dests):
                return 'step %d: a prefix with no paths is held as a destination' % k
            if totals != [nd, npaths, nacc]:
                return 'step %d: Table::state %s, recount %s' % (k, totals, [nd, npaths, nacc])
            # per-peer statistics
            for s in stats:
                a = s[0]
                rcv = sum(1 for d in dests if any(addr_of_tok.get(e[1]) == a for e in d[1]))
                acc = sum(1 for d in dests for e in d[1] if addr_of_tok.get(e[1]) == a and not e[3])
                got = s[1:] if len(s) == 3 else [0, 0]
                if got != [rcv, acc]:
                    return 'step %d: peer %d statistics (received, accepted) = %s, recount %s' % (k, a, got, [rcv, acc])
            # a rejected insert installs nothing
            if lim and k > 0 and sorted(map(repr, dests)) != sorted(map(repr, obs[k - 1][2][1])):
                return 'step %d: an insert answered PrefixLimitExceeded changed the RIB' % k
            if lim and o[0] == 'ins' and o[8] is not None and o[8][1] not in tainted and o[8][1] not in ended:
                held = sum(1 for es in prev.values() if any(e[1] == o[8][1] for e in es))
                if held < o[8][0]:
                    return 'step %d: session %d holds %d prefixes, limit %d, yet a new prefix was rejected' % (k, o[8][1], held, o[8][0])
            # per-session limit counters
            for cid, v in zip(c['ctrs'], ctrs):
                if cid not in lim_of or cid in ended or cid in diverged:
                    continue
                why = None
                mine = sum(1 for d in dests if any(e[1] == cid for e in d[1]))
                if v >= U64 // 2:
                    why = 'step %d: prefix-limit counter of session %d underflowed (%d)' % (k, cid, v)
                elif mine > lim_of[cid]:
                    why = 'step %d: session %d holds %d prefixes, limit %d' % (k, cid, mine, lim_of[cid])
                elif v != mine:
                    why = 'step %d: prefix-limit counter of session %d is %d, recount %d' % (k, cid, v, mine)
                if why is None:
                    continue
                if cid in tainted:
                    diverged.add(cid)
                    if known_fail is None:
                        known_fail = why + ' [an operation of one session of the peer touched a path of another]'
                else:
                    return why
        return known_fail

    @staticmethod
    def _restarted(c, addr):
        toks = set(o[1][0] for o in c['ops'] if o[0] in ('ins', 'rem') and o[1][1] == addr)
        return len(toks) > 1

    def in_known_class(self, kf, c, obs, why):
        if kf['id'] == 'C15-session-counter':
            # the class: the counter of a session that was party to a cross-session touch (see oracle)
            return why.endswith('[an operation of one session of the peer touched a path of another]')
        return False

    def nontrivial_key(self, c, obs):
        if obs and obs[0] == -1:
            return ('panic',)
        seq = tuple((tuple(st[2][2]), tuple(map(tuple, st[2][3])), tuple(st[2][4])) for st in obs)
        if any(o[0] in ('rem', 'drop') for o in c['ops']) and any(any(x > 0 for x in s[2]) for s in seq):
            return seq
        return None
